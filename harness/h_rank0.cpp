// Rank-0 lifecycle harness (C04, C05, C07, C10 at dimensionality 0): a pool of six slots, each holding a rank-0 array
// multi::array<E, 0, A> or a BUFFER (storage that rank-0 references array_ref<E, 0> are bound to), driven by a history text
// (format: ocaml/rank0_driver.ml).  One executable per element kind (-DR0_T=0 int | 1 tracked class | 2 struct{int v = 0;} |
// 3 trivial default constructor with user-provided copy) and per allocator configuration (-DR0_POCCA= -DR0_POCMA= -DR0_POCS=
// -DR0_AE= : the traits of life::tracked_alloc; -DR0_PMR=1 : std::pmr::polymorphic_allocator over logging resources; what
// select_on_container_copy_construction returns is read from the case's cfg line); instrumented element and allocator as in
// h_life.cpp.
// After every operation: per live slot the elements (moved-from ones flagged '!'), the block identity class (numbered by first
// appearance), the allocator id; globally the live elements, the outstanding blocks, the element copies of the operations that
// must not copy, the allocations.  Comparisons, conversions and size queries print 'Q' lines.  Monitors that do not depend on
// the model print 'M' lines.
// An operation whose C++ spelling does not compile on the tree under test is left out with -DR0_NO_<FEATURE> (the feature
// names are those of vlib/rank0_probes.py; the check decides them with the compile probes and does not generate histories
// that need a spelling that is missing altogether).
#include "common/rank0_common.hpp"

#include <algorithm>
#include <cstdio>
#include <cstdlib>
#include <exception>
#include <map>
#include <memory>
#include <new>
#include <sstream>
#include <string>
#include <type_traits>
#include <utility>
#include <vector>

using namespace r0;   // NOLINT

constexpr int NP = 6;
static A mk_alloc(int id) { return mk_alloc_of<E>(id); }

struct Buf {
	A      al;
	E*     p = nullptr;
	std::size_t n = 0;
	Buf(int a, std::vector<int> const& vals) : al(mk_alloc(a)), n(vals.size()) {
		p = al.allocate(n);
		for(std::size_t k = 0; k != n; ++k) { new(p + k) E(vals[k]); }
	}
	Buf(Buf const&) = delete;
	auto operator=(Buf const&) -> Buf& = delete;
	~Buf() {
		for(std::size_t k = n; k != 0; --k) { (p + (k - 1))->~E(); }
		al.deallocate(p, n);
	}
};

struct Slot {
	alignas(Arr) unsigned char abuf[sizeof(Arr)];
	alignas(Buf) unsigned char bbuf[sizeof(Buf)];
	int kind = 0;   // 0 free, 1 rank-0 array, 2 buffer
	Arr& arr() { return *std::launder(reinterpret_cast<Arr*>(abuf)); }   // NOLINT
	Buf& buf() { return *std::launder(reinterpret_cast<Buf*>(bbuf)); }   // NOLINT
};

struct skip_op {};        // the operation is not applicable in the current state (same rules as the model driver)
struct unavailable {};    // no spelling of the operation compiles on this tree (the check does not generate it)

struct Case {
	std::string id;
	int socc = 0;
	long fault = 0;   // > 0: the fault-th fallible event of the case (allocation, element construction / copy / move / assignment) throws
	Slot slot[NP];
	std::vector<std::string> lines;
	std::map<long, int> blk_class;
	int nclass = 0;
	bool dead = false;
};

struct Cell { E* p; int slot; int idx; bool is_arr; };

static std::string validity(void const* p, std::size_t n) {
	auto const* b = life::ledger().find_live(p);
	if(b == nullptr) { return "no-live-block"; }
	if(b->n != n) { return "block-size-mismatch"; }
	if constexpr(tracked) {
		for(std::size_t k = 0; k != n; ++k) {
			if(life::reg().state(static_cast<E const*>(p) + k) == life::cs::raw) { return "raw-cell"; }
		}
	}
	return "";
}

static void print_state(Case& c, int step, bool show_copies, bool show_allocs = true) {
	auto& L = life::ledger();
	auto& R = life::reg();
	// monitor: no two objects of the pool share an element
	for(int r = 0; r != NP; ++r) {
		for(int s = r + 1; s != NP; ++s) {
			if(c.slot[r].kind == 0 || c.slot[s].kind == 0) { continue; }
			E const* a0 = c.slot[r].kind == 1 ? std::as_const(c.slot[r].arr()).base() : c.slot[r].buf().p;
			E const* a1 = a0 + (c.slot[r].kind == 1 ? 1 : c.slot[r].buf().n);
			E const* b0 = c.slot[s].kind == 1 ? std::as_const(c.slot[s].arr()).base() : c.slot[s].buf().p;
			E const* b1 = b0 + (c.slot[s].kind == 1 ? 1 : c.slot[s].buf().n);
			if(std::less<>{}(a0, b1) && std::less<>{}(b0, a1)) { std::cout << "M " << c.id << ' ' << step << " overlap r" << r << " r" << s << '\n'; }
		}
	}
	for(int r = 0; r != NP; ++r) {
		auto& S = c.slot[r];
		if(S.kind == 0) { continue; }
		E const* p = S.kind == 1 ? std::as_const(S.arr()).base() : S.buf().p;
		std::size_t n = S.kind == 1 ? static_cast<std::size_t>(std::as_const(S.arr()).num_elements()) : S.buf().n;
		int al = S.kind == 1 ? alloc_id(S.arr().get_allocator()) : alloc_id(S.buf().al);
		std::cout << "A " << c.id << ' ' << step << " r" << r << (S.kind == 1 ? " arr" : " buf");
		if(S.kind == 1 && n != 1) {
			std::cout << " INVALID al=" << al << '\n';
			std::cout << "M " << c.id << ' ' << step << " invalid r" << r << " num_elements-is-" << n << '\n';
			c.dead = true;
			continue;
		}
		std::string bad = validity(p, n);
		if(!bad.empty()) {
			std::cout << " INVALID al=" << al << '\n';
			std::cout << "M " << c.id << ' ' << step << " invalid r" << r << ' ' << bad << '\n';
			c.dead = true;
			continue;
		}
		std::cout << " n=" << n << " el=";
		for(std::size_t k = 0; k != n; ++k) {
			std::cout << (k ? "," : "") << val_of(p[k]);
			if constexpr(tracked) { if(R.state(p + k) == life::cs::moved) { std::cout << '!'; } }
		}
		long ser = L.serial(static_cast<void const*>(p));
		auto it = c.blk_class.find(ser);
		if(it == c.blk_class.end()) { it = c.blk_class.emplace(ser, c.nclass++).first; }
		std::cout << " blk=" << it->second << " al=" << al << '\n';
	}
	std::vector<std::pair<int, long>> out;
	for(auto const& b : L.blocks) { if(b.live) { out.emplace_back(b.owner, static_cast<long>(b.n)); } }
	std::sort(out.begin(), out.end());
	std::cout << "G " << c.id << ' ' << step << " alive=" << (tracked ? R.alive : 0) << " out=";
	if(out.empty()) { std::cout << '-'; }
	for(std::size_t k = 0; k != out.size(); ++k) { std::cout << (k ? "," : "") << out[k].first << ':' << out[k].second; }
	std::cout << " copies=";
	if(show_copies && tracked) { std::cout << R.copies; } else { std::cout << '-'; }
	std::cout << " allocs=";
	if(show_allocs) { std::cout << L.allocs; } else { std::cout << '-'; }
	std::cout << '\n';
}

struct Tok {
	std::vector<std::string> t;
	std::size_t k = 0;
	Case* c = nullptr;
	std::string s() { return t.at(k++); }
	long i() { return std::stol(t.at(k++)); }
	int form(int dflt = 0) { return k < t.size() ? static_cast<int>(std::stol(t[k++])) : dflt; }
	int slot() { std::string x = s(); return std::stoi(x.substr(1)); }
	int fresh() { int r = slot(); if(c->slot[r].kind != 0) { throw skip_op{}; } return r; }
	int arr0() { int r = slot(); if(c->slot[r].kind != 1) { throw skip_op{}; } return r; }
	int live() { int r = slot(); if(c->slot[r].kind == 0) { throw skip_op{}; } return r; }
	Cell cell_of(std::string const& x) {
		auto pos = x.find('.');
		int r = std::stoi(x.substr(1, pos - 1));
		int k2 = std::stoi(x.substr(pos + 1));
		auto& S = c->slot[r];
		if(S.kind == 1) { if(k2 != 0) { throw skip_op{}; } return {S.arr().base(), r, 0, true}; }
		if(S.kind == 2) { if(static_cast<std::size_t>(k2) >= S.buf().n) { throw skip_op{}; } return {S.buf().p + k2, r, k2, false}; }
		throw skip_op{};
	}
	Cell ref() { return cell_of(s()); }
};

// ------------------------------------------------------------------------------------------------------------------
// comparisons: every operator on every pairing of operand kinds; a pairing whose operator does not exist on this tree
// (the probe matrix reports it) is evaluated on plain references instead, so that the rest of the case goes on
// ------------------------------------------------------------------------------------------------------------------
template<class, class, class = void> struct has_eq : std::false_type {};
template<class L, class R> struct has_eq<L, R, std::void_t<decltype(std::declval<L>() == std::declval<R>())>> : std::true_type {};
template<class, class, class = void> struct has_ne : std::false_type {};
template<class L, class R> struct has_ne<L, R, std::void_t<decltype(std::declval<L>() != std::declval<R>())>> : std::true_type {};
template<class, class, class = void> struct has_lt : std::false_type {};
template<class L, class R> struct has_lt<L, R, std::void_t<decltype(std::declval<L>() < std::declval<R>())>> : std::true_type {};
template<class, class, class = void> struct has_le : std::false_type {};
template<class L, class R> struct has_le<L, R, std::void_t<decltype(std::declval<L>() <= std::declval<R>())>> : std::true_type {};
template<class, class, class = void> struct has_gt : std::false_type {};
template<class L, class R> struct has_gt<L, R, std::void_t<decltype(std::declval<L>() > std::declval<R>())>> : std::true_type {};
template<class, class, class = void> struct has_ge : std::false_type {};
template<class L, class R> struct has_ge<L, R, std::void_t<decltype(std::declval<L>() >= std::declval<R>())>> : std::true_type {};

// returns 0/1, or -1 when the operator does not exist for this pairing
template<class L, class R> static int rel(std::string const& o, L&& l, R&& r) {
	if(o == "eq") { if constexpr(has_eq<L, R>::value) { return (std::forward<L>(l) == std::forward<R>(r)) ? 1 : 0; } }
	if(o == "ne") { if constexpr(has_ne<L, R>::value) { return (std::forward<L>(l) != std::forward<R>(r)) ? 1 : 0; } }
	if(o == "lt") { if constexpr(has_lt<L, R>::value) { return (std::forward<L>(l) < std::forward<R>(r)) ? 1 : 0; } }
	if(o == "le") { if constexpr(has_le<L, R>::value) { return (std::forward<L>(l) <= std::forward<R>(r)) ? 1 : 0; } }
	if(o == "gt") { if constexpr(has_gt<L, R>::value) { return (std::forward<L>(l) > std::forward<R>(r)) ? 1 : 0; } }
	if(o == "ge") { if constexpr(has_ge<L, R>::value) { return (std::forward<L>(l) >= std::forward<R>(r)) ? 1 : 0; } }
	return -1;
}

struct Operand { bool is_val = false; int v = 0; Cell cell{nullptr, 0, 0, false}; };

// kinds of the object an operand is presented as: 0 array_ref, 1 array_ref const, 2 array_ref<E, 0, E const*>, 3 the array
// itself, 4 the array const, 5 the array's a() (kinds 3..5 only when the operand is a rank-0 array of the pool)
template<class F> static int with_operand(Case& c, Operand const& x, int kind, F&& f) {
	if(x.is_val) {
		if(kind % 2 == 0) { E e(x.v); return f(e); }
		E const e(x.v); return f(e);
	}
	if(x.cell.is_arr && kind >= 3) {
		Arr& a = c.slot[x.cell.slot].arr();
		if(kind == 3) { return f(a); }
		if(kind == 4) { return f(std::as_const(a)); }
#ifndef R0_NO_CMP_SUB
		{ auto&& sub = a(); return f(sub); }
#endif
	}
	switch(kind % 3) {
		case 1: { Ref const r(x.cell.p, {}); return f(r); }
		case 2: { CRef r(x.cell.p, {}); return f(r); }
		default: { Ref r(x.cell.p, {}); return f(r); }
	}
}

static int do_cmp(Case& c, std::string const& o, Operand const& l, Operand const& r, int form) {
	int const kl = form % 6;
	int const kr = (form * 5 + 3) % 6;
	int res = with_operand(c, l, kl, [&](auto& lo) { return with_operand(c, r, kr, [&](auto& ro) { return rel(o, lo, ro); }); });
	if(res >= 0) { return res; }
	// this pairing has no such operator on this tree (the probe matrix says which): plain references, an element value through a
	// reference to a temporary element, so that the rest of the case goes on
	E tl(l.is_val ? l.v : 0); E tr(r.is_val ? r.v : 0);
	Ref rl(l.is_val ? &tl : l.cell.p, {}); Ref rr(r.is_val ? &tr : r.cell.p, {});
	return rel(o, rl, rr);
}

static void run_case(Case& c) {
	auto& R = life::reg();
	auto& L = life::ledger();
	R.reset();
	L.reset();
#if R0_PMR
	for(int k = 0; k != NRES; ++k) { resources()[k].id = k; resources()[k].elem_size = sizeof(E); resources()[k].check_cells = tracked; }
	std::pmr::set_default_resource(&resources()[0]);
	L.always_equal = false;
#else
	L.always_equal = (R0_AE != 0);
#endif
	L.socc_mode = c.socc;
	R.countdown = c.fault;
	int step = 0;
	for(auto const& line : c.lines) {
		Tok tk;
		tk.c = &c;
		{ std::istringstream is(line); std::string w; while(is >> w) { tk.t.push_back(w); } }
		if(tk.t.empty()) { continue; }
		if(tk.s() != "op") { continue; }
		++step;
		std::string op = tk.s();
		bool show_copies = false;
		bool show_allocs = true;
		bool skipped = false;
		bool threw = false;
		bool observation = false;
		auto arm = [&] { R.reset_counts(); L.allocs = 0; R.armed = true; };
		auto ai = [&] { return static_cast<int>(tk.i()); };
		auto S = [&](int r) -> Slot& { return c.slot[r]; };
		try {
			if(op == "buf") {
				int r = tk.fresh(); int a = ai();
				std::vector<int> vals; while(tk.k < tk.t.size()) { vals.push_back(ai()); }
				R.reset_counts(); L.allocs = 0;
				new(S(r).bbuf) Buf(a, vals); S(r).kind = 2;
			} else if(op == "ctor_default") {
#ifndef R0_NO_CTOR_DEFAULT
				int r = tk.fresh(); arm(); new(S(r).abuf) Arr(); S(r).kind = 1;
#else
				throw unavailable{};
#endif
			} else if(op == "ctor_exts") {
#ifndef R0_NO_CTOR_EXTS
				int r = tk.fresh(); arm(); new(S(r).abuf) Arr(X0{}); S(r).kind = 1;
#else
				throw unavailable{};
#endif
			} else if(op == "ctor_alloc") {
#ifndef R0_NO_CTOR_ALLOC
				int r = tk.fresh(); int a = ai(); arm(); new(S(r).abuf) Arr(mk_alloc(a)); S(r).kind = 1;
#else
				throw unavailable{};
#endif
			} else if(op == "ctor_exts_alloc") {
#ifndef R0_NO_CTOR_EXTS_ALLOC
				int r = tk.fresh(); int a = ai(); arm(); new(S(r).abuf) Arr(X0{}, mk_alloc(a)); S(r).kind = 1;
#else
				throw unavailable{};
#endif
			} else if(op == "ctor_elem") {
				int r = tk.fresh(); E v(ai()); arm(); new(S(r).abuf) Arr(v); S(r).kind = 1;
			} else if(op == "ctor_elem_alloc") {
#ifndef R0_NO_CTOR_ELEM_ALLOC
				int r = tk.fresh(); int a = ai(); E v(ai()); arm(); new(S(r).abuf) Arr(v, mk_alloc(a)); S(r).kind = 1;
#else
				throw unavailable{};
#endif
			} else if(op == "ctor_exts_elem") {
#ifndef R0_NO_CTOR_EXTS_ELEM
				int r = tk.fresh(); E v(ai()); arm(); new(S(r).abuf) Arr(X0{}, v); S(r).kind = 1;
#else
				throw unavailable{};
#endif
			} else if(op == "ctor_exts_elem_alloc") {
#ifndef R0_NO_CTOR_EXTS_ELEM_ALLOC
				int r = tk.fresh(); int a = ai(); E v(ai()); arm(); new(S(r).abuf) Arr(X0{}, v, mk_alloc(a)); S(r).kind = 1;
#else
				throw unavailable{};
#endif
			} else if(op == "ctor_conv") {
#ifndef R0_NO_CTOR_FROM_CONV_ARRAY
				int r = tk.fresh(); ArrC src(static_cast<CE>(ai())); arm(); new(S(r).abuf) Arr(src); S(r).kind = 1;
#else
				throw unavailable{};
#endif
			} else if(op == "ctor_conv_alloc") {
#ifndef R0_NO_CTOR_FROM_CONV_ARRAY_ALLOC
				int r = tk.fresh(); int a = ai(); ArrC src(static_cast<CE>(ai())); arm(); new(S(r).abuf) Arr(src, mk_alloc(a)); S(r).kind = 1;
#else
				throw unavailable{};
#endif
			} else if(op == "ctor_copy") {
#ifndef R0_NO_CTOR_COPY
				int r = tk.fresh(); int s = tk.arr0(); arm(); new(S(r).abuf) Arr(std::as_const(S(s).arr())); S(r).kind = 1;
#else
				throw unavailable{};
#endif
			} else if(op == "ctor_copy_nc") {
#ifndef R0_NO_CTOR_COPY_NC
				int r = tk.fresh(); int s = tk.arr0(); arm(); new(S(r).abuf) Arr(S(s).arr()); S(r).kind = 1;
#else
				throw unavailable{};
#endif
			} else if(op == "uplus") {
#ifndef R0_NO_UPLUS
				int r = tk.fresh(); int s = tk.arr0(); arm(); new(S(r).abuf) Arr(+S(s).arr()); S(r).kind = 1;
#else
				throw unavailable{};
#endif
			} else if(op == "ctor_copy_alloc") {
#ifndef R0_NO_CTOR_COPY_ALLOC
				int r = tk.fresh(); int s = tk.arr0(); int a = ai(); arm(); new(S(r).abuf) Arr(std::as_const(S(s).arr()), mk_alloc(a)); S(r).kind = 1;
#else
				throw unavailable{};
#endif
			} else if(op == "ctor_move") {
#ifndef R0_NO_CTOR_MOVE
				int r = tk.fresh(); int s = tk.arr0(); show_copies = true; arm(); new(S(r).abuf) Arr(std::move(S(s).arr())); S(r).kind = 1;
#else
				throw unavailable{};
#endif
			} else if(op == "ctor_move_alloc") {
#ifndef R0_NO_CTOR_MOVE_ALLOC
				int r = tk.fresh(); int s = tk.arr0(); int a = ai(); show_copies = true; arm(); new(S(r).abuf) Arr(std::move(S(s).arr()), mk_alloc(a)); S(r).kind = 1;
#else
				throw unavailable{};
#endif
			} else if(op == "ctor_ref" || op == "ctor_ref_alloc") {
				int r = tk.fresh(); int a = (op == "ctor_ref_alloc") ? ai() : 0; Cell q = tk.ref(); int form = tk.form();
				bool const wa = (op == "ctor_ref_alloc");
				bool done = false;
				arm();
				if(form == 1 && !done) {
#ifndef R0_NO_CTOR_FROM_CONST_REF
					if(!wa) { Ref const rr(q.p, {}); new(S(r).abuf) Arr(rr); done = true; }
#endif
				}
				if(form == 2 && !done) {
#ifndef R0_NO_CTOR_FROM_CREF
					if(!wa) { CRef rr(q.p, {}); new(S(r).abuf) Arr(rr); done = true; }
#endif
				}
				if(form == 3 && !done && q.is_arr) {
#ifndef R0_NO_CTOR_FROM_SUB
					if(!wa) { new(S(r).abuf) Arr(S(q.slot).arr()()); done = true; }
#endif
				}
				if(!done && wa) {
#ifndef R0_NO_CTOR_FROM_REF_ALLOC
					Ref rr(q.p, {}); new(S(r).abuf) Arr(rr, mk_alloc(a)); done = true;
#endif
				}
				if(!done && !wa) {
#ifndef R0_NO_CTOR_FROM_REF
					Ref rr(q.p, {}); new(S(r).abuf) Arr(rr); done = true;
#endif
				}
				if(!done) { throw unavailable{}; }
				S(r).kind = 1;
			} else if(op == "ctor_moved_ref") {
#ifndef R0_NO_MOVED_ARR_CTOR
				int r = tk.fresh(); Cell q = tk.ref(); int form = tk.form();
				arm();
				if(form == 1 && q.is_arr) { new(S(r).abuf) Arr(S(q.slot).arr().element_moved()); }
				else { Ref rr(q.p, {}); new(S(r).abuf) Arr(rr.element_moved()); }
				S(r).kind = 1;
#else
				throw unavailable{};
#endif
			} else if(op == "assign_copy") {
				int r = tk.arr0(); int s = tk.arr0(); arm(); S(r).arr() = std::as_const(S(s).arr());
			} else if(op == "assign_copy_nc") {
				int r = tk.arr0(); int s = tk.arr0(); arm(); S(r).arr() = S(s).arr();
			} else if(op == "assign_move") {
				int r = tk.arr0(); int s = tk.arr0(); show_copies = true; arm(); S(r).arr() = std::move(S(s).arr());
			} else if(op == "assign_elem") {
				int r = tk.arr0(); E v(ai()); int form = tk.form();
				E tmp(v);   // built before arming: the temporary is the caller's, not a fallible library event
				arm();
				if(form == 1) { S(r).arr() = std::move(tmp); } else { S(r).arr() = v; }
			} else if(op == "assign_elem_conv") {
				int r = tk.arr0(); CE v = static_cast<CE>(ai()); arm(); S(r).arr() = v;
			} else if(op == "assign_conv") {
				int r = tk.arr0(); ArrC src(static_cast<CE>(ai())); arm(); S(r).arr() = src;
			} else if(op == "assign_ref") {
				int r = tk.arr0(); Cell q = tk.ref(); int form = tk.form();
				bool done = false;
				arm();
				if(form == 1 && !done) {
#ifndef R0_NO_ASSIGN_FROM_CONST_REF
					Ref const rr(q.p, {}); S(r).arr() = rr; done = true;
#endif
				}
				if(form == 2 && !done) {
#ifndef R0_NO_ASSIGN_FROM_CREF
					CRef rr(q.p, {}); S(r).arr() = rr; done = true;
#endif
				}
				if(form == 3 && !done && q.is_arr) {
#ifndef R0_NO_ASSIGN_FROM_SUB
					S(r).arr() = S(q.slot).arr()(); done = true;
#endif
				}
				if(!done) {
#ifndef R0_NO_ASSIGN_FROM_REF
					Ref rr(q.p, {}); S(r).arr() = rr; done = true;
#endif
				}
				if(!done) { throw unavailable{}; }
			} else if(op == "assign_moved_ref") {
#ifndef R0_NO_MOVED_ARR_ASSIGN
				int r = tk.arr0(); Cell q = tk.ref(); int form = tk.form();
				arm();
				if(form == 1 && q.is_arr) { S(r).arr() = S(q.slot).arr().element_moved(); }
				else { Ref rr(q.p, {}); S(r).arr() = rr.element_moved(); }
#else
				throw unavailable{};
#endif
			} else if(op == "swap") {
				int r = tk.arr0(); int s = tk.arr0(); int form = tk.form();
				if(r == s) { throw skip_op{}; }
				show_copies = true;
				// form 1: the generic algorithm, by qualified name.  form 0: what generic code writes; the friend of array<T, 0>
				// (member swap) where the tree has it, the generic algorithm otherwise: the two differ by the temporary's allocation
				// (not shown) and, under the propagation traits, by which allocator each object ends up with (shown)
				show_allocs = (form == 1);
				arm();
				if(form == 1) { std::swap(S(r).arr(), S(s).arr()); } else { using std::swap; swap(S(r).arr(), S(s).arr()); }
			} else if(op == "swap_member") {
#ifndef R0_NO_SWAP_MEMBER
				int r = tk.arr0(); int s = tk.arr0();
				if(r == s) { throw skip_op{}; }
				show_copies = true;
				arm(); S(r).arr().swap(S(s).arr());
#else
				throw unavailable{};
#endif
			} else if(op == "write") {
				int r = tk.arr0(); E v(ai()); int form = tk.form();
				R.reset_counts(); L.allocs = 0;   // the harness's own write: not a fallible library event
				switch(form) {
					case 1: *S(r).arr().base() = v; break;
					case 2: *S(r).arr().data_elements() = v; break;
					default: static_cast<E&>(S(r).arr()) = v; break;
				}
			} else if(op == "move_out") {
#ifndef R0_NO_CONV_RVALUE
				int r = tk.arr0();
				show_copies = true;
				arm();
				int got = 0;
				{ E e = std::move(S(r).arr()); got = val_of(e); }
				R.armed = false;
				observation = true;
				std::cout << "O " << c.id << ' ' << step << ' ' << op << " ok\n";
				std::cout << "Q " << c.id << ' ' << step << " moved_out v=" << got << '\n';
				if(!R.error.empty()) { std::cout << "X " << c.id << ' ' << step << " error " << R.error << '\n'; c.dead = true; break; }
				print_state(c, step, true);
				if(c.dead) { break; }
				continue;
#else
				throw unavailable{};
#endif
			} else if(op == "destroy") {
				int r = tk.live();
				arm();
				if(S(r).kind == 1) { S(r).kind = 0; S(r).arr().~Arr(); } else { S(r).kind = 0; S(r).buf().~Buf(); }
			} else if(op == "ref_assign_ref") {
				Cell q = tk.ref(); Cell p = tk.ref(); int form = tk.form();
				bool done = false;
				arm();
				Ref rq(q.p, {});
				switch(form) {
					case 1: { Ref rp(p.p, {}); Ref(q.p, {}) = rp; done = true; break; }
					case 2: { Ref rp(p.p, {}); rq = std::move(rp); done = true; break; }
					case 3: { CRef rp(p.p, {}); rq = rp; done = true; break; }
					case 4: { Ref const rp(p.p, {}); rq = rp; done = true; break; }
					case 5: { Ref rp(p.p, {}); rq.elements() = rp.elements(); done = true; break; }
					case 6: if(p.is_arr) { rq = S(p.slot).arr(); done = true; } break;   // ref = array
					case 7:
#ifndef R0_NO_RASSIGN_SUB_SUB
						if(p.is_arr && q.is_arr) { S(q.slot).arr()() = S(p.slot).arr()(); done = true; }
						else if(q.is_arr) { Ref rp(p.p, {}); S(q.slot).arr()() = rp; done = true; }
#endif
						break;
					default: break;
				}
				if(!done) { Ref rp(p.p, {}); rq = rp; }
			} else if(op == "ref_assign_elem") {
				Cell q = tk.ref(); E v(ai()); int form = tk.form();
				bool done = false;
				arm();
				if(form == 5) {
#ifndef R0_NO_FILL_REF
					Ref rq(q.p, {}); rq.fill(v); done = true;
#else
					throw unavailable{};
#endif
				}
#ifndef R0_NO_RASSIGN_REF_ELEM
				if(!done) {
					Ref rq(q.p, {});
					switch(form) {
						case 1: Ref(q.p, {}) = v; break;
						case 2: { R.armed = false; E tmp(v); R.armed = true; rq = std::move(tmp); break; }
						case 3: rq = static_cast<CE>(val_of(v)); break;
						case 4:
#ifndef R0_NO_WRITE_CALL
							if(q.is_arr) { S(q.slot).arr()() = v; break; }
#endif
							rq = v; break;
						default: rq = v; break;
					}
					done = true;
				}
#endif
				if(!done) { throw unavailable{}; }
			} else if(op == "ref_assign_moved") {
				Cell q = tk.ref(); Cell p = tk.ref(); int form = tk.form();
				arm();
				Ref rq(q.p, {}); Ref rp(p.p, {});
				bool done = false;
#ifndef R0_NO_MOVED_SUB_ASSIGN
				if(form == 1 && p.is_arr && q.is_arr) { auto&& d = S(q.slot).arr()(); auto&& src = S(p.slot).arr()(); d = src.element_moved(); done = true; }
#endif
#ifndef R0_NO_MOVED_REF_CALL_ASSIGN
				if(form == 2) { rq = rp().element_moved(); done = true; }
#endif
				if(!done) { rq = rp.element_moved(); }
			} else if(op == "ref_swap") {
#ifndef R0_NO_RSWAP_REF_REF
				Cell q = tk.ref(); Cell p = tk.ref(); int form = tk.form();
				if(q.p == p.p) { throw skip_op{}; }
				show_copies = true;
				arm();
				bool done = false;
#ifndef R0_NO_RSWAP_SUB_SUB
				if(form == 1 && q.is_arr && p.is_arr) { swap(S(q.slot).arr()(), S(p.slot).arr()()); done = true; }
#endif
				if(!done) { Ref rq(q.p, {}); Ref rp(p.p, {}); swap(std::move(rq), std::move(rp)); }
#else
				throw unavailable{};
#endif
			} else if(op == "ref_write") {
				Cell q = tk.ref(); E v(ai()); int form = tk.form();
				R.reset_counts(); L.allocs = 0;
				Ref rq(q.p, {});
				if(form == 1) { *rq.base() = v; } else { static_cast<E&>(rq) = v; }
			} else if(op == "cmp") {
				std::string o = tk.s();
				auto operand = [&](std::string const& x) { Operand y; if(x[0] == 'v') { y.is_val = true; y.v = std::stoi(x.substr(1)); } else { y.cell = tk.cell_of(x); } return y; };
				Operand l = operand(tk.s()); Operand r = operand(tk.s()); int form = tk.form();
				int res = do_cmp(c, o, l, r, form);
				// direct monitor: != is the negation of ==, and the six operators are mutually consistent on this pair
				int e = do_cmp(c, "eq", l, r, form), ne = do_cmp(c, "ne", l, r, form), lt = do_cmp(c, "lt", l, r, form);
				int gt = do_cmp(c, "gt", l, r, form), le = do_cmp(c, "le", l, r, form), ge = do_cmp(c, "ge", l, r, form);
				if(e == ne || (lt + e + gt) != 1 || le != (lt | e) || ge != (gt | e)) { std::cout << "M " << c.id << ' ' << step << " relational-operators-inconsistent\n"; }
				std::cout << "Q " << c.id << ' ' << step << " cmp " << o << '=' << res << '\n';
				continue;
			} else if(op == "read") {
				Cell q = tk.ref(); int form = tk.form();
				int got = 0;
				Ref rq(q.p, {});
				switch(form) {
					case 1: { E& e = rq; got = val_of(e); if(&e != q.p) { got = -1; } break; }
					case 2: { got = val_of(static_cast<E const&>(std::as_const(rq))); break; }
					case 3: { E& e = Ref(q.p, {}); got = val_of(e); if(&e != q.p) { got = -1; } break; }
					case 4: { E const& e = rq(); got = val_of(e); break; }
					case 5: if(q.is_arr) { E const& e = std::as_const(S(q.slot).arr()); got = val_of(e); if(&e != q.p) { got = -1; } break; }
					        [[fallthrough]];
					default: { E const& e = std::as_const(rq); got = val_of(e); if(&e != q.p) { got = -1; } break; }
				}
				std::cout << "Q " << c.id << ' ' << step << " read v=" << got << '\n';
				continue;
			} else if(op == "query") {
				int r = tk.live();
				long n = S(r).kind == 1 ? static_cast<long>(S(r).arr().num_elements()) : static_cast<long>(S(r).buf().n);
				bool empty = S(r).kind == 1 ? S(r).arr().is_empty() : (n == 0);
				std::cout << "Q " << c.id << ' ' << step << " query n=" << n << " empty=" << (empty ? 1 : 0) << '\n';
				continue;
			} else {
				std::fprintf(stderr, "unknown op %s\n", op.c_str());
				std::abort();
			}
		} catch(skip_op const&) {
			skipped = true;
		} catch(unavailable const&) {
			R.armed = false;
			std::cout << "U " << c.id << ' ' << step << ' ' << op << " unavailable\n";
			c.dead = true;
			break;
		} catch(life::injected const&) {
			threw = true;
		} catch(std::bad_alloc const&) {
			threw = true;
		}
		(void)observation;
		R.armed = false;
		if(skipped) { std::cout << "O " << c.id << ' ' << step << ' ' << op << " skipped\n"; continue; }
		if(!R.error.empty()) { std::cout << "X " << c.id << ' ' << step << " error " << R.error << '\n'; c.dead = true; break; }
		std::cout << "O " << c.id << ' ' << step << ' ' << op << ' ' << (threw ? "threw" : "ok");
		if(threw) { std::cout << " at=" << R.thrown_at; }
		std::cout << '\n';
		print_state(c, step, show_copies && !threw, show_allocs);
		std::cout.flush();
		if(c.dead) { break; }
	}
	if(!c.dead) {
		for(int r = 0; r != NP; ++r) {
			if(c.slot[r].kind == 1) { c.slot[r].kind = 0; c.slot[r].arr().~Arr(); }
			else if(c.slot[r].kind == 2) { c.slot[r].kind = 0; c.slot[r].buf().~Buf(); }
		}
		if(!R.error.empty()) { std::cout << "X " << c.id << " end error " << R.error << '\n'; }
		else {
			long outstanding = 0;
			for(auto const& b : L.blocks) { if(b.live) { ++outstanding; } }
			std::cout << "Z " << c.id << " alive=" << (tracked ? R.alive : 0) << " outstanding=" << outstanding << " fallible=" << R.fallible << '\n';
		}
	} else {
		for(int r = 0; r != NP; ++r) { c.slot[r].kind = 0; }   // objects are dropped without running destructors
	}
	std::cout << "E " << c.id << '\n';
}

int main() {
	std::ios::sync_with_stdio(false);
	std::set_terminate([] {
		std::cout.flush();
		std::fputs("terminate called: an exception thrown inside the library did not reach the caller (std::terminate)\n", stderr);
		std::abort();
	});
	std::string line;
	Case* cur = nullptr;
	while(std::getline(std::cin, line)) {
		if(line.rfind("case ", 0) == 0) {
			cur = new Case();
			cur->id = line.substr(5);
		} else if(cur != nullptr && line == "end") {
			run_case(*cur);
			std::cout.flush();
			delete cur;
			cur = nullptr;
		} else if(cur != nullptr && line.rfind("fault ", 0) == 0) {
			cur->fault = std::stol(line.substr(6));
		} else if(cur != nullptr && line.rfind("cfg ", 0) == 0) {
			// the check routes a case to the executable built for its configuration; only socc is a run-time choice
			auto pos = line.find("socc=");
			if(pos != std::string::npos) { cur->socc = std::stoi(line.substr(pos + 5)); }
		} else if(cur != nullptr) {
			cur->lines.push_back(line);
		}
	}
	return 0;
}

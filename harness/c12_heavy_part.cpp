// One part of the heavy half of h_project (C12): explicit instantiations of Heavy<T, D, P>::convert or ::walk for
// one (element type, pointer type) pair and all ranks.  Compiled once per pair and function by vlib/c12.py
// (-DC12_PART_TYPE=<index in C12_HEAVY_TYPES> -DC12_PART_FN=<0: convert, 1: walk>), in parallel, and linked with h_project.cpp.
#include "common/c12_heavy.hpp"

#ifndef C12_PART_TYPE
#error "C12_PART_TYPE"
#endif
#ifndef C12_PART_FN
#error "C12_PART_FN"
#endif

namespace c12 {
template<int K> struct part_types;
#define C12_X(K, T, P) template<> struct part_types<K> { using elem = T; using ptr = P; };
C12_HEAVY_TYPES(C12_X)
#undef C12_X
using PT = part_types<C12_PART_TYPE>;

#if C12_PART_FN == 0
#define C12_I(D) template void Heavy<PT::elem, D, PT::ptr>::convert(std::ostream&, std::string const&, int, std::string const&);
#else
#define C12_I(D) template void Heavy<PT::elem, D, PT::ptr>::walk(std::ostream&, std::string const&, int, int, std::vector<std::string> const&);
#endif
C12_I(1) C12_I(2) C12_I(3) C12_I(4) C12_I(5)
}  // namespace c12

// h_fftw_c15: runs FFTW-adaptor cases on the real library (compiled against BM_REPO/include on every
// run) and prints API-level observables:
//   V  sizes / strides / base / first index of every extension of both views as the library reports them
//   G  the arguments the adaptor handed to fftw_plan_guru64_dft (interposed), pointers as element
//      offsets from the root arrays
//   X  order of the FFTW calls, the pointers given to fftw_execute_dft
//   W  the elements of the output root that changed (out-of-place cases); a digest above 20000 elements
//   M  direct monitors on the library's own output: result == O(N^2) direct DFT in long double (a sample of
//      64 output elements when N * Nt > 2e7), input unchanged, nothing outside the output view touched, guard
//      cells, forward-then-backward, the planner flags keep the arrays intact by FFTW's documented contract,
//      and the arrays were bitwise the same before and after the (interposed) planning call
//   I  numbers behind M (not compared)
// Input (stdin): case <id> / dim D / inroot e.. / [inbase b..] / inop <op> .. / out separate|same|shared /
//                outroot e.. / [outbase b..] / outop <op> .. / which b.. / sign s / api a / end
// inbase / outbase: first index of every extension of the root (default 0); ops: sliced a b, strided s,
// rotated, unrotated, transposed, reversed, reindexed i, reindexedl i j .., blocked a b
#include <boost/multi/adaptors/fft.hpp>
#include <boost/multi/adaptors/fftw.hpp>
#include <boost/multi/array.hpp>

#include "common/c15_fftw_log.h"

#include <array>
#include <cfloat>
#include <cmath>
#include <complex>
#include <cstdint>
#include <cstring>
#include <iostream>
#include <sstream>
#include <string>
#include <vector>

#include <unistd.h>  // alarm: a case that hangs (e.g. after heap corruption) is killed, not waited for

namespace multi = boost::multi;
using C         = std::complex<double>;
using LC        = std::complex<long double>;
using idx_t     = std::ptrdiff_t;

constexpr idx_t GUARD = 16;

struct Op {
	std::string        name;
	std::vector<idx_t> a;
};
struct Side {
	std::vector<idx_t> root;
	std::vector<idx_t> rbase;  // first index of every extension of the root; empty = all 0
	std::vector<Op>    ops;
};
struct Case {
	std::string      id;
	int              D = 0;
	Side             in, out;
	std::string      mode = "separate";
	std::vector<int> which;
	int              sign = -1;
	std::string      api  = "dft";
};

// ---- a buffer with guard cells on both sides, allocated with the adaptor's allocator ----
struct Buffer {
	multi::array<C, 1, multi::fftw::allocator<C>> store;
	idx_t                                         n = 0;
	explicit Buffer(idx_t n_) : store(multi::extensions_t<1>{multi::iextension{0, n_ + 2 * GUARD}}), n(n_) {
		for(idx_t k = 0; k != n + 2 * GUARD; ++k) { store.data_elements()[k] = sentinel(k); }
	}
	static C sentinel(idx_t k) { return C{1.0e6 + static_cast<double>(k), -1.0e6 - static_cast<double>(k)}; }
	C*       data() { return store.data_elements() + GUARD; }
	C const* raw() const { return store.data_elements(); }
	idx_t    raw_size() const { return n + 2 * GUARD; }
};

template<int D> struct View {
	multi::layout_t<D> lay;
	C*                 base;
	auto               sub() const { return multi::subarray<C, D>(lay, base); }
};

template<int D, std::size_t... I> auto make_ext(std::vector<idx_t> const& e, std::index_sequence<I...> /*unused*/) {
	return multi::extensions_t<D>{multi::iextension{0, e[I]}...};
}
template<int D, std::size_t... I> auto make_ext(std::vector<idx_t> const& b, std::vector<idx_t> const& e, std::index_sequence<I...> /*unused*/) {
	return multi::extensions_t<D>{multi::iextension{(b.empty() ? 0 : b[I]), (b.empty() ? 0 : b[I]) + e[I]}...};
}

template<int D, class X> View<D> wrap(X&& x) { return View<D>{x.layout(), const_cast<C*>(x.base())}; }  // NOLINT

template<int D, class S, std::size_t... I> View<D> reindex_n(S&& s, std::vector<idx_t> const& a, std::index_sequence<I...> /*unused*/) {
	return wrap<D>(s.reindexed(a[I]...));
}
template<int D, int K, class S> View<D> reindex_dyn(S&& s, std::vector<idx_t> const& a) {
	if constexpr(K > D) {
		throw std::runtime_error("reindexedl: more indices than dimensions");
	} else {
		if(static_cast<int>(a.size()) == K) { return reindex_n<D>(s, a, std::make_index_sequence<K>{}); }
		return reindex_dyn<D, K + 1>(s, a);
	}
}

template<int D> View<D> apply_op(View<D> const& v, Op const& op) {
	auto s = v.sub();
	if(op.name == "reindexed") { return wrap<D>(s.reindexed(op.a[0])); }
	if(op.name == "reindexedl") { return reindex_dyn<D, 1>(s, op.a); }
	if(op.name == "blocked") { return wrap<D>(s.blocked(op.a[0], op.a[1])); }
	if(op.name == "sliced") { return wrap<D>(s.sliced(op.a[0], op.a[1])); }
	if(op.name == "strided") { return wrap<D>(s.strided(op.a[0])); }
	if(op.name == "rotated") { return wrap<D>(s.rotated()); }
	if(op.name == "unrotated") { return wrap<D>(s.unrotated()); }
	if(op.name == "reversed") { return wrap<D>(s.reversed()); }
	if(op.name == "transposed") {
		if constexpr(D >= 2) { return wrap<D>(s.transposed()); }
	}
	throw std::runtime_error("unsupported op " + op.name);
}

template<class Tup> std::vector<idx_t> tup_to_vec(Tup const& t) {
	return t.apply([](auto... s) { return std::vector<idx_t>{static_cast<idx_t>(s)...}; });
}

// address of an element through the library's own chained brackets
template<int K, int D, class W> C* elem_(W&& w, std::vector<idx_t> const& x) {
	if constexpr(K == D - 1) {
		return const_cast<C*>(&w[x[K]]);  // NOLINT
	} else {
		return elem_<K + 1, D>(w[x[K]], x);
	}
}
template<int D> C* elem(View<D> const& v, std::vector<idx_t> const& x) {
	auto s = v.sub();
	return elem_<0, D>(s, x);
}
// the element at POSITION x (zero-based) of a view whose extensions start at `first`
template<int D> C* elem_at(View<D> const& v, std::vector<idx_t> const& first, std::vector<idx_t> const& x) {
	std::vector<idx_t> y(x.size());
	for(std::size_t k = 0; k != x.size(); ++k) { y[k] = x[k] + first[k]; }
	return elem<D>(v, y);
}
// first index of every extension, as the library reports it
template<int D> std::vector<idx_t> firsts_of(View<D> const& v) {
	auto const x = v.sub().extensions();
	return x.apply([](auto... e) { return std::vector<idx_t>{static_cast<idx_t>(e.first())...}; });
}
static std::string join_firsts(std::vector<idx_t> const& f, std::vector<idx_t> const& sz) {
	std::ostringstream os;
	for(std::size_t k = 0; k != f.size(); ++k) {
		os << (k ? "," : "");
		if(sz[k] >= 1) { os << f[k]; } else { os << '*'; }
	}
	return os.str();
}

static bool next_idx(std::vector<idx_t>& x, std::vector<idx_t> const& sz) {
	for(std::size_t k = x.size(); k-- > 0;) {
		if(++x[k] < sz[k]) { return true; }
		x[k] = 0;
	}
	return false;
}
static idx_t product(std::vector<idx_t> const& v) {
	idx_t p = 1;
	for(auto e : v) { p *= e; }
	return p;
}
static std::string join(std::vector<idx_t> const& v) {
	std::ostringstream os;
	for(std::size_t k = 0; k != v.size(); ++k) { os << (k ? "," : "") << v[k]; }
	return os.str();
}
// the stride of a dimension with fewer than two valid indices has no effect on the transform: masked
static std::string join_strides(std::vector<idx_t> const& st, std::vector<idx_t> const& sz) {
	std::ostringstream os;
	for(std::size_t k = 0; k != st.size(); ++k) {
		os << (k ? "," : "");
		if(sz[k] >= 2) { os << st[k]; } else { os << '*'; }
	}
	return os.str();
}
static std::string iodims(c15_iodim const* d, int n) {
	std::ostringstream os;
	for(int k = 0; k < n && k < C15_MAXRANK; ++k) {
		os << (k ? "," : "") << d[k].n << ':';
		if(d[k].n >= 2) { os << d[k].is << ':' << d[k].os; } else { os << "*:*"; }
	}
	return os.str();
}

static std::uint64_t mix(std::uint64_t x) {
	x += 0x9e3779b97f4a7c15ULL;
	x = (x ^ (x >> 30)) * 0xbf58476d1ce4e5b9ULL;
	x = (x ^ (x >> 27)) * 0x94d049bb133111ebULL;
	return x ^ (x >> 31);
}
static double unit(std::uint64_t h) { return static_cast<double>(h >> 11) / 9007199254740992.0 * 2.0 - 1.0; }

template<int D, std::size_t... I> std::array<bool, D> which_array(std::vector<int> const& w, std::index_sequence<I...> /*unused*/) {
	return std::array<bool, D>{(w[I] != 0)...};
}

// the front ends under test
template<int D> void call_api(Case const& c, View<D> const& vin, View<D> const& vout) {
	namespace fftw   = multi::fftw;
	auto const which = which_array<D>(c.which, std::make_index_sequence<D>{});
	auto       in    = vin.sub();
	auto       out   = vout.sub();
	auto const dir   = (c.sign < 0) ? fftw::forward : fftw::backward;
	bool const same  = (c.mode == "same");
	if(c.api == "dft" && same) {
		fftw::dft(which, out, dir);  // the in-place overload, fftw.hpp:512-517
	} else if(c.api == "dft" || c.api == "dft4") {
		fftw::dft(which, in, out, dir);
	} else if(c.api == "fb") {
		if(c.sign < 0) {
			fftw::dft_forward(which, in, out);
		} else if(same) {
			fftw::dft_backward(which, out);  // variadic form -> in-place overload
		} else {
			fftw::dft_backward(which, in, out);
		}
	} else if(c.api == "plan") {
		if(c.sign < 0) {
			auto const pln = fftw::plan::forward(which, in.base(), in.layout(), out.base(), out.layout());
			pln.execute(in.base(), out.base());
		} else {
			auto const pln = fftw::plan::backward(which, in.base(), in.layout(), out.base(), out.layout());
			pln.execute(in.base(), out.base());
		}
	} else if(c.api == "fft") {
		if(c.sign < 0) {
			multi::fft::dft_forward(which, in, out);
		} else {
			multi::fft::dft_backward(which, in, out);
		}
	} else {
		throw std::runtime_error("unknown api " + c.api);
	}
}

// the planner flags that decide WHAT is computed and which arrays may be written, and when (fftw3.h:492-500):
// DESTROY_INPUT 1, EXHAUSTIVE 8, PRESERVE_INPUT 16, PATIENT 32, ESTIMATE 64, WISDOM_ONLY 1<<21 (MEASURE is 0).
// Only these are compared with the model; UNALIGNED, CONSERVE_MEMORY and the undocumented tuning bits are not
// observables of the property.  The I line shows the raw value.
constexpr unsigned C15_SEMANTIC_FLAGS = 1U | 8U | 16U | 32U | 64U | (1U << 21);
constexpr idx_t W_LIST_MAX = 20000;  // above: the W line is a digest (same definition as in ocaml/c15_driver.ml)

template<int D> void run_case(Case const& c) {
	bool const same   = (c.mode == "same");
	bool const shared = (c.mode == "shared");
	// roots
	Buffer                  bin(product(c.in.root));
	std::unique_ptr<Buffer> bout_own;
	if(!same && !shared) { bout_own = std::make_unique<Buffer>(product(c.out.root)); }
	Buffer& bout = (same || shared) ? bin : *bout_own;

	multi::array_ref<C, D> rin(bin.data(), make_ext<D>(c.in.rbase, c.in.root, std::make_index_sequence<D>{}));
	View<D>                vin{rin.layout(), rin.base()};
	for(auto const& op : c.in.ops) { vin = apply_op<D>(vin, op); }
	View<D> vout = vin;
	if(!same) {
		auto const&            oside = shared ? c.in : c.out;
		multi::array_ref<C, D> rout(bout.data(), make_ext<D>(oside.rbase, oside.root, std::make_index_sequence<D>{}));
		vout = View<D>{rout.layout(), rout.base()};
		for(auto const& op : c.out.ops) { vout = apply_op<D>(vout, op); }
	}
	auto const isz = tup_to_vec(vin.sub().sizes());
	auto const ist = tup_to_vec(vin.sub().strides());
	auto const osz = tup_to_vec(vout.sub().sizes());
	auto const ost = tup_to_vec(vout.sub().strides());
	auto const ifi = firsts_of<D>(vin);
	auto const ofi = firsts_of<D>(vout);
	std::cout << "V " << c.id << " in sizes=" << join(isz) << " strides=" << join_strides(ist, isz) << " base=" << (vin.base - bin.data())
	          << " first=" << join_firsts(ifi, isz)
	          << " | out sizes=" << join(osz) << " strides=" << join_strides(ost, osz) << " base=" << (vout.base - bout.data())
	          << " first=" << join_firsts(ofi, osz) << '\n';
	if(isz != osz) {
		std::cout << "U " << c.id << " extents differ\n";
		return;
	}
	idx_t const N = product(isz);

	// input data through the library's own indexing (index tuple = position + first index of every extension);
	// remember where every element lives
	std::vector<idx_t> in_off, out_off;  // offsets into the raw buffers (guards included), canonical order
	in_off.reserve(static_cast<std::size_t>(N));
	out_off.reserve(static_cast<std::size_t>(N));
	{
		std::uint64_t h0 = 1469598103934665603ULL;
		for(char ch : c.id) { h0 = (h0 ^ static_cast<unsigned char>(ch)) * 1099511628211ULL; }
		std::vector<idx_t> x(static_cast<std::size_t>(D), 0);
		idx_t              lin = 0;
		if(N > 0) {
			do {
				C* p = elem_at<D>(vin, ifi, x);
				*p   = C{unit(mix(h0 + 2 * static_cast<std::uint64_t>(lin))), unit(mix(h0 + 2 * static_cast<std::uint64_t>(lin) + 1))};
				in_off.push_back(p - bin.raw());
				out_off.push_back(elem_at<D>(vout, (c.api == "fftrange") ? std::vector<idx_t>(static_cast<std::size_t>(D), 0) : ofi, x) - bout.raw());
				++lin;
			} while(next_idx(x, isz));
		}
	}
	std::vector<C> const snap_in(bin.raw(), bin.raw() + bin.raw_size());
	std::vector<C> const snap_out(bout.raw(), bout.raw() + bout.raw_size());

	// the call, with the FFTW entry points recorded; the interposer compares both buffers with their snapshots
	// right after the real planning call returns (planning must not touch the arrays)
	C* out_origin = bout.data();  // what logged output pointers are relative to
	c15_reset();
	c15_state.watch_ptr[0]   = bin.raw();
	c15_state.watch_snap[0]  = snap_in.data();
	c15_state.watch_bytes[0] = static_cast<size_t>(bin.raw_size()) * sizeof(C);
	c15_state.watch_ptr[1]   = bout.raw();
	c15_state.watch_snap[1]  = snap_out.data();
	c15_state.watch_bytes[1] = static_cast<size_t>(bout.raw_size()) * sizeof(C);
	c15_state.enabled = 1;
	if(c.api == "fftrange") {
		// the lazy form of adaptors/fft.hpp: a new array constructed from the range; its elements are then
		// copied into the (row-major) output root so that the W line and the monitors apply unchanged
		if constexpr(D >= 2) {
			auto const         which = which_array<D>(c.which, std::make_index_sequence<D>{});
			auto               in    = vin.sub();
			multi::array<C, D> res   = multi::fft::dft(which, in, (c.sign < 0) ? multi::fft::forward : multi::fft::backward);
			c15_state.enabled        = 0;
			out_origin               = res.data_elements();
			if(tup_to_vec(res.sizes()) != isz) { throw std::runtime_error("lazy range: result extents differ from the input's"); }
			for(idx_t k = 0; k != res.num_elements(); ++k) { bout.data()[k] = res.data_elements()[k]; }
		} else {
			throw std::runtime_error("fft::dft range form does not compile for D = 1");
		}
	} else {
		call_api<D>(c, vin, vout);
	}
	c15_state.enabled = 0;
	c15_state_t const log = c15_state;

	if(log.nplan >= 1) {
		std::cout << "G " << c.id << " rank=" << log.rank << " dims=" << iodims(log.dims, log.rank) << " hrank=" << log.hrank
		          << " hdims=" << iodims(log.hdims, log.hrank) << " in=" << (static_cast<C*>(log.plan_in) - bin.data())
		          <<  " out=" << (static_cast<C*>(log.plan_out) - out_origin) << " sign=" << log.sign << " flags=" << (log.flags & C15_SEMANTIC_FLAGS) << '\n';
	}
	{
		std::cout << "X " << c.id << ' ';
		for(int k = 0; k != log.norder; ++k) {
			std::cout << (k ? "," : "");
			switch(log.order[k]) {
				case 'p': std::cout << "plan"; break;
				case 'x':
					std::cout << "execute(" << (static_cast<C*>(log.exec_in) - bin.data()) << ';' << (static_cast<C*>(log.exec_out) - out_origin) << ')';
					break;
				case 'o': std::cout << "other-fftw-entry-point"; break;
				default: std::cout << "destroy";
			}
		}
		// the plan that was executed and destroyed is the one that was created
		if(log.nexec >= 1 && log.exec_plan != log.plan) { std::cout << ",executed-a-different-plan"; }
		if(log.ndestroy >= 1 && log.destroyed != log.plan) { std::cout << ",destroyed-a-different-plan"; }
		std::cout << '\n';
	}

	auto same_bits = [](C const& a, C const& b) { return std::memcmp(&a, &b, sizeof(C)) == 0; };

	// W: which elements of the output root changed (out-of-place: the output root was all sentinels / other data)
	if(same) {
		std::cout << "W " << c.id << " -\n";
	} else {
		std::vector<idx_t> changed;
		for(idx_t k = GUARD; k != GUARD + bout.n; ++k) {
			if(!same_bits(bout.raw()[k], snap_out[static_cast<std::size_t>(k)])) { changed.push_back(k - GUARD); }
		}
		if(N <= W_LIST_MAX) {
			std::cout << "W " << c.id << ' ' << (changed.empty() ? std::string("") : join(changed)) << '\n';
		} else {
			std::int64_t const PM = 1000000007;
			std::int64_t       lo = INT64_MAX, hi = INT64_MIN, s1 = 0, s2 = 0;
			for(auto a : changed) {
				std::int64_t const h = ((a % PM + PM) % PM * 48271 + 11) % PM;
				lo = std::min<std::int64_t>(lo, a);
				hi = std::max<std::int64_t>(hi, a);
				s1 = (s1 + h) % PM;
				s2 = (s2 + h * h % PM) % PM;
			}
			std::cout << "W " << c.id << " n=" << changed.size() << " min=" << lo << " max=" << hi << " s1=" << s1 << " s2=" << s2 << '\n';
		}
	}

	// ---- monitors ----
	std::vector<char> is_out(static_cast<std::size_t>(bout.raw_size()), 0);
	for(auto o : out_off) { is_out[static_cast<std::size_t>(o)] = 1; }
	bool guards_ok = true, frame_ok = true, input_ok = true;
	for(idx_t k = 0; k != bout.raw_size(); ++k) {
		bool const unchanged = same_bits(bout.raw()[k], snap_out[static_cast<std::size_t>(k)]);
		bool const guard     = (k < GUARD || k >= GUARD + bout.n);
		if(guard && !unchanged) { guards_ok = false; }
		if(!guard && is_out[static_cast<std::size_t>(k)] == 0 && !unchanged) { frame_ok = false; }
	}
	if(!same && !shared) {
		for(idx_t k = 0; k != bin.raw_size(); ++k) {
			bool const unchanged = same_bits(bin.raw()[k], snap_in[static_cast<std::size_t>(k)]);
			bool const guard     = (k < GUARD || k >= GUARD + bin.n);
			if(guard && !unchanged) { guards_ok = false; }
			if(!guard && !unchanged) { input_ok = false; }
		}
	} else if(shared) {
		for(auto o : in_off) {
			if(!same_bits(bin.raw()[o], snap_in[static_cast<std::size_t>(o)])) { input_ok = false; }
		}
	}

	// direct DFT in long double from the snapshot of the input
	std::vector<idx_t> tsz;   // sizes of the transformed dimensions
	for(int k = 0; k != D; ++k) {
		if(c.which[static_cast<std::size_t>(k)] != 0) { tsz.push_back(isz[static_cast<std::size_t>(k)]); }
	}
	idx_t const                     Nt = product(tsz);
	long double const               PI = 3.141592653589793238462643383279502884L;
	std::vector<std::vector<LC>>    tw(static_cast<std::size_t>(D));
	for(int k = 0; k != D; ++k) {
		if(c.which[static_cast<std::size_t>(k)] == 0) { continue; }
		idx_t const n = isz[static_cast<std::size_t>(k)];
		for(idx_t j = 0; j < n; ++j) {
			long double const ang = static_cast<long double>(c.sign) * 2.0L * PI * static_cast<long double>(j) / static_cast<long double>(n);
			tw[static_cast<std::size_t>(k)].emplace_back(std::cos(ang), std::sin(ang));
		}
	}
	// strides of the canonical (row-major) numbering of index tuples
	std::vector<idx_t> cst(static_cast<std::size_t>(D), 1);
	for(int k = D - 2; k >= 0; --k) { cst[static_cast<std::size_t>(k)] = cst[static_cast<std::size_t>(k + 1)] * isz[static_cast<std::size_t>(k + 1)]; }
	long double     maxabs = 0;
	for(idx_t k = 0; k != N; ++k) { maxabs = std::max<long double>(maxabs, std::abs(snap_in[static_cast<std::size_t>(in_off[static_cast<std::size_t>(k)])])); }
	// the reference value of the output element at position x
	auto ref_at = [&](std::vector<idx_t> const& x) {
		LC                 acc{0, 0};
		std::vector<idx_t> t(tsz.size(), 0);
		if(Nt > 0) {
			do {
				idx_t       src = 0;
				LC          w{1, 0};
				std::size_t tk = 0;
				for(int k = 0; k != D; ++k) {
					auto const ku = static_cast<std::size_t>(k);
					if(c.which[ku] != 0) {
						src += t[tk] * cst[ku];
						w *= tw[ku][static_cast<std::size_t>((static_cast<__int128>(t[tk]) * x[ku]) % isz[ku])];
						++tk;
					} else {
						src += x[ku] * cst[ku];
					}
				}
				C const v = snap_in[static_cast<std::size_t>(in_off[static_cast<std::size_t>(src)])];
				acc += w * LC{v.real(), v.imag()};
			} while(next_idx(t, tsz));
		}
		return acc;
	};
	long double const tol = 64.0L * DBL_EPSILON * (1.0L + std::log2(static_cast<long double>(std::max<idx_t>(Nt, 1))))
	                        * std::sqrt(static_cast<long double>(std::max<idx_t>(Nt, 1))) * std::max<long double>(maxabs, 1.0L);
	long double maxerr  = 0;
	idx_t       checked = 0;
	auto        check_lin = [&](idx_t lin) {
		std::vector<idx_t> x(static_cast<std::size_t>(D), 0);
		idx_t              r = lin;
		for(int k = 0; k != D; ++k) { x[static_cast<std::size_t>(k)] = r / cst[static_cast<std::size_t>(k)]; r %= cst[static_cast<std::size_t>(k)]; }
		C const  got = bout.raw()[out_off[static_cast<std::size_t>(lin)]];
		LC const d   = LC{got.real(), got.imag()} - ref_at(x);
		maxerr       = std::max(maxerr, std::abs(d));
		++checked;
	};
	bool const full = (static_cast<long double>(N) * static_cast<long double>(std::max<idx_t>(Nt, 1)) <= 2.0e7L);
	if(N > 0) {
		if(full) {
			for(idx_t lin = 0; lin != N; ++lin) { check_lin(lin); }
		} else {  // a sample of output elements: the first, the last, and 62 more chosen by hash of the case id
			std::uint64_t h1 = 88172645463325252ULL;
			for(char ch : c.id) { h1 = mix(h1 ^ static_cast<unsigned char>(ch)); }
			check_lin(0);
			check_lin(N - 1);
			for(int k = 0; k != 62; ++k) { h1 = mix(h1); check_lin(static_cast<idx_t>(h1 % static_cast<std::uint64_t>(N))); }
		}
	}
	bool const dft_ok = (maxerr <= tol) && !(maxerr != maxerr);

	// forward followed by backward: N_t times the original
	long double fberr = 0;
	{
		namespace fftw   = multi::fftw;
		auto const which = which_array<D>(c.which, std::make_index_sequence<D>{});
		auto const back  = (c.sign < 0) ? fftw::backward : fftw::forward;
		std::vector<C> got(static_cast<std::size_t>(N));
		if(same) {
			auto io = vout.sub();
			fftw::dft(which, io, back);
			for(idx_t k = 0; k != N; ++k) { got[static_cast<std::size_t>(k)] = bout.raw()[out_off[static_cast<std::size_t>(k)]]; }
		} else if(c.api == "fftrange") {
			multi::array<C, D> tmp(make_ext<D>(isz, std::make_index_sequence<D>{}));
			multi::array_ref<C, D> ro(bout.data(), make_ext<D>(isz, std::make_index_sequence<D>{}));
			if(N > 0) {
				fftw::dft(which, ro, tmp, back);
				for(idx_t k = 0; k != N; ++k) { got[static_cast<std::size_t>(k)] = tmp.data_elements()[k]; }
			}
		} else {
			multi::array<C, D> tmp(vout.sub().extensions());  // the same extensions (index bases included) as the views
			if(N > 0) {
				fftw::dft(which, vout.sub(), tmp, back);
				for(idx_t k = 0; k != N; ++k) { got[static_cast<std::size_t>(k)] = tmp.data_elements()[k]; }
			}
		}
		for(idx_t k = 0; k != N; ++k) {
			C const  orig = snap_in[static_cast<std::size_t>(in_off[static_cast<std::size_t>(k)])];
			LC const want = LC{orig.real(), orig.imag()} * static_cast<long double>(Nt);
			fberr         = std::max(fberr, std::abs(LC{got[static_cast<std::size_t>(k)].real(), got[static_cast<std::size_t>(k)].imag()} - want));
		}
	}
	long double const fbtol = 2.0L * tol * std::sqrt(static_cast<long double>(std::max<idx_t>(Nt, 1)));
	bool const        fb_ok = (fberr <= fbtol) && !(fberr != fberr);

	// the planner flags, judged by FFTW's documented contract alone (fftw3.h / manual 4.3.2), for every size:
	// FFTW_ESTIMATE (1<<6) or FFTW_WISDOM_ONLY (1<<21) => planning does not write to the arrays; a wisdom-only plan
	// may be NULL; FFTW_PRESERVE_INPUT (1<<4) => an out-of-place execution keeps its input
	bool const flags_ok = (log.nplan == 0) || (((log.flags & ((1U << 6) | (1U << 21))) != 0U) && ((log.flags & (1U << 21)) == 0U) && ((log.flags & (1U << 4)) != 0U));
	// ... and what the interposer saw: both arrays bitwise unchanged across every planning call
	bool const plan_pure = (log.plan_touched == 0);

	std::cout << "M " << c.id << " dft=" << (dft_ok ? 1 : 0) << " input=" << (input_ok ? 1 : 0) << " frame=" << (frame_ok ? 1 : 0)
	          << " guards=" << (guards_ok ? 1 : 0) << " fb=" << (fb_ok ? 1 : 0) << " planflags=" << (flags_ok ? 1 : 0)
	          << " planpure=" << (plan_pure ? 1 : 0) << '\n';
	std::cout << "I " << c.id << " N=" << N << " Nt=" << Nt << " maxerr=" << static_cast<double>(maxerr) << " tol=" << static_cast<double>(tol)
	          << " fberr=" << static_cast<double>(fberr) << " fbtol=" << static_cast<double>(fbtol) << " nplan=" << log.nplan << " nexec=" << log.nexec
	          << " ndestroy=" << log.ndestroy << " dft-elements-checked=" << checked << (full ? " (all)" : " (sample)") << " flags=" << log.flags << '\n';
}

static void run_dyn(Case const& c) {
	switch(c.D) {
		case 1: run_case<1>(c); break;
		case 2: run_case<2>(c); break;
		case 3: run_case<3>(c); break;
		case 4: run_case<4>(c); break;
		default: std::cout << "U " << c.id << " rank out of harness range\n";
	}
}

int main() {
	std::string line;
	Case        c;
	bool        open = false;
	while(std::getline(std::cin, line)) {
		if(line.empty() || line[0] == '#') { continue; }
		std::istringstream is(line);
		std::string        kw;
		is >> kw;
		auto ints = [&] { std::vector<idx_t> v; idx_t x = 0; while(is >> x) { v.push_back(x); } return v; };
		if(kw == "case") {
			c = Case{};
			is >> c.id;
			open = true;
		} else if(!open) {
			continue;
		} else if(kw == "dim") {
			is >> c.D;
		} else if(kw == "inroot") {
			c.in.root = ints();
		} else if(kw == "inbase") {
			c.in.rbase = ints();
		} else if(kw == "outbase") {
			c.out.rbase = ints();
		} else if(kw == "outroot") {
			c.out.root = ints();
		} else if(kw == "inop" || kw == "outop") {
			Op op;
			is >> op.name;
			op.a = ints();
			(kw == "inop" ? c.in : c.out).ops.push_back(op);
		} else if(kw == "out") {
			is >> c.mode;
		} else if(kw == "which") {
			auto v = ints();
			c.which.assign(v.begin(), v.end());
		} else if(kw == "sign") {
			is >> c.sign;
		} else if(kw == "api") {
			is >> c.api;
		} else if(kw == "end") {
			alarm(product(c.in.root) > 60000 ? 60 : 10);
			try {
				if(static_cast<int>(c.which.size()) != c.D || static_cast<int>(c.in.root.size()) != c.D) { throw std::runtime_error("malformed case"); }
				run_dyn(c);
			} catch(std::exception const& e) { std::cout << "U " << c.id << ' ' << e.what() << '\n'; }
			alarm(0);
			std::cout << "E " << c.id << std::endl;
			open = false;
		}
	}
	return 0;
}

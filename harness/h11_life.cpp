// h11_life: C11 copy of h_life.cpp over the pointer policy (-DPTR11_KIND=0|1|2: raw, fancy, checked pointer).  The
// allocator is life11::tracked_alloc (common/ptr11_life_alloc.hpp): the lifecycle harness's ledger and traits, with
// pointer = T*, ptr11::fancy_ptr<T> (interleaved arena) or ptr11::checked_ptr<T> (provenance = the block, released blocks
// may not be dereferenced).  Same history text, same observation lines (block identities via the raw address of the
// first element, a harness-side peek); a "K" line carries the checked pointer's violation log and any
// to_address/pointer_to call the library made (must be absent).  pmr configurations do not apply (their pointer is T*).
// Lifecycle harness (C04, C06, C08, C09, C10): a pool of multi::array<T, D, Alloc> objects driven by a history text.
// One executable per configuration:  -DLIFE_D=<1..4> -DLIFE_T=<0 int | 1 tracked | 2 tagged: not trivially default
// constructible, trivially destructible | 3 cell: trivial default constructor, user-provided copy | 4 tracked with a
// noexcept move assignment> -DLIFE_POCCA= -DLIFE_POCMA= -DLIFE_POCS=
// -DLIFE_AE= (tracked_alloc traits) or -DLIFE_PMR=1 (std::pmr::polymorphic_allocator over logging resources).
// After every operation it prints, per live array: extents, elements (moved-from ones flagged with '!'), block identity
// class (numbered by first appearance), get_allocator() id; and globally: alive elements, outstanding blocks, copies
// and allocations where the properties state them.  Monitors that do not depend on the model print 'M' lines.
#include <boost/multi/array.hpp>

#include "common/ptr11_life_alloc.hpp"

#include <algorithm>
#include <cstdio>
#include <cstdlib>
#include <exception>
#include <initializer_list>
#include <iostream>
#include <map>
#include <memory>
#include <new>
#include <sstream>
#include <string>
#include <utility>
#include <vector>

namespace multi = boost::multi;

#ifndef LIFE_D
#define LIFE_D 2
#endif
#ifndef LIFE_T
#define LIFE_T 1
#endif
#ifndef LIFE_POCCA
#define LIFE_POCCA 0
#endif
#ifndef LIFE_POCMA
#define LIFE_POCMA 0
#endif
#ifndef LIFE_POCS
#define LIFE_POCS 0
#endif
#ifndef LIFE_AE
#define LIFE_AE 0
#endif
#ifndef LIFE_PMR
#define LIFE_PMR 0
#endif

constexpr int D = LIFE_D;
#if LIFE_T == 1
using T = life::elem;
constexpr bool tracked = true;
#elif LIFE_T == 4
using T = life::elem_nx;
constexpr bool tracked = true;
#elif LIFE_T == 2
using T = life::tagged;
constexpr bool tracked = false;
#elif LIFE_T == 3
using T = life::cell;
constexpr bool tracked = false;
#else
using T = int;
constexpr bool tracked = false;
#endif
using idx_t = std::ptrdiff_t;

using P = ptr11::policy;
using Ptr = typename P::template ptr<T>;
#if LIFE_PMR
#error "pmr configurations have raw pointers by definition: not part of the C11 replay"
using Alloc = std::pmr::polymorphic_allocator<T>;
constexpr int NRES = 8;
static life::logging_resource g_res[NRES];
static Alloc mk_alloc(int id) { return Alloc(&g_res[id % NRES]); }
static int alloc_id(Alloc const& a) {
	for(int k = 0; k != NRES; ++k) { if(a.resource() == &g_res[k]) { return k; } }
	return -1;
}
#else
using Alloc = life11::tracked_alloc<T, LIFE_POCCA != 0, LIFE_POCMA != 0, LIFE_POCS != 0, LIFE_AE != 0>;
static Alloc mk_alloc(int id) { return Alloc(id); }
static int alloc_id(Alloc const& a) { return a.id; }
#endif

using Arr   = multi::array<T, D, Alloc>;
using Exts  = typename Arr::extensions_type;
using View  = multi::subarray<T, D, Ptr>;
using ConvT = std::conditional_t<tracked, int, short>;   // the "convertible element type"

constexpr int NP = 6;

static int val_of(int x) { return x; }
template<class E> static auto val_of(E const& x) -> decltype(x.v) { return x.v; }

using BExt = std::vector<std::pair<idx_t, idx_t>>;   // per dimension [first, last)
template<std::size_t... I> static Exts mk_exts_(BExt const& e, std::index_sequence<I...> /*u*/) {
	return Exts{multi::iextension{e[I].first, e[I].second}...};
}
static Exts mk_exts(BExt const& e) { return mk_exts_(e, std::make_index_sequence<D>{}); }

template<int DD, std::size_t... I> static auto mk_exts_d_(idx_t const* e, std::index_sequence<I...> /*u*/) {
	return multi::extensions_t<DD>{multi::iextension{0, e[I]}...};
}

struct Pool {
	alignas(Arr) unsigned char buf[NP][sizeof(Arr)];
	bool live[NP] = {};
	Arr& at(int r) { return *std::launder(reinterpret_cast<Arr*>(buf[r])); }  // NOLINT
	void abandon() { for(bool& l : live) { l = false; } }  // objects are dropped without running destructors
};

struct ViewOp { std::string name; idx_t a = 0, b = 0, s = 0; };
struct skip_op {};   // the operation is not applicable in the current state (same rules as the model driver)

static View apply_view_op(View& v, ViewOp const& o) {
	auto re = [](auto&& x) { return View(x.layout(), P::template unconst<T>(x.base())); };
	// documented domains (dom_op of Model/View.v)
	idx_t const f = v.extension().first();
	idx_t const l = v.extension().last();
	if(o.name == "sl" || o.name == "ss") { if(!(f <= o.a && o.a <= o.b && o.b <= l)) { throw skip_op{}; } }
	if(o.name == "ss") { if(!(o.s >= 1 && (o.b - o.a) % o.s == 0)) { throw skip_op{}; } }
	if(o.name == "st") { if(!(o.s >= 1 && v.size() % o.s == 0)) { throw skip_op{}; } }
	if(o.name == "rot") { return re(v.rotated()); }
	if(o.name == "unrot") { return re(v.unrotated()); }
	if(o.name == "rev") { return re(v.reversed()); }
	if(o.name == "sl") { return re(v.sliced(o.a, o.b)); }
	if(o.name == "ss") { return re(v.sliced(o.a, o.b, o.s)); }
	if(o.name == "st") { return re(v.strided(o.s)); }
	if constexpr(D >= 2) {
		if(o.name == "tr") { return re(v.transposed()); }
	}
	std::fprintf(stderr, "unknown view op %s\n", o.name.c_str());
	std::abort();
}

struct Case {
	std::string id;
	Pool pool;
	std::vector<std::string> lines;
	std::map<long, int> blk_class;
	int nclass = 0;
	bool dead = false;  // an illegal transition was reported: the case is abandoned
	int socc = 0;       // what select_on_container_copy_construction returns (0: *this, 1: instance id + 1000)
};

static std::string join(std::vector<idx_t> const& v) {
	std::string s;
	for(std::size_t k = 0; k != v.size(); ++k) { s += (k ? "," : "") + std::to_string(v[k]); }
	return s.empty() ? "-" : s;
}

static std::string exts_text(Arr const& a) {
	std::string s;
	a.extensions().apply([&](auto... e) { ((s += (s.empty() ? "" : ",") + std::to_string(e.first()) + ":" + std::to_string(e.last())), ...); });
	return s.empty() ? "-" : s;
}

// validity of one array as seen from outside: extents consistent with a live block of that many constructed cells
static std::string validity(Arr const& a) {
	idx_t n = a.num_elements();
	if(n < 0) { return "negative-count"; }
	if(n == 0) { return ""; }
	auto const p = a.data_elements();
	auto const* b = life::ledger().find_live(static_cast<void const*>(P::peek(p)));
	if(b == nullptr) { return "no-live-block"; }
	if(static_cast<idx_t>(b->n) != n) { return "block-size-mismatch"; }
	if constexpr(tracked) {
		for(idx_t k = 0; k != n; ++k) {
			if(life::reg().state(P::peek(p + k)) == life::cs::raw) { return "raw-cell"; }
		}
	}
	return "";
}

static void print_state(Case& c, int step, bool show_copies, bool show_allocs) {
	auto& L = life::ledger();
	auto& R = life::reg();
	// monitor: pairwise disjoint element ranges
	for(int r = 0; r != NP; ++r) {
		if(!c.pool.live[r]) { continue; }
		for(int s = r + 1; s != NP; ++s) {
			if(!c.pool.live[s]) { continue; }
			Arr const& a = c.pool.at(r);
			Arr const& b = c.pool.at(s);
			if(a.num_elements() > 0 && b.num_elements() > 0) {
				auto const a0 = a.data_elements(); auto const a1 = a0 + a.num_elements();
				auto const b0 = b.data_elements(); auto const b1 = b0 + b.num_elements();
				if(P::peek(a0) < P::peek(b1) && P::peek(b0) < P::peek(a1)) {
					std::cout << "M " << c.id << ' ' << step << " overlap r" << r << " r" << s << '\n';
				}
			}
		}
	}
	for(int r = 0; r != NP; ++r) {
		if(!c.pool.live[r]) { continue; }
		Arr const& a = c.pool.at(r);
		std::cout << "A " << c.id << ' ' << step << " r" << r << " ext=" << exts_text(a);
		std::string bad = validity(a);
		if(!bad.empty()) {
			std::cout << " INVALID al=" << alloc_id(a.get_allocator()) << '\n';
			std::cout << "M " << c.id << ' ' << step << " invalid r" << r << ' ' << bad << '\n';
			c.dead = true;   // an array whose extents are not backed by live elements cannot be used any further
			continue;
		}
		idx_t n = a.num_elements();
		std::cout << " el=";
		if(n == 0) { std::cout << '-'; }
		auto const p = a.data_elements();
		idx_t k = 0;
		for(auto const& x : a.elements()) {
			std::cout << (k ? "," : "") << val_of(x);
			if constexpr(tracked) {
				if(R.state(&x) == life::cs::moved) { std::cout << '!'; }
			}
			if(std::addressof(x) != P::peek(p + k)) { std::cout << "@"; }  // elements() of an owning array must be its storage in flat order
			++k;
		}
		std::cout << " blk=";
		if(n == 0) { std::cout << '-'; }
		else {
			long ser = L.serial(static_cast<void const*>(P::peek(p)));
			auto it = c.blk_class.find(ser);
			if(it == c.blk_class.end()) { it = c.blk_class.emplace(ser, c.nclass++).first; }
			std::cout << it->second;
		}
		std::cout << " al=" << alloc_id(a.get_allocator()) << '\n';
	}
	std::vector<std::pair<int, idx_t>> out;
	for(auto const& b : L.blocks) { if(b.live) { out.emplace_back(b.owner, static_cast<idx_t>(b.n)); } }
	std::sort(out.begin(), out.end());
	std::cout << "G " << c.id << ' ' << step << " alive=" << (tracked ? R.alive : 0) << " out=";
	if(out.empty()) { std::cout << '-'; }
	for(std::size_t k = 0; k != out.size(); ++k) { std::cout << (k ? "," : "") << out[k].first << ':' << out[k].second; }
	std::cout << " copies=";
	if(show_copies && tracked) { std::cout << R.copies; } else { std::cout << '-'; }
	std::cout << " allocs=";
	if(show_allocs) { std::cout << L.allocs; } else { std::cout << '-'; }
	std::cout << '\n';
}

struct Tok {
	std::vector<std::string> t;
	std::size_t k = 0;
	bool more() const { return k < t.size() && t[k] != "|"; }
	std::string s() { return t.at(k++); }
	idx_t i() { return std::stol(t.at(k++)); }
	int slot() { std::string x = s(); return std::stoi(x.substr(1)); }   // rN
	bool const* live = nullptr;
	int fresh() { int r = slot(); if(live[r]) { throw skip_op{}; } return r; }     // a slot to construct into
	int alive() { int r = slot(); if(!live[r]) { throw skip_op{}; } return r; }    // a slot holding an array
	BExt exts() {   // an extent token is "n" for [0,n) or "f:l" for [f,l)
		BExt e(D);
		for(auto& x : e) {
			std::string w = s();
			auto pos = w.find(':');
			if(pos == std::string::npos) { x = {0, std::stol(w)}; }
			else { x = {std::stol(w.substr(0, pos)), std::stol(w.substr(pos + 1))}; }
		}
		return e;
	}
	std::vector<ViewOp> viewops() {
		std::vector<ViewOp> ops;
		while(k < t.size()) {
			if(t[k] == "|") { ++k; continue; }
			if(t[k] == "/") { ++k; break; }   // end of the first of two view programs
			ViewOp o; o.name = s();
			if(o.name == "sl") { o.a = i(); o.b = i(); }
			if(o.name == "ss") { o.a = i(); o.b = i(); o.s = i(); }
			if(o.name == "st") { o.s = i(); }
			ops.push_back(o);
		}
		return ops;
	}
};

static View view_of(Arr& a, std::vector<ViewOp> const& ops) {
	// never assign a view (deep assignment): every step builds a fresh holder
	auto v = std::make_unique<View>(a.layout(), P::template unconst<T>(a.base()));
	if(a.num_elements() == 0) { return View(v->layout(), v->base()); }  // views of an empty array are not sliced (null base)
	for(auto const& o : ops) {
		View w = apply_view_op(*v, o);
		v = std::make_unique<View>(w.layout(), w.base());
	}
	return View(v->layout(), v->base());
}

// rows of a range / initializer list: k rows with inner extents ie (D-1 numbers) and flat values
struct Rows {
	idx_t k = 0;
	std::vector<idx_t> ie;
	std::vector<int> vals;
};
static Rows read_rows(Tok& tk) {
	Rows r;
	r.k = tk.i();
	idx_t per = 1;
	for(int d = 0; d != D - 1; ++d) { r.ie.push_back(tk.i()); per *= r.ie.back(); }
	for(idx_t j = 0; j != r.k * per; ++j) { r.vals.push_back(static_cast<int>(tk.i())); }
	return r;
}

using Row  = std::conditional_t<(D > 1), multi::array<T, (D > 1 ? D - 1 : 1)>, T>;   // value_type of array<T,D> with std::allocator (initializer-list constructor)
using ARow = typename Arr::value_type;                                               // array<T,D-1,Alloc>: what operator=(initializer_list) takes

template<class Row> static std::vector<Row> build_rows(Rows const& r) {
	std::vector<Row> rows;
	rows.reserve(static_cast<std::size_t>(r.k));
	if constexpr(D == 1) {
		for(idx_t j = 0; j != r.k; ++j) { rows.emplace_back(r.vals[static_cast<std::size_t>(j)]); }
	} else {
		idx_t per = 1;
		for(auto e : r.ie) { per *= e; }
		for(idx_t j = 0; j != r.k; ++j) {
			rows.emplace_back(mk_exts_d_<D - 1>(r.ie.data(), std::make_index_sequence<D - 1>{}));
			idx_t q = 0;
			for(auto& x : rows.back().elements()) { x = T(r.vals[static_cast<std::size_t>(j * per + q)]); ++q; }
		}
	}
	return rows;
}

template<class Row, class F> static void with_il(std::vector<Row> const& rows, F&& f) {
	using IL = std::initializer_list<Row>;
	switch(rows.size()) {
		case 0: { IL il = {}; f(il); break; }
		case 1: { IL il = {rows[0]}; f(il); break; }
		case 2: { IL il = {rows[0], rows[1]}; f(il); break; }
		case 3: { IL il = {rows[0], rows[1], rows[2]}; f(il); break; }
		case 4: { IL il = {rows[0], rows[1], rows[2], rows[3]}; f(il); break; }
		default: std::fprintf(stderr, "initializer list too long\n"); std::abort();
	}
}

static multi::array<ConvT, D> build_conv(BExt const& e, Tok& tk) {
	multi::array<ConvT, D> src(mk_exts(e));
	for(auto& x : src.elements()) { x = static_cast<ConvT>(tk.i()); }
	return src;
}

// assignment between rows of two arrays (D >= 2)
template<int DD, class A> static bool rows_compatible(A& a, A& b, idx_t i, idx_t j) {
	if constexpr(DD >= 2) { return a[i].extensions() == b[j].extensions(); } else { (void)a; (void)b; (void)i; (void)j; return false; }
}
template<int DD, class A> static void row_assign(A& a, A& b, idx_t i, idx_t j, int form) {
	if constexpr(DD >= 2) {
		switch(form) {
			case 0: { auto&& row = a[i]; row = b[j]; break; }   // named row = rvalue row of the same type: operator=(subarray&&) &
			case 1: a[i] = b[j]; break;                          // row = row, both temporaries
			default: { auto&& row = a[i]; auto&& src = b[j]; row = std::as_const(src); break; }   // operator=(subarray const&) &
		}
	} else { (void)a; (void)b; (void)i; (void)j; (void)form; }
}

// does the operation need no new storage (the property states: such operations do not allocate)?
static bool same_exts(Arr const& a, BExt const& e) { return a.extensions() == mk_exts(e); }

static void run_case(Case& c, long fault) {
	auto& R = life::reg();
	auto& L = life::ledger();
	R.reset();
	life11::reset_ledger<T>();
	ptr11::vlog::clear(); ptr11::vlog::n_to_address() = 0; ptr11::vlog::n_pointer_to() = 0;
#if LIFE_PMR
	for(int k = 0; k != NRES; ++k) { g_res[k].id = k; g_res[k].elem_size = sizeof(T); g_res[k].check_cells = tracked; }
	std::pmr::set_default_resource(&g_res[0]);
	L.always_equal = false;
#else
	L.always_equal = (LIFE_AE != 0);
#endif
	L.socc_mode = c.socc;
	R.countdown = fault;
	int step = 0;
	auto& P = c.pool;
	for(auto const& line : c.lines) {
		Tok tk;
		tk.live = P.live;
		{ std::istringstream is(line); std::string w; while(is >> w) { tk.t.push_back(w); } }
		if(tk.t.empty()) { continue; }
		std::string kw = tk.s();
		if(kw != "op") { continue; }
		++step;
		std::string op = tk.s();
		bool show_copies = false;
		bool show_allocs = false;
		bool threw = false;
		bool skipped = false;
		int probe_dst = -1, probe_src = -1;   // aliasing probe after a copying operation
		auto arm = [&] { R.reset_counts(); L.allocs = 0; R.armed = true; };
		auto ai = [&] { return static_cast<int>(tk.i()); };
		try {
			if(op == "ctor_default") {
				int r = tk.fresh(); int a = ai();
				arm(); new(P.buf[r]) Arr(mk_alloc(a)); P.live[r] = true;
			} else if(op == "ctor_sized") {
				int r = tk.fresh(); int a = ai(); auto e = tk.exts();
				arm(); new(P.buf[r]) Arr(mk_exts(e), mk_alloc(a)); P.live[r] = true;
			} else if(op == "ctor_fill") {
				int r = tk.fresh(); int a = ai(); auto e = tk.exts(); T v(ai());
				arm(); new(P.buf[r]) Arr(mk_exts(e), v, mk_alloc(a)); P.live[r] = true;
			} else if(op == "ctor_copy") {
				int r = tk.fresh(); int s = tk.alive();
				arm(); new(P.buf[r]) Arr(std::as_const(P.at(s))); P.live[r] = true;
				probe_dst = r; probe_src = s;
			} else if(op == "uplus") {
				int r = tk.fresh(); int s = tk.alive();
				arm(); new(P.buf[r]) Arr(+std::as_const(P.at(s))); P.live[r] = true;
				probe_dst = r; probe_src = s;
			} else if(op == "ctor_copy_alloc") {
				int r = tk.fresh(); int s = tk.alive(); int a = ai();
				arm(); new(P.buf[r]) Arr(std::as_const(P.at(s)), mk_alloc(a)); P.live[r] = true;
				probe_dst = r; probe_src = s;
			} else if(op == "ctor_move") {
				int r = tk.fresh(); int s = tk.alive();
				show_copies = true; show_allocs = true;
				arm(); new(P.buf[r]) Arr(std::move(P.at(s))); P.live[r] = true;
			} else if(op == "ctor_move_alloc") {
				int r = tk.fresh(); int s = tk.alive(); int a = ai();
				show_copies = true;
				arm(); new(P.buf[r]) Arr(std::move(P.at(s)), mk_alloc(a)); P.live[r] = true;
			} else if(op == "ctor_view") {
				int r = tk.fresh(); int a = ai(); int s = tk.alive();
				View v = view_of(P.at(s), tk.viewops());
				arm(); new(P.buf[r]) Arr(v, mk_alloc(a)); P.live[r] = true;
			} else if(op == "ctor_range") {
				int r = tk.fresh(); int a = ai();
				auto rows = build_rows<Row>(read_rows(tk));
				arm(); new(P.buf[r]) Arr(rows.begin(), rows.end(), mk_alloc(a)); P.live[r] = true;
			} else if(op == "ctor_il") {
				int r = tk.fresh();
				auto rows = build_rows<Row>(read_rows(tk));
				with_il(rows, [&](std::initializer_list<Row> il) { arm(); new(P.buf[r]) Arr(il); P.live[r] = true; });
			} else if(op == "ctor_conv") {
				int r = tk.fresh(); auto e = tk.exts(); auto src = build_conv(e, tk);
				arm(); new(P.buf[r]) Arr(src); P.live[r] = true;
			} else if(op == "assign_copy") {
				int r = tk.alive(); int s = tk.alive();
				show_allocs = (P.at(r).extensions() == P.at(s).extensions())
				              && (LIFE_POCCA == 0 || LIFE_PMR != 0 || P.at(r).get_allocator() == P.at(s).get_allocator());
				arm(); P.at(r) = std::as_const(P.at(s));
				if(r != s) { probe_dst = r; probe_src = s; }
			} else if(op == "assign_move") {
				int r = tk.alive(); int s = tk.alive();
				show_copies = true;
				show_allocs = (LIFE_PMR == 0 && ((LIFE_POCMA != 0) || (LIFE_AE != 0))) || (alloc_id(P.at(r).get_allocator()) == alloc_id(P.at(s).get_allocator()));
				arm(); P.at(r) = std::move(P.at(s));
			} else if(op == "assign_view" || op == "assign_cview") {
				int r = tk.alive(); int s = tk.alive();
				if(r == s) { throw skip_op{}; }
				View v = view_of(P.at(s), tk.viewops());
				show_allocs = (P.at(r).extensions() == v.extensions());
				if(op == "assign_view") {
					arm(); P.at(r) = v;      // a mutable view binds to operator=(Range&&)
				} else {
					multi::const_subarray<T, D, Ptr> cv(v.layout(), v.base());
					arm(); P.at(r) = std::as_const(cv);     // operator=(const_subarray const&)
				}
			} else if(op == "assign_range") {
				int r = tk.alive(); auto rows = build_rows<Row>(read_rows(tk));
				if(rows.empty()) { throw skip_op{}; }
				arm(); P.at(r).assign(rows.begin(), rows.end());
			} else if(op == "assign_il") {
				int r = tk.alive(); auto rows = build_rows<ARow>(read_rows(tk));
				with_il(rows, [&](std::initializer_list<ARow> il) { arm(); P.at(r) = il; });
			} else if(op == "assign_fill") {
				int r = tk.alive(); auto e = tk.exts(); T v(ai());
				show_allocs = same_exts(P.at(r), e);
#ifndef LIFE_NO_ASSIGN_FILL
				arm(); P.at(r).assign(mk_exts(e), v);
#else
				throw skip_op{};
#endif
			} else if(op == "assign_conv") {
				int r = tk.alive(); auto e = tk.exts(); auto src = build_conv(e, tk);
				show_allocs = (P.at(r).extensions() == src.extensions());
				arm(); P.at(r) = src;
			} else if(op == "vassign") {
				// assignment through views of two different arrays: no storage is needed, elements are copy assigned
				int form = ai(); int r = tk.alive(); int s = tk.alive();
				if(r == s) { throw skip_op{}; }
				auto opsR = tk.viewops(); auto opsS = tk.viewops();
				View d = view_of(P.at(r), opsR);
				View q = view_of(P.at(s), opsS);
				if(!(d.extensions() == q.extensions())) { throw skip_op{}; }
				show_allocs = true;
				arm();
				switch(form) {
					case 0: d = std::as_const(q); break;             // named = lvalue view: operator=(subarray const&) &
					case 1: d = std::move(q); break;                 // named = rvalue view of the same type: operator=(subarray&&) &
					case 2: std::move(d) = std::as_const(q); break;  // a temporary on the left
					default: d.elements() = q.elements(); break;     // elements() = elements()
				}
			} else if(op == "vassign_row") {
				int form = ai(); int r = tk.alive(); idx_t i = tk.i(); int s = tk.alive(); idx_t j = tk.i();
				if(D < 2 || r == s) { throw skip_op{}; }
				Arr& a = P.at(r); Arr& b = P.at(s);
				if(a.num_elements() == 0 || b.num_elements() == 0) { throw skip_op{}; }
				if(!(a.extension().first() <= i && i < a.extension().last())) { throw skip_op{}; }
				if(!(b.extension().first() <= j && j < b.extension().last())) { throw skip_op{}; }
				if(!rows_compatible<D>(a, b, i, j)) { throw skip_op{}; }
				show_allocs = true;
				arm();
				row_assign<D>(a, b, i, j, form);
			} else if(op == "swap") {
				int r = tk.alive(); int s = tk.alive();
				// the standard's container rule: swapping with non-propagating allocators needs equal allocators
				bool const propagates = (LIFE_PMR == 0) && (LIFE_POCS != 0);
				if(!(propagates || P.at(r).get_allocator() == P.at(s).get_allocator())) { throw skip_op{}; }
				show_copies = true; show_allocs = true;
				arm(); P.at(r).swap(P.at(s));
			} else if(op == "clear") {
				int r = tk.alive();
				show_allocs = true;
				arm(); P.at(r).clear();
			} else if(op == "reextent") {
				int r = tk.alive(); auto e = tk.exts();
				show_allocs = same_exts(P.at(r), e);
				arm(); P.at(r).reextent(mk_exts(e));
			} else if(op == "reextent_fill") {
				int r = tk.alive(); auto e = tk.exts(); T v(ai());
				show_allocs = same_exts(P.at(r), e);
				arm(); P.at(r).reextent(mk_exts(e), v);
			} else if(op == "reextent_move") {
				int r = tk.alive(); auto e = tk.exts();
				show_allocs = same_exts(P.at(r), e);
				arm(); std::move(P.at(r)).reextent(mk_exts(e));
			} else if(op == "reshape") {
				int r = tk.alive(); auto e = tk.exts();
				if(multi::layout_t<D>(mk_exts(e)).num_elements() != P.at(r).num_elements()) { throw skip_op{}; }
				show_allocs = true;
				arm(); P.at(r).reshape(mk_exts(e));
			} else if(op == "write") {
				int r = tk.alive(); idx_t k = tk.i(); T v(ai());
				if(k >= P.at(r).num_elements()) { throw skip_op{}; }
				show_allocs = true;
				R.reset_counts(); L.allocs = 0;
				P.at(r).elements()[k] = v;   // the harness's own write: not a fallible library event
			} else if(op == "eq") {
				int r = tk.alive(); int s = tk.alive();
				bool const e = (std::as_const(P.at(r)) == std::as_const(P.at(s)));
				bool const ne = (std::as_const(P.at(r)) != std::as_const(P.at(s)));
				std::cout << "Q " << c.id << ' ' << step << " eq=" << (e ? 1 : 0) << '\n';
				if(e == ne) { std::cout << "M " << c.id << ' ' << step << " eq-ne-inconsistent r" << r << " r" << s << '\n'; }
				continue;
			} else if(op == "destroy") {
				int r = tk.alive();
				arm(); P.live[r] = false; P.at(r).~Arr();
			} else {
				std::fprintf(stderr, "unknown op %s\n", op.c_str());
				std::abort();
			}
		} catch(skip_op const&) {
			skipped = true;
		} catch(life::injected const&) {
			threw = true;
		} catch(std::bad_alloc const&) {
			threw = true;
		}
		R.armed = false;
		if(skipped) {
			std::cout << "O " << c.id << ' ' << step << ' ' << op << " skipped\n";
			continue;
		}
		if(!R.error.empty()) {
			std::cout << "X " << c.id << ' ' << step << " error " << R.error << '\n';
			c.dead = true;
			break;
		}
		std::cout << "O " << c.id << ' ' << step << ' ' << op << ' ' << (threw ? "threw" : "ok");
		if(threw) { std::cout << " at=" << R.thrown_at; }
		std::cout << '\n';
		print_state(c, step, show_copies && !threw, show_allocs && !threw);
		std::cout.flush();
		if(c.dead) { break; }
		// write-to-one-invisible-to-other probe after a copying operation
		if(!threw && probe_dst >= 0 && P.live[probe_dst] && P.live[probe_src]) {
			Arr& d = P.at(probe_dst);
			Arr& s = P.at(probe_src);
			if(d.num_elements() > 0 && s.num_elements() > 0 && validity(d).empty() && validity(s).empty()) {
				int before = val_of(*s.data_elements());
				int keep = val_of(*d.data_elements());
				bool was_moved = false;
				if constexpr(tracked) { was_moved = (R.state(P::peek(d.data_elements())) == life::cs::moved); }
				*d.data_elements() = T(before + 7777);
				if(val_of(*s.data_elements()) != before) { std::cout << "M " << c.id << ' ' << step << " aliasing r" << probe_dst << " r" << probe_src << '\n'; }
				*d.data_elements() = T(keep);
				if constexpr(tracked) { if(was_moved) { R.mark_moved(P::peek(d.data_elements())); } }
			}
		}
	}
	// end of the case: destroy what is left, then the ledger and the registry must be balanced
	if(!c.dead) {
		for(int r = 0; r != NP; ++r) {
			if(c.pool.live[r]) { c.pool.live[r] = false; c.pool.at(r).~Arr(); }
		}
		if(!R.error.empty()) {
			std::cout << "X " << c.id << " end error " << R.error << '\n';
		} else {
			long outstanding = 0;
			for(auto const& b : L.blocks) { if(b.live) { ++outstanding; } }
			std::cout << "Z " << c.id << " alive=" << (tracked ? R.alive : 0) << " outstanding=" << outstanding << " fallible=" << R.fallible << '\n';
		}
	} else {
		c.pool.abandon();
	}
	ptr11::report_case(std::cout, c.id, true);
	std::cout << "E " << c.id << '\n';
}

int main() {
	std::ios::sync_with_stdio(false);
	// an exception that escapes a noexcept function of the library ends here: it did not reach the caller
	std::set_terminate([] {
		std::cout.flush();
		std::fputs("terminate called: an exception thrown inside the library did not reach the caller (std::terminate)\n", stderr);
		std::abort();
	});
	std::string line;
	Case* cur = nullptr;
	long fault = 0;
	while(std::getline(std::cin, line)) {
		if(line.rfind("case ", 0) == 0) {
			cur = new Case();
			cur->id = line.substr(5);
			fault = 0;
		} else if(cur != nullptr && line.rfind("fault ", 0) == 0) {
			fault = std::stol(line.substr(6));
		} else if(cur != nullptr && line.rfind("cfg ", 0) == 0) {
			// the check routes cases to the executable built for this configuration; only socc is a run-time choice
			auto pos = line.find("socc=");
			if(pos != std::string::npos) { cur->socc = std::stoi(line.substr(pos + 5)); }
		} else if(cur != nullptr && line == "end") {
			run_case(*cur, fault);
			std::cout.flush();
			delete cur;
			cur = nullptr;
		} else if(cur != nullptr) {
			cur->lines.push_back(line);
		}
	}
	return 0;
}

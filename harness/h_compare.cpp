// h_compare: all relational operators on pairs of views / arrays (C07).
// Input: case <id> / xroot <a|b|c> D f l ... | xshare <name> <other> / xop <name> <op> / xdata <name> v... / cmp / end
// Output: V lines (sizes), C lines: for each ordered pair the results of == != < <= > (>= for D = 1) on the views,
// on owning copies of them, and == != between a view and an owning copy.
#include "common/dynview.hpp"
#include <functional>

using dv::idx_t;

template<int D, std::size_t... I>
auto make_ext(std::vector<std::pair<idx_t, idx_t>> const& e, std::index_sequence<I...> /*unused*/) {
	return multi::extensions_t<D>{multi::iextension{e[I].first, e[I].second}...};
}
struct Rt {
	std::shared_ptr<void> keep; int* data = nullptr; idx_t n = 0; std::unique_ptr<dv::Base<int>> view;
	std::function<std::unique_ptr<dv::Base<int>>()> fresh;  // another view of the whole root (xshare: aliasing operands)
};
template<int D> Rt make_root(std::vector<std::pair<idx_t, idx_t>> const& e) {
	auto x = make_ext<D>(e, std::make_index_sequence<D>{});
	idx_t n = 1;
	for(auto const& p : e) { n *= (p.second - p.first); }
	auto buf = std::make_shared<std::vector<int>>(static_cast<std::size_t>(n) + 1, 0);
	multi::array_ref<int, D> ref(buf->data(), x);
	Rt r;
	r.n = n;
	r.data = buf->data();
	r.view = std::make_unique<dv::Holder<int, D>>(ref.layout(), ref.base());
	r.fresh = [lay = ref.layout(), base = ref.base()]() -> std::unique_ptr<dv::Base<int>> { return std::make_unique<dv::Holder<int, D>>(lay, base); };
	r.keep = buf;
	return r;
}
Rt make_root0() {  // rank 0: one cell; compared by cmp0 below, no view program applies to it
	auto buf = std::make_shared<std::vector<int>>(2, 0);
	Rt r;
	r.n = 1;
	r.data = buf->data();
	r.keep = buf;
	return r;
}
Rt make_root_dyn(int D, std::vector<std::pair<idx_t, idx_t>> const& e) {
	switch(D) {
		case 0: return make_root0();
		case 1: return make_root<1>(e);
		case 2: return make_root<2>(e);
		case 3: return make_root<3>(e);
		case 4: return make_root<4>(e);
		case 5: return make_root<5>(e);
		default: throw dv::unsupported("root rank");
	}
}

struct Cmp : dv::Typed<int, Cmp> {
	dv::Base<int>* other = nullptr;
	std::string out;
	template<int D> void go(dv::V<int, D>& a) {
		auto* oh = dynamic_cast<dv::Holder<int, D>*>(other);
		if(oh == nullptr) { throw dv::unsupported("rank mismatch"); }
		auto const& b = oh->v;
		auto bit = [](bool x) { return x ? '1' : '0'; };
		std::string s = "view=";
		s += bit(a == b); s += bit(a != b); s += bit(a < b); s += bit(a <= b); s += bit(a > b);
#ifdef C07_HAS_GE
		s += bit(a >= b);
#else
		if constexpr(D == 1) { s += bit(a >= b); } else { s += '-'; }
#endif
		multi::array<int, D> A(a);
		multi::array<int, D> B(b);
		s += " array=";
		s += bit(A == B); s += bit(A != B); s += bit(A < B); s += bit(A <= B); s += bit(A > B);
		s += " mixed=";
		s += bit(a == B); s += bit(a != B);
		// convertible element type, pointer-to-const views and references: same answers
		multi::array<double, D> Bd(b);
		multi::array_cref<int, D> Bc(B.data_elements(), B.extensions());
		s += bit(a == Bd()); s += bit(a != Bd());
		s += bit(a == Bc()); s += bit(a != Bc());
		s += bit(a == Bc); s += bit(a != Bc);
		// a convertible element type whose values are NOT representable in the left-hand type: never equal (unless empty)
		multi::array<double, D> Bh(b);
		for(auto& x : Bh.elements()) { x += 0.5; }
		s += bit(a == Bh()); s += bit(a != Bh()); s += bit(Bh() == a); s += bit(Bh() != a);
		out = s;
	}
};

// rank 0: references (array_ref<int, 0>), owning arrays, mixed kinds, convertible element type, const, cref
std::string cmp0(int* pa, int* pb) {
#ifdef C07_HAS_RANK0
	auto bit = [](bool x) { return x ? '1' : '0'; };
	multi::array_ref<int, 0> a(pa, {});
	multi::array_ref<int, 0> b(pb, {});
	std::string s = "view=";
	s += bit(a == b); s += bit(a != b); s += bit(a < b); s += bit(a <= b); s += bit(a > b); s += bit(a >= b);
	multi::array<int, 0> A(*pa);
	multi::array<int, 0> B(*pb);
	s += " array=";
	s += bit(A == B); s += bit(A != B); s += bit(A < B); s += bit(A <= B); s += bit(A > B);
	s += " mixed=";
	s += bit(a == B); s += bit(a != B);
	multi::array<double, 0> Bd(static_cast<double>(*pb));
	multi::array<int, 0> const cB(*pb);
	multi::array_cref<int, 0> Bc(B.data_elements(), {});
	s += bit(a == Bd); s += bit(a != Bd);
	s += bit(A == cB); s += bit(A != cB);
	s += bit(a == Bc); s += bit(a != Bc);
	multi::array<double, 0> Bh(static_cast<double>(*pb) + 0.5);
	s += bit(a == Bh); s += bit(a != Bh); s += bit(Bh == a); s += bit(Bh != a);
	return s;
#else
	(void)pa; (void)pb;
	throw dv::unsupported("rank-0 comparison does not compile on this tree");
#endif
}

int main() {
	std::string line;
	std::string id;
	Rt roots[3];
	bool dead = false;
	auto idx = [](std::string const& n) { return n == "a" ? 0 : (n == "b" ? 1 : 2); };
	while(std::getline(std::cin, line)) {
		if(line.empty() || line[0] == '#') { continue; }
		std::istringstream is(line);
		std::string kw;
		is >> kw;
		try {
			if(kw == "case") { is >> id; dead = false; }
			else if(kw == "xroot") {
				std::string n; int D = 0;
				is >> n >> D;
				std::vector<std::pair<idx_t, idx_t>> e(static_cast<std::size_t>(D));
				for(auto& p : e) { is >> p.first >> p.second; }
				roots[idx(n)] = make_root_dyn(D, e);
			} else if(kw == "xshare") {  // operand n is a view over operand m's root: same storage
				std::string n; std::string m;
				is >> n >> m;
				auto const& src = roots[idx(m)];
				if(!src.fresh) { throw dv::unsupported("xshare of a rank-0 root"); }
				Rt r;
				r.keep = src.keep; r.data = src.data; r.n = src.n; r.fresh = src.fresh; r.view = src.fresh();
				roots[idx(n)] = std::move(r);
			} else if(kw == "xop") {
				if(dead) { continue; }
				std::string n;
				is >> n;
				auto op = dv::parse_op(is);
				auto& r = roots[idx(n)];
				if(!r.view) { throw dv::unsupported("view operation on a rank-0 root"); }
				auto nv = r.view->apply(op);
				r.view = std::move(nv);
			} else if(kw == "xdata") {
				std::string n;
				is >> n;
				auto& r = roots[idx(n)];
				int x = 0;
				idx_t k = 0;
				while(is >> x && k < r.n) { r.data[k++] = x; }
			} else if(kw == "cmp") {
				if(dead) { continue; }
				char const* names[3] = {"a", "b", "c"};
				if(!roots[0].view) {  // rank 0
					int const pairs0[7][2] = {{0, 1}, {1, 0}, {0, 2}, {2, 0}, {1, 2}, {2, 1}, {0, 0}};
					std::string lines;
					for(auto const& pq : pairs0) {
						lines += "C " + id + ' ' + names[pq[0]] + names[pq[1]] + ' ' + cmp0(roots[pq[0]].data, roots[pq[1]].data) + '\n';
					}
					for(auto const* nm : names) { std::cout << "V " << id << ' ' << nm << " sizes=\n"; }
					std::cout << lines;
					continue;
				}
				for(int k = 0; k != 3; ++k) {
					auto sz = roots[k].view->sizes();
					std::cout << "V " << id << ' ' << names[k] << " sizes=" << dv::join(sz.begin(), sz.end()) << '\n';
				}
				int const pairs[7][2] = {{0, 1}, {1, 0}, {0, 2}, {2, 0}, {1, 2}, {2, 1}, {0, 0}};
				for(auto const& pq : pairs) {
					Cmp c;
					c.other = roots[pq[1]].view.get();
					roots[pq[0]].view->accept(c);
					std::cout << "C " << id << ' ' << names[pq[0]] << names[pq[1]] << ' ' << c.out << '\n';
				}
			} else if(kw == "end") { std::cout << "E " << id << '\n'; }
		} catch(dv::unsupported const& u) {
			std::cout << "U " << id << " 0 " << u.what() << '\n';
			dead = true;
		}
	}
	return 0;
}

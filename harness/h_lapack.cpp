// C14 harness: runs boost::multi's LAPACK adaptor (potrf, geqrf, gesvd, syev; syev only with
// -DC14_WITH_SYEV, which vlib/c14.py sets when harness/c14_syev_probe.cpp compiles) on generated views and prints
//   L <id> ...   one line per intercepted Fortran call (arguments as the library computed them;
//                pointers as offsets into the registered operand buffers)
//   W <id> ...   workspace allocate / deallocate events (logging allocator)
//   I <id> ...   info of the factorization (potrf, syev)
//   V <id> ...   the returned view (base, strides, sizes)
//   X <id> ...   exception
//   M <id> <name> ok|FAIL ...   direct property monitors (numeric oracle, guard cells, untouched
//                triangle, ordering, shape of the returned block) -- independent of the model
//   N <id> ...   informational note (never a verdict)
//   E <id>       end of case
// Input: case blocks on stdin (format: ocaml/c14_driver.ml).  Compiled on every check against
// BM_REPO/include.  Assertions are enabled (no -DNDEBUG).
// potrf.hpp and geqrf.hpp/syev.hpp cannot be included in one translation unit
// (lapack/filling.hpp defines enum lapack::filling, geqrf.hpp/syev.hpp say `using blas::filling;` in
// the same namespace), so the harness is built twice: -DC14_PART_POTRF and -DC14_PART_REST.
#if defined(C14_PART_POTRF)
#include <boost/multi/adaptors/lapack/potrf.hpp>
#else
#include <boost/multi/adaptors/lapack/geqrf.hpp>
#include <boost/multi/adaptors/lapack/gesvd.hpp>
#ifdef C14_WITH_SYEV
#include <boost/multi/adaptors/lapack/syev.hpp>
#endif
#endif
#include <boost/multi/array.hpp>

#include "common/c14_log.hpp"

#include <algorithm>
#include <cmath>
#include <cstdint>
#include <cstdio>
#include <cstring>
#include <iostream>
#include <limits>
#include <map>
#include <memory>
#include <random>
#include <sstream>
#include <stdexcept>
#include <string>
#include <tuple>
#include <vector>

namespace multi = boost::multi;
using idx = std::ptrdiff_t;

namespace {

constexpr idx GUARD = 24;
constexpr double EPS = std::numeric_limits<double>::epsilon();
constexpr double TOLC = 200.0;

struct Opnd2 { std::string name; idx R = 0, C = 0, r0 = 0, c0 = 0, nr = 0, nc = 0; bool t = false; idx is = 1; };  // is: inner-stride multiplier (probes outside the domain)
struct Opnd1 { std::string name; idx len = 0, off = 0, n = 0; };
struct Case {
	std::string id, routine, kind = "rand";
	int form = 0; idx minor = 0; bool upper = true; std::uint64_t vseed = 0;
	std::vector<Opnd2> mats; std::vector<Opnd1> vecs;
	Opnd2 const& mat(std::string const& n) const { for(auto const& m : mats) { if(m.name == n) { return m; } } throw std::runtime_error("no mat " + n); }
	Opnd1 const& vec(std::string const& n) const { for(auto const& v : vecs) { if(v.name == n) { return v; } } throw std::runtime_error("no vec " + n); }
};

struct Rng {
	std::mt19937_64 eng;
	explicit Rng(std::uint64_t s) : eng(s * 2654435761ULL + 12345ULL) {}
	double unif() { return static_cast<double>(eng() >> 11U) * (1.0 / 9007199254740992.0); }  // [0,1)
	double sym() { return 2.0 * unif() - 1.0; }
};

// a named buffer: [guard | root area of len doubles | guard]
struct Buf {
	std::string name; idx len = 0; std::vector<double> store, before;
	double* root() { return store.data() + GUARD; }
	Buf(std::string nm, idx n, Rng& rng) : name(std::move(nm)), len(n), store(static_cast<std::size_t>(n + 2 * GUARD)) {
		for(auto& x : store) { x = 1000.0 + rng.unif(); }   // junk, recognisable
	}
	void snapshot() { before = store; }
	// every cell (guards included) for which keep(offset relative to root) is false must be bitwise unchanged
	template<class Keep> idx changed_outside(Keep keep) const {
		idx bad = 0;
		for(std::size_t k = 0; k != store.size(); ++k) {
			idx const off = static_cast<idx>(k) - GUARD;
			if(keep(off)) { continue; }
			if(std::memcmp(&store[k], &before[k], sizeof(double)) != 0) { ++bad; }
		}
		return bad;
	}
};

struct Registry {
	std::vector<std::tuple<std::string, double const*, idx>> bufs;
	void add(std::string const& n, double const* p, idx len) { bufs.emplace_back(n, p, len); }
	std::string fmt(double const* p) const {
		for(auto const& [n, b, len] : bufs) {
			if(p >= b && p <= b + len) { return n + "+" + std::to_string(p - b); }
		}
		return "tmp";
	}
	bool inside(double const* p) const { return fmt(p) != "tmp"; }
};

// logging allocator for the workspace
template<class T> struct LogAlloc {
	using value_type = T;
	LogAlloc() = default;
	template<class U> LogAlloc(LogAlloc<U> const& /*o*/) {}  // NOLINT
	T* allocate(std::size_t n) {
		T* p = std::allocator<T>{}.allocate(n);
		c14_rec r{}; r.kind = 10; r.p = p; r.cnt = static_cast<long>(n); c14_log_push(&r);
		return p;
	}
	void deallocate(T* p, std::size_t n) {
		c14_rec r{}; r.kind = 11; r.p = p; r.cnt = static_cast<long>(n); c14_log_push(&r);
		std::allocator<T>{}.deallocate(p, n);
	}
	friend bool operator==(LogAlloc const& /*a*/, LogAlloc const& /*b*/) { return true; }
	friend bool operator!=(LogAlloc const& /*a*/, LogAlloc const& /*b*/) { return false; }
};

using Dense = std::vector<double>;  // row-major, explicit dims

void mon(std::string const& id, std::string const& name, bool ok, std::string const& detail = "") {
	std::cout << "M " << id << ' ' << name << (ok ? " ok" : " FAIL") << (detail.empty() ? "" : " ") << detail << '\n';
}
std::string num(double x) { std::ostringstream o; o.precision(3); o << x; return o.str(); }

// ------------------------------------------------------------------------------------------------
// printing the intercepted calls
// ------------------------------------------------------------------------------------------------
void print_log(std::string const& id, Registry const& reg) {
	double last_query[4] = {0, 0, 0, 0}; bool have_query[4] = {false, false, false, false};
	void const* block = nullptr; long block_n = 0; int block_kind = -1;
	int const n = c14_log_size();
	// which routine the allocation serves: the next LAPACK record
	auto next_kind = [&](int k) { for(int j = k + 1; j < n; ++j) { if(c14_log_at(j)->kind < 10) { return c14_log_at(j)->kind; } } return -1; };
	auto lw = [&](int kind, int lwork) -> std::string {
		if(lwork != -1 && have_query[kind] && lwork == static_cast<int>(last_query[kind])) { return "Q"; }
		return std::to_string(lwork);
	};
	auto wk = [&](c14_rec const& r) -> std::string {
		if(block != nullptr && r.work == block) { return "alloc"; }
		if(reg.inside(r.work)) { return reg.fmt(r.work); }
		return r.lwork == -1 ? "local" : "other";
	};
	for(int k = 0; k != n; ++k) {
		c14_rec const& r = *c14_log_at(k);
		switch(r.kind) {
		case 0:
			std::cout << "L " << id << " dpotrf uplo=" << r.c1 << " n=" << r.n << " a=" << reg.fmt(r.a) << " lda=" << r.lda << " legal=" << r.legal << '\n';
			break;
		case 1:
			std::cout << "L " << id << " dgeqrf m=" << r.m << " n=" << r.n << " a=" << reg.fmt(r.a) << " lda=" << r.lda << " tau=" << reg.fmt(r.tau)
			          << " work=" << wk(r) << " lwork=" << lw(1, r.lwork) << " legal=" << r.legal << '\n';
			break;
		case 2:
			std::cout << "L " << id << " dgesvd jobu=" << r.c1 << " jobvt=" << r.c2 << " m=" << r.m << " n=" << r.n << " a=" << reg.fmt(r.a) << " lda=" << r.lda
			          << " s=" << reg.fmt(r.s) << " u=" << reg.fmt(r.u) << " ldu=" << r.ldu << " vt=" << reg.fmt(r.vt) << " ldvt=" << r.ldvt
			          << " work=" << wk(r) << " lwork=" << lw(2, r.lwork) << " legal=" << r.legal << '\n';
			break;
		case 3: {
			std::string w = reg.inside(r.work) ? reg.fmt(r.work) : "tmp";
			std::cout << "L " << id << " dsyev jobz=" << r.c1 << " uplo=" << r.c2 << " n=" << r.n << " a=" << reg.fmt(r.a) << " lda=" << r.lda
			          << " w=" << reg.fmt(r.w) << " work=" << w << " lwork=" << r.lwork << " legal=" << r.legal << '\n';
			break;
		}
		case 10: {
			block = r.p; block_n = r.cnt; block_kind = next_kind(k);
			int const kd = block_kind >= 0 ? block_kind : 1;
			std::cout << "W " << id << " alloc " << lw(kd, static_cast<int>(r.cnt)) << '\n';
			break;
		}
		case 11: {
			int const kd = block_kind >= 0 ? block_kind : 1;
			std::cout << "W " << id << " dealloc " << lw(kd, static_cast<int>(r.cnt))
			          << ((r.p == block && r.cnt == block_n) ? "" : " wrong-block") << '\n';
			block = nullptr;
			break;
		}
		default: break;
		}
		if(r.kind < 4 && r.lwork == -1 && (r.kind == 1 || r.kind == 2)) { last_query[r.kind] = r.work0; have_query[r.kind] = true; }
	}
}

template<class View> void print_view(std::string const& id, Registry const& reg, View const& v) {
	std::cout << "V " << id << " base=" << reg.fmt(v.base()) << " strides=" << v.stride() << ',' << (~v).stride()
	          << " sizes=" << v.size() << ',' << (~v).size() << '\n';
}

// ------------------------------------------------------------------------------------------------
// building views
// ------------------------------------------------------------------------------------------------
template<class F> void with_view(Buf& b, Opnd2 const& o, F&& f) {
	multi::array_ref<double, 2> root(b.root(), {o.R, o.C});
	if(o.is != 1) {  // every is-th column of a wider block: inner stride = is
		auto wide = root({o.r0, o.r0 + o.nr}, {o.c0, o.c0 + o.nc * o.is});
		auto wt = wide.transposed(); auto ws = wt.strided(o.is); auto v = ws.transposed();
		f(v); return;
	}
	auto blk = root({o.r0, o.r0 + o.nr}, {o.c0, o.c0 + o.nc});
	if(o.t) { auto tv = blk.transposed(); f(tv); } else { f(blk); }
}
idx root_len(Opnd2 const& o) { return o.R * o.C; }
// offset (relative to the root) of element (i,j) of the view described by o
idx off2(Opnd2 const& o, idx i, idx j) { return o.t ? (o.r0 + j) * o.C + (o.c0 + i) : (o.r0 + i) * o.C + (o.c0 + j * o.is); }
idx rows(Opnd2 const& o) { return o.t ? o.nc : o.nr; }
idx cols(Opnd2 const& o) { return o.t ? o.nr : o.nc; }
bool in_view(Opnd2 const& o, idx off) {
	if(off < 0 || off >= o.R * o.C || o.C == 0) { return false; }
	idx const r = off / o.C, c = off % o.C;
	return r >= o.r0 && r < o.r0 + o.nr && c >= o.c0 && c < o.c0 + o.nc * o.is && (c - o.c0) % o.is == 0;
}
// view coordinates of a root offset known to be inside the view
std::pair<idx, idx> coords(Opnd2 const& o, idx off) {
	idx const r = off / o.C - o.r0, c = (off % o.C - o.c0) / o.is;
	return o.t ? std::make_pair(c, r) : std::make_pair(r, c);
}

// A = L D L^T, L unit lower triangular with entries in (-1/2,1/2), D in [1,2] except D[minor-1] = -1:
// leading minors are the partial products of D, so the first non-positive one is `minor` (0: none)
Dense make_ldlt(idx n, idx minor, Rng& rng) {
	Dense L(static_cast<std::size_t>(n * n), 0.0), D(static_cast<std::size_t>(n)), A(static_cast<std::size_t>(n * n), 0.0);
	for(idx i = 0; i != n; ++i) { L[i * n + i] = 1.0; for(idx j = 0; j != i; ++j) { L[i * n + j] = 0.5 * rng.sym(); } D[i] = 1.0 + rng.unif(); }
	if(minor > 0) { D[minor - 1] = -1.0; }
	for(idx i = 0; i != n; ++i) { for(idx j = 0; j != n; ++j) { double s = 0; for(idx l = 0; l != n; ++l) { s += L[i * n + l] * D[l] * L[j * n + l]; } A[i * n + j] = s; } }
	for(idx i = 0; i != n; ++i) { for(idx j = 0; j != i; ++j) { A[i * n + j] = A[j * n + i]; } }  // exactly symmetric
	return A;
}
double maxabs(Dense const& a) { double m = 0; for(double x : a) { m = std::max(m, std::fabs(x)); } return m; }

#if defined(C14_PART_POTRF)
// ------------------------------------------------------------------------------------------------
// potrf
// ------------------------------------------------------------------------------------------------
void run_potrf(Case const& c) {
	Rng rng(c.vseed);
	Opnd2 const& o = c.mat("A");
	Buf A("A", root_len(o), rng);
	Registry reg; reg.add("A", A.root(), A.len);
	idx const n = rows(o);
	Dense S = make_ldlt(n, c.kind == "minor" ? c.minor : 0, rng);
	double const nan = std::numeric_limits<double>::quiet_NaN();
	auto sel = [&](idx i, idx j) { return c.upper ? i <= j : j <= i; };
	for(idx i = 0; i != n; ++i) { for(idx j = 0; j != n; ++j) { A.root()[off2(o, i, j)] = sel(i, j) ? S[i * n + j] : nan; } }
	A.snapshot();
	c14_log_clear();
	idx ret_r = -1, ret_c = -1; int info = -1; bool colbranch = false;
	if(c.form >= 100) {  // iterator-level potrf on the leading sub-range [begin, begin + k) of a row-major view
		idx const kr = c.form - 100;
		idx ret = -1;
		with_view(A, o, [&](auto& v) {
			auto last = multi::lapack::potrf(c.upper ? multi::lapack::filling::upper : multi::lapack::filling::lower, v.begin(), v.begin() + kr);
			ret = last - v.begin();
			print_log(c.id, reg);
			if(c14_log_size() > 0) { info = c14_log_at(c14_log_size() - 1)->info; }
			std::cout << "I " << c.id << " info=" << info << '\n';
			std::cout << "R " << c.id << " ret=" << ret << '\n';
		});
		mon(c.id, "one-call", c14_log_size() == 1, "calls=" + std::to_string(c14_log_size()));
		idx const expect_i = (c.kind == "minor" && c.minor <= kr) ? c.minor : 0;
		mon(c.id, "info-as-constructed", info == expect_i, "info=" + std::to_string(info) + " expected=" + std::to_string(expect_i));
		idx const kk = info == 0 ? kr : std::max<idx>(0, info - 1);
		// only the selected triangle of the leading kr x kr block may change
		idx const bad_i = A.changed_outside([&](idx off) { if(!in_view(o, off)) { return false; } auto [i, j] = coords(o, off); return i < kr && j < kr && sel(i, j); });
		mon(c.id, "frame", bad_i == 0, "cells-changed-outside-the-range's-triangle=" + std::to_string(bad_i));
		double res_i = 0; bool fin_i = true;
		auto Ti = [&](idx i, idx j) { return A.root()[off2(o, i, j)]; };
		for(idx a = 0; a != kk; ++a) {
			for(idx b = 0; b != kk; ++b) {
				double s = 0;
				for(idx l = 0; l <= std::min(a, b); ++l) { s += c.upper ? Ti(l, a) * Ti(l, b) : Ti(a, l) * Ti(b, l); }
				if(!std::isfinite(s)) { fin_i = false; }
				res_i = std::max(res_i, std::fabs(s - S[a * n + b]));
			}
		}
		double const tol_i = TOLC * static_cast<double>(std::max<idx>(n, 1)) * EPS * std::max(1.0, maxabs(S));
		mon(c.id, "reconstruct", fin_i && res_i <= tol_i, "resid=" + num(res_i) + " tol=" + num(tol_i) + " k=" + std::to_string(kk));
		mon(c.id, "returned-iterator", ret == kk, "ret=" + std::to_string(ret) + " k=" + std::to_string(kk));
		return;
	}
	with_view(A, o, [&](auto& v) {
		colbranch = (v.stride() == 1);
		auto&& R = multi::lapack::potrf(c.upper ? multi::lapack::filling::upper : multi::lapack::filling::lower, v);
		print_log(c.id, reg);
		if(c14_log_size() > 0) { info = c14_log_at(c14_log_size() - 1)->info; }
		std::cout << "I " << c.id << " info=" << info << '\n';
		print_view(c.id, reg, R);
		ret_r = R.size(); ret_c = (~R).size();
	});
	// ---- monitors ----
	mon(c.id, "one-call", c14_log_size() == 1, "calls=" + std::to_string(c14_log_size()));
	idx const expect = c.kind == "minor" ? c.minor : 0;
	mon(c.id, "info-as-constructed", info == expect, "info=" + std::to_string(info) + " expected=" + std::to_string(expect));
	idx const k = info == 0 ? n : std::max<idx>(0, info - 1);
	// only the selected triangle of the view may change
	idx const bad = A.changed_outside([&](idx off) { if(!in_view(o, off)) { return false; } auto [i, j] = coords(o, off); return sel(i, j); });
	mon(c.id, "frame", bad == 0, "cells-changed-outside-selected-triangle=" + std::to_string(bad));
	// reconstruction of the leading k x k block from the selected triangle of the result
	double res = 0; bool finite = true;
	auto T = [&](idx i, idx j) { return A.root()[off2(o, i, j)]; };
	for(idx a = 0; a != k; ++a) {
		for(idx b = 0; b != k; ++b) {
			double s = 0;
			for(idx l = 0; l <= std::min(a, b); ++l) { s += c.upper ? T(l, a) * T(l, b) : T(a, l) * T(b, l); }
			if(!std::isfinite(s)) { finite = false; }
			res = std::max(res, std::fabs(s - S[a * n + b]));
		}
	}
	double const tol = TOLC * static_cast<double>(std::max<idx>(n, 1)) * EPS * std::max(1.0, maxabs(S));
	mon(c.id, "reconstruct", finite && res <= tol, "resid=" + num(res) + " tol=" + num(tol) + " k=" + std::to_string(k));
	// the returned view: the leading k x k block
	mon(c.id, "returned-rows", ret_r == k, "rows=" + std::to_string(ret_r) + " k=" + std::to_string(k));
	mon(c.id, "returned-square", ret_r == ret_c,
	    "site=potrf.hpp:58 branch=" + std::string(colbranch ? "colmajor" : "rowmajor") + " info=" + (info > 0 ? std::string("positive") : std::string("zero")) +
	        " sizes=" + std::to_string(ret_r) + "," + std::to_string(ret_c));
}

#else
// ------------------------------------------------------------------------------------------------
// geqrf
// ------------------------------------------------------------------------------------------------
void run_geqrf(Case const& c) {
	Rng rng(c.vseed);
	Opnd2 const& o = c.mat("A"); Opnd1 const& t = c.vec("T");
	Buf A("A", root_len(o), rng), T("T", t.len, rng);
	Registry reg; reg.add("A", A.root(), A.len); reg.add("T", T.root(), T.len);
	idx const r = rows(o), cc = cols(o), mn = std::min(r, cc);
	Dense A0(static_cast<std::size_t>(r * cc));
	for(idx i = 0; i != r; ++i) { for(idx j = 0; j != cc; ++j) { A0[i * cc + j] = rng.sym(); A.root()[off2(o, i, j)] = A0[i * cc + j]; } }
	A.snapshot(); T.snapshot();
	c14_log_clear();
	bool threw = false;
	with_view(A, o, [&](auto& v) {
		multi::array_ref<double, 1> troot(T.root(), {t.len});
		auto tv = troot({t.off, t.off + t.n});
		try {
			if(c.form == 3) { auto&& R = multi::lapack::geqrf(v, tv, LogAlloc<double>{}); print_log(c.id, reg); print_view(c.id, reg, R); }
			else            { auto&& R = multi::lapack::geqrf(v, tv);                      print_log(c.id, reg); print_view(c.id, reg, R); }
		} catch(std::exception const& e) { threw = true; print_log(c.id, reg); std::cout << "X " << c.id << " throw\n"; }
	});
	if(threw) { return; }
	// ---- monitors ----
	bool info0 = true; for(int k = 0; k != c14_log_size(); ++k) { if(c14_log_at(k)->kind < 10 && c14_log_at(k)->info != 0) { info0 = false; } }
	mon(c.id, "info-zero", info0);
	idx bad = A.changed_outside([&](idx off) { return in_view(o, off); });
	mon(c.id, "frame-A", bad == 0, "cells-changed-outside-view=" + std::to_string(bad));
	bad = T.changed_outside([&](idx off) { return off >= t.off && off < t.off + t.n; });
	mon(c.id, "frame-tau", bad == 0, "cells-changed-outside-view=" + std::to_string(bad));
	// oracle: transpose(aa) (M x N, M = columns of aa) = Q R, Q from the reflectors by the real DORGQR
	idx const M = cc, N = r;
	auto F = [&](idx i, idx j) { return A.root()[off2(o, j, i)]; };  // Fortran reading of the result
	Dense Q(static_cast<std::size_t>(M * std::max<idx>(mn, 1)), 0.0);   // column-major M x mn
	for(idx i = 0; i != M; ++i) { for(idx l = 0; l != mn; ++l) { Q[l * M + i] = F(i, l); } }
	int info = 0; Dense work(static_cast<std::size_t>(64 * std::max<idx>(mn, 1) + 64));
	c14_real_dorgqr(static_cast<int>(M), static_cast<int>(mn), static_cast<int>(mn), Q.data(), static_cast<int>(std::max<idx>(M, 1)), T.root() + t.off, work.data(),
	                static_cast<int>(work.size()), &info);
	double res = 0, orth = 0;
	for(idx i = 0; i != M; ++i) { for(idx j = 0; j != N; ++j) {
		double s = 0; for(idx l = 0; l <= std::min(j, mn - 1); ++l) { s += Q[l * M + i] * F(l, j); }
		res = std::max(res, std::fabs(s - A0[j * cc + i]));
	} }
	for(idx a = 0; a != mn; ++a) { for(idx b = 0; b != mn; ++b) {
		double s = 0; for(idx i = 0; i != M; ++i) { s += Q[a * M + i] * Q[b * M + i]; }
		orth = std::max(orth, std::fabs(s - (a == b ? 1.0 : 0.0)));
	} }
	double const tol = TOLC * static_cast<double>(std::max(r, cc)) * EPS * std::max(1.0, maxabs(A0));
	mon(c.id, "reconstruct", info == 0 && std::isfinite(res) && res <= tol, "resid=" + num(res) + " tol=" + num(tol));
	mon(c.id, "orthogonal", std::isfinite(orth) && orth <= tol, "resid=" + num(orth) + " tol=" + num(tol));
}

// ------------------------------------------------------------------------------------------------
// gesvd
// ------------------------------------------------------------------------------------------------
void svd_monitors(std::string const& id, idx r, idx cc, Dense const& A0, Dense const& U, Dense const& s, Dense const& V) {
	idx const mn = std::min(r, cc);
	double res = 0, ou = 0, ov = 0;
	for(idx a = 0; a != r; ++a) { for(idx b = 0; b != cc; ++b) {
		double x = 0; for(idx l = 0; l != mn; ++l) { x += U[a * r + l] * s[l] * V[l * cc + b]; }
		res = std::max(res, std::fabs(x - A0[a * cc + b]));
	} }
	for(idx a = 0; a != r; ++a) { for(idx b = 0; b != r; ++b) { double x = 0; for(idx l = 0; l != r; ++l) { x += U[l * r + a] * U[l * r + b]; } ou = std::max(ou, std::fabs(x - (a == b ? 1.0 : 0.0))); } }
	for(idx a = 0; a != cc; ++a) { for(idx b = 0; b != cc; ++b) { double x = 0; for(idx l = 0; l != cc; ++l) { x += V[a * cc + l] * V[b * cc + l]; } ov = std::max(ov, std::fabs(x - (a == b ? 1.0 : 0.0))); } }
	double const tol = TOLC * static_cast<double>(std::max(r, cc)) * EPS * std::max(1.0, maxabs(A0));
	mon(id, "reconstruct", std::isfinite(res) && res <= tol, "AA=UU*diag(ss)*VV resid=" + num(res) + " tol=" + num(tol));
	// informational (not a verdict): the formula written in test/svd.cpp:22, AA == UU*Diag(ss)*VV^T
	double resT = 0;
	for(idx a = 0; a != r; ++a) { for(idx b = 0; b != cc; ++b) {
		double x = 0; for(idx l = 0; l != mn; ++l) { x += U[a * r + l] * s[l] * V[b * cc + l]; }
		resT = std::max(resT, std::fabs(x - A0[a * cc + b]));
	} }
	std::cout << "N " << id << " formula-of-test-svd.cpp:22-UU*diag(ss)*VV^T " << ((std::isfinite(resT) && resT <= tol) ? "holds" : "fails") << " resid=" << num(resT) << '\n';
	mon(id, "orthogonal-UU", std::isfinite(ou) && ou <= tol, "resid=" + num(ou));
	mon(id, "orthogonal-VV", std::isfinite(ov) && ov <= tol, "resid=" + num(ov));
	bool ord = true; for(idx l = 0; l != mn; ++l) { if(!(s[l] >= 0) || (l + 1 < mn && !(s[l] >= s[l + 1]))) { ord = false; } }
	mon(id, "order-descending", ord);
}

void run_gesvd(Case const& c) {
	Rng rng(c.vseed);
	Opnd2 const& oa = c.mat("A");
	idx const r = rows(oa), cc = cols(oa), mn = std::min(r, cc);
	Dense A0(static_cast<std::size_t>(r * cc));
	for(auto& x : A0) { x = rng.sym(); }
	if(c.form == 1) {  // by-value form
		multi::array<double, 2> AA({r, cc});
		for(idx i = 0; i != r; ++i) { for(idx j = 0; j != cc; ++j) { AA[i][j] = A0[i * cc + j]; } }
		c14_log_clear();
		try {
			auto ret = multi::lapack::gesvd(AA);
			auto const& UU = std::get<0>(ret); auto const& ss = std::get<1>(ret); auto const& VV = std::get<2>(ret);
			Registry reg; reg.add("U", UU.base(), UU.num_elements()); reg.add("S", ss.base(), ss.num_elements()); reg.add("V", VV.base(), VV.num_elements());
			print_log(c.id, reg);
			bool same = true; for(idx i = 0; i != r; ++i) { for(idx j = 0; j != cc; ++j) { if(AA[i][j] != A0[i * cc + j]) { same = false; } } }
			mon(c.id, "input-unchanged", same);
			bool shapes = UU.size() == r && (~UU).size() == r && VV.size() == cc && (~VV).size() == cc && ss.size() == mn;
			mon(c.id, "shapes", shapes);
			if(shapes) {
				Dense U(static_cast<std::size_t>(r * r)), s(static_cast<std::size_t>(mn)), V(static_cast<std::size_t>(cc * cc));
				for(idx i = 0; i != r; ++i) { for(idx j = 0; j != r; ++j) { U[i * r + j] = UU[i][j]; } }
				for(idx i = 0; i != cc; ++i) { for(idx j = 0; j != cc; ++j) { V[i * cc + j] = VV[i][j]; } }
				for(idx l = 0; l != mn; ++l) { s[l] = ss[l]; }
				svd_monitors(c.id, r, cc, A0, U, s, V);
			}
		} catch(std::exception const& e) { Registry reg; print_log(c.id, reg); std::cout << "X " << c.id << " throw\n"; }
		return;
	}
	Opnd2 const& ou = c.mat("U"); Opnd2 const& ov = c.mat("V"); Opnd1 const& os = c.vec("S");
	Buf A("A", root_len(oa), rng), U("U", root_len(ou), rng), V("V", root_len(ov), rng), S("S", os.len, rng);
	Registry reg; reg.add("A", A.root(), A.len); reg.add("U", U.root(), U.len); reg.add("V", V.root(), V.len); reg.add("S", S.root(), S.len);
	for(idx i = 0; i != r; ++i) { for(idx j = 0; j != cc; ++j) { A.root()[off2(oa, i, j)] = A0[i * cc + j]; } }
	A.snapshot(); U.snapshot(); V.snapshot(); S.snapshot();
	c14_log_clear();
	bool threw = false;
	with_view(A, oa, [&](auto& va) { with_view(U, ou, [&](auto& vu) { with_view(V, ov, [&](auto& vv) {
		multi::array_ref<double, 1> sroot(S.root(), {os.len});
		auto sv = sroot({os.off, os.off + os.n});
		try {
			if(c.form == 5) { multi::lapack::gesvd(va, vu, sv, vv, LogAlloc<double>{}); } else { multi::lapack::gesvd(va, vu, sv, vv); }
		} catch(std::exception const& e) { threw = true; }
	}); }); });
	print_log(c.id, reg);
	if(threw) { std::cout << "X " << c.id << " throw\n"; return; }
	bool info0 = true; for(int k = 0; k != c14_log_size(); ++k) { if(c14_log_at(k)->kind < 10 && c14_log_at(k)->info != 0) { info0 = false; } }
	mon(c.id, "info-zero", info0);
	idx bad = A.changed_outside([&](idx off) { return in_view(oa, off); });
	mon(c.id, "frame-AA", bad == 0, "cells-changed-outside-view=" + std::to_string(bad));
	bad = U.changed_outside([&](idx off) { return in_view(ou, off); });
	mon(c.id, "frame-UU", bad == 0, "cells-changed-outside-view=" + std::to_string(bad));
	bad = V.changed_outside([&](idx off) { return in_view(ov, off); });
	mon(c.id, "frame-VV", bad == 0, "cells-changed-outside-view=" + std::to_string(bad));
	bad = S.changed_outside([&](idx off) { return off >= os.off && off < os.off + os.n; });
	mon(c.id, "frame-ss", bad == 0, "cells-changed-outside-view=" + std::to_string(bad));
	Dense Ud(static_cast<std::size_t>(r * r)), s(static_cast<std::size_t>(mn)), Vd(static_cast<std::size_t>(cc * cc));
	for(idx i = 0; i != r; ++i) { for(idx j = 0; j != r; ++j) { Ud[i * r + j] = U.root()[off2(ou, i, j)]; } }
	for(idx i = 0; i != cc; ++i) { for(idx j = 0; j != cc; ++j) { Vd[i * cc + j] = V.root()[off2(ov, i, j)]; } }
	for(idx l = 0; l != mn; ++l) { s[l] = S.root()[os.off + l]; }
	svd_monitors(c.id, r, cc, A0, Ud, s, Vd);
}

// ------------------------------------------------------------------------------------------------
// syev
// ------------------------------------------------------------------------------------------------
#ifdef C14_WITH_SYEV
void run_syev(Case const& c) {
	Rng rng(c.vseed);
	Opnd2 const& o = c.mat("A"); Opnd1 const& ow = c.vec("W");
	idx const n = rows(o);
	Opnd1 ok; if(c.form == 4) { ok = c.vec("K"); } else { ok.len = 1; }
	Buf A("A", root_len(o), rng), W("W", ow.len, rng), K("K", ok.len, rng);
	Registry reg; reg.add("A", A.root(), A.len); reg.add("W", W.root(), W.len); if(c.form == 4) { reg.add("K", K.root(), K.len); }
	Dense S(static_cast<std::size_t>(n * n));
	for(idx i = 0; i != n; ++i) { for(idx j = 0; j <= i; ++j) { S[i * n + j] = S[j * n + i] = rng.sym() + (i == j ? static_cast<double>(i) : 0.0); } }  // distinct-ish eigenvalues
	double const nan = std::numeric_limits<double>::quiet_NaN();
	auto sel = [&](idx i, idx j) { return c.upper ? i <= j : j <= i; };
	for(idx i = 0; i != n; ++i) { for(idx j = 0; j != n; ++j) { A.root()[off2(o, i, j)] = sel(i, j) ? S[i * n + j] : nan; } }
	A.snapshot(); W.snapshot(); K.snapshot();
	c14_log_clear();
	idx ret_r = -1, ret_c = -1; int info = 0; bool rowbranch = true;
	with_view(A, o, [&](auto& v) {
		rowbranch = ((~v).stride() == 1);
		multi::array_ref<double, 1> wroot(W.root(), {ow.len});
		auto wv = wroot({ow.off, ow.off + ow.n});
		auto const f = c.upper ? multi::blas::filling::upper : multi::blas::filling::lower;
		auto fin = [&](auto&& R) {
			print_log(c.id, reg);
			if(c14_log_size() > 0) { info = c14_log_at(c14_log_size() - 1)->info; std::cout << "I " << c.id << " info=" << info << '\n'; }
			print_view(c.id, reg, R); ret_r = R.size(); ret_c = (~R).size();
		};
		if(c.form == 4) {
			multi::array_ref<double, 1> kroot(K.root(), {ok.len});
			auto kv = kroot({ok.off, ok.off + ok.n});
			fin(multi::lapack::syev(f, v, wv, kv));
		} else { fin(multi::lapack::syev(f, v, wv)); }
	});
	mon(c.id, "info-zero", info == 0);
	mon(c.id, "returned-full", ret_r == n && ret_c == n);
	idx bad = A.changed_outside([&](idx off) { return in_view(o, off); });
	mon(c.id, "frame-a", bad == 0, "cells-changed-outside-view=" + std::to_string(bad));
	bad = W.changed_outside([&](idx off) { return off >= ow.off && off < ow.off + ow.n; });
	mon(c.id, "frame-w", bad == 0, "cells-changed-outside-view=" + std::to_string(bad));
	if(c.form == 4) { bad = K.changed_outside([&](idx off) { return off >= ok.off && off < ok.off + ok.n; }); mon(c.id, "frame-work", bad == 0, "cells-changed-outside-view=" + std::to_string(bad)); }
	// eigenvectors: rows of the view (row-major branch) or columns (column-major branch): either way
	// component i of eigenvector l is at Fortran position (i,l)
	auto E = [&](idx i, idx l) { return rowbranch ? A.root()[off2(o, l, i)] : A.root()[off2(o, i, l)]; };
	auto w = [&](idx l) { return W.root()[ow.off + l]; };
	double res = 0, orth = 0;
	for(idx i = 0; i != n; ++i) { for(idx j = 0; j != n; ++j) {
		double x = 0, y = 0; for(idx l = 0; l != n; ++l) { x += E(i, l) * w(l) * E(j, l); y += E(l, i) * E(l, j); }
		res = std::max(res, std::fabs(x - S[i * n + j])); orth = std::max(orth, std::fabs(y - (i == j ? 1.0 : 0.0)));
	} }
	double const tol = TOLC * static_cast<double>(std::max<idx>(n, 1)) * EPS * std::max(1.0, maxabs(S));
	mon(c.id, "reconstruct", std::isfinite(res) && res <= tol, "resid=" + num(res) + " tol=" + num(tol));
	mon(c.id, "orthogonal", std::isfinite(orth) && orth <= tol, "resid=" + num(orth));
	bool ord = true; for(idx l = 0; l + 1 < n; ++l) { if(!(w(l) <= w(l + 1))) { ord = false; } }
	mon(c.id, "order-ascending", ord);
}
#endif
#endif

// ------------------------------------------------------------------------------------------------
std::vector<Case> parse(std::istream& in) {
	std::vector<Case> out; Case cur; bool open = false; std::string line;
	while(std::getline(in, line)) {
		std::istringstream ls(line); std::string w; ls >> w;
		if(w == "case") { cur = Case{}; ls >> cur.id; open = true; }
		else if(!open) { continue; }
		else if(w == "routine") { ls >> cur.routine; }
		else if(w == "form") { ls >> cur.form; }
		else if(w == "mat") { Opnd2 o; int t = 0; ls >> o.name >> o.R >> o.C >> o.r0 >> o.c0 >> o.nr >> o.nc >> t; o.t = t != 0; idx is = 1; if(ls >> is) { o.is = is; } cur.mats.push_back(o); }
		else if(w == "vec") { Opnd1 o; ls >> o.name >> o.len >> o.off >> o.n; cur.vecs.push_back(o); }
		else if(w == "uplo") { std::string u; ls >> u; cur.upper = (u == "U"); }
		else if(w == "kind") { ls >> cur.kind; if(cur.kind == "minor") { ls >> cur.minor; } }
		else if(w == "vseed") { ls >> cur.vseed; }
		else if(w == "end") { out.push_back(cur); open = false; }
	}
	return out;
}

}  // namespace

auto main() -> int {
	std::ios::sync_with_stdio(false);
	for(Case const& c : parse(std::cin)) {
		try {
#if defined(C14_PART_POTRF)
			if(c.routine == "potrf") { run_potrf(c); }
#else
			if(c.routine == "geqrf") { run_geqrf(c); }
			else if(c.routine == "gesvd") { run_gesvd(c); }
#ifdef C14_WITH_SYEV
			else if(c.routine == "syev") { run_syev(c); }
#endif
#endif
			else { std::cout << "D " << c.id << " unsupported-routine " << c.routine << '\n'; }
		} catch(std::exception const& e) { std::cout << "X " << c.id << " harness-exception " << e.what() << '\n'; }
		std::cout << "E " << c.id << '\n';
		std::cout.flush();
	}
	return 0;
}

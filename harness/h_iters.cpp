// h_iters: iterator walks on the real library (C02).
// Input: a view program (case/root/op lines as for h_views) followed by
//   it a|e            start a walk with three registers, all = begin() of the view (a) or of elements() (e)
//   w R OP [ARG] [K]  modify register R: inc | dec | add n | sub n | set S (copy-assign from register S) |
//                     cpy S (copy-construct from S) | end | begin;   K: also observe it[K]  (K = "-" for none)
//   end
// Output: S lines (shapes, as h_views), one F line per walk (size, front/back of elements()), one I line per step:
//   I id n k=<a|e> r=R pos=<it-begin> cmp=<eq lt le gt ge ne diff vs registers 0,1,2> ce=<const==mutable> d=<addr|-> x=<addr|->
//   m=<address through indexing with the pos-th valid index, independent of iterators>
#include "common/viewprog.hpp"

#include <new>

using dv::V;

struct Step { int r; std::string op; long arg; bool hask; long k; };

template<class It> static std::string cmp3(It const& it, std::array<It, 3> const& regs) {
	std::ostringstream os;
	for(int s = 0; s != 3; ++s) {
		auto const& o = regs[static_cast<std::size_t>(s)];
		os << (s ? "," : "") << (it == o ? 1 : 0) << (it < o ? 1 : 0) << (it <= o ? 1 : 0) << (it > o ? 1 : 0) << (it >= o ? 1 : 0)
		   << (it != o ? 1 : 0) << ':' << (it - o);
	}
	return os.str();
}

struct Walker : dv::Typed<int, Walker> {
	std::string id;
	char kind = 'a';
	std::vector<Step> steps;
	int* root = nullptr;

	template<class It, class CIt, class Deref, class Indexed>
	void walk(It b, It e, idx_t size, Deref deref, Indexed indexed, It foreign) {
		std::array<It, 3> regs{b, b, b};
		int n = 0;
		for(auto const& s : steps) {
			++n;
			It& it = regs[static_cast<std::size_t>(s.r)];
			bool post_ok = true;  // postfix forms return the old position
			if(s.op == "inc") { ++it; }
			else if(s.op == "dec") { --it; }
			else if(s.op == "pinc") { It before = it; It old = it++; post_ok = (old == before); }
			else if(s.op == "pdec") { It before = it; It old = it--; post_ok = (old == before); }
			else if(s.op == "add") { it += s.arg; }
			else if(s.op == "sub") { it -= s.arg; }
			else if(s.op == "plus") { it = it + s.arg; }
			else if(s.op == "minus") { it = it - s.arg; }
			else if(s.op == "set") { it = regs[static_cast<std::size_t>(s.arg)]; }
			else if(s.op == "fset") {  // the register is RE-CONSTRUCTED as an iterator of another view, then assigned a home position
				It src(regs[static_cast<std::size_t>(s.arg)]);
				it.~It();
				new(&it) It(foreign);
				it = src;
			}  // via an iterator of another view
			else if(s.op == "cpy") { It c(regs[static_cast<std::size_t>(s.arg)]); it = c; }
			else if(s.op == "end") { it = e; }
			else if(s.op == "begin") { it = b; }
			idx_t pos = it - b;
			CIt cit = it;  // const iterator to the same position: equal, designates the same element, steps the same way
			bool ce = (cit == it && !(cit != it)) && post_ok;
			if(pos >= 0 && pos < size) {
				ce = ce && (static_cast<void const*>(deref(cit)) == static_cast<void const*>(deref(it)));
				CIt c2 = cit; ++c2; --c2;
				ce = ce && (c2 == cit) && (static_cast<void const*>(deref(c2)) == static_cast<void const*>(deref(it)));
				if(pos + 1 < size) { CIt c3 = cit; ++c3; It m3 = it; ++m3; ce = ce && (static_cast<void const*>(deref(c3)) == static_cast<void const*>(deref(m3))); }
				if(pos > 0) { CIt c4 = cit; --c4; It m4 = it; --m4; ce = ce && (static_cast<void const*>(deref(c4)) == static_cast<void const*>(deref(m4))); }
			} else if(pos == size && size > 0) {
				CIt c2 = cit; --c2; It m2 = it; --m2;
				ce = ce && (static_cast<void const*>(deref(c2)) == static_cast<void const*>(deref(m2)));
			}
			std::cout << "I " << id << ' ' << n << " k=" << kind << " r=" << s.r << " pos=" << pos << " cmp=" << cmp3(it, regs)
			          << " ce=" << (ce ? 1 : 0);
			if(pos >= 0 && pos < size) { std::cout << " d=" << (deref(it) - root); } else { std::cout << " d=-"; }
			if(s.hask) { std::cout << " x=" << (indexed(it, s.k) - root); } else { std::cout << " x=-"; }
			std::cout << '\n';
		}
	}

	template<int D> void go(V<int, D>& cv) {
		multi::subarray<int, D, int*> w(cv.layout(), const_cast<int*>(cv.base()));  // NOLINT  // a mutable view of the same elements
		if(kind == 'a') {
			using It = typename multi::subarray<int, D, int*>::iterator;
			using CIt = typename multi::subarray<int, D, int*>::const_iterator;
			idx_t const size = w.size();
			std::cout << "F " << id << " k=a size=" << size << " dist=" << (w.end() - w.begin()) << '\n';
			// begin()/end() have & and && overloads: taken from the named view or from an rvalue of it, by the shape
			bool const rv = ((size + D) % 2) == 1;
			It const wb = rv ? std::move(w).begin() : w.begin();
			It const we = rv ? std::move(w).end() : w.end();
			if constexpr(D == 1) {
				auto f = w.dropped(size > 0 ? 1 : 0);
				walk<It, CIt>(wb, we, size, [](auto const& it) { return &*it; }, [](It const& it, idx_t k) { return &it[k]; }, f.begin());
			} else {
				auto f = w.rotated();  // same type, other extents
				walk<It, CIt>(wb, we, size, [](auto const& it) { return (*it).base(); }, [](It const& it, idx_t k) { return it[k].base(); }, f.begin());
			}
			// independent of iterators: the sub-view / element at the p-th valid index
			auto const ext = w.extension();
			std::cout << "M " << id << " k=a";
			for(idx_t p = 0; p != size; ++p) {
				if constexpr(D == 1) { std::cout << ' ' << (&w[ext.first() + p] - root); } else { std::cout << ' ' << (w[ext.first() + p].base() - root); }
			}
			std::cout << '\n';
		} else {
			auto&& el = w.elements();
			using R = std::decay_t<decltype(el)>;
			using It = typename R::iterator;
			using CIt = typename R::const_iterator;
			idx_t const size = el.size();
			std::cout << "F " << id << " k=e size=" << size << " dist=" << (el.end() - el.begin());
			if(size > 0) { std::cout << " front=" << (&el.front() - root) << " back=" << (&el.back() - root); }
			std::cout << '\n';
			// an iterator into a view of the same type with other extents (rotated; for D = 1 a shorter slice)
			if constexpr(D == 1) {
				auto f = w.dropped(w.size() > 0 ? 1 : 0);
				auto&& fel = f.elements();
				walk<It, CIt>(el.begin(), el.end(), size, [](auto const& it) { return &*it; }, [](It const& it, idx_t k) { return &it[k]; }, fel.begin());
			} else {
				auto f = w.rotated();
				auto&& fel = f.elements();
				It fi = fel.begin();
				if(fel.size() > 1) { ++fi; }
				walk<It, CIt>(el.begin(), el.end(), size, [](auto const& it) { return &*it; }, [](It const& it, idx_t k) { return &it[k]; }, fi);
			}
			std::cout << "M " << id << " k=e";
			for(idx_t p = 0; p != size && p < 64; ++p) { std::cout << ' ' << (&el[p] - root); }
			std::cout << '\n';
		}
	}
};

int main() {
	std::string line;
	std::string id;
	Root root;
	int step = 0;
	bool dead = false;
	Walker wk;
	bool walking = false;
	auto flush = [&] {
		if(walking && !dead) {
			wk.id = id;
			wk.root = root.data;
			root.view->accept(wk);
		}
		walking = false;
		wk.steps.clear();
	};
	while(std::getline(std::cin, line)) {
		if(line.empty() || line[0] == '#') { continue; }
		std::istringstream is(line);
		std::string kw;
		is >> kw;
		try {
			if(kw == "case") {
				is >> id;
				step = 0;
				dead = false;
			} else if(kw == "root") {
				int D = 0;
				is >> D;
				std::vector<std::pair<idx_t, idx_t>> e(static_cast<std::size_t>(D));
				for(auto& p : e) { is >> p.first >> p.second; }
				root = make_root_dyn(D, e);
				print_shape(id, step, *root.view);
			} else if(kw == "op") {
				if(dead) { continue; }
				auto op = dv::parse_op(is);
				++step;
				auto nv = root.view->apply(op);
				root.view = std::move(nv);
				print_shape(id, step, *root.view);
			} else if(kw == "it") {
				flush();
				std::string k;
				is >> k;
				wk.kind = k[0];
				walking = true;
			} else if(kw == "w") {
				Step s{};
				std::string ks;
				is >> s.r >> s.op;
				if(s.op == "add" || s.op == "sub" || s.op == "set" || s.op == "fset" || s.op == "cpy" || s.op == "plus" || s.op == "minus") { is >> s.arg; }
				if(is >> ks && ks != "-") { s.hask = true; s.k = std::stol(ks); }
				wk.steps.push_back(s);
			} else if(kw == "end") {
				flush();
				std::cout << "E " << id << '\n';
			}
		} catch(dv::unsupported const& u) {
			std::cout << "U " << id << ' ' << step << ' ' << u.what() << '\n';
			dead = true;
		}
	}
	return 0;
}

// h_serial: Boost.Serialization round trips on the real library (compiled against BM_REPO/include on
// every run).  Shared declarations of the per-element-type translation units.
//
// Input (stdin), one block per case:
//   case <id>
//   kind array | view
//   arch xml | text | binary
//   elem int | double | string | nested
//  array:
//   rank D
//   src f0 l0 f1 l1 ...          requested extents of the saved array
//   sv e e e ...                 its elements, flat order (an element is an integer key, or { lo hi v v v } for nested)
//   pmode default | ctor | cleared        how the receiving array is made
//   prior f0 l0 ...              its requested extents (unused for default)
//   pv e e e ...                 its elements
//  view:
//   sbuf N / sv e... (N)         source buffer
//   sroot base R n0 n1 ...       array_ref<T,R>(buffer + base, {n0,n1,...})
//   sops  i <k> | r <a> <b> <s>  one per root dimension: [k]   or   .sliced(a,b).strided(s) ... .rotated()
//   sperm rots transp            then rots x .rotated(), then .transposed() if transp
//   sconst 0|1                   save through const_subarray (D >= 2)
//   dbuf M / dv e... / droot / dops / dperm      same for the receiving view
//   end
// Output (stdout): observation lines, second token = case id; "E <id>" closes a case.
#pragma once
#include <boost/multi/array.hpp>

#include <cstddef>
#include <map>
#include <sstream>
#include <string>
#include <utility>
#include <vector>

namespace multi = boost::multi;
using idx_t     = std::ptrdiff_t;

struct DimOp {
	char  kind = 'r';  // 'i' index, 'r' range
	idx_t a = 0, b = 0, s = 1;
};
struct ViewSpec {
	idx_t                    nbuf = 0;
	std::vector<std::string> vals;  // raw element tokens (one string per element)
	idx_t                    base = 0;
	std::vector<idx_t>       sizes;
	std::vector<DimOp>       ops;
	int                      rots   = 0;
	bool                     transp = false;
	int                      view_rank() const {
        int r = 0;
        for(auto const& o : ops) { r += (o.kind == 'r') ? 1 : 0; }
        return r;
	}
};
struct Case {
	std::string id, kind, arch, elem, pmode;
	int         rank = 0;
	std::vector<std::pair<idx_t, idx_t>> src, prior;
	std::vector<std::string>             sv, pv;
	ViewSpec                             s, d;
	bool                                 sconst = false;
};

// one translation unit per element type
void run_case_int(Case const& c, std::ostream& out);
void run_case_double(Case const& c, std::ostream& out);
void run_case_string(Case const& c, std::ostream& out);
void run_case_nested(Case const& c, std::ostream& out);

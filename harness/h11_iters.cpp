// h11_iters: C11 copy of h_iters.cpp over the pointer policy (-DPTR11_KIND=0|1|2: raw, fancy, checked pointer).
// Element addresses: pointer_traits::pointer_to(reference) minus the root pointer; sub-view addresses: base() minus the
// root pointer, both with the pointer type's own operator-.  "K" lines carry the checked pointer's violation log.
// h_iters: iterator walks on the real library (C02).
// Input: a view program (case/root/op lines as for h_views) followed by
//   it a|e            start a walk with three registers, all = begin() of the view (a) or of elements() (e)
//   w R OP [ARG] [K]  modify register R: inc | dec | add n | sub n | set S (copy-assign from register S) |
//                     cpy S (copy-construct from S) | end | begin;   K: also observe it[K]  (K = "-" for none)
//   end
// Output: S lines (shapes, as h_views), one F line per walk (size, front/back of elements()), one I line per step:
//   I id n k=<a|e> r=R pos=<it-begin> cmp=<eq lt le gt ge ne diff vs registers 0,1,2> ce=<const==mutable> d=<addr|-> x=<addr|->
//   m=<address through indexing with the pos-th valid index, independent of iterators>
#include "common/ptr11_viewprog.hpp"

using dv11::V;

// address of an element reference / base of a sub-view, as the policy's (mutable) pointer
static auto at(int const& r) -> Ptr<int> { return P::to(const_cast<int&>(r)); }  // NOLINT
template<class SubView> static auto bs(SubView const& s) -> Ptr<int> { return P::template unconst<int>(s.base()); }

struct Step { int r; std::string op; long arg; bool hask; long k; };

template<class It> static std::string cmp3(It const& it, std::array<It, 3> const& regs) {
	std::ostringstream os;
	for(int s = 0; s != 3; ++s) {
		auto const& o = regs[static_cast<std::size_t>(s)];
		os << (s ? "," : "") << (it == o ? 1 : 0) << (it < o ? 1 : 0) << (it <= o ? 1 : 0) << (it > o ? 1 : 0) << (it >= o ? 1 : 0)
		   << (it != o ? 1 : 0) << ':' << (it - o);
	}
	return os.str();
}

struct Walker : dv11::Typed<int, Walker> {
	std::string id;
	char kind = 'a';
	std::vector<Step> steps;
	Ptr<int> root{};

	template<class It, class CIt, class Deref, class Indexed>
	void walk(It b, It e, idx_t size, Deref deref, Indexed indexed) {
		std::array<It, 3> regs{b, b, b};
		int n = 0;
		for(auto const& s : steps) {
			++n;
			It& it = regs[static_cast<std::size_t>(s.r)];
			if(s.op == "inc") { ++it; }
			else if(s.op == "dec") { --it; }
			else if(s.op == "pinc") { it++; }
			else if(s.op == "pdec") { it--; }
			else if(s.op == "add") { it += s.arg; }
			else if(s.op == "sub") { it -= s.arg; }
			else if(s.op == "plus") { it = it + s.arg; }
			else if(s.op == "minus") { it = it - s.arg; }
			else if(s.op == "set" || s.op == "fset") { it = regs[static_cast<std::size_t>(s.arg)]; }  // fset: the foreign-view detour is C02's
			else if(s.op == "cpy") { It c(regs[static_cast<std::size_t>(s.arg)]); it = c; }
			else if(s.op == "end") { it = e; }
			else if(s.op == "begin") { it = b; }
			idx_t pos = it - b;
			CIt cit = it;  // const iterator to the same position
			std::cout << "I " << id << ' ' << n << " k=" << kind << " r=" << s.r << " pos=" << pos << " cmp=" << cmp3(it, regs)
			          << " ce=" << ((cit == it && !(cit != it)) ? 1 : 0);
			if(pos >= 0 && pos < size) { std::cout << " d=" << (deref(it) - root); } else { std::cout << " d=-"; }
			if(s.hask) { std::cout << " x=" << (indexed(it, s.k) - root); } else { std::cout << " x=-"; }
			std::cout << '\n';
		}
	}

	template<int D> void go(V<int, D>& cv) {
		multi::subarray<int, D, Ptr<int>> w(cv.layout(), P::template unconst<int>(cv.base()));  // a mutable view of the same elements
		if(kind == 'a') {
			using It = typename multi::subarray<int, D, Ptr<int>>::iterator;
			using CIt = typename multi::subarray<int, D, Ptr<int>>::const_iterator;
			idx_t const size = w.size();
			std::cout << "F " << id << " k=a size=" << size << " dist=" << (w.end() - w.begin()) << '\n';
			if constexpr(D == 1) {
				walk<It, CIt>(w.begin(), w.end(), size, [](It const& it) { return at(*it); }, [](It const& it, idx_t k) { return at(it[k]); });
			} else {
				walk<It, CIt>(w.begin(), w.end(), size, [](It const& it) { return bs(*it); }, [](It const& it, idx_t k) { return bs(it[k]); });
			}
			// independent of iterators: the sub-view / element at the p-th valid index
			auto const ext = w.extension();
			std::cout << "M " << id << " k=a";
			for(idx_t p = 0; p != size; ++p) {
				if constexpr(D == 1) { std::cout << ' ' << (at(w[ext.first() + p]) - root); } else { std::cout << ' ' << (bs(w[ext.first() + p]) - root); }
			}
			std::cout << '\n';
		} else {
			auto&& el = w.elements();
			using R = std::decay_t<decltype(el)>;
			using It = typename R::iterator;
			using CIt = typename R::const_iterator;
			idx_t const size = el.size();
			std::cout << "F " << id << " k=e size=" << size << " dist=" << (el.end() - el.begin());
			if(size > 0) { std::cout << " front=" << (at(el.front()) - root) << " back=" << (at(el.back()) - root); }
			std::cout << '\n';
			walk<It, CIt>(el.begin(), el.end(), size, [](It const& it) { return at(*it); }, [](It const& it, idx_t k) { return at(it[k]); });
			std::cout << "M " << id << " k=e";
			for(idx_t p = 0; p != size && p < 64; ++p) { std::cout << ' ' << (at(el[p]) - root); }
			std::cout << '\n';
		}
	}
};

int main() {
	std::string line;
	std::string id;
	Root root;
	int step = 0;
	bool dead = false;
	Walker wk;
	bool walking = false;
	auto flush = [&] {
		if(walking && !dead) {
			wk.id = id;
			wk.root = root.data;
			root.view->accept(wk);
		}
		walking = false;
		wk.steps.clear();
	};
	while(std::getline(std::cin, line)) {
		if(line.empty() || line[0] == '#') { continue; }
		std::istringstream is(line);
		std::string kw;
		is >> kw;
		try {
			if(kw == "case") {
				is >> id;
				step = 0;
				dead = false;
			} else if(kw == "root") {
				int D = 0;
				is >> D;
				std::vector<std::pair<idx_t, idx_t>> e(static_cast<std::size_t>(D));
				for(auto& p : e) { is >> p.first >> p.second; }
				root = make_root_dyn(D, e);
				print_shape(id, step, *root.view);
			} else if(kw == "op") {
				if(dead) { continue; }
				auto op = dv11::parse_op(is);
				++step;
				auto nv = root.view->apply(op);
				root.view = std::move(nv);
				print_shape(id, step, *root.view);
			} else if(kw == "it") {
				flush();
				std::string k;
				is >> k;
				wk.kind = k[0];
				walking = true;
			} else if(kw == "w") {
				Step s{};
				std::string ks;
				is >> s.r >> s.op;
				if(s.op == "add" || s.op == "sub" || s.op == "set" || s.op == "fset" || s.op == "cpy" || s.op == "plus" || s.op == "minus") { is >> s.arg; }
				if(is >> ks && ks != "-") { s.hask = true; s.k = std::stol(ks); }
				wk.steps.push_back(s);
			} else if(kw == "end") {
				flush();
				ptr11::report_case(std::cout, id, true);
				std::cout << "E " << id << '\n';
			}
		} catch(dv11::unsupported const& u) {
			std::cout << "U " << id << ' ' << step << ' ' << u.what() << '\n';
			dead = true;
		}
	}
	return 0;
}

// h11_probes: C11 probes of the rarely-instantiated paths of owning arrays and references over the pointer policy
// (-DPTR11_KIND=0|1|2: raw, fancy, checked): construction through the allocator, copy/move, reextent, clear, assign,
// initializer lists, swap, conversions between owning arrays of different pointer types, algorithms on begin()/end()
// and elements(), array_ptr, static_array, rank 0, non-trivial elements.  Each probe is a small fixed program that
// prints its observable results on one "Q" line; the three pointer types must print identical lines ("the same
// program over raw pointers" is the reference) and the checked pointer must record no violation ("K" line).
// A probe is compiled alone with -DC11_ONLY=<number> (syntax check) when the grouped build fails, so that the
// expression that does not compile with a fancy pointer is named; the grouped build is then repeated without it
// (-DC11_SKIP_<number>=1) so that the other probes still run.  C11_ISOLATED probes are known not to compile
// with fancy pointers at the pinned commit; they are only ever compiled alone.
#include "common/ptr11_dynview.hpp"

#include <algorithm>
#include <functional>
#include <iostream>
#include <numeric>
#include <string>

using P = ptr11::policy;
template<class T, int D> using arr  = multi::array<T, D, typename P::template alloc<T>>;
template<class T, int D> using aref = multi::array_ref<T, D, typename P::template ptr<T>>;

#ifdef C11_ONLY
#define C11_ON(k) (C11_ONLY == (k))
#define C11_ON_ISOLATED(k) (C11_ONLY == (k))
#else
#define C11_ON(k) (!C11_SKIP_##k)   /* -DC11_SKIP_<k>=1 leaves probe k out of the grouped build */
#define C11_ON_ISOLATED(k) 0
#endif
#define C11_PROBE(k, name) static void probe_##k(std::ostream& os)
#define C11_ISOLATED(k, name) static void probe_##k(std::ostream& os)

template<class A> static void dump(std::ostream& os, A const& a) {  // extents and elements in canonical order
	os << " [";
	a.extensions().apply([&](auto... e) { ((os << e.first() << ':' << e.last() << ' '), ...); });
	os << "|";
	for(auto const& e : a.elements()) { os << ' ' << e; }
	os << "]";
}
template<int D> static auto iota_arr(multi::extensions_t<D> x, int start = 0) {
	arr<int, D> a(x, 0);
	auto p = a.data_elements();
	for(multi::size_t k = 0; k != a.num_elements(); ++k) { p[k] = start + static_cast<int>(k); }
	return a;
}

#if C11_ON(1)
C11_PROBE(1, reextent_grow_shrink) { auto A = iota_arr<2>({3, 4}); A.reextent({4, 5}, 99); dump(os, A); A.reextent({2, 2}); dump(os, A); A.reextent({2, 2}); dump(os, A); }
#endif
#if C11_ON(2)
C11_PROBE(2, reextent_1d_and_empty) { arr<int, 1> E; E.reextent({4}, 7); dump(os, E); E.reextent({6}, 1); dump(os, E); E.reextent({0}); dump(os, E); os << ' ' << E.is_empty(); }
#endif
#if C11_ON(3)
C11_PROBE(3, clear_then_reuse) { auto A = iota_arr<2>({3, 4}); A.clear(); os << ' ' << A.num_elements() << ' ' << A.is_empty(); A.reextent({2, 3}, 5); dump(os, A); }
#endif
#if C11_ON(4)
C11_PROBE(4, copy_move_construct_assign) {
	auto A = iota_arr<2>({3, 4}); arr<int, 2> B(A); arr<int, 2> C(std::move(B)); arr<int, 2> D2({1, 1}, 0); D2 = C; arr<int, 2> E; E = std::move(A);
	dump(os, C); dump(os, D2); dump(os, E); os << ' ' << (C == D2) << (D2 == E) << ' ' << (D2.base() != C.base());
}
#endif
#if C11_ON(5)
C11_PROBE(5, construct_from_views) {
	auto A = iota_arr<2>({3, 4}); arr<int, 2> B = A.rotated(); arr<int, 2> C = A({0, 2}, {1, 3}); arr<int, 1> R = A[1]; arr<int, 2> T = ~A; auto U = +A.reversed();
	dump(os, B); dump(os, C); dump(os, R); dump(os, T); dump(os, U);
}
#endif
#if C11_ON(6)
C11_PROBE(6, assign_from_views_resizing) {
	auto A = iota_arr<2>({3, 4}); arr<int, 2> B({4, 3}, 0); B = A.rotated(); dump(os, B); B = A; dump(os, B); B = A({0, 2}, {0, 2}); dump(os, B);
	auto T3 = iota_arr<3>({2, 3, 4}); arr<int, 2> C = T3[1]; C = T3[0]; dump(os, C);
}
#endif
#if C11_ON(7)
C11_PROBE(7, initializer_lists) { arr<int, 2> B = {{1, 2}, {3, 4}}; dump(os, B); B = {{5, 6, 7}}; dump(os, B); arr<int, 1> V = {1, 2, 3}; V = {4, 5}; dump(os, V); }
#endif
#if C11_ON(8)
C11_PROBE(8, swap_arrays_and_views) {
	auto A = iota_arr<2>({3, 4}); arr<int, 2> B({1, 1}, 42); swap(A, B); dump(os, A); dump(os, B); auto C = iota_arr<2>({3, 4}, 100); swap(B(), C()); dump(os, B); dump(os, C);
	swap(B[0], C[1]); dump(os, B);
}
#endif
#if C11_ON(9)
C11_PROBE(9, flatted_elements_reshape) {
	auto A = iota_arr<2>({3, 4}); auto&& f = A.flatted(); os << ' ' << f[7] << ' ' << f.size(); auto&& e = A.elements(); os << ' ' << e[7] << ' ' << e.size();
	A.reshape({6, 2}); dump(os, A); os << ' ' << A[5][1];
}
#endif
#if C11_ON(10)
C11_PROBE(10, algorithms_on_elements_and_rows) {
	auto A = iota_arr<2>({3, 4}); std::sort(A.elements().begin(), A.elements().end(), std::greater<>{}); dump(os, A);
	std::reverse(A.begin(), A.end()); dump(os, A); std::rotate(A.begin(), A.begin() + 1, A.end()); dump(os, A);
	os << ' ' << std::accumulate(A.elements().begin(), A.elements().end(), 0);
	std::sort(A.begin(), A.end()); dump(os, A); std::stable_sort(A.rotated().begin(), A.rotated().end()); dump(os, A);
}
#endif
#if C11_ON(11)
C11_PROBE(11, array_ref_over_given_storage) {
	typename P::template buffer<int> buf(14); for(int k = 0; k != 14; ++k) { buf.cell(k) = -k; }
	auto A = iota_arr<2>({3, 4}); aref<int, 2> ref(buf.at(1, 12), {3, 4}); ref = A; arr<int, 2> B(ref); arr<int, 2> C = ref; auto D2 = +ref; auto E = ref.decay();
	os << ' ' << (B == ref) << (ref == A) << (ref < A) << (C == D2) << (E == A); dump(os, ref); os << ' ' << buf.cell(0) << ' ' << buf.cell(13);
	multi::array_ptr<int, 2, typename P::template ptr<int>> ap(buf.at(1, 12), {3, 4}); os << ' ' << (*ap)[1][1] << ' ' << ap->size() << ' ' << (ap == ap);
	multi::array_cref<int, 2, typename P::template ptr<int const>> cr(buf.at(1, 12), {3, 4}); os << ' ' << cr[2][3];
}
#endif
#if C11_ON(12)
C11_PROBE(12, element_access_paths) {
	auto A = iota_arr<2>({3, 4}); auto const& cA = A;
	os << ' ' << A.front()[0] << A.back()[1] << ' ' << A.diagonal()[1] << ' ' << (A.begin() < A.end()) << ' ' << cA[1][1] << cA.elements()[2] << (cA().begin() == cA.begin());
	os << ' ' << A(1, 1) << ' ' << A.apply(std::make_tuple(2, 3)) << ' ' << A.home()[1][2] << ' ' << A(1, multi::_)[2] << A(multi::_, 1)[2] << A({0, 2}, 1)[1] << cA(1, {1, 3})[1];
	os << ' ' << (A.data_elements() == A.base()) << ' ' << (cA.data_elements() - A.data_elements()) << ' ' << (A.origin() == A.base());
}
#endif
#if C11_ON(13)
C11_PROBE(13, fill_and_element_assign) {
	auto A = iota_arr<2>({3, 4}); A[1].fill(5); dump(os, A); A.elements().fill(2); dump(os, A); auto B = iota_arr<2>({3, 4}); std::fill(A.begin(), A.end(), B[0]); dump(os, A);
	A().elements() = B().elements(); dump(os, A); A.rotated() = B.rotated(); dump(os, A);
	for(auto&& row : A) { for(auto& e : row) { e += 1; } } dump(os, A);
}
#endif
#if C11_ON(14)
C11_PROBE(14, element_moved_into_views) {
	auto A = iota_arr<2>({3, 4}); arr<int, 2> B({3, 4}, 0); B() = A.element_moved(); dump(os, B); B({0, 2}, {0, 2}) = A({1, 3}, {1, 3}); dump(os, B);
	B() = std::move(A)(); dump(os, B); auto&& m = B.element_moved(); os << ' ' << (m.base() == B.base());
}
#endif
#if C11_ON_ISOLATED(15)
C11_ISOLATED(15, array_assign_from_element_moved) { auto A = iota_arr<2>({3, 4}); arr<int, 2> B({3, 4}, 0); B = A.element_moved(); dump(os, B); }
#endif
#if C11_ON_ISOLATED(16)
C11_ISOLATED(16, array_assign_from_moved_call) { auto A = iota_arr<2>({3, 4}); arr<int, 2> B({3, 4}, 0); B = std::move(A)(); dump(os, B); }
#endif
#if C11_ON(17)
C11_PROBE(17, static_array) {
	multi::static_array<int, 2, typename P::template alloc<int>> S({2, 2}, 3); multi::static_array<int, 2, typename P::template alloc<int>> T(S); auto A = iota_arr<2>({3, 4}); T = A({0, 2}, {0, 2}); S = T;
	dump(os, S);
}
#endif
#if C11_ON(18)
C11_PROBE(18, rank0) { arr<int, 0> Z(5); os << ' ' << *Z.base() << ' ' << static_cast<int>(Z) << ' ' << Z.num_elements(); }
#endif
#if C11_ON(19)
C11_PROBE(19, allocator_aware_constructors) {
	typename P::template alloc<int> al; auto A = iota_arr<2>({3, 4}); arr<int, 2> B({2, 2}, al); arr<int, 2> C({2, 2}, 4, al); arr<int, 2> D2(A, al); arr<int, 2> E(std::move(D2), al);
	os << ' ' << B.num_elements(); dump(os, C); dump(os, E); os << ' ' << (A.get_allocator() == al);
}
#endif
#if C11_ON(20)
C11_PROBE(20, iterator_range_constructors) {
	auto A = iota_arr<2>({3, 4}); arr<int, 2> B(A.begin(), A.end()); arr<int, 1> C(A[0].begin(), A[0].end()); std::vector<int> v{1, 2, 3}; arr<int, 1> D2(v.begin(), v.end()); arr<int, 2> E(A.begin() + 1, A.end());
	dump(os, B); dump(os, C); dump(os, D2); dump(os, E); A.assign(B.begin(), B.end()); dump(os, A);
}
#endif
#if C11_ON(21)
C11_PROBE(21, subviews_of_owning_arrays) {
	auto A = iota_arr<2>({4, 6}); dump(os, A.chunked(2)[1]); dump(os, A.partitioned(2)[1]); dump(os, A.rotated().halved()[1]);
	dump(os, A.dropped(1)); dump(os, A.taked(1)); dump(os, A.sliced(0, 4).strided(2).reversed().rotated().unrotated().transposed()); dump(os, A.range({1, 3})); dump(os, A({1, 3}, {2, 5}));
	dump(os, A.template static_array_cast<int const, typename P::template ptr<int const>>()); os << ' ' << A[1].broadcasted()[5][2];
}
#endif
#if C11_ON(22)
C11_PROBE(22, conversions_between_pointer_types) {  // element-wise, never pointer-wise
	auto A = iota_arr<2>({3, 4}); multi::array<int, 2> Q(A); multi::array<int, 2> Q2 = A(); Q2 = A; Q2() = A(); multi::array<int, 2> R({3, 4}, 0); A = R; A() = Q(); arr<int, 2> B; B = Q.rotated().unrotated();
	dump(os, Q); dump(os, Q2); dump(os, B); os << ' ' << (A == Q) << (A() == Q2()) << (Q == A) << (A != Q2);
}
#endif
#if C11_ON(23)
C11_PROBE(23, iterator_arithmetic_and_arrow) {
	auto A = iota_arr<2>({3, 4}); auto it = A.begin(); it += 1; --it; auto j = it + 2; os << ' ' << (j - it) << (it < j) << (*it)[1] << it[1][1] << it->size() << (it.base() == A.base()) << it.stride();
	arr<int, 1> V = {4, 5, 6}; auto vi = V.begin(); os << ' ' << (vi.base() == V.base()) << *(vi + 2) << vi[1]; auto ei = A.elements().begin(); auto ci = std::as_const(A).elements().begin(); os << (ci == ei);
	os << ' ' << std::inner_product(V.begin(), V.end(), V.begin(), 0) << ' ' << *std::find(V.begin(), V.end(), 5) << ' ' << (std::unique(V.begin(), V.end()) - V.begin());
}
#endif
#if C11_ON(24)
C11_PROBE(24, nontrivial_elements) {
	arr<std::string, 1> S({3}, std::string("a")); S.reextent({5}); S[4] = "z"; auto T = S; T = std::move(S); dump(os, T);
	arr<std::string, 2> U({2, 2}, std::string("b")); arr<std::string, 2> W = U.rotated(); W = U(); U.clear(); dump(os, W); os << ' ' << U.num_elements();
	W.reextent({3, 1}, std::string("c")); dump(os, W); arr<std::string, 2> X = {{"p", "q"}, {"r", "s"}}; X = W; dump(os, X);
}
#endif
#if C11_ON(25)
C11_PROBE(25, copy_algorithms_between_arrays) {
	auto A = iota_arr<2>({3, 4}); auto B = iota_arr<2>({3, 4}, 50); std::copy(B.begin(), B.end(), A.begin()); dump(os, A); std::copy_n(B.elements().begin(), 5, A.rotated().elements().begin()); dump(os, A);
	std::swap_ranges(A.begin(), A.end(), B.begin()); dump(os, B); A.swap(B); dump(os, B);
}
#endif
#if C11_ON(26)
C11_PROBE(26, layout_queries) {
	auto A = iota_arr<3>({2, 3, 4}); auto [x0, x1, x2] = A.extensions(); auto [n0, n1, n2] = A.sizes(); os << ' ' << x0.last() << x1.last() << x2.last() << n0 << n1 << n2 << ' ' << A.stride() << ' ' << A.num_elements()
	   << ' ' << A.is_compact() << A().is_flattable() << ' ' << A.layout().num_elements() << ' ' << A.rotated().stride() << ' ' << (A.unrotated() == A.rotated().rotated());
}
#endif
#if C11_ON_ISOLATED(27)
C11_ISOLATED(27, reinterpret_array_cast_count) {  // runs on the raw and checked pointers only as a separate build; see the report
	arr<int, 1> V({4}, 0x00020001); auto&& r = V.template reinterpret_array_cast<short>(2); os << ' ' << r.size() << ' ' << r[1][0] << ' ' << r[1][1];
}
#endif
#if C11_ON_ISOLATED(28)
C11_ISOLATED(28, moved_view_read_through_const_ref) { auto A = iota_arr<2>({4, 6}); auto&& m = std::move(A).taked(1); auto const& cm = m; dump(os, cm); os << ' ' << (cm.base() == A.base()); }
#endif

int main() {
#define RUN(k, name) { std::cout << "Q " #name << std::flush; probe_##k(std::cout); std::cout << '\n'; ptr11::report_case(std::cout, #name); std::cout << std::flush; }
#if C11_ON(1)
	RUN(1, reextent_grow_shrink)
#endif
#if C11_ON(2)
	RUN(2, reextent_1d_and_empty)
#endif
#if C11_ON(3)
	RUN(3, clear_then_reuse)
#endif
#if C11_ON(4)
	RUN(4, copy_move_construct_assign)
#endif
#if C11_ON(5)
	RUN(5, construct_from_views)
#endif
#if C11_ON(6)
	RUN(6, assign_from_views_resizing)
#endif
#if C11_ON(7)
	RUN(7, initializer_lists)
#endif
#if C11_ON(8)
	RUN(8, swap_arrays_and_views)
#endif
#if C11_ON(9)
	RUN(9, flatted_elements_reshape)
#endif
#if C11_ON(10)
	RUN(10, algorithms_on_elements_and_rows)
#endif
#if C11_ON(11)
	RUN(11, array_ref_over_given_storage)
#endif
#if C11_ON(12)
	RUN(12, element_access_paths)
#endif
#if C11_ON(13)
	RUN(13, fill_and_element_assign)
#endif
#if C11_ON(14)
	RUN(14, element_moved_into_views)
#endif
#if C11_ON_ISOLATED(15)
	RUN(15, array_assign_from_element_moved)
#endif
#if C11_ON_ISOLATED(16)
	RUN(16, array_assign_from_moved_call)
#endif
#if C11_ON(17)
	RUN(17, static_array)
#endif
#if C11_ON(18)
	RUN(18, rank0)
#endif
#if C11_ON(19)
	RUN(19, allocator_aware_constructors)
#endif
#if C11_ON(20)
	RUN(20, iterator_range_constructors)
#endif
#if C11_ON(21)
	RUN(21, subviews_of_owning_arrays)
#endif
#if C11_ON(22)
	RUN(22, conversions_between_pointer_types)
#endif
#if C11_ON(23)
	RUN(23, iterator_arithmetic_and_arrow)
#endif
#if C11_ON(24)
	RUN(24, nontrivial_elements)
#endif
#if C11_ON(25)
	RUN(25, copy_algorithms_between_arrays)
#endif
#if C11_ON(26)
	RUN(26, layout_queries)
#endif
#if C11_ON_ISOLATED(27)
	RUN(27, reinterpret_array_cast_count)
#endif
#if C11_ON_ISOLATED(28)
	RUN(28, moved_view_read_through_const_ref)
#endif
	std::cout << "E probes\n";
	return 0;
}

// do == and != compile between rank-0 arrays (and between a rank-0 array and a rank-0 reference)?
// (compile probe for C07, whose quantifier starts at dimensionality 0; -fsyntax-only)
#include <boost/multi/array.hpp>
namespace multi = boost::multi;
bool probe(multi::array<int, 0> const& a, multi::array<int, 0>& b, multi::array_ref<int, 0> const& r) {
	return (a == a) && !(a != b) && (b == b) && (b == r) && !(r != b);
}

// C12 compile-time probe (syntax-only, assertions enabled as in the harness builds):
// "These views compose with the view algebra" -- a rank-2 element_transformed view is sliced.
// const_subarray::sliced_aux_ (array_ref.hpp, D > 1) contains
//     BOOST_MULTI_ASSERT(this->base_ || ((first*stride - offset) == 0));   // it is UB to offset a nullptr
// which needs the element pointer to convert to bool; transform_ptr (utility.hpp) has no such
// conversion, so this translation unit compiles only with -DNDEBUG / -DBOOST_MULTI_ASSERT_DISABLE.
#include <boost/multi/array.hpp>

namespace multi = boost::multi;

struct S { int a; int b; double c; };

int main() {
	multi::array<S, 2> A({3, 4});
	auto T = A.element_transformed(&S::b);
	auto V = T.sliced(1, 3);       // rank 2: the D > 1 code path
	auto W = T({1, 3}, {0, 2});    // call syntax with ranges goes through sliced as well
	auto G = T.diagonal();
	return static_cast<int>(V.size() + W.size() + G.size());
}

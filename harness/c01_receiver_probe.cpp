// Does view operation PROBE_OP compile on every kind of receiver?  (compile probe for C01 / C19; -fsyntax-only, one PROBE_OP per run)
// The property quantifies over views obtained "from an array" -- const arrays, const-qualified views and temporary views
// included; the run-time harness reaches every overload through harness/common/dynview.hpp (receiver kinds 0..5), this
// probe names the operation when one of them does not compile.
#include <boost/multi/array.hpp>
#include <utility>
namespace multi = boost::multi;
#ifndef PROBE_OP
#error "define PROBE_OP, e.g. -DOP='strided(2)'"
#endif
template<class X> void use(X&& x) { (void)x.size(); }
void probe(multi::array<int, 3> const& a3, multi::array<int, 2> const& a2, multi::array<int, 1> const& a1,
           multi::array<int, 3>& m3, multi::array<int, 2>& m2, multi::array<int, 1>& m1) {
#ifndef ONLY_RANK_GE_2
	use(a1.PROBE_OP); use(a1().PROBE_OP); use(m1.PROBE_OP); use(m1().PROBE_OP); use(std::move(m1)().PROBE_OP);
	{ auto&& v = m1(); use(v.PROBE_OP); use(std::as_const(v).PROBE_OP); }
	{ auto&& v = a1(); use(v.PROBE_OP); use(std::as_const(v).PROBE_OP); }
	{ auto&& v = a2[1]; use(v.PROBE_OP); use(std::as_const(v).PROBE_OP); }
#endif
	use(a2.PROBE_OP); use(a2().PROBE_OP); use(m2.PROBE_OP); use(m2().PROBE_OP);
	use(a3.PROBE_OP); use(a3().PROBE_OP); use(m3.PROBE_OP); use(m3().PROBE_OP); use(m3[1].PROBE_OP); use(a3[1].PROBE_OP);
	{ auto&& v = m2(); use(v.PROBE_OP); use(std::as_const(v).PROBE_OP); use(std::move(v).PROBE_OP); }
	{ auto&& v = a2(); use(v.PROBE_OP); use(std::as_const(v).PROBE_OP); use(std::move(v).PROBE_OP); }
	{ auto&& v = m3.rotated(); use(v.PROBE_OP); use(std::as_const(v).PROBE_OP); }
}

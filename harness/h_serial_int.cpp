// h_serial: instantiations for element type int
#include "h_serial_impl.hpp"
void run_case_int(Case const& c, std::ostream& out) { hs::run_case_t<int>(c, out); }

(* C13 -- reference semantics of xSYRK / xHERK, the mathematical definition of the rank-k update of one triangle on the
   logical contents of the views, and the decidable criterion "this xSYRK/xHERK call computes this update".
   Definitions only.  herm = true: xHERK (c := alpha*a.a^H + beta*c, real alpha/beta, the diagonal is made real);
   herm = false: xSYRK (c := alpha*a.a^T + beta*c). *)
From Coq Require Import ZArith List Bool.
From BM Require Import Model.BlasC13 Model.BlasC13Ref Model.BlasC13Crit Model.BlasC13L3.
Local Open Scope Z_scope.
Local Open Scope bool_scope.

Definition rk_trans (herm : bool) (k : rk_call) : trans :=
  if r_trans k =? ch_N then TN else if herm then TC else TT.

Section Carrier.
  Variable R : Type.
  Variable rzero : R.
  Variables radd rmul : R -> R -> R.
  Variable cj : R -> R.
  Variable re : R -> R.     (* the "real part" xHERK stores on the diagonal; nothing is assumed about it *)

  (* (op(A).op(A)^H)(i,j) = sum_l op(A)(i,l) * conj(op(A)(j,l)),  op(A) = A ('N') or A^H ('C') resp. A^T ('T', syrk) *)
  Definition rk_cell (herm : bool) (alpha beta : R) (k : rk_call) (mem : Z -> R) (i j : Z) : R :=
    let t := rk_trans herm k in
    let v := radd (rmul alpha (zsum R rzero radd (r_k k) (fun l =>
                     rmul (opelt R cj t mem (r_pa k) (r_lda k) i l) (cjif R cj herm (opelt R cj t mem (r_pa k) (r_lda k) j l)))))
                  (rmul beta (mem (r_pc k + i + j * r_ldc k))) in
    if herm && (i =? j) then re v else v.

  (* only the uplo triangle of the n x n column-major C is referenced; every other cell keeps its value *)
  Definition rk_ref (herm : bool) (alpha beta : R) (k : rk_call) (mem : Z -> R) : Z -> R :=
    fun p => let d := p - r_pc k in
             let j := d / r_ldc k in
             let i := d mod r_ldc k in
             if (0 <=? d) && (i <? r_n k) && (j <? r_n k) && (if r_uplo k =? ch_U then i <=? j else j <=? i)
             then rk_cell herm alpha beta k mem i j else mem p.

  (* the update on the logical contents: cell (i,j) of the selected triangle of c *)
  Definition rk_math (herm : bool) (alpha beta : R) (a c : mat) (mem : Z -> R) (i j : Z) : R :=
    let v := radd (rmul alpha (zsum R rzero radd (cols a) (fun l => rmul (mval R cj a mem i l) (cjif R cj herm (mval R cj a mem j l)))))
                  (rmul beta (mval R cj c mem i j)) in
    if herm && (i =? j) then re v else v.
End Carrier.

Definition in_triangle (upper : bool) (i j : Z) : bool := if upper then i <=? j else j <=? i.

(* the call updates the logical triangle `upper` of c with a.a^H (a.a^T), either directly, or -- through the transposed
   output -- as the mirror triangle of the conjugate (of the same, for syrk) product *)
Definition rk_implements_b (herm upper : bool) (k : rk_call) (a c : mat) : bool :=
  let n := rows c in
  let t := rk_trans herm k in
  let uplo_u := (r_uplo k =? ch_U) in
  rk_legal k && (r_n k =? n) && (cols c =? n) && (rows a =? n) && (r_k k =? cols a) && negb (mconj c)
  && (   (((n <=? 1) || Bool.eqb uplo_u upper)          (* a 1 x 1 matrix is its own upper and lower triangle *)
          && ((n <=? 0) || ((r_pc k =? mbase c) && agree n n 1 (r_ldc k) (s0 c) (s1 c)))
          && op_is t (r_pa k) (r_lda k) a n (cols a))
      || (((n <=? 1) || Bool.eqb uplo_u (negb upper))
          && ((n <=? 0) || ((r_pc k =? mbase c) && agree n n (r_ldc k) 1 (s0 c) (s1 c)))
          && op_is t (r_pa k) (r_lda k) (if herm then conj_mat a else a) n (cols a))).

(* ------------------------------------------------------------------------------------------ *)
(* Named conditions under which a call site of syrk (601-604) / herk (701-713) is right.       *)
(* n = rows c = rows a, K = cols a.  Proved: Proofs/BlasC13RankKSites.v.                        *)
(*  - 601: syrk.hpp:24 passes k = size(a) and ldc = cc.rotated().size(): right only for a       *)
(*    square a and an unpadded, non-empty c;                                                    *)
(*  - every site assumes, without checking, that the OTHER stride of a / c is 1 (s1 a = 1,      *)
(*    s1 c = 1 below) and takes leading dimensions from strides that wf_mat bounds only for     *)
(*    operands with two or more rows / columns;                                                 *)
(*  - 704: herk.hpp:130 is right only for n <= 1 (it computes the conjugate triangle).          *)
(* ------------------------------------------------------------------------------------------ *)
Definition rk_site_cond (k : rk_call) (a c : mat) : bool :=
  let n := rows c in let K := cols a in
  let s := r_site k in
  let lda_n := (2 <=? K) || (n <=? s1 a) in                 (* lda = s1 a >= max 1 n  ('N' sites, s0 a = 1) *)
  let lda_k := (2 <=? n) || (K <=? s0 a) in                 (* lda = s0 a >= max 1 K  ('T'/'C' sites) *)
  let a_rows_contig := (K <=? 1) || (s1 a =? 1) in          (* unchecked: the elements of a row of a are adjacent *)
  let c_rows_contig := (n <=? 1) || (s1 c =? 1) in          (* unchecked: the elements of a row of c are adjacent *)
  if s =? 601 then (rows a =? cols a) && ((n <=? 1) || (s1 c =? n)) && (1 <=? n) && lda_n
  else if (s =? 602) || (s =? 701) then c_rows_contig && lda_n
  else if (s =? 603) || (s =? 703) then a_rows_contig && lda_k
  else if (s =? 604) || (s =? 711) then c_rows_contig && a_rows_contig && lda_k
  else if (s =? 702) || (s =? 712) then true
  else if s =? 713 then lda_n
  else if s =? 704 then (n <=? 1) && a_rows_contig && (K <=? s0 a)
  else false.

(* A block copy: copy_n(src.base(), n, dst.base()) -- what a "both operands are gap-free (is_compact())" shortcut of view
   assignment would execute instead of the element-by-element loop over elements().  Stated in the model so that the
   difference from assign_view is a theorem (Properties_C05.v C05_block_copy_refuted; DESIGN section 9, seed C05-s10).
   Definitions only. *)
From Coq Require Import ZArith List.
From BM Require Import Model.Layout Model.View Model.Iter Model.Assign.
Import ListNotations.
Local Open Scope Z_scope.

Fixpoint flat_copy (n : nat) (db sb : Z) (m : mem) : mem :=
  match n with
  | O => m
  | S k => upd (flat_copy k db sb m) (db + Z.of_nat k) (mkcell (c_val (m (sb + Z.of_nat k))) false)
  end.

(* layout_t::is_compact (layout.hpp:869-871): base_size() == num_elements(), base_size = the largest nelems of any dimension *)
Definition v_is_compact (v : view) : bool :=
  fold_right Z.max 0 (l_nelemss (lay v)) =? l_num_elements (lay v).

(* L4: equality and ordering of views (array_ref.hpp:1664-1691 D>1, :3129-3175 D=1, array_ref :3463-3497).
   ==  : extensions() == other.extensions() && elements() == other.elements()      (after fix 4 of DESIGN 7:
         the pinned code compared only the leading extension), where elements()== is
         size() == other.size() && std::equal over the flat ranges (:936-939);
   !=  : extensions() != ... || elements() != ...;
   <   : lexicographical_compare: pre-test on extension().first(), then std::lexicographical_compare over
         begin()/end(), whose elements are sub-views compared with the same operator< (elements for D = 1);
   <=  : == || <        >  : other < *this        >= (D = 1 only) : other < *this || ==.
   The value of a view is the nested list of its elements (by C02, *(begin()+i) is the sub-view at the i-th
   valid index and elements() is the concatenation in canonical order).  Definitions only. *)
From Coq Require Import ZArith List Bool.
From BM Require Import Model.Layout Model.View.
Import ListNotations.
Local Open Scope Z_scope.

Inductive tree := Leaf (x : Z) | Node (ts : list tree).

Fixpoint iotaz (n : nat) : list Z := match n with O => [] | S n' => iotaz n' ++ [Z.of_nat n'] end.

(* the nested value of the view (l, b) in storage m *)
Fixpoint abs_l (l : layout) (b : Z) (m : Z -> Z) : tree :=
  match l with
  | [] => Leaf (m b)
  | d :: l' =>
      let f := fst (d_extension d) in
      Node (map (fun i => abs_l l' (b + ((f + i) * d_stride d - d_offset d)) m) (iotaz (Z.to_nat (d_size d))))
  end.
Definition v_tree (v : view) (m : Z -> Z) : tree := abs_l (lay v) (base v) m.

Fixpoint flat_t (t : tree) : list Z :=
  match t with
  | Leaf x => [x]
  | Node ts => (fix go (l : list tree) : list Z := match l with [] => [] | t' :: r => flat_t t' ++ go r end) ts
  end.

Fixpoint list_eqb (a b : list Z) : bool :=
  match a, b with
  | [], [] => true
  | x :: a', y :: b' => (x =? y) && list_eqb a' b'
  | _, _ => false
  end.

(* std::lexicographical_compare with the element comparison lt used in both directions *)
Fixpoint lexb {A : Type} (lt : A -> A -> bool) (l1 l2 : list A) : bool :=
  match l1, l2 with
  | [], [] => false
  | [], _ :: _ => true
  | _ :: _, [] => false
  | x :: xs, y :: ys => if lt x y then true else if lt y x then false else lexb lt xs ys
  end.

Fixpoint lt_depth (n : nat) (t1 t2 : tree) : bool :=
  match n, t1, t2 with
  | O, Leaf x, Leaf y => x <? y
  | S n', Node l1, Node l2 => lexb (lt_depth n') l1 l2
  | _, _, _ => false
  end.

Definition v_eq (a b : view) (m : Z -> Z) : bool :=
  x_eq (l_extensions (lay a)) (l_extensions (lay b)) && list_eqb (flat_t (v_tree a m)) (flat_t (v_tree b m)).
Definition v_ne (a b : view) (m : Z -> Z) : bool :=
  negb (x_eq (l_extensions (lay a)) (l_extensions (lay b))) || negb (list_eqb (flat_t (v_tree a m)) (flat_t (v_tree b m))).
Definition v_lt (a b : view) (m : Z -> Z) : bool :=
  match lay a, lay b with
  | da :: _, db :: _ =>
      let fa := fst (d_extension da) in let fb := fst (d_extension db) in
      if fb <? fa then true else if fa <? fb then false
      else lt_depth (length (lay a)) (v_tree a m) (v_tree b m)
  | _, _ => lt_depth (length (lay a)) (v_tree a m) (v_tree b m)
  end.
Definition v_le (a b : view) (m : Z -> Z) : bool := v_eq a b m || v_lt a b m.
Definition v_gt (a b : view) (m : Z -> Z) : bool := v_lt b a m.
Definition v_ge (a b : view) (m : Z -> Z) : bool := v_lt b a m || v_eq a b m.

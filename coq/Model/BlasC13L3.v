(* C13 -- level 3 besides gemm: the dispatch of syrk.hpp:17-36, herk.hpp:108-145 and trsm.hpp:80-113, and the argument
   checks of their core:: wrappers (core.hpp:476-505, 538-559).  Definitions only; hand transcription (the ladders are
   short; they are tied to the library by the interposition correspondence on every run).
   Characters are their ASCII codes.  NOTE filling.hpp:16-19: filling::lower = 'U' and filling::upper = 'L' (the library
   is row-major, BLAS column-major), so static_cast<char>(+fill) is the OTHER letter. *)
From Coq Require Import ZArith List Bool.
From BM Require Import Model.BlasC13.
Local Open Scope Z_scope.
Local Open Scope bool_scope.

Definition ch_U := 85. Definition ch_L := 76. Definition ch_R := 82.
Definition ch_N := 78. Definition ch_T := 84. Definition ch_C := 67.

(* xSYRK / xHERK (uplo, trans, n, k, alpha, A, lda, beta, C, ldc) *)
Record rk_call := mk_rk_call { r_site : Z; r_uplo : Z; r_trans : Z; r_n : Z; r_k : Z; r_pa : Z; r_lda : Z; r_pc : Z; r_ldc : Z }.
(* xTRSM (side, uplo, transa, diag, m, n, alpha, A, lda, B, ldb) *)
Record trsm_call := mk_trsm_call { t_site : Z; t_side : Z; t_uplo : Z; t_trans : Z; t_diag : Z; t_m : Z; t_n : Z;
                                   t_pa : Z; t_lda : Z; t_pb : Z; t_ldb : Z; t_conj_alpha : bool }.

Inductive l3_outcome (call : Type) :=
| L3NoCall                 (* returns without calling BLAS (empty operand) *)
| L3Call (c : call)
| L3Abort                  (* an assertion fails (assertion-enabled build) *)
| L3Throw.                 (* BOOST_MULTI_ASSERT1 of the core wrapper (std::logic_error when NDEBUG is not defined) *)
Arguments L3NoCall {call}. Arguments L3Call {call} c. Arguments L3Abort {call}. Arguments L3Throw {call}.

Definition rk_legal (c : rk_call) : bool :=
  (0 <=? r_n c) && (0 <=? r_k c)
  && (Z.max 1 (if r_trans c =? ch_N then r_n c else r_k c) <=? r_lda c) && (Z.max 1 (r_n c) <=? r_ldc c).
(* XERBLA parameter: 3 n, 4 k, 7 lda, 10 ldc *)
Definition rk_info (c : rk_call) : Z :=
  if r_n c <? 0 then 3 else if r_k c <? 0 then 4
  else if r_lda c <? Z.max 1 (if r_trans c =? ch_N then r_n c else r_k c) then 7
  else if r_ldc c <? Z.max 1 (r_n c) then 10 else 0.
(* core.hpp:485-487 / 501-503: exactly the lda / ldc tests *)
Definition rk_wrap (debug : bool) (o : l3_outcome rk_call) : l3_outcome rk_call :=
  match o with
  | L3Call c => if debug && negb (rk_legal c) then L3Throw else L3Call c
  | _ => o
  end.

(* ---- syrk(c_side, alpha, a, beta, cc): syrk.hpp:17-36.  upper := (c_side == filling::upper) ---- *)
Definition syrk_dispatch (upper : bool) (a c : mat) : rk_call :=
  if s0 a =? 1 then
    if s0 c =? 1 then mk_rk_call 601 (if upper then ch_U else ch_L) ch_N (rows c) (rows a) (mbase a) (s1 a) (mbase c) (cols c)   (* :24 *)
    else              mk_rk_call 602 (if upper then ch_L else ch_U) ch_N (rows c) (cols a) (mbase a) (s1 a) (mbase c) (s0 c)     (* :26 *)
  else
    if s0 c =? 1 then mk_rk_call 603 (if upper then ch_U else ch_L) ch_T (rows c) (cols a) (mbase a) (s0 a) (mbase c) (s1 c)     (* :30 *)
    else              mk_rk_call 604 (if upper then ch_L else ch_U) ch_T (rows c) (cols a) (mbase a) (s0 a) (mbase c) (s0 c).    (* :32 *)

Definition syrk_model (debug upper : bool) (a c : mat) : l3_outcome rk_call :=
  if debug && negb (rows c =? cols c) then L3Abort                                                   (* :21 *)
  else rk_wrap debug (L3Call (syrk_dispatch upper a c)).

(* ---- herk(c_side, alpha, a, beta, c) for complex elements: herk.hpp:108-145 ---- *)
Definition herk_dispatch (upper : bool) (a c : mat) : l3_outcome rk_call :=
  let n := rows c in let k := cols a in
  if mconj a then
    if (s0 a =? 1) && negb (s0 c =? 1) then
      L3Call (mk_rk_call 701 (if upper then ch_L else ch_U) ch_N n k (mbase a) (s1 a) (mbase c) (s0 c))                        (* :124 *)
    else if (s0 a =? 1) && (s0 c =? 1) then
      if rows a =? 1 then L3Call (mk_rk_call 702 (if upper then ch_L else ch_U) ch_N n k (mbase a) (s1 a) (mbase c) (s0 c))    (* :126 *)
      else L3Abort                                                                                                              (* :127 *)
    else if negb (s0 a =? 1) && (s0 c =? 1) then
      L3Call (mk_rk_call 703 (if upper then ch_U else ch_L) ch_C n k (mbase a) (s0 a) (mbase c) (s1 c))                        (* :129 *)
    else
      L3Call (mk_rk_call 704 (if upper then ch_L else ch_U) ch_C n k (mbase a) (s0 a) (mbase c) (s0 c))                        (* :130 *)
  else
    if negb (s0 a =? 1) && negb (s0 c =? 1) then
      L3Call (mk_rk_call 711 (if upper then ch_L else ch_U) ch_C n k (mbase a) (s0 a) (mbase c) (s0 c))                        (* :134 *)
    else if negb (s0 a =? 1) && (s0 c =? 1) then
      if rows a =? 1 then L3Call (mk_rk_call 712 (if upper then ch_L else ch_U) ch_N n k (mbase a) (s1 a) (mbase c) (s1 c))    (* :136 *)
      else L3Abort                                                                                                              (* :137 *)
    else if (s0 a =? 1) && negb (s0 c =? 1) then L3Abort                                                                        (* :139 *)
    else L3Call (mk_rk_call 713 (if upper then ch_U else ch_L) ch_N n k (mbase a) (s1 a) (mbase c) (s1 c)).                     (* :140 *)

(* hermitized(c) = conjugate transpose: the non-conjugated transposed view of the same cells when c is conjugated *)
Definition hermitized (c : mat) : mat := mk_mat (mbase c) (s1 c) (s0 c) (cols c) (rows c) (negb (mconj c)).

Definition herk_model (debug upper : bool) (a c : mat) : l3_outcome rk_call :=
  if debug && negb ((rows a =? rows c) && (rows c =? cols c)) then L3Abort                           (* :111-112 *)
  else if (rows c =? 0) then L3NoCall                                                                (* :113 *)
  else
    let upper' := if mconj c then negb upper else upper in                                           (* :115 flip *)
    let c' := if mconj c then hermitized c else c in
    match herk_dispatch upper' a c' with
    | L3Abort => if debug then L3Abort else L3NoCall
    | o => rk_wrap debug o
    end.

(* ---- trsm(side, fill, diag, alpha, a, b): trsm.hpp:80-113.  left := side::left, lower := filling::lower, unit := diagonal::unit ---- *)
Definition trsm_legal (c : trsm_call) : bool :=
  (0 <=? t_m c) && (0 <=? t_n c)
  && (Z.max 1 (if t_side c =? ch_L then t_m c else t_n c) <=? t_lda c) && (Z.max 1 (t_m c) <=? t_ldb c).
(* XERBLA: 5 m, 6 n, 9 lda, 11 ldb *)
Definition trsm_info (c : trsm_call) : Z :=
  if t_m c <? 0 then 5 else if t_n c <? 0 then 6
  else if t_lda c <? Z.max 1 (if t_side c =? ch_L then t_m c else t_n c) then 9
  else if t_ldb c <? Z.max 1 (t_m c) then 11 else 0.

Definition trsm_dispatch (left lower unit : bool) (a b : mat) : l3_outcome trsm_call :=
  let side := if left then ch_L else ch_R in
  let swp := if left then ch_R else ch_L in
  let plus := if lower then ch_U else ch_L in      (* static_cast<char>(+a_fill) *)
  let minus := if lower then ch_L else ch_U in     (* static_cast<char>(-a_fill) *)
  let dg := if unit then ch_U else ch_N in
  match mconj a, mconj b with
  | false, false =>
      if (s0 a =? 1) && (s0 b =? 1) then L3Call (mk_trsm_call 801 side minus ch_N dg (rows b) (cols b) (mbase a) (s1 a) (mbase b) (s1 b) false)  (* :92 *)
      else if (s1 a =? 1) && (s1 b =? 1) then L3Call (mk_trsm_call 802 swp plus ch_N dg (cols b) (rows b) (mbase a) (s0 a) (mbase b) (s0 b) false)  (* :93 *)
      else if (s0 a =? 1) && (s1 b =? 1) then L3Call (mk_trsm_call 803 swp minus ch_T dg (cols b) (rows b) (mbase a) (s1 a) (mbase b) (s0 b) false)  (* :94 *)
      else if (s1 a =? 1) && (s0 b =? 1) then L3Call (mk_trsm_call 804 side plus ch_T dg (rows b) (cols b) (mbase a) (s0 a) (mbase b) (s1 b) false)  (* :95 *)
      else L3Abort
  | true, false =>
      if (s0 a =? 1) && (s1 b =? 1) then L3Call (mk_trsm_call 811 swp minus ch_C dg (cols b) (rows b) (mbase a) (s1 a) (mbase b) (s0 b) false)  (* :98 *)
      else if (s1 a =? 1) && (s0 b =? 1) then L3Call (mk_trsm_call 812 side plus ch_C dg (rows b) (cols b) (mbase a) (s0 a) (mbase b) (s1 b) false)  (* :99 *)
      else L3Abort
  | false, true =>
      if (s1 a =? 1) && (s0 b =? 1) then L3Call (mk_trsm_call 821 side plus ch_C dg (rows b) (cols b) (mbase a) (s0 a) (mbase b) (s1 b) true)  (* :102 *)
      else L3Abort
  | true, true =>
      if (s0 a =? 1) && (s1 b =? 1) then L3Call (mk_trsm_call 831 swp minus ch_T dg (cols b) (rows b) (mbase a) (s1 a) (mbase b) (s0 b) true)  (* :106 *)
      else if (s1 a =? 1) && (s0 b =? 1) then L3Call (mk_trsm_call 832 side plus ch_T dg (rows b) (cols b) (mbase a) (s0 a) (mbase b) (s1 b) true)  (* :107, ill-formed: bbase *)
      else L3Abort
  end.

Definition trsm_model (debug left lower unit : bool) (a b : mat) : l3_outcome trsm_call :=
  if debug && negb ((if left then rows b <=? cols a else cols b <=? rows a)                          (* :83-84 *)
                    && ((s0 a =? 1) || (s1 a =? 1)) && ((s0 b =? 1) || (s1 b =? 1))) then L3Abort    (* :86-87 *)
  else if rows b =? 0 then L3NoCall                                                                  (* :89 *)
  else match trsm_dispatch left lower unit a b with
       | L3Call c => if debug && negb (trsm_legal c) then L3Throw else L3Call c                      (* core.hpp:553-557 *)
       | L3Abort => if debug then L3Abort else L3NoCall
       | o => o
       end.

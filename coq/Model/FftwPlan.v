(* L6 / C15: the FFTW adaptor's plan builder, function by function.
   Source: /repo/include/boost/multi/adaptors/fftw.hpp
     fftw_plan_dft                      :275-321   (zip, stable_partition, guru64 call)
     fftw::sign / forward / backward    :344-363   (FFTW_FORWARD = -1, FFTW_BACKWARD = +1)
     fftw::plan (ctor, execute, dtor)   :399-447   (unique_ptr with fftw_destroy_plan deleter)
     fftw::dft / dft_forward / dft_backward / in-place overload   :506-534
   and /usr/include/fftw3.h (fftw_iodim64 = {n, is, os}; the planner flags :492-500).
   Pointers are integer offsets (in elements, i.e. in std::complex<double> = fftw_complex units)
   from data_elements() of the root array, as everywhere in the model (DESIGN.md section 3).
   Definitions only. *)
From Coq Require Import ZArith List Bool.
From BM Require Import Model.Layout Model.View.
Import ListNotations.
Local Open Scope Z_scope.

(* fftw3.h: struct fftw_iodim64 { ptrdiff_t n; ptrdiff_t is; ptrdiff_t os; } *)
Record iodim := mkiodim { io_n : Z; io_is : Z; io_os : Z }.

(* fftw.hpp:285-294: tuple_zip(which, sizes, istrides, ostrides) turned into an array of
   pair<bool, fftw_iodim64{size, istride, ostride}>.  (The C++ array has one extra, unused,
   trailing element "to avoid a problem with gcc 13 static analysis"; every algorithm below runs
   on [begin, end-1), so it is not modelled.) *)
Fixpoint zip4 (w : list bool) (n i o : list Z) : list (bool * iodim) :=
  match w, n, i, o with
  | b :: w', x :: n', y :: i', z :: o' => (b, mkiodim x y z) :: zip4 w' n' i' o'
  | _, _, _, _ => []
  end.

(* std::stable_partition(first, last, pred), [alg.partitions]: the elements satisfying pred are
   placed before those that do not; the relative order inside both groups is preserved. *)
Definition stable_partition {A : Type} (p : A -> bool) (l : list A) : list A * list A :=
  (filter p l, filter (fun x => negb (p x)) l).

(* fftw.hpp:295-301: partition on the bool, then copy the iodims of the first group to dims[] and
   those of the second group to howmany_dims[]. *)
Definition plan_of (which : list bool) (sizes istr ostr : list Z) : list iodim * list iodim :=
  let '(t, f) := stable_partition (fun e : bool * iodim => fst e) (zip4 which sizes istr ostr) in
  (map snd t, map snd f).

Definition FFTW_FORWARD : Z := -1.
Definition FFTW_BACKWARD : Z := 1.
(* fftw3.h:492-500, the documented planner flags *)
Definition FFTW_MEASURE : Z := 0.            (* 0U: the default planning rigor *)
Definition FFTW_DESTROY_INPUT : Z := 1.      (* 1U << 0 *)
Definition FFTW_UNALIGNED : Z := 2.          (* 1U << 1 *)
Definition FFTW_EXHAUSTIVE : Z := 8.         (* 1U << 3 *)
Definition FFTW_PRESERVE_INPUT : Z := 16.    (* 1U << 4 *)
Definition FFTW_PATIENT : Z := 32.           (* 1U << 5 *)
Definition FFTW_ESTIMATE : Z := 64.          (* 1U << 6 *)
Definition FFTW_WISDOM_ONLY : Z := 2097152.  (* 1U << 21 *)

(* FFTW manual 4.3.2 "Planner Flags":
     "FFTW_ESTIMATE specifies that, instead of actual measurements of different algorithms, a simple
      heuristic is used to pick a (probably sub-optimal) plan quickly.  With this flag, the input/output
      arrays are not overwritten during planning."
     "FFTW_MEASURE tells FFTW to find an optimized plan by actually computing several FFTs and measuring
      their execution time. ... This is the default planning option."  (FFTW_PATIENT, FFTW_EXHAUSTIVE:
      like FFTW_MEASURE, wider search.)
     "FFTW_WISDOM_ONLY is a special planning mode in which the plan is only created if wisdom is available
      for the given problem, and otherwise a NULL plan is returned."
   and 4.3.1 / 2.1: "you must create the plan before initializing the input, because FFTW_MEASURE
   overwrites the in/out arrays"; "The only exceptions to this are the FFTW_ESTIMATE and FFTW_WISDOM_ONLY
   flags".  So, as a definition: creating a plan leaves the arrays alone exactly when one of the two bits
   is present, whatever the size of the transform; and a plan is guaranteed to exist (for dimensions FFTW
   accepts) only without FFTW_WISDOM_ONLY. *)
Definition planning_preserves_arrays (flags : Z) : bool :=
  Z.testbit flags 6 || Z.testbit flags 21.
Definition planning_needs_wisdom (flags : Z) : bool := Z.testbit flags 21.
(* the adaptor's own flag constants, fftw.hpp:29-44 *)
Definition fftw_flags_estimate : Z := FFTW_ESTIMATE.
Definition fftw_flags_measure : Z := FFTW_MEASURE.

(* the argument list of fftw_plan_guru64_dft *)
Record guru_call := mkguru {
  g_rank : Z; g_dims : list iodim;
  g_hrank : Z; g_hdims : list iodim;
  g_in : Z; g_out : Z;
  g_sign : Z; g_flags : Z }.

(* fftw.hpp:275-321.  sizes and input strides come from in_layout, output strides from
   out_layout; rank = dims_end - dims.begin(); the pointers are handed on as they come; the last
   parameter (fftw::flags, unnamed at :276) is ignored and the call passes the constant
   FFTW_ESTIMATE | FFTW_PRESERVE_INPUT (:315) -- for every size. *)
Definition fftw_plan_dft (which : list bool) (in_base : Z) (in_layout : layout)
                         (out_base : Z) (out_layout : layout) (sign : Z) (_flags : Z) : guru_call :=
  let '(dims, hdims) := plan_of which (l_sizes in_layout) (l_strides in_layout) (l_strides out_layout) in
  mkguru (Z.of_nat (length dims)) dims (Z.of_nat (length hdims)) hdims in_base out_base sign
         (Z.lor FFTW_ESTIMATE FFTW_PRESERVE_INPUT).

(* What FFTW accepts (api/mktensor-iodims.h, guru_kosherp: every transform dimension has n > 0,
   every vector ("howmany") dimension has n >= 0); otherwise fftw_plan_guru64_dft returns NULL. *)
Definition guru_kosher (g : guru_call) : bool :=
  forallb (fun d => 0 <? io_n d) (g_dims g) && forallb (fun d => 0 <=? io_n d) (g_hdims g).
(* a non-NULL plan is guaranteed: accepted dimensions, and not the wisdom-only mode *)
Definition plan_nonnull (g : guru_call) : bool :=
  guru_kosher g && negb (planning_needs_wisdom (g_flags g)).

(* The external calls one front-end call performs, in order. *)
Inductive fftw_event :=
| EvPlan (g : guru_call)            (* fftw_plan_guru64_dft(...) *)
| EvExecute (pin pout : Z)          (* fftw_execute_dft(plan, in, out) *)
| EvDestroy.                        (* fftw_destroy_plan(plan) *)

(* the plan constructor (:409-417): fftw_plan_dft(which, in_base, in_layout, out_base, out_layout, sign,
   fftw::estimate) *)
Definition plan_ctor (which : list bool) (in_base : Z) (in_layout : layout)
                     (out_base : Z) (out_layout : layout) (sign : Z) : guru_call :=
  fftw_plan_dft which in_base in_layout out_base out_layout sign fftw_flags_estimate.

(* An explicit plan object used once: plan::forward/backward(which, in.base(), in.layout(), out.base(),
   out.layout()) or plan{..., dir} (:409-425), .execute(in.base(), out.base()) (:427-440); the plan is
   destroyed when the object dies (unique_ptr deleter, :402, :414).
   base() (array_ref.hpp:252) is the address of the view's FIRST element -- the element whose indices are
   the first index of every extension -- and that is what both the planning call and the execute call
   receive.  origin() (array_ref.hpp:255, 2044: base_ + layout().origin(), layout.hpp:766: sub_.origin() -
   offset_) is the address the element with all indices 0 would have; the two coincide only for views
   whose extensions start at 0 (v_origin below; it is NOT what the calls receive). *)
Definition fe_plan_execute (which : list bool) (vin vout : view) (sign : Z) : list fftw_event :=
  [ EvPlan (plan_ctor which (base vin) (lay vin) (base vout) (lay vout) sign);
    EvExecute (base vin) (base vout);
    EvDestroy ].
(* fftw.hpp:506-513 (after fix c24dd02):
     if(in.num_elements() == 0) { return out; }        -- no FFTW call at all
     return plan{which, in.base(), in.layout(), out.base(), out.layout(), dir}.execute(in.base(), out.base()), out; *)
Definition fe_dft (which : list bool) (vin vout : view) (sign : Z) : list fftw_event :=
  if l_num_elements (lay vin) =? 0 then [] else fe_plan_execute which vin vout sign.
(* fftw.hpp:515-520: dft(which, in, dir) = dft(which, in, in, dir) *)
Definition fe_dft_inplace (which : list bool) (v : view) (sign : Z) := fe_dft which v v sign.
(* fftw.hpp:522-537 *)
Definition fe_dft_forward (which : list bool) (vin vout : view) := fe_dft which vin vout FFTW_FORWARD.
Definition fe_dft_backward (which : list bool) (vin vout : view) := fe_dft which vin vout FFTW_BACKWARD.

(* adaptors/fft.hpp:57-158, :169-172: the lazy form   multi::array<T,D> out = multi::fft::dft(which, in, dir);
   (class dft_range).  Constructing / assigning an array from the range reaches
   dft_range::const_iterator::copy_ (:107-121), which rebuilds BOTH operands from iterator pairs,
       const_subarray(first, last)                                   array_ref.hpp:1574-1575 (after fix a7e1e64)
         : layout_type(first->layout(), first.stride(), 0, (last - first)*first.stride())
   and calls fftw::dft(which, <rebuilt in>, <rebuilt out>, dir).  `count` is in.end() - in.begin(),
   the size of the input, for both operands. *)
Definition v_from_iterators (count : Z) (v : view) : view :=
  match lay v with
  | d :: sub => mkview (mkdim (d_stride d) 0 (count * d_stride d) :: sub) (base v)
  | [] => v
  end.
Definition fe_fft_range (which : list bool) (vin vout : view) (sign : Z) : list fftw_event :=
  let count := l_size (lay vin) in
  fe_dft which (v_from_iterators count vin) (v_from_iterators count vout) sign.
(* the rebuilt view is the view itself when its leading dimension is zero-based and holds `count` whole
   strides (every view the library hands out whose leading size is `count`) *)
Definition iter_pair_okb (count : Z) (v : view) : bool :=
  match lay v with
  | d :: sub => (d_offset d =? 0) && (d_nelems d =? count * d_stride d)
  | [] => true
  end.

(* ... and, whatever its first index, when its leading dimension holds `count` whole strides: the rebuilt view
   then differs from the operand in the leading OFFSET only (it is always 0), which neither the plan (sizes,
   strides) nor the pointers (base) depend on *)
Definition iter_pair_sizeb (count : Z) (v : view) : bool :=
  match lay v with
  | d :: sub => d_nelems d =? count * d_stride d
  | [] => true
  end.

(* A NULL plan is asserted on (:318, :415) -- the stated precondition of explicit plan objects -- and, with
   NDEBUG, handed to fftw_execute_dft, which dereferences it: no result (see run_events in Model/FftwDft.v).
   fftw::dft and everything built on it no longer get there (empty views return before planning). *)

(* ---------------------------------------------------------------------------------------------
   What a guru plan visits (FFTW manual 4.5.1-4.5.3, "Guru vector and transform sizes"): for every
   index tuple b of the howmany (vector) dimensions and every index tuple t of the transform
   dimensions, the input element at  in + sum b_j*is_j + sum t_k*is_k  and the output element at
   out + sum b_j*os_j + sum t_k*os_k.  Trusted reading of the manual, a definition. *)
Definition zrange (n : Z) : list Z := map Z.of_nat (seq 0 (Z.to_nat n)).

Fixpoint tuples (ns : list Z) : list (list Z) :=
  match ns with
  | [] => [[]]
  | n :: ns' => flat_map (fun i => map (cons i) (tuples ns')) (zrange n)
  end.

Fixpoint dotp (idx strides : list Z) : Z :=
  match idx, strides with
  | i :: idx', s :: strides' => i * s + dotp idx' strides'
  | _, _ => 0
  end.

Definition cell := (list Z * list Z * Z * Z)%type.   (* batch tuple, transform tuple, in offset, out offset *)
Definition c_batch (c : cell) : list Z := fst (fst (fst c)).
Definition c_trans (c : cell) : list Z := snd (fst (fst c)).
Definition c_in (c : cell) : Z := snd (fst c).
Definition c_out (c : cell) : Z := snd c.

Definition guru_cell (dims hdims : list iodim) (b t : list Z) : cell :=
  (b, t, dotp b (map io_is hdims) + dotp t (map io_is dims),
         dotp b (map io_os hdims) + dotp t (map io_os dims)).

Definition guru_cells (dims hdims : list iodim) : list cell :=
  flat_map (fun b => map (fun t => guru_cell dims hdims b t) (tuples (map io_n dims)))
           (tuples (map io_n hdims)).

(* ---------------------------------------------------------------------------------------------
   The view side: the index set of a view, split by the mask, with the view's own address
   arithmetic (v_addr of Model/View.v = base + sum (i*stride - offset), what chained brackets do). *)
Fixpoint select {A : Type} (m : list bool) (l : list A) : list A :=
  match m, l with
  | b :: m', x :: l' => if b then x :: select m' l' else select m' l'
  | _, _ => []
  end.

(* inverse of the split: interleave a batch tuple and a transform tuple according to the mask *)
Fixpoint merge (m : list bool) (b t : list Z) : list Z :=
  match m with
  | [] => []
  | true :: m' => hd 0 t :: merge m' b (tl t)
  | false :: m' => hd 0 b :: merge m' (tl b) t
  end.

(* layout.hpp:766, :1093: origin() = sub_.origin() - offset_, 0 for D = 0; array_ref.hpp:255: base_ + that *)
Fixpoint l_origin (l : layout) : Z :=
  match l with [] => 0 | d :: sub => l_origin sub - d_offset d end.
Definition v_origin (v : view) : Z := base v + l_origin (lay v).

(* the first index of every extension, and index tuples counted from there *)
Definition firsts (l : layout) : list Z := map (fun d => fst (d_extension d)) l.
Fixpoint vaddz (a b : list Z) : list Z :=
  match a, b with x :: a', y :: b' => (x + y) :: vaddz a' b' | _, _ => [] end.
(* the index tuples of a view, in canonical order: k + firsts for every zero-based position k *)
Definition ext_tuples (l : layout) : list (list Z) := map (fun k => vaddz k (firsts l)) (tuples (l_sizes l)).
(* the element addresses of a view with any index base: its own bracket arithmetic on its own index set *)
Definition footprint_x (v : view) : list Z := map (v_addr v) (ext_tuples (lay v)).
(* the cell of the plan a view element corresponds to: positions (zero-based, FFTW's own numbering) split by
   the mask, and the element's distance from the FIRST element of either view *)
Definition view_cell_x (which : list bool) (vin vout : view) (k : list Z) : cell :=
  (select (map negb which) k, select which k,
   v_addr vin (vaddz k (firsts (lay vin))) - v_addr vin (firsts (lay vin)),
   v_addr vout (vaddz k (firsts (lay vout))) - v_addr vout (firsts (lay vout))).
Definition view_cells_x (which : list bool) (vin vout : view) : list cell :=
  map (view_cell_x which vin vout) (tuples (l_sizes (lay vin))).

Definition zero_based (l : layout) : Prop := Forall (fun d => d_offset d = 0) l.
Definition zero_basedb (l : layout) : bool := forallb (fun d => d_offset d =? 0) l.

Definition view_cell (which : list bool) (vin vout : view) (idx : list Z) : cell :=
  (select (map negb which) idx, select which idx, v_addr vin idx - base vin, v_addr vout idx - base vout).

Definition view_cells (which : list bool) (vin vout : view) : list cell :=
  map (view_cell which vin vout) (tuples (l_sizes (lay vin))).

(* element addresses of a view, in canonical order: its footprint *)
Definition footprint (v : view) : list Z := map (v_addr v) (tuples (l_sizes (lay v))).

(* entry point for the correspondence check: the sorted-by-construction list of output offsets the
   plan of a front-end call writes, relative to the root of the output *)
Definition plan_out_addresses (g : guru_call) : list Z :=
  map (fun c => g_out g + c_out c) (guru_cells (g_dims g) (g_hdims g)).
Definition plan_in_addresses (g : guru_call) : list Z :=
  map (fun c => g_in g + c_in c) (guru_cells (g_dims g) (g_hdims g)).

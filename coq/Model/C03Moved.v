(* C03: moved-from values.  The standard leaves a moved-from value "valid but unspecified": a moved-from multi::array
   in a std::vector<value_type> is empty, a moved-from row of a view keeps its elements, a moved-from int keeps its
   value.  run_junk executes a program on independent values whose moved-from state is an ARBITRARY function `junk` of
   the old value (junk = id is run_on_values); run_tracked executes it while tracking which positions are unspecified
   (None) and fails (None) as soon as the program reads, compares, copies from or swaps an unspecified position -- which
   no algorithm may do.  Definitions only. *)
From Coq Require Import ZArith List Bool.
From BM Require Import Model.Layout Model.View Model.Compare Model.C03Prog.
Import ListNotations.
Local Open Scope Z_scope.

Fixpoint run_junk {A : Type} (junk : value -> value) (D : nat) (pr : prog A) (l : list value) : list value * A :=
  match pr with
  | Ret a => (l, a)
  | Read p k => run_junk junk D (k (vget l p)) l
  | Take p k => run_junk junk D (k (vget l p)) (vset l p (junk (vget l p)))
  | Write p x k => run_junk junk D k (vset l p x)
  | Copy p q k => run_junk junk D k (vset l p (vget l q))
  | Move p q k => run_junk junk D k (vset (vset l p (vget l q)) q (junk (vget l q)))
  | Swap p q k => run_junk junk D k (vset (vset l p (vget l q)) q (vget l p))
  | Less p q k => run_junk junk D (k (lt_depth D (vget l p) (vget l q))) l
  | LessV p x k => run_junk junk D (k (lt_depth D (vget l p) x)) l
  | VLess x p k => run_junk junk D (k (lt_depth D x (vget l p))) l
  | Eq p q k => run_junk junk D (k (tree_eqb (vget l p) (vget l q))) l
  | EqV p x k => run_junk junk D (k (tree_eqb (vget l p) x)) l
  end.

Definition oget (l : list (option value)) (p : Z) : option value := nth (Z.to_nat p) l None.
Definition oset (l : list (option value)) (p : Z) (x : option value) : list (option value) := lset l (Z.to_nat p) x.

Fixpoint run_tracked {A : Type} (D : nat) (pr : prog A) (l : list (option value)) : option (list (option value) * A) :=
  match pr with
  | Ret a => Some (l, a)
  | Read p k => match oget l p with Some x => run_tracked D (k x) l | None => None end
  | Take p k => match oget l p with Some x => run_tracked D (k x) (oset l p None) | None => None end
  | Write p x k => run_tracked D k (oset l p (Some x))
  | Copy p q k => match oget l q with Some x => run_tracked D k (oset l p (Some x)) | None => None end
  | Move p q k => match oget l q with Some x => run_tracked D k (oset (oset l p (Some x)) q None) | None => None end
  | Swap p q k =>
      match oget l p, oget l q with
      | Some x, Some y => run_tracked D k (oset (oset l p (Some y)) q (Some x))
      | _, _ => None
      end
  | Less p q k => match oget l p, oget l q with Some x, Some y => run_tracked D (k (lt_depth D x y)) l | _, _ => None end
  | LessV p x k => match oget l p with Some y => run_tracked D (k (lt_depth D y x)) l | None => None end
  | VLess x p k => match oget l p with Some y => run_tracked D (k (lt_depth D x y)) l | None => None end
  | Eq p q k => match oget l p, oget l q with Some x, Some y => run_tracked D (k (tree_eqb x y)) l | _, _ => None end
  | EqV p x k => match oget l p with Some y => run_tracked D (k (tree_eqb y x)) l | None => None end
  end.

(* l carries every value lo specifies *)
Definition agrees (l : list value) (lo : list (option value)) : Prop :=
  length l = length lo /\ forall i x, nth i lo None = Some x -> nth i l (Leaf 0) = x.

(* L6 (MPI), part 2: /repo/include/boost/multi/adaptors/mpi.hpp, function by function.
   A layout_t<D> is the list of its (stride, offset, nelems) triples (Model/Layout.v); `sz` is
   MPI_Type_size of the element datatype (mpi.hpp:35-43: int, float, double, for which size =
   extent).  Only stride() and size() of each level are read by the adaptor; offsets are not.
   Definitions only. *)
From Coq Require Import ZArith List Bool.
From BM Require Import Model.Layout Model.MpiTypes.
Import ListNotations.
Local Open Scope Z_scope.

(* skeleton(Layout const& lyt, MPI_Datatype dt, Size subcount)        mpi.hpp:128-156
     D == 1 : sub_type = dt                                          :135-136
     else   : sk = skeleton(lyt.sub(), dt, lyt.sub().size()); sub_type = sk.datatype()   :137-140
     MPI_Type_size(dt, &dt_size)                                     :142-143
     MPI_Type_create_hvector(subcount, 1, lyt.stride()*dt_size, sub_type, &vector_datatype)   :147-151
     MPI_Type_create_resized(vector_datatype, 0, lyt.stride()*dt_size, &datatype_)            :153
   layout_t<0> has no sub(): the template does not instantiate for D = 0; the [] case is unreachable. *)
Fixpoint skeleton_type (l : layout) (sz subcount : Z) : dt :=
  match l with
  | [] => Base sz
  | d :: sub =>
      let sub_type := match sub with
                      | [] => Base sz
                      | _ :: _ => skeleton_type sub sz (l_size sub)
                      end in
      Resized (HVector subcount 1 (d_stride d * sz) sub_type) 0 (d_stride d * sz)
  end.

(* count_{static_cast<Size>(lyt.size())}                             mpi.hpp:130 *)
Definition skeleton_count (l : layout) : Z := l_size l.

(* skeleton(lyt, dt) : skeleton{lyt, dt, 1} { MPI_Type_commit }      mpi.hpp:162-166
   skeleton(lyt)     : skeleton{lyt, mpi::datatype<T>}               mpi.hpp:168-169
   message(buf, lyt, dt) : skeleton_type(lyt, dt), buf_{buf}         mpi.hpp:217-218
   message(arrelems) : message{arrelems.base(), arrelems.layout(), datatype<value_type>}   :223-229
   -> (count(), datatype()); buffer() is the view's base pointer. *)
Definition message_model (l : layout) (sz : Z) : Z * dt := (skeleton_count l, skeleton_type l sz 1).

(* data(It first): MPI_Type_vector(1, 1, first.stride(), datatype<element>)   mpi.hpp:55-67 *)
Definition data_model (stride sz : Z) : dt := Vector 1 1 stride (Base sz).

Definition hd_stride (l : layout) : Z := match l with [] => 0 | d :: _ => d_stride d end.

(* create_subarray(lyt, old_datatype, new_datatype)                  mpi.hpp:186-206
     skeleton const sk(lyt, old_datatype);
     hvector(lyt.size(), 1, lyt.stride()*size, sk.datatype()); resized(0, lyt.stride()*size) *)
Definition create_subarray_model (l : layout) (sz : Z) : dt :=
  Resized (HVector (l_size l) 1 (hd_stride l * sz) (skeleton_type l sz 1)) 0 (hd_stride l * sz).

(* create_subarray_aux(lyt, subcount, old_datatype, new_datatype)    mpi.hpp:81-113 (not called by
   the adaptor itself; kept because it is the commented-out alternative body of create_subarray) *)
Fixpoint create_subarray_aux_model (l : layout) (sz subcount : Z) : dt :=
  match l with
  | [] => Base sz
  | d :: sub =>
      let sub_type := match sub with
                      | [] => Dup (Base sz)                                          (* :90-91 *)
                      | _ :: _ => create_subarray_aux_model sub sz (l_size sub)      (* :93 *)
                      end in
      Resized (HVector subcount 1 (d_stride d * sz) sub_type) 0 (d_stride d * sz)    (* :102-108 *)
  end.

(* ---- the abstract side: the view's own elements ---- *)

(* all index tuples of a zero-based view with sizes szs, in canonical order (last index fastest) *)
Fixpoint canon_indices (szs : list Z) : list (list Z) :=
  match szs with
  | [] => [[]]
  | n :: r => flat_map (fun i => map (cons i) (canon_indices r)) (zseq n)
  end.

(* byte displacement from base() of each element, in canonical order, by the view's own address
   arithmetic (chained brackets, Model/Layout.v l_addr) *)
Definition elem_offsets (l : layout) (szs : list Z) (sz : Z) : list Z :=
  map (fun idx => sz * l_addr l idx) (canon_indices szs).

(* the same sequence as elements() computes it: elements()[k] = base_[l_(xs.from_linear(k))]
   (array_ref.hpp:914-917, 843-846; layout.hpp:775-784) *)
Definition flat_offsets (l : layout) (sz : Z) : list Z :=
  map (fun k => sz * l_call l (x_from_linear (l_extensions l) k)) (zseq (l_num_elements l)).

(* C13 -- level-1 routines of the adaptor: which BLAS routine is called with which (n, pointer, increment) arguments.
   Definitions only.  Sources: dot.hpp:19-33 (dot/dotu/dotc selection), core.hpp:290-375 (how dot and dotu reach BLAS:
   through xGEMV('N', 1, n, 1, x, incx, y, incy, 0, r, 1), a 1 x n matrix times a vector), axpy.hpp:29-31, scal.hpp:20-24,
   copy.hpp:22-27, swap.hpp, nrm2.hpp:21-24, asum.hpp, iamax.hpp.  All of them pass base(), stride() and size() through. *)
From Coq Require Import ZArith List Bool.
From BM Require Import Model.BlasC13 Model.BlasC13Ref.
Local Open Scope Z_scope.
Local Open Scope bool_scope.

Inductive dot_routine := DDot | DViaGemv | DDotc.
Inductive etype := ES | ED | EC | EZ.   (* float, double, complex<float>, complex<double> *)
Definition is_complex_et (e : etype) : bool := match e with EC | EZ => true | _ => false end.
Record dot_call := mk_dot_call { d_routine : dot_routine; d_n : Z; d_p1 : Z; d_inc1 : Z; d_p2 : Z; d_inc2 : Z }.

(* dot_n, dot.hpp:19-33.  complex = is_complex<value_type>; both operands conjugated is a static_assert (does not compile) *)
(* core.hpp:293-299: double calls ddot_ itself; float goes through sgemv (work-around for a vendor bug, core.hpp:296);
   core.hpp:358, 363: complex dotu goes through c/zgemv; core.hpp:369, 373: dotc calls c/zdotc_ *)
Definition dot_n_model (e : etype) (x y : vec) : option dot_call :=
  if negb (is_complex_et e) then
    Some (mk_dot_call (match e with ED => DDot | _ => DViaGemv end) (len x) (vbase x) (inc x) (vbase y) (inc y))   (* :21 *)
  else match vconj x, vconj y with
       | false, false => Some (mk_dot_call DViaGemv (len x) (vbase x) (inc x) (vbase y) (inc y))         (* :23 dotu *)
       | false, true  => Some (mk_dot_call DDotc (len x) (vbase y) (inc y) (vbase x) (inc x))            (* :24 dotc(y, x) *)
       | true,  false => Some (mk_dot_call DDotc (len x) (vbase x) (inc x) (vbase y) (inc y))            (* :25 dotc(x, y) *)
       | true,  true  => None                                                                            (* :26 *)
       end.

(* the two-vector / one-vector pass-through routines: (n, x, incx, y, incy) *)
Record l1_call := mk_l1_call { l_n : Z; l_px : Z; l_incx : Z; l_py : Z; l_incy : Z }.
Definition l1_xy (x y : vec) : l1_call := mk_l1_call (len x) (vbase x) (inc x) (vbase y) (inc y).   (* axpy copy swap: n = size of x (copy, swap) / y (axpy) *)
Definition l1_x (x : vec) : l1_call := mk_l1_call (len x) (vbase x) (inc x) 0 0.                     (* scal nrm2 asum iamax *)

Section Carrier.
  Variable R : Type.
  Variable rzero : R.
  Variables radd rmul : R -> R -> R.
  Variable cj : R -> R.

  (* what the selected routine stores in the result cell; None = the cell is not written.
     xDOTC: sum conj(x_i) * y_i.  The xGEMV route: y(1) := 1 * sum_l A(1,l) x(l) + 0 * y(1), EXCEPT that xGEMV returns at
     once when n = 0 (quick return), so nothing is stored for empty vectors. *)
  Definition dot_ref (c : dot_call) (mem : Z -> R) : option R :=
    match d_routine c with
    | DDot => Some (zsum R rzero radd (d_n c) (fun l => rmul (mem (d_p1 c + l * d_inc1 c)) (mem (d_p2 c + l * d_inc2 c))))
    | DDotc => Some (zsum R rzero radd (d_n c) (fun l => rmul (cj (mem (d_p1 c + l * d_inc1 c))) (mem (d_p2 c + l * d_inc2 c))))
    | DViaGemv => if d_n c =? 0 then None
                  else Some (zsum R rzero radd (d_n c) (fun l => rmul (mem (d_p1 c + l * d_inc1 c)) (mem (d_p2 c + l * d_inc2 c))))
    end.

  (* sum_i x_i * y_i on the logical contents (conjugated views included) *)
  Definition dot_math (x y : vec) (mem : Z -> R) : R :=
    zsum R rzero radd (len x) (fun l => rmul (vval R cj x mem l) (vval R cj y mem l)).
End Carrier.

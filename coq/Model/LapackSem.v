(* L6 (LAPACK), semantic layer: what the adaptor does to memory, given the LAPACK routines.
   The routines themselves are NOT defined here: they are Section variables, and what is assumed
   about them (their column-major contracts, transcribed from the LAPACK documentation of
   dpotrf.f, dgeqrf.f/dorgqr.f, dgesvd.f, dsyev.f, in exact arithmetic over an abstract value
   type V) is written as Definitions `*_contract : Prop`, which appear as premises of the
   theorems.  The numeric side ("within rounding error") is not modelled; the correspondence
   check measures residuals on the real library instead.
   Operands live in separate buffers (the adaptor's operands are assumed not to alias).
   Definitions only. *)
From Coq Require Import ZArith List Bool.
From BM Require Import Model.Lapack.
Local Open Scope Z_scope.

Section LapackSem.
  Variable V : Type.
  Variable vzero : V.
  Variable vadd vmul : V -> V -> V.
  Variable vle : V -> V -> Prop.

  Definition mem := Z -> V.

  (* sum_{l = 0}^{k-1} f l *)
  Fixpoint vsum (k : nat) (f : Z -> V) : V :=
    match k with O => vzero | S k' => vadd (vsum k' f) (f (Z.of_nat k')) end.
  Definition vsumZ (k : Z) (f : Z -> V) : V := vsum (Z.to_nat k) f.

  (* the matrix a column-major argument (a, lda) designates, and the matrix a view designates *)
  Definition colmat (m : mem) (a lda : Z) (i j : Z) : V := m (a + i + j * lda).
  Definition run (m : mem) (a : Z) (l : Z) : V := m (a + l).
  Definition vmat (m : mem) (v : mat) (i j : Z) : V := m (maddr v i j).
  Definition vvec (m : mem) (w : vec) (l : Z) : V := m (vaddr w l).
  Definition transp (M : Z -> Z -> V) (i j : Z) : V := M j i.

  (* symmetric completion of the stored triangle; factor G with A = G * G^T
     ('L': G = L, 'U': G = U^T), entries outside the triangle read as zero *)
  Definition symf (c : fchar) (M : Z -> Z -> V) (i j : Z) : V := if ftri c i j then M i j else M j i.
  Definition facf (c : fchar) (M : Z -> Z -> V) (i l : Z) : V :=
    if l <=? i then (match c with FL => M i l | FU => M l i end) else vzero.
  Definition symv (f : filling) (M : Z -> Z -> V) (a b : Z) : V := if vtri f a b then M a b else M b a.
  Definition facv (f : filling) (M : Z -> Z -> V) (a l : Z) : V :=
    if l <=? a then (match f with Lower => M a l | Upper => M l a end) else vzero.

  (* ---------------------------------------------------------------------------------------- *)
  (* DPOTRF(UPLO, N, A, LDA, INFO)                                                              *)
  (* ---------------------------------------------------------------------------------------- *)
  Variable potrf_f : fchar -> Z -> Z -> Z -> mem -> mem * Z.

  Definition potrf_contract : Prop :=
    forall c n a lda m, potrf_legal (mkpc c n a lda) = true ->
      let (m', info) := potrf_f c n a lda m in
      let k := potrf_order n info in
         0 <= info <= n
      /\ (forall p, ~ in_coltri c a lda n p -> m' p = m p)
      /\ (forall i j, 0 <= i < k -> 0 <= j < k ->
            symf c (colmat m a lda) i j
            = vsumZ k (fun l => vmul (facf c (colmat m' a lda) i l) (facf c (colmat m' a lda) j l))).

  (* the adaptor: potrf.hpp:42-59 *)
  Definition potrf_run (uplo : filling) (v : mat) (m : mem) : mem * mat :=
    let c := potrf_call_of uplo v in
    let (m', info) := potrf_f (pc_uplo c) (pc_n c) (pc_a c) (pc_lda c) m in
    (m', potrf_ret v info).

  (* ---------------------------------------------------------------------------------------- *)
  (* DGEQRF(M, N, A, LDA, TAU, WORK, LWORK, INFO); Q is read off the reflectors as DORGQR does   *)
  (* ---------------------------------------------------------------------------------------- *)
  Variable geqrf_f : Z -> Z -> Z -> Z -> Z -> mem -> mem -> mem * mem * Z.   (* m n a lda tau memA memTau *)
  Variable qdec : Z -> Z -> (Z -> Z -> V) -> (Z -> V) -> Z -> Z -> V.        (* m n reflectors tau -> Q(i,l) *)

  Definition qdec_ext : Prop :=
    forall m n M1 M2 t1 t2 i l,
      (forall i j, 0 <= i < m -> 0 <= j < n -> M1 i j = M2 i j) ->
      (forall l, 0 <= l < Z.min m n -> t1 l = t2 l) ->
      qdec m n M1 t1 i l = qdec m n M2 t2 i l.

  Definition upper_of (M : Z -> Z -> V) (l j : Z) : V := if l <=? j then M l j else vzero.

  Definition geqrf_contract : Prop :=
    forall m n a lda tau mA mT, 0 <= m -> 0 <= n -> Z.max 1 m <= lda ->
      let '(mA', mT', info) := geqrf_f m n a lda tau mA mT in
         info = 0
      /\ (forall p, ~ in_colmajor a lda m n p -> mA' p = mA p)
      /\ (forall p, ~ in_run tau (Z.min m n) p -> mT' p = mT p)
      /\ (forall i j, 0 <= i < m -> 0 <= j < n ->
            colmat mA a lda i j
            = vsumZ (Z.min m n) (fun l => vmul (qdec m n (colmat mA' a lda) (run mT' tau) i l)
                                               (upper_of (colmat mA' a lda) l j))).

  (* the adaptor, real call (the query call does not touch A or TAU): geqrf.hpp:59-71 *)
  Definition geqrf_run (aa : mat) (tau : vec) (mA mT : mem) : mem * mem * mat :=
    let c := geqrf_mk aa tau WAlloc 0 in
    let '(mA', mT', _) := geqrf_f (gq_m c) (gq_n c) (gq_a c) (gq_lda c) (gq_tau c) mA mT in
    (mA', mT', geqrf_ret aa).

  (* ---------------------------------------------------------------------------------------- *)
  (* DGESVD('A','A', M, N, A, LDA, S, U, LDU, VT, LDVT, WORK, LWORK, INFO)                        *)
  (* ---------------------------------------------------------------------------------------- *)
  Variable gesvd_f : Z -> Z -> Z -> Z -> Z -> Z -> Z -> Z -> Z -> mem -> mem -> mem -> mem -> mem * mem * mem * mem * Z.
      (* m n a lda s u ldu vt ldvt memA memS memU memVT *)

  Definition gesvd_contract : Prop :=
    forall m n a lda s u ldu vt ldvt mA mS mU mVT,
      0 <= m -> 0 <= n -> Z.max 1 m <= lda -> Z.max 1 m <= ldu -> Z.max 1 n <= ldvt ->
      let '(mA', mS', mU', mVT', info) := gesvd_f m n a lda s u ldu vt ldvt mA mS mU mVT in
         info = 0
      /\ (forall p, ~ in_colmajor a lda m n p -> mA' p = mA p)
      /\ (forall p, ~ in_run s (Z.min m n) p -> mS' p = mS p)
      /\ (forall p, ~ in_colmajor u ldu m m p -> mU' p = mU p)
      /\ (forall p, ~ in_colmajor vt ldvt n n p -> mVT' p = mVT p)
      /\ (forall l, 0 <= l < Z.min m n -> vle vzero (run mS' s l))
      /\ (forall l, 0 <= l -> l + 1 < Z.min m n -> vle (run mS' s (l + 1)) (run mS' s l))
      /\ (forall i j, 0 <= i < m -> 0 <= j < n ->
            colmat mA a lda i j
            = vsumZ (Z.min m n) (fun l => vmul (colmat mU' u ldu i l) (vmul (run mS' s l) (colmat mVT' vt ldvt l j)))).

  (* the adaptor, real call: gesvd.hpp:54-62 *)
  Definition gesvd_run (aa uu : mat) (ss : vec) (vv : mat) (mA mU mS mV : mem) : mem * mem * mem * mem :=
    let c := gesvd_mk aa uu ss vv WAlloc 0 in
    let '(mA', mS', mUf', mVTf', _) :=
      gesvd_f (gs_m c) (gs_n c) (gs_a c) (gs_lda c) (gs_s c) (gs_u c) (gs_ldu c) (gs_vt c) (gs_ldvt c)
              mA mS mV mU in                 (* Fortran's U is written at VV.base(), VT at UU.base() *)
    (mA', mVTf', mS', mUf').                 (* returned in the order (AA, UU, ss, VV) *)

  (* ---------------------------------------------------------------------------------------- *)
  (* DSYEV('V', UPLO, N, A, LDA, W, WORK, LWORK, INFO)                                            *)
  (* ---------------------------------------------------------------------------------------- *)
  Variable syev_f : fchar -> Z -> Z -> Z -> Z -> mem -> mem -> mem * mem * Z.   (* uplo n a lda w memA memW *)

  Definition syev_contract : Prop :=
    forall c n a lda w mA mW, 0 <= n -> Z.max 1 n <= lda ->
      let '(mA', mW', info) := syev_f c n a lda w mA mW in
         0 <= info <= n
      /\ (forall p, ~ in_colmajor a lda n n p -> mA' p = mA p)
      /\ (forall p, ~ in_run w n p -> mW' p = mW p)
      /\ (info = 0 ->
            (forall l, 0 <= l -> l + 1 < n -> vle (run mW' w l) (run mW' w (l + 1)))
         /\ (forall i j, 0 <= i < n -> 0 <= j < n ->
               symf c (colmat mA a lda) i j
               = vsumZ n (fun l => vmul (colmat mA' a lda i l) (vmul (run mW' w l) (colmat mA' a lda j l))))).

  (* the adaptor: syev.hpp:23-49; None when an assertion of the code fails *)
  Definition syev_run (uplo : filling) (a : mat) (w work : vec) (mA mW : mem) : option (mem * mem * mat) :=
    match syev_step_of uplo a w work with
    | SyNoCall => Some (mA, mW, syev_ret a 0)
    | SyAssertFails => None
    | SyCall c =>
        let '(mA', mW', info) := syev_f (sy_uplo c) (sy_n c) (sy_a c) (sy_lda c) (sy_w c) mA mW in
        if info <? 0 then None else Some (mA', mW', syev_ret a info)
    end.
  (* component i of eigenvector l in the view's own reading: rows of the view in the row-major
     branch, columns in the column-major branch *)
  Definition eigvec (a : mat) (M : Z -> Z -> V) (i l : Z) : V := if syev_rowbranch a then M l i else M i l.

End LapackSem.

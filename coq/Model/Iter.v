(* L3: iterators.  array_iterator (array_ref.hpp:476-660 for D>1, 2350-2560 for D=1): a base pointer
   that moves in multiples of a stride, plus (D>1) the layout of the sub-view it designates.
   elements_iterator_t / elements_range_t (array_ref.hpp:751-1000): a flat position n_ kept in sync
   with an index tuple ns_; every member function is modelled as written (after fix 1-3,20 of
   DESIGN section 7).  Definitions only. *)
From Coq Require Import ZArith List Bool.
From BM Require Import Model.Layout Model.View.
Import ListNotations.
Local Open Scope Z_scope.

(* ---------------- array_iterator ---------------- *)
Record ait := mkait { ibase : Z; istride : Z; isub : layout }.

(* begin_aux_/end_aux_: array_ref.hpp:1623-1624 (D>1), 3105-3106 (D=1) *)
Definition it_begin (v : view) : ait :=
  let d := hd_dim (lay v) in mkait (base v) (d_stride d) (tl (lay v)).
Definition it_end (v : view) : ait :=
  let d := hd_dim (lay v) in mkait (base v + d_nelems d) (d_stride d) (tl (lay v)).
Definition it_inc (a : ait) : ait := mkait (ibase a + istride a) (istride a) (isub a).
Definition it_dec (a : ait) : ait := mkait (ibase a - istride a) (istride a) (isub a).
Definition it_add (a : ait) (n : Z) : ait := mkait (ibase a + istride a * n) (istride a) (isub a).
Definition it_sub (a : ait) (n : Z) : ait := mkait (ibase a + istride a * (- n)) (istride a) (isub a).
(* operator-(it, it): (self.base - other.base) / stride, truncating *)
Definition it_diff (a b : ait) : Z := Z.quot (ibase a - ibase b) (istride a).
Definition it_eq (a b : ait) : bool := ibase a =? ibase b.
Definition it_lt (a b : ait) : bool := 0 <? it_diff b a.               (* 0 < other - *this *)
(* totally_ordered2 / affine facades (detail/operators.hpp): derived from == and < *)
Definition it_ne (a b : ait) : bool := negb (it_eq a b).
Definition it_gt (a b : ait) : bool := it_lt b a.
Definition it_le (a b : ait) : bool := it_lt a b || it_eq a b.
Definition it_ge (a b : ait) : bool := it_lt b a || it_eq a b.
Definition it_deref (a : ait) : view := mkview (isub a) (ibase a).
Definition it_index (a : ait) (n : Z) : view := it_deref (it_add a n).

(* ---------------- elements_iterator_t ---------------- *)
Record eit := mkeit { ebase : Z; elay : layout; en : Z; exs : list range; ens : list Z }.

Definition zeros (x : list range) : list Z := map (fun _ => 0) x.
(* constructor :774-775 (guard on num_elements() == 0: fix 20) *)
Definition e_make (b : Z) (l : layout) (n : Z) : eit :=
  let xs := l_extensions l in
  mkeit b l n xs (if l_num_elements l =? 0 then zeros xs else x_from_linear xs n).
Definition er_begin (v : view) : eit := e_make (base v) (lay v) 0.
Definition er_end (v : view) : eit := e_make (base v) (lay v) (l_num_elements (lay v)).
Definition er_size (v : view) : Z := l_num_elements (lay v).

Definition e_inc (it : eit) : eit :=
  mkeit (ebase it) (elay it) (en it + 1) (exs it) (snd (x_next_canonical (exs it) (ens it))).
Definition e_dec (it : eit) : eit :=
  mkeit (ebase it) (elay it) (en it - 1) (exs it) (snd (x_prev_canonical (exs it) (ens it))).
(* operator+= : n_ += n; ns_ = xs_.from_linear(n_) unless n == 0 *)
Definition e_add (it : eit) (n : Z) : eit :=
  if n =? 0 then it
  else mkeit (ebase it) (elay it) (en it + n) (exs it) (x_from_linear (exs it) (en it + n)).
Definition e_sub (it : eit) (n : Z) : eit := e_add it (- n).
(* operator= copies all five members *)
Definition e_assign (_dst src : eit) : eit := src.
Definition e_diff (a b : eit) : Z := en a - en b.
Definition e_lt (a b : eit) : bool := en a <? en b.
Definition e_eq (a b : eit) : bool := en a =? en b.
(* operator* : base_[std::apply(l_, ns_)] *)
Definition e_deref (it : eit) : Z := ebase it + l_call (elay it) (ens it).
(* operator[] : base_[l_(xs_.from_linear(n_ + n))] *)
Definition e_index (it : eit) (n : Z) : Z := ebase it + l_call (elay it) (x_from_linear (exs it) (en it + n)).
(* elements_range_t::operator[] :907-910, front :967, back :968 (std::prev(end(), 1) is end() += -1) *)
Definition er_at (v : view) (k : Z) : Z := base v + l_call (lay v) (x_from_linear (l_extensions (lay v)) k).
Definition er_front (v : view) : Z := e_deref (er_begin v).
Definition er_back (v : view) : Z := e_deref (e_add (er_end v) (-1)).

(* ---------------- traces of iterator operations (the quantifier "all positions and offsets
   that stay inside [begin, end]") ---------------- *)
Inductive iop := IInc | IDec | IAdd (k : Z) | ISub (k : Z).

Definition pos_after (o : iop) (p : Z) : Z :=
  match o with IInc => p + 1 | IDec => p - 1 | IAdd k => p + k | ISub k => p - k end.
Definition e_step (o : iop) (it : eit) : eit :=
  match o with IInc => e_inc it | IDec => e_dec it | IAdd k => e_add it k | ISub k => e_sub it k end.
Definition a_step (o : iop) (it : ait) : ait :=
  match o with IInc => it_inc it | IDec => it_dec it | IAdd k => it_add it k | ISub k => it_sub it k end.

(* a trace stays inside [0, n] *)
Fixpoint trace_ok (n : Z) (p : Z) (tr : list iop) : bool :=
  match tr with
  | [] => true
  | o :: rest => let p' := pos_after o p in (0 <=? p') && (p' <=? n) && trace_ok n p' rest
  end.
Definition run_e (tr : list iop) (it : eit) : eit := fold_left (fun i o => e_step o i) tr it.
Definition run_a (tr : list iop) (it : ait) : ait := fold_left (fun i o => a_step o i) tr it.
Definition run_pos (tr : list iop) (p : Z) : Z := fold_left (fun q o => pos_after o q) tr p.

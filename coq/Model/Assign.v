(* L4: storage and the element-wise algorithms the library runs over views.
   Storage is a map from element addresses (offsets from the start of the harness buffer) to cells
   (value, moved-from flag).  View assignment is `this->elements() = other.elements()`
   (array_ref.hpp:2041-2076): elements_range_t::operator= (:983-994) -> adl_copy over the flat iterators,
   i.e. a sequential loop over canonical positions that READS THE CURRENT storage; fill is
   adl_fill_n / std::fill over elements (:1981); swap is adl_swap_ranges over elements (:2048-2051);
   element_moved() (:2320) makes the source iterators yield rvalues, so each element is move-assigned.
   Definitions only. *)
From Coq Require Import ZArith List Bool.
From BM Require Import Model.Layout Model.View Model.Iter.
Import ListNotations.
Local Open Scope Z_scope.

Record cell := mkcell { c_val : Z; c_moved : bool }.
Definition mem := Z -> cell.
Definition upd (m : mem) (a : Z) (c : cell) : mem := fun p => if p =? a then c else m p.

(* address of the k-th element of elements() of v (C02: the k-th index tuple in canonical order) *)
Definition e_addr (v : view) (k : Z) : Z := er_at v k.

Fixpoint iota (n : nat) : list Z :=          (* 0, 1, ..., n-1 *)
  match n with O => [] | S n' => iota n' ++ [Z.of_nat n'] end.

(* one step of each loop *)
Definition copy1 (conv : Z -> Z) (D S : Z -> Z) (m : mem) (k : Z) : mem :=
  upd m (D k) (mkcell (conv (c_val (m (S k)))) false).
Definition move1 (D S : Z -> Z) (m : mem) (k : Z) : mem :=
  let x := c_val (m (S k)) in
  upd (upd m (S k) (mkcell x true)) (D k) (mkcell x false).       (* source marked first, then destination written *)
Definition fill1 (x : Z) (D : Z -> Z) (m : mem) (k : Z) : mem := upd m (D k) (mkcell x false).
Definition swap1 (D S : Z -> Z) (m : mem) (k : Z) : mem :=
  let a := m (D k) in let b := m (S k) in upd (upd m (D k) b) (S k) a.
Definition put1 (vals : list Z) (D : Z -> Z) (m : mem) (k : Z) : mem :=
  upd m (D k) (mkcell (nth (Z.to_nat k) vals 0) false).

Definition loop (step : mem -> Z -> mem) (n : Z) (m : mem) : mem := fold_left step (iota (Z.to_nat n)) m.

(* dst = src  (deep, element by element, with an element conversion for convertible element types) *)
Definition assign_view (conv : Z -> Z) (dst src : view) (m : mem) : mem :=
  if l_num_elements (lay dst) =? 0 then m        (* if(!is_empty()) ... ; nothing to do *)
  else loop (copy1 conv (e_addr dst) (e_addr src)) (er_size src) m.
Definition move_view (dst src : view) (m : mem) : mem :=
  if l_num_elements (lay dst) =? 0 then m
  else loop (move1 (e_addr dst) (e_addr src)) (er_size src) m.
Definition fill_view (x : Z) (dst : view) (m : mem) : mem := loop (fill1 x (e_addr dst)) (er_size dst) m.
Definition swap_views (a b : view) (m : mem) : mem := loop (swap1 (e_addr a) (e_addr b)) (er_size a) m.
(* assignment from a (nested) initializer list / range of values, given flattened in canonical order *)
Definition assign_vals (vals : list Z) (dst : view) (m : mem) : mem := loop (put1 vals (e_addr dst)) (er_size dst) m.

Definition x_sizes_eq (a b : view) : bool :=
  (* what the code asserts before assigning: equal extensions (all empty ranges are equal) *)
  x_eq (l_extensions (lay a)) (l_extensions (lay b)).

Definition footprint (v : view) : list Z := map (e_addr v) (iota (Z.to_nat (er_size v))).

(* L6 (MPI), part 4: the entry points the model runner (ocaml/c18_*.ml) calls: for a view and one of
   the ways the harness obtains a (buffer, count, datatype) triple from mpi.hpp, the observables the
   harness prints.  Definitions only. *)
From Coq Require Import ZArith List Bool.
From BM Require Import Model.Layout Model.View Model.MpiTypes Model.MpiSkeleton Model.MpiLedger.
Import ListNotations.
Local Open Scope Z_scope.

Inductive mode :=
| MMessage     (* message(v.elements())                                      mpi.hpp:223-229 *)
| MSkeleton    (* skeleton<T>(v.layout()) with v.base()                      mpi.hpp:168-169 *)
| MMove        (* message(v.base(), skeleton(v.layout(), dt))  -- moved      mpi.hpp:215, 159-160 *)
| MRelease     (* std::move(sk).datatype(), freed by the caller              mpi.hpp:183 *)
| MSubarray    (* create_subarray(v.layout(), dt, &t), count 1               mpi.hpp:186-206 *)
| MAux         (* create_subarray_aux(v.layout(), v.size(), dt, &t), count 1 mpi.hpp:81-113 *)
| MData.       (* data(v.begin()) with count v.size(), rank 1 only           mpi.hpp:50-79 *)

Definition triple_of (m : mode) (l : layout) (S : Z) : Z * dt :=
  match m with
  | MMessage | MSkeleton | MMove | MRelease => message_model l S
  | MSubarray => (1, create_subarray_model l S)
  | MAux => (1, create_subarray_aux_model l S (l_size l))
  | MData => (l_size l, data_model (hd_stride l) S)
  end.

(* one communication call between construction and destruction *)
Definition trace_of (m : mode) (l : layout) (S : Z) : list ev :=
  match m with
  | MMessage | MSkeleton | MMove | MRelease => message_trace l S 1 1
  | MSubarray => create_subarray_trace l S 1 1
  | MAux => aux_trace l S 1 1
  | MData => data_trace (hd_stride l) (l_size l) 1 1
  end.

(* byte addresses, relative to the root array's data, of the entries of the message *)
Definition msg_byte_addrs (m : mode) (v : view) (S : Z) : list Z :=
  let (c, t) := triple_of m (lay v) S in map (Z.add (base v * S)) (message_bytes c t).

(* element addresses of elements() as flat iteration computes them, and of the canonical index tuples
   through chained brackets *)
Definition flat_addrs (v : view) : list Z :=
  map (fun k => base v + l_call (lay v) (x_from_linear (l_extensions (lay v)) k))
      (zseq (l_num_elements (lay v))).
Definition index_addrs (v : view) : list Z :=
  map (fun idx => base v + l_addr (lay v) idx) (canon_indices (l_sizes (lay v))).

(* MPI_Pack through the send triple, MPI_Unpack through the receive triple.  The send root holds at
   element address a the value a; the receive root holds -a-1.  Returns the whole receive root. *)
Definition transfer_run (S nroot_dst : Z) (src_bytes dst_bytes : list Z) : list Z :=
  let msrc := fun a => Z.quot a S in
  let mdst := fun a => - Z.quot a S - 1 in
  let m' := unpack mdst 0 dst_bytes (pack msrc 0 src_bytes) in
  map (fun k => m' (k * S)) (zseq nroot_dst).

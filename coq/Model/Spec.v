(* The abstract side of C01: the documented index mappings (README.md reference table), as
   functions on index tuples, for zero-based views.  An abstract view is the tuple of its sizes
   and the map from one of its index tuples to an index tuple of the ROOT array.  Definitions only. *)
From Coq Require Import ZArith List Bool.
From BM Require Import Model.Layout Model.View.
Import ListNotations.
Local Open Scope Z_scope.

Record aview := mkaview { asz : list Z; amap : list Z -> list Z }.

Definition valid_idx (sz idx : list Z) : Prop := Forall2 (fun n i => 0 <= i < n) sz idx.
Fixpoint valid_idxb (sz idx : list Z) : bool :=
  match sz, idx with
  | [], [] => true
  | n :: sz', i :: idx' => (0 <=? i) && (i <? n) && valid_idxb sz' idx'
  | _, _ => false
  end.

(* position of an index tuple of a zero-based array with sizes sz, last index fastest *)
Fixpoint rowmajor (sz idx : list Z) : Z :=
  match sz, idx with
  | _ :: sz', i :: idx' => i * fold_right Z.mul 1 sz' + rowmajor sz' idx'
  | _, _ => 0
  end.
Definition prod (sz : list Z) : Z := fold_right Z.mul 1 sz.

(* A constructed array with a zero inner extent reports size 0 in every outer dimension
   (layout.hpp:744: nelems = size * sub.num_elements()); C07's text accepts this collapse. *)
Fixpoint collapse (sz : list Z) : list Z :=
  match sz with
  | [] => []
  | n :: r => (if prod r =? 0 then 0 else n) :: collapse r
  end.

Definition root_spec (sz : list Z) : aview := mkaview (collapse sz) (fun idx => idx).

(* index map of each operation: index tuple of the NEW view -> index tuple of the OLD view *)
Definition hdz (l : list Z) : Z := hd 0 l.

Fixpoint spec_paren_sz (args : list parg) (sz : list Z) : list Z :=
  match args, sz with
  | [], _ => sz
  | PIdx _ :: rest, _ :: sz' => spec_paren_sz rest sz'
  | PRange a b :: rest, _ :: sz' => (b - a) :: spec_paren_sz rest sz'
  | PAll :: rest, n :: sz' => n :: spec_paren_sz rest sz'
  | _, [] => []
  end.
Fixpoint spec_paren_map (args : list parg) (idx : list Z) : list Z :=
  match args with
  | [] => idx
  | PIdx i :: rest => i :: spec_paren_map rest idx
  | PRange a _ :: rest => (a + hdz idx) :: spec_paren_map rest (tl idx)
  | PAll :: rest => hdz idx :: spec_paren_map rest (tl idx)
  end.

Definition spec_sz (o : op) (sz : list Z) : list Z :=
  match o, sz with
  | OIndex _, _ :: r => r
  | OSliced a b, _ :: r => (b - a) :: r
  | OSlicedS a b s, _ :: r => Z.quot (b - a) s :: r
  | OStrided s, n :: r => Z.quot n s :: r
  | ODropped k, n :: r => (n - k) :: r
  | OTaked k, _ :: r => k :: r
  | ORotated, _ => t_rot sz
  | OUnrotated, _ => t_unrot sz
  | OTransposed, _ => t_transpose sz
  | OReversed, _ => rev sz
  | ODiagonal, n0 :: n1 :: r => Z.min n0 n1 :: r
  | OPartitioned k, n :: r => k :: Z.quot n k :: r
  | OChunked c, n :: r => Z.quot n c :: c :: r
  | OHalved, n :: r => 2 :: Z.quot n 2 :: r
  | OFlatted, n0 :: n1 :: r => n0 * n1 :: r
  | OParen args, _ => spec_paren_sz args sz
  | OReindexed _, _ => sz
  | OBlocked a b, _ :: r => (b - a) :: r
  | _, _ => sz
  end.

(* sz is the size tuple of the OLD view (needed by partitioned/chunked/halved/flatted) *)
Definition spec_map (o : op) (sz : list Z) (idx : list Z) : list Z :=
  match o with
  | OIndex i => i :: idx
  | OSliced a _ => (a + hdz idx) :: tl idx                          (* sliced(a,b)[k]   = A[a+k]   *)
  | OSlicedS a _ s => (a + hdz idx * s) :: tl idx                   (* sliced(a,b,s)[k] = A[a+k*s] *)
  | OStrided s => (hdz idx * s) :: tl idx                           (* strided(s)[k]    = A[k*s]   *)
  | ODropped k => (hdz idx + k) :: tl idx                           (* dropped(n)[k]    = A[n+k]   *)
  | OTaked _ => idx
  | ORotated => t_unrot idx                                         (* rotated()[j][k][i] = A[i][j][k] *)
  | OUnrotated => t_rot idx
  | OTransposed => t_transpose idx
  | OReversed => rev idx
  | ODiagonal => hdz idx :: idx                                     (* diagonal()[i]    = A[i][i]  *)
  | OPartitioned k => (hdz idx * Z.quot (hdz sz) k + hdz (tl idx)) :: tl (tl idx)
  | OChunked c => (hdz idx * c + hdz (tl idx)) :: tl (tl idx)
  | OHalved => (hdz idx * Z.quot (hdz sz) 2 + hdz (tl idx)) :: tl (tl idx)
  | OFlatted => Z.quot (hdz idx) (hdz (tl sz)) :: Z.rem (hdz idx) (hdz (tl sz)) :: tl idx
  | OParen args => spec_paren_map args idx
  | OReindexed _ => idx
  | OBlocked a _ => (a + hdz idx) :: tl idx
  | OReindexedL _ => idx
  end.

Definition spec_op (o : op) (a : aview) : aview :=
  mkaview (spec_sz o (asz a)) (fun idx => amap a (spec_map o (asz a) idx)).

Fixpoint run_spec (ops : list op) (a : aview) : aview :=
  match ops with
  | [] => a
  | o :: rest => run_spec rest (spec_op o a)
  end.

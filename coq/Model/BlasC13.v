(* C13 -- BLAS adaptor, model layer L6: what the dispatch reads and what it hands to BLAS.
   Definitions only.  Sources: /repo/include/boost/multi/adaptors/blas/{gemm,gemv,core}.hpp.

   An operand is described by exactly the quantities the dispatch code reads
   (gemm.hpp:45-148, gemv.hpp:21-42):

     a_first.base()       mbase      (underlying(...) of a conjugating pointer is the same address)
     a_first.stride()     s0         stride between rows of the view
     ( *a_first).stride() s1         stride between the elements of a row
     a_count / size(a)    rows
     ( *a_first).size()   cols
     is_conjugated<It>    mconj      (numeric.hpp:284-289: the pointer type is a conjugater)

   Element (i,j) of the view is the cell  mbase + i*s0 + j*s1  (conjugated when mconj).
   Addresses are integers in one address space; the correspondence driver places the three operand
   buffers 1 000 000 cells apart. *)
From Coq Require Import ZArith List Bool.
Local Open Scope Z_scope.
Local Open Scope bool_scope.

Inductive trans := TN | TT | TC.

Record mat := mk_mat { mbase : Z; s0 : Z; s1 : Z; rows : Z; cols : Z; mconj : bool }.
Record vec := mk_vec { vbase : Z; inc : Z; len : Z; vconj : bool }.

Definition maddr (a : mat) (i j : Z) : Z := mbase a + i * s0 a + j * s1 a.
Definition vaddr (x : vec) (i : Z) : Z := vbase x + i * inc x.

(* xGEMM(transA, transB, m, n, k, alpha, A, lda, B, ldb, beta, C, ldc); alpha and beta are passed through
   by every call site (the translator checks that they are literally &alpha / &beta). *)
Record gemm_call := mk_gemm_call {
  g_site : Z;                       (* ladder*100 + ordinal of the call site; not an argument *)
  g_ta : trans; g_tb : trans;
  g_m : Z; g_n : Z; g_k : Z;
  g_pa : Z; g_lda : Z; g_pb : Z; g_ldb : Z; g_pc : Z; g_ldc : Z }.

(* xGEMV(trans, m, n, alpha, A, lda, X, incx, beta, Y, incy) *)
Record gemv_call := mk_gemv_call {
  v_site : Z;
  v_ta : trans;
  v_m : Z; v_n : Z;
  v_pa : Z; v_lda : Z; v_px : Z; v_incx : Z; v_py : Z; v_incy : Z }.

Inductive gemm_outcome :=
| ONoCall                      (* a_count == 0: `return c_first;` before the ladder *)
| OCall (c : gemm_call)
| OAssert0                     (* `else {assert(0);}`: abort when assertions are enabled, nothing otherwise *)
| OThrow.                      (* `throw std::logic_error{"not BLAS-implemented"}` *)

Inductive gemv_outcome :=
| VCall (c : gemv_call)
| VAssert0
| VThrow.

(* ------------------------------------------------------------------------------------------ *)
(* Hand transcription of the four gemm_n ladders (pinned commit).  BlasC13Gen.v is regenerated *)
(* from the source text on every check; Proofs/BlasC13GenEq.v proves gen = hand by reflexivity. *)
(* ------------------------------------------------------------------------------------------ *)

(* gemm.hpp:49-52 (identical in the four overloads: 92-95, 119-122, 138-141) *)
Definition gemm_asserts (a b c : mat) : bool :=
  (cols b =? cols c) && ((s0 a =? 1) || (s1 a =? 1)) && ((s0 b =? 1) || (s1 b =? 1)) && ((s0 c =? 1) || (s1 c =? 1)).

(* gemm.hpp:45-86, neither operand conjugated *)
Definition gemm_nn (a b c : mat) : gemm_outcome :=
  if rows a =? 0 then ONoCall else                                                                   (* :54 *)
  if (s1 a =? 1) && (s1 b =? 1) && (s1 c =? 1) then                                                  (* :56 *)
    if (rows a =? 1) && (cols b =? 1) then
      OCall (mk_gemm_call 101 TN TN (cols b) (rows a) (cols a) (mbase b) (s0 b) (mbase a) (cols a) (mbase c) (cols c))     (* :57, since fix 3d271a4 *)
    else if rows a =? 1 then
      OCall (mk_gemm_call 102 TN TN (cols b) (rows a) (cols a) (mbase b) (s0 b) (mbase a) (cols a) (mbase c) (cols c))     (* :58 *)
    else
      OCall (mk_gemm_call 103 TN TN (cols b) (rows a) (cols a) (mbase b) (s0 b) (mbase a) (s0 a) (mbase c) (s0 c))         (* :59 *)
  else if (s1 a =? 1) && (s1 b =? 1) && (s0 c =? 1) then                                             (* :60 *)
    if rows a =? 1 then
      OCall (mk_gemm_call 104 TT TT (rows a) (cols b) (cols a) (mbase a) (s0 a) (mbase b) (cols b) (mbase c) (cols a))     (* :61 *)
    else
      OCall (mk_gemm_call 105 TT TT (rows a) (cols b) (cols a) (mbase a) (s0 a) (mbase b) (s0 b) (mbase c) (s1 c))         (* :62 *)
  else if (s0 a =? 1) && (s1 b =? 1) && (s1 c =? 1) then                                             (* :63 *)
    if rows a =? 1 then
      OCall (mk_gemm_call 106 TN TT (cols c) (rows a) (cols a) (mbase b) (s0 b) (mbase a) (s1 a) (mbase c) (rows a))       (* :64 *)
    else
      OCall (mk_gemm_call 107 TN TT (cols c) (rows a) (cols a) (mbase b) (s0 b) (mbase a) (s1 a) (mbase c) (s0 c))         (* :65 *)
  else if (s0 a =? 1) && (s1 b =? 1) && (s0 c =? 1) then                                             (* :66 *)
    if rows a =? 1 then
      OCall (mk_gemm_call 108 TN TT (rows a) (cols b) (cols a) (mbase a) (s1 a) (mbase b) (cols a) (mbase c) (cols b))     (* :67 *)
    else
      OCall (mk_gemm_call 109 TN TT (rows a) (cols b) (cols a) (mbase a) (s1 a) (mbase b) (s0 b) (mbase c) (s1 c))         (* :68 *)
  else if (s1 a =? 1) && (s0 b =? 1) && (s0 c =? 1) then                                             (* :69 *)
    if (rows a =? 1) && (cols b =? 1) then
      OCall (mk_gemm_call 110 TN TN (cols c) (rows a) (cols a) (mbase b) (cols b) (mbase a) (cols a) (mbase c) (s1 c))     (* :70 *)
    else if rows a =? 1 then
      OCall (mk_gemm_call 111 TN TT (cols c) (rows a) (cols a) (mbase b) (s1 b) (mbase a) (cols a) (mbase c) (s1 c))       (* :71 *)
    else if (cols a =? 1) && (cols b =? 1) then
      OCall (mk_gemm_call 112 TN TN (cols c) (rows a) (cols a) (mbase b) (s1 b) (mbase a) (s0 a) (mbase c) (s1 c))         (* :73 *)
    else
      OCall (mk_gemm_call 113 TN TT (cols c) (rows a) (cols a) (mbase b) (s1 b) (mbase a) (s0 a) (mbase c) (s1 c))         (* :74 *)
  else if (s1 a =? 1) && (s0 b =? 1) && (s1 c =? 1) then                                             (* :75 *)
    if rows a =? 1 then
      OCall (mk_gemm_call 114 TT TN (rows a) (cols c) (cols a) (mbase b) (s1 b) (mbase a) (cols a) (mbase c) (s0 c))       (* :76 *)
    else
      OCall (mk_gemm_call 115 TT TN (cols c) (rows a) (cols a) (mbase b) (s1 b) (mbase a) (s0 a) (mbase c) (s0 c))         (* :77 *)
  else if (s0 a =? 1) && (s0 b =? 1) && (s0 c =? 1) then                                             (* :78 *)
    if cols b =? 1 then
      OCall (mk_gemm_call 116 TN TN (rows a) (cols b) (cols a) (mbase a) (s1 a) (mbase b) (s1 b) (mbase c) (rows a))       (* :79 *)
    else
      OCall (mk_gemm_call 117 TN TN (rows a) (cols b) (cols a) (mbase a) (s1 a) (mbase b) (s1 b) (mbase c) (s1 c))         (* :80 *)
  else if (s0 a =? 1) && (s0 b =? 1) && (s1 c =? 1) then                                             (* :81 *)
    OCall (mk_gemm_call 118 TT TT (cols b) (rows a) (cols a) (mbase b) (s1 b) (mbase a) (s1 a) (mbase c) (s0 c))           (* :82 *)
  else OAssert0.                                                                                     (* :83 *)

(* gemm.hpp:88-113, B conjugated (the pointer of b_first is a conjugater; underlying() is the raw address) *)
Definition gemm_nj (a b c : mat) : gemm_outcome :=
  if rows a =? 0 then ONoCall else                                                                   (* :97 *)
  if (s1 a =? 1) && (s1 b =? 1) && (s1 c =? 1) then                                                  (* :99 *)
    OCall (mk_gemm_call 201 TC TN (cols c) (rows a) (cols a) (mbase b) (s1 b) (mbase a) (cols a) (mbase c) (s0 c))         (* :100 *)
  else if (s1 a =? 1) && (s0 b =? 1) && (s1 c =? 1) then                                             (* :101 *)
    if rows a =? 1 then
      OCall (mk_gemm_call 202 TC TN (rows a) (cols c) (cols a) (mbase b) (s1 b) (mbase a) (cols a) (mbase c) (s0 c))       (* :102 *)
    else
      OCall (mk_gemm_call 203 TC TN (cols c) (rows a) (cols a) (mbase b) (s1 b) (mbase a) (s0 a) (mbase c) (s0 c))         (* :103 *)
  else if (s1 a =? 1) && (s0 b =? 1) && (s0 c =? 1) then                                             (* :104 *)
    OCall (mk_gemm_call 204 TC TN (cols c) (rows a) (cols a) (mbase b) (s1 b) (mbase a) (s0 a) (mbase c) (s1 c))           (* :105 *)
  else if (s0 a =? 1) && (s0 b =? 1) && (s0 c =? 1) then                                             (* :106 *)
    OCall (mk_gemm_call 205 TC TT (cols c) (rows a) (cols a) (mbase b) (s1 b) (mbase a) (s1 a) (mbase c) (s1 c))           (* :107 *)
  else if (s0 a =? 1) && (s0 b =? 1) && (s1 c =? 1) then                                             (* :108 *)
    OCall (mk_gemm_call 206 TC TT (rows a) (cols c) (cols a) (mbase b) (s1 b) (mbase a) (s1 a) (mbase c) (s0 c))           (* :109 *)
  else OAssert0.                                                                                     (* :110 *)

(* gemm.hpp:115-132, A conjugated *)
Definition gemm_jn (a b c : mat) : gemm_outcome :=
  if rows a =? 0 then ONoCall else                                                                   (* :124 *)
  if (s0 a =? 1) && (s1 b =? 1) && (s1 c =? 1) then                                                  (* :126 *)
    if rows a =? 1 then
      OCall (mk_gemm_call 301 TN TC (cols c) (rows a) (cols a) (mbase b) (s0 b) (mbase a) (s1 a) (mbase c) (cols a))       (* :127 *)
    else
      OCall (mk_gemm_call 302 TN TC (cols c) (rows a) (cols a) (mbase b) (s0 b) (mbase a) (s1 a) (mbase c) (s0 c))         (* :128 *)
  else OThrow.                                                                                       (* :129 *)

(* gemm.hpp:134-148, both conjugated *)
Definition gemm_jj (a b c : mat) : gemm_outcome :=
  if rows a =? 0 then ONoCall else                                                                   (* :143 *)
  if (s0 a =? 1) && (s0 b =? 1) && (s1 c =? 1) then                                                  (* :144 *)
    OCall (mk_gemm_call 401 TC TC (rows a) (cols c) (cols a) (mbase b) (s1 b) (mbase a) (s1 a) (mbase c) (s0 c))           (* :145 *)
  else OThrow.                                                                                       (* :146 *)

(* overload selection by is_conjugated of the two iterator types: gemm.hpp:46, 89, 116, 135 *)
Definition gemm_n (a b c : mat) : gemm_outcome :=
  match mconj a, mconj b with
  | false, false => gemm_nn a b c
  | false, true  => gemm_nj a b c
  | true,  false => gemm_jn a b c
  | true,  true  => gemm_jj a b c
  end.

(* ------------------------------------------------------------------------------------------ *)
(* gemv_n: gemv.hpp:23-44 (lda = max(stride, max(rows as stored, 1)) since fix 909e657)        *)
(* ------------------------------------------------------------------------------------------ *)
Definition gemv_asserts (m : mat) (x y : vec) : bool :=                                              (* :23-25 *)
  ((s1 m =? 1) || (s0 m =? 1)) && negb (vbase x =? vbase y) && negb (inc y =? 0).

Definition gemv_n (m : mat) (x y : vec) : gemv_outcome :=
  if negb (mconj m) then                                                                             (* :27 *)
    if s0 m =? 1 then
      VCall (mk_gemv_call 501 TN (rows m) (cols m) (mbase m) (Z.max (s1 m) (Z.max (rows m) 1)) (vbase x) (inc x) (vbase y) (inc y))   (* :30, since fix 909e657 *)
    else if s1 m =? 1 then
      VCall (mk_gemv_call 502 TT (cols m) (rows m) (mbase m) (Z.max (s0 m) (Z.max (cols m) 1)) (vbase x) (inc x) (vbase y) (inc y))   (* :31 *)
    else VAssert0                                                                                    (* :30 *)
  else
    if s1 m =? 1 then
      VCall (mk_gemv_call 503 TC (cols m) (rows m) (mbase m) (Z.max (s0 m) (Z.max (cols m) 1)) (vbase x) (inc x) (vbase y) (inc y))   (* :34 *)
    else VAssert0.                                                                                   (* :33 *)

(* ------------------------------------------------------------------------------------------ *)
(* Reference-BLAS argument checks (xGEMM / xGEMV of the reference implementation, `INFO` tests) *)
(* ------------------------------------------------------------------------------------------ *)
Definition is_n (t : trans) : bool := match t with TN => true | _ => false end.

Definition gemm_legal (c : gemm_call) : bool :=
  (0 <=? g_m c) && (0 <=? g_n c) && (0 <=? g_k c)
  && (Z.max 1 (if is_n (g_ta c) then g_m c else g_k c) <=? g_lda c)
  && (Z.max 1 (if is_n (g_tb c) then g_k c else g_n c) <=? g_ldb c)
  && (Z.max 1 (g_m c) <=? g_ldc c).

(* number of the first illegal parameter as XERBLA reports it (0 = legal); positions of DGEMM: 3 m, 4 n, 5 k, 8 lda, 10 ldb, 13 ldc *)
Definition gemm_info (c : gemm_call) : Z :=
  if g_m c <? 0 then 3 else if g_n c <? 0 then 4 else if g_k c <? 0 then 5
  else if g_lda c <? Z.max 1 (if is_n (g_ta c) then g_m c else g_k c) then 8
  else if g_ldb c <? Z.max 1 (if is_n (g_tb c) then g_k c else g_n c) then 10
  else if g_ldc c <? Z.max 1 (g_m c) then 13 else 0.

Definition gemv_legal (c : gemv_call) : bool :=
  (0 <=? v_m c) && (0 <=? v_n c) && (Z.max 1 (v_m c) <=? v_lda c) && negb (v_incx c =? 0) && negb (v_incy c =? 0).

(* DGEMV: 2 m, 3 n, 6 lda, 8 incx, 11 incy *)
Definition gemv_info (c : gemv_call) : Z :=
  if v_m c <? 0 then 2 else if v_n c <? 0 then 3 else if v_lda c <? Z.max 1 (v_m c) then 6
  else if v_incx c =? 0 then 8 else if v_incy c =? 0 then 11 else 0.

(* ------------------------------------------------------------------------------------------ *)
(* core::gemm wrapper checks, core.hpp:519-531.  BOOST_MULTI_ASSERT1 throws std::logic_error    *)
(* when NDEBUG is not defined and is a plain assert (i.e. nothing) under NDEBUG (core.hpp:24-32); *)
(* the ldc test (core.hpp:529) throws in every build.                                           *)
(* ------------------------------------------------------------------------------------------ *)
Inductive wrap_result := WOk | WThrowLd | WThrowAlias | WThrowLdc.

Definition core_gemm_check (debug : bool) (c : gemm_call) : wrap_result :=
  if debug && negb ((negb (is_n (g_ta c)) || (Z.max 1 (g_m c) <=? g_lda c))            (* :521 *)
                 && (is_n (g_ta c) || (Z.max 1 (g_k c) <=? g_lda c))                   (* :522 *)
                 && (negb (is_n (g_tb c)) || (Z.max 1 (g_k c) <=? g_ldb c))            (* :523 *)
                 && (is_n (g_tb c) || (Z.max 1 (g_n c) <=? g_ldb c)))                  (* :524 *)
  then WThrowLd
  else if debug && ((g_pa c =? g_pc c) || (g_pb c =? g_pc c)) then WThrowAlias          (* :526-527 *)
  else if negb (Z.max 1 (g_m c) <=? g_ldc c) then WThrowLdc                             (* :529 *)
  else WOk.

(* ------------------------------------------------------------------------------------------ *)
(* blas::gemm(alpha, a, b, beta, c): gemm.hpp:157-164.  A conjugated output is handled by       *)
(* conjugating everything (scalars included) and recursing once (:161).                         *)
(* ------------------------------------------------------------------------------------------ *)
Definition conj_mat (a : mat) : mat := mk_mat (mbase a) (s0 a) (s1 a) (rows a) (cols a) (negb (mconj a)).

Inductive final :=
| FNoCall                                   (* returns without touching anything *)
| FBlas (conj_scalars : bool) (c : gemm_call)  (* the call reaches xGEMM, with (alpha,beta) or their conjugates *)
| FAbort                                    (* assert fails (assertion-enabled build) *)
| FThrow (why : Z).                         (* 1 = "not BLAS-implemented", 2 = ld assertion (debug), 3 = alias assertion (debug), 4 = ldc *)

Definition gemm_top_asserts (a b c : mat) : bool :=                                      (* :159-160 *)
  (rows a =? rows c) && ((rows a =? 0) || (cols a =? rows b)).

Definition gemm_inplace (debug : bool) (a b c : mat) : final :=
  let cj := mconj c in
  let a' := if cj then conj_mat a else a in
  let b' := if cj then conj_mat b else b in
  let c' := if cj then conj_mat c else c in
  if debug && negb (gemm_top_asserts a b c) then FAbort
  else if debug && negb (gemm_asserts a' b' c') then FAbort
  else match gemm_n a' b' c' with
       | ONoCall => FNoCall
       | OAssert0 => if debug then FAbort else FNoCall
       | OThrow => FThrow 1
       | OCall k => match core_gemm_check debug k with
                    | WOk => FBlas cj k
                    | WThrowLd => FThrow 2
                    | WThrowAlias => FThrow 3
                    | WThrowLdc => FThrow 4
                    end
       end.

(* the lazy forms: `c = blas::gemm(alpha, a, b)` / `multi::array r = blas::gemm(...)` / `+blas::gemm(...)` reach
   copy_n (gemm.hpp:229-238) = gemm_n(ctxt, alpha, a_it, count, b_begin, 0.0, d_first); `c += blas::gemm(...)`
   (gemm.hpp:296-299) = gemm_n(..., 1., c.begin()).  No top-level assertions, no conjugated output; the scalar beta
   (0 or 1) does not enter the dispatch.  For a freshly constructed result c is the contiguous rows a x cols b array. *)
Definition gemm_lazy (debug : bool) (a b c : mat) : final :=
  if debug && negb (gemm_asserts a b c) then FAbort
  else match gemm_n a b c with
       | ONoCall => FNoCall
       | OAssert0 => if debug then FAbort else FNoCall
       | OThrow => FThrow 1
       | OCall k => match core_gemm_check debug k with
                    | WOk => FBlas false k
                    | WThrowLd => FThrow 2
                    | WThrowAlias => FThrow 3
                    | WThrowLdc => FThrow 4
                    end
       end.

Definition fresh_mat (base rws cls : Z) : mat := mk_mat base cls 1 rws cls false.

(* blas::gemv(a, m, x, b, y): gemv.hpp:50-58; the core::gemv wrappers (core.hpp:440-444) check nothing *)
Inductive vfinal :=
| GBlas (c : gemv_call)
| GAbort
| GNoCall.

Definition gemv_top_asserts (m : mat) (x y : vec) : bool := (rows m =? len y) && (cols m =? len x).   (* :52-53 *)

(* lazy forms: copy_n (gemv.hpp:92-96) and += (gemv.hpp:153-156) call gemv_n directly; gemv(ctxt, s, m, v)
   asserts size(~m) == size(v) (gemv.hpp:161) *)
Definition gemv_lazy (debug : bool) (m : mat) (x y : vec) : vfinal :=
  if debug && negb (cols m =? len x) then GAbort
  else if debug && negb (gemv_asserts m x y) then GAbort
  else match gemv_n m x y with
       | VCall k => GBlas k
       | VAssert0 => if debug then GAbort else GNoCall
       | VThrow => GAbort
       end.

Definition gemv_inplace (debug : bool) (m : mat) (x y : vec) : vfinal :=
  if debug && negb (gemv_top_asserts m x y) then GAbort
  else if debug && negb (gemv_asserts m x y) then GAbort
  else match gemv_n m x y with
       | VCall k => GBlas k
       | VAssert0 => if debug then GAbort else GNoCall
       | VThrow => GAbort
       end.

(* C12 model, third part: layout_t::scale as it is in /repo since commit 1b46e17 ("fix: layout_t::scale scales the
   offset too, so member_cast and reinterpret_array_cast accept arrays with index bases").
     /repo/include/boost/multi/detail/layout.hpp :985-989
        constexpr auto scale(size_type num, size_type den) const {
          assert( (stride_*num) % den == 0 );
          assert( (offset_*num) % den == 0 );
          return layout_t{sub_.scale(num, den), stride_*num/den, offset_*num/den, nelems_*num/den};
        }
     :1106   layout_t<0>::scale(num, den) = *this        (the empty list)
   size_type is the SIGNED index type (std::ptrdiff_t): all three products and quotients are signed, / truncates
   (Z.quot), % is Z.rem.  Before the fix the function asserted offset_ == 0 and left the offset unscaled; that is
   Layout.d_scale, which coincides with d_scale_b on zero offsets (Proofs.ProjectC12Scale.l_scale_b_zero_offsets)
   and is kept in Layout.v only because other packages still name it.  Asserts.l_scale_fixed (C20) is the same
   function as l_scale_b (Proofs.ProjectC12Scale.l_scale_b_is_fixed).
   Definitions only. *)
From Coq Require Import ZArith List Bool.
From BM Require Import Model.Layout.
Import ListNotations.
Local Open Scope Z_scope.

(* one level of the recursion: stride, offset and nelems are all multiplied by num and divided by den *)
Definition d_scale_b (num den : Z) (d : dim) : dim :=
  mkdim (Z.quot (d_stride d * num) den) (Z.quot (d_offset d * num) den) (Z.quot (d_nelems d * num) den).
Definition l_scale_b (num den : Z) (l : layout) : layout := map (d_scale_b num den) l.

(* the two assertions, evaluated at every level of the recursion *)
Definition dom_scale_stride (num den : Z) (l : layout) : bool :=        (* = ProjectC12.dom_scale *)
  forallb (fun d => Z.rem (d_stride d * num) den =? 0) l.
Definition dom_scale_offset (num den : Z) (l : layout) : bool :=
  forallb (fun d => Z.rem (d_offset d * num) den =? 0) l.
Definition dom_scale_b (num den : Z) (l : layout) : bool :=
  forallb (fun d => (Z.rem (d_stride d * num) den =? 0) && (Z.rem (d_offset d * num) den =? 0)) l.

(* the assertion of the code before 1b46e17 (kept for the lemma that records the old behaviour) *)
Definition dom_scale_off (l : layout) : bool := forallb (fun d => d_offset d =? 0) l.

(* C17 -- serialization of owning arrays, function by function.  Self-contained (no other model
   file is imported); Proofs/CodecBridge.v shows that the extents rule used here is the one
   Model/Layout.v (mk_layout, d_extension) computes.

   Sources (/repo at 15bfce8, where serialize resizes through the rvalue reextent):
     include/boost/multi/detail/index_range.hpp:79-92    range::serialize        first, last
     include/boost/multi/detail/index_range.hpp:202-205  range ==                all empty ranges are equal
     include/boost/multi/detail/layout.hpp:222-233       extensions_t<D>::serialize   one "extension" per dimension
     include/boost/multi/detail/layout.hpp:301           extensions_t<0>::serialize   no-op
     include/boost/multi/detail/layout.hpp:421-426       extensions_t<1>::serialize
     include/boost/multi/detail/layout.hpp:735-745       layout_t(extensions)    nelems = size * sub.num_elements
     include/boost/multi/detail/layout.hpp:880-886       layout_t::extension     nelems = 0  ->  [0,0)
     include/boost/multi/array.hpp:560-565               static_array::clear (a possible prior state of the receiving array)
     include/boost/multi/array.hpp:1441-1458             array::reextent(x) &&
     include/boost/multi/array.hpp:1172-1180             array::serialize
     include/boost/multi/array.hpp:713-716, 1099-1102    static_array::serialize -> array_ref::serialize
     include/boost/multi/array_ref.hpp:3573-3589         array_ref::serialize_flat_ : make_array(data_elements(), num_elements())
     include/boost/multi/detail/serialization.hpp:68-81  archive_traits for Boost archives (nvp, make_array)

   An archive is a list of tokens.  What the archive does with a std::ptrdiff_t and with one
   element is not the library's business: it enters as Section variables (enc_z/dec_z, enc/dec).
   An element is loaded INTO the element that is already there (Boost's `ar >> item`), so dec
   takes the prior element; for arithmetic types and std::string it is ignored, for nested arrays
   it is the prior state of the inner array.

   Definitions only; no proofs in this file. *)
From Coq Require Import ZArith List Bool.
Import ListNotations.
Local Open Scope Z_scope.

(* ---------- index ranges and extension tuples ---------- *)
Definition crange := (Z * Z)%type.                               (* [first, last) *)
Definition cr_size (r : crange) : Z := snd r - fst r.
Definition cr_empty (r : crange) : bool := fst r =? snd r.       (* index_range.hpp:191 *)
(* index_range.hpp:202-205 *)
Definition cr_eq (a b : crange) : bool :=
  (cr_empty a && cr_empty b) || ((fst a =? fst b) && (snd a =? snd b)).
(* extensions_t<D>::num_elements, layout.hpp:244-252 *)
Fixpoint cx_num (x : list crange) : Z :=
  match x with [] => 1 | r :: s => cr_size r * cx_num s end.
(* tuple ==, layout.hpp:170-171, 364-365 (323-324 for D = 0) *)
Fixpoint cx_eq (a b : list crange) : bool :=
  match a, b with
  | [], [] => true
  | ra :: a', rb :: b' => cr_eq ra rb && cx_eq a' b'
  | _, _ => false
  end.
(* What an array built by layout_t(x) REPORTS as extensions(): layout.hpp:735-745 sets
   nelems = size * sub.num_elements() in every dimension and layout.hpp:880-886 answers [0,0)
   when nelems = 0.  So one zero extent empties its own and every outer dimension
   ({5,0} reports ([0,0),[0,0)); {0,5} reports ([0,0),[0,5))), and an empty range loses its
   index base.  Proofs/CodecBridge.v: l_extensions (mk_layout x) = cx_collapse x. *)
Fixpoint cx_collapse (x : list crange) : list crange :=
  match x with
  | [] => []
  | r :: s => (if cr_size r * cx_num s =? 0 then (0, 0) else r) :: cx_collapse s
  end.

(* canonical (row-major) enumeration of the index tuples of an extension tuple *)
Fixpoint zseq (start : Z) (n : nat) : list Z :=
  match n with O => [] | S k => start :: zseq (start + 1) k end.
Fixpoint cx_indices (x : list crange) : list (list Z) :=
  match x with
  | [] => [[]]
  | r :: s => flat_map (fun i => map (cons i) (cx_indices s)) (zseq (fst r) (Z.to_nat (cr_size r)))
  end.
(* ---------- the abstract owning array: reported extensions + flat element block ---------- *)
Section Arr.
  Variable value : Type.
  Variable dflt : value.                        (* T{} : what value-initialisation produces *)

  Record carr := mk_carr { ca_exts : list crange; ca_elems : list value }.

  Definition ca_rank (a : carr) : nat := length (ca_exts a).
  (* layout_t::num_elements of the array's own layout = product of the reported sizes *)
  Definition ca_num (a : carr) : Z := cx_num (ca_exts a).
  (* array(extensions) / array_ref(ptr, extensions) after value-construction *)
  Definition ca_make (x : list crange) : carr :=
    mk_carr (cx_collapse x) (repeat dflt (Z.to_nat (cx_num x))).

  (* array.hpp:560-565: destroy, deallocate, layout := layout_type(extensions_type{}) *)
  Definition ca_clear (a : carr) : carr :=
    mk_carr (repeat (0, 0) (ca_rank a)) [].

  (* array.hpp:1441-1458, reextent(x) && :
       if(x == this->extensions()) return;
       destroy(); deallocate(); layout := layout_t{x};
       base_ := allocate(layout_t{x}.num_elements())   (null for 0 cells, array.hpp:60-62);
       value-construct num_elements() cells            -- nothing of the old contents survives *)
  Definition ca_reextent_rv (x : list crange) (a : carr) : carr :=
    if cx_eq x (ca_exts a) then a else ca_make x.

  (* ---------- the archive ---------- *)
  Variable token : Type.
  Variable enc_z : Z -> list token.                                   (* ar << ptrdiff_t *)
  Variable dec_z : list token -> option (Z * list token).             (* ar >> ptrdiff_t *)
  Variable enc : value -> list token.                                 (* ar << element *)
  Variable dec : value -> list token -> option (value * list token).  (* ar >> element (into the prior element) *)

  (* index_range.hpp:79-92 *)
  Definition enc_range (r : crange) : list token := enc_z (fst r) ++ enc_z (snd r).
  Definition dec_range (t : list token) : option (crange * list token) :=
    match dec_z t with
    | None => None
    | Some (f, t1) =>
        match dec_z t1 with
        | None => None
        | Some (l, t2) => Some ((f, l), t2)
        end
    end.
  (* layout.hpp:222-233 (D >= 2), 421-426 (D = 1), 301 (D = 0: nothing) *)
  Definition enc_exts (x : list crange) : list token := flat_map enc_range x.
  Fixpoint dec_exts (d : nat) (t : list token) : option (list crange * list token) :=
    match d with
    | O => Some ([], t)
    | S d' =>
        match dec_range t with
        | None => None
        | Some (r, t1) =>
            match dec_exts d' t1 with
            | None => None
            | Some (x, t2) => Some (r :: x, t2)
            end
        end
    end.
  (* array_ref.hpp:3573-3577 with Boost's array_wrapper: item by item, no count in the archive *)
  Definition enc_elems (l : list value) : list token := flat_map enc l.
  Fixpoint dec_elems (prior : list value) (t : list token) : option (list value * list token) :=
    match prior with
    | [] => Some ([], t)
    | p :: ps =>
        match dec p t with
        | None => None
        | Some (v, t1) =>
            match dec_elems ps t1 with
            | None => None
            | Some (vs, t2) => Some (v :: vs, t2)
            end
        end
    end.

  (* array.hpp:1172-1180, saving: extensions, then the first num_elements() cells of the block *)
  Definition save_array (a : carr) : list token :=
    enc_exts (ca_exts a) ++ enc_elems (firstn (Z.to_nat (ca_num a)) (ca_elems a)).

  (* array.hpp:1172-1180, loading:
       auto extensions_ = this->extensions();  ar & extensions_;
       if(this->extensions() != extensions_) { std::move( *this ).reextent(extensions_); }
       static_::serialize(ar, version);        // num_elements() items into data_elements() *)
  Definition load_resize (p : carr) (x : list crange) : carr :=
    if negb (cx_eq (ca_exts p) x) then ca_reextent_rv x p else p.
  Definition load_array (p : carr) (t : list token) : option (carr * list token) :=
    match dec_exts (ca_rank p) t with
    | None => None
    | Some (x, t1) =>
        let p1 := load_resize p x in
        let n := Z.to_nat (ca_num p1) in
        match dec_elems (firstn n (ca_elems p1)) t1 with
        | None => None
        | Some (vs, t2) => Some (mk_carr (ca_exts p1) (vs ++ skipn n (ca_elems p1)), t2)
        end
    end.
End Arr.

Arguments mk_carr {value}.
Arguments ca_exts {value}.
Arguments ca_elems {value}.
Arguments ca_rank {value}.
Arguments ca_num {value}.
Arguments ca_make {value}.
Arguments ca_clear {value}.
Arguments ca_reextent_rv {value}.
Arguments enc_range {token}.
Arguments dec_range {token}.
Arguments enc_exts {token}.
Arguments dec_exts {token}.
Arguments enc_elems {value token}.
Arguments dec_elems {value token}.
Arguments save_array {value token}.
Arguments load_resize {value}.
Arguments load_array {value} dflt {token}.

(* ---------- what loading does to the allocator and to element lifetimes ----------
   array.hpp:1176-1178 with reextent(x) && (array.hpp:1441-1458): early return; destroy();
   deallocate() -- only if num_elements() != 0 (array.hpp:555-559); set the layout; allocate --
   null for 0 cells (array.hpp:60-62); value-construct.  np = num_elements() of the receiving
   array before the load. *)
Inductive cev := EvAlloc (n : Z) | EvDealloc (n : Z) | EvConstruct (n : Z) | EvDestroy (n : Z).
Definition load_events (pexts x : list crange) : list cev :=
  let np := cx_num pexts in
  let nx := cx_num x in
  if negb (cx_eq pexts x) then
    if cx_eq x pexts then []                                                     (* reextent: equal, return *)
    else [EvDestroy np] ++ (if np =? 0 then [] else [EvDealloc np])
         ++ (if nx =? 0 then [] else [EvAlloc nx]) ++ [EvConstruct nx]
  else [].
(* (cells owned, elements alive) of the receiving array's allocator, event by event *)
Definition ev_step (st : Z * Z) (e : cev) : Z * Z :=
  match e with
  | EvAlloc n => (fst st + n, snd st)
  | EvDealloc n => (fst st - n, snd st)
  | EvConstruct n => (fst st, snd st + n)
  | EvDestroy n => (fst st, snd st - n)
  end.
Definition ev_run (st : Z * Z) (evs : list cev) : Z * Z := fold_left ev_step evs st.

(* ---------- the instance that is run against the library ---------- *)
(* tokens are integers; an integer-keyed element is one token (int, double and std::string
   elements are keyed by integers in the harness); a nested array<int,1> element is the token
   sequence of save_array. *)
Definition tok_enc_z (i : Z) : list Z := [i].
Definition tok_dec_z (t : list Z) : option (Z * list Z) :=
  match t with [] => None | i :: r => Some (i, r) end.
Definition tok_enc (v : Z) : list Z := [v].
Definition tok_dec (_ : Z) (t : list Z) : option (Z * list Z) := tok_dec_z t.

Definition save_flat (a : carr Z) : list Z := save_array tok_enc_z tok_enc a.
Definition load_flat (p : carr Z) (t : list Z) : option (carr Z * list Z) :=
  load_array 0 tok_dec_z tok_dec p t.

Definition nested_dflt : carr Z := ca_make 0 [(0, 0)].       (* multi::array<int,1>{} *)
Definition save_nested (a : carr (carr Z)) : list Z := save_array tok_enc_z save_flat a.
Definition load_nested (p : carr (carr Z)) (t : list Z) : option (carr (carr Z) * list Z) :=
  load_array nested_dflt tok_dec_z load_flat p t.

(* L6 (MPI), part 3: the MPI calls that mpi.hpp makes on datatype HANDLES, in program order, and the
   ledger that MPI-3.1 4.1.9 prescribes for them (commit before communication, free exactly once).
   Handles: 0 is the predefined element datatype (never created, never freed); created handles are
   numbered next, next+1, ... in creation order (the harness renumbers real MPI_Datatype values the
   same way, because MPI may reuse a handle value after MPI_Type_free).
   Definitions only. *)
From Coq Require Import ZArith List Bool.
From BM Require Import Model.Layout Model.MpiTypes.
Import ListNotations.
Local Open Scope Z_scope.

Definition handle := Z.

Inductive ev :=
| EvVector  (new : handle) (count blocklen stride : Z) (old : handle)   (* MPI_Type_vector *)
| EvHVector (new : handle) (count blocklen stride : Z) (old : handle)   (* MPI_Type_create_hvector *)
| EvResized (new old : handle) (lb extent : Z)                          (* MPI_Type_create_resized *)
| EvDup     (new old : handle)                                          (* MPI_Type_dup *)
| EvCommit  (h : handle)                                                (* MPI_Type_commit *)
| EvFree    (h : handle)                                                (* MPI_Type_free *)
| EvUse     (h : handle) (count : Z).   (* the datatype is passed to a communication/pack call *)

(* skeleton(lyt, dt, subcount), mpi.hpp:130-156, as events.  Returns (events, datatype_, next).
   Program order for D > 1: the sub-skeleton is built first (:138, a temporary moved into the local
   `sk`, so the temporary's destructor sees MPI_DATATYPE_NULL and frees nothing, :122-126,:175-179);
   then hvector, resized, free(vector_datatype) (:147-154); then the constructor body ends and the
   local `sk` is destroyed, which frees the sub-skeleton's datatype (:134, :175-179). *)
Fixpoint sk_build (l : layout) (sz subcount : Z) (next : handle) : list ev * handle * handle :=
  match l with
  | [] => ([], 0, next)
  | d :: sub =>
      let '(evs, sub_h, next1, sub_frees) :=
        match sub with
        | [] => ([], 0, next, [])                                          (* sub_type = dt :136 *)
        | _ :: _ =>
            let '(e, h, n) := sk_build sub sz (l_size sub) next in
            (e, h, n, [EvFree h])
        end in
      let vh := next1 in
      let rh := next1 + 1 in
      (evs ++ [EvHVector vh subcount 1 (d_stride d * sz) sub_h;
               EvResized rh vh 0 (d_stride d * sz);
               EvFree vh] ++ sub_frees,
       rh, next1 + 2)
  end.

(* the whole life of a message / public skeleton: construction (:162-166 commits), `uses` calls that
   receive (buffer(), count(), datatype()), destruction (:175-179).  A moved-from skeleton holds
   MPI_DATATYPE_NULL (:159-160, :183) and its destructor emits nothing, so moving does not change the
   trace. *)
Definition message_trace (l : layout) (sz : Z) (uses : nat) (next : handle) : list ev :=
  let '(evs, h, _) := sk_build l sz 1 next in
  evs ++ [EvCommit h] ++ repeat (EvUse h (l_size l)) uses ++ [EvFree h].

(* data(It first) ... ~data(), mpi.hpp:55-75 *)
Definition data_trace (stride count : Z) (uses : nat) (next : handle) : list ev :=
  [EvVector next 1 1 stride 0; EvCommit next] ++ repeat (EvUse next count) uses ++ [EvFree next].

Definition hd_stride_l (l : layout) : Z := match l with [] => 0 | d :: _ => d_stride d end.

(* create_subarray, mpi.hpp:186-206: returns (events, *new_datatype, next).  The result is handed to
   the caller live and NOT committed; `sk` is destroyed when the function returns (:192, :175-179). *)
Definition create_subarray_build (l : layout) (sz : Z) (next : handle) : list ev * handle * handle :=
  let '(evs, h, next1) := sk_build l sz 1 next in
  let vh := next1 in
  let rh := next1 + 1 in
  (evs ++ [EvCommit h;
           EvHVector vh (l_size l) 1 (hd_stride_l l * sz) h;
           EvResized rh vh 0 (hd_stride_l l * sz);
           EvFree vh;
           EvFree h],
   rh, next1 + 2).
(* the way mpi.cpp uses it: create, commit, send with count 1, free *)
Definition create_subarray_trace (l : layout) (sz : Z) (uses : nat) (next : handle) : list ev :=
  let '(evs, h, _) := create_subarray_build l sz next in
  evs ++ [EvCommit h] ++ repeat (EvUse h 1) uses ++ [EvFree h].

(* create_subarray_aux, mpi.hpp:81-113 (dead alternative): D == 1 dups the element type (:91), else
   recurses (:93); hvector, resized, free(vector) (:102-109); free(sub_type) (:111). *)
Fixpoint aux_build (l : layout) (sz subcount : Z) (next : handle) : list ev * handle * handle :=
  match l with
  | [] => ([], 0, next)
  | d :: sub =>
      let '(evs, sub_h, next1) :=
        match sub with
        | [] => ([EvDup next 0], next, next + 1)
        | _ :: _ => aux_build sub sz (l_size sub) next
        end in
      (evs ++ [EvHVector next1 subcount 1 (d_stride d * sz) sub_h;
               EvResized (next1 + 1) next1 0 (d_stride d * sz);
               EvFree next1;
               EvFree sub_h],
       next1 + 1, next1 + 2)
  end.
(* called with subcount = lyt.size() and then used with count 1, committed and freed by the caller *)
Definition aux_trace (l : layout) (sz : Z) (uses : nat) (next : handle) : list ev :=
  let '(evs, h, _) := aux_build l sz (l_size l) next in
  evs ++ [EvCommit h] ++ repeat (EvUse h 1) uses ++ [EvFree h].

(* ---- the ledger ---- *)
Record lstate := mkls { live : list (handle * bool);   (* created, not yet freed; flag = committed *)
                        seen : list handle }.          (* every handle ever created *)
Definition ls_init : lstate := mkls [] [].

Definition is_live (s : lstate) (h : handle) : bool := existsb (fun p => fst p =? h) (live s).
Definition is_committed (s : lstate) (h : handle) : bool :=
  existsb (fun p => (fst p =? h) && snd p) (live s).
Definition was_seen (s : lstate) (h : handle) : bool := existsb (Z.eqb h) (seen s).
(* an argument datatype of a constructor must be predefined or live (it need not be committed) *)
Definition usable_old (s : lstate) (h : handle) : bool := (h =? 0) || is_live s h.

Definition ls_create (s : lstate) (n o : handle) : option lstate :=
  if (0 <? n) && negb (was_seen s n) && usable_old s o
  then Some (mkls ((n, false) :: live s) (n :: seen s)) else None.

Definition ledger_step (s : lstate) (e : ev) : option lstate :=
  match e with
  | EvVector n _ _ _ o | EvHVector n _ _ _ o | EvResized n o _ _ | EvDup n o => ls_create s n o
  | EvCommit h =>
      if is_live s h
      then Some (mkls (map (fun p => if fst p =? h then (fst p, true) else p) (live s)) (seen s))
      else None
  | EvFree h =>
      if is_live s h
      then Some (mkls (filter (fun p => negb (fst p =? h)) (live s)) (seen s))
      else None
  | EvUse h _ => if (h =? 0) || is_committed s h then Some s else None
  end.

Fixpoint ledger_run (s : lstate) (tr : list ev) : option lstate :=
  match tr with
  | [] => Some s
  | e :: tr' => match ledger_step s e with Some s' => ledger_run s' tr' | None => None end
  end.

(* the verdict printed by the model runner and recomputed on the real PMPI trace *)
Definition ledger_balanced (tr : list ev) : bool :=
  match ledger_run ls_init tr with
  | Some s => match live s with [] => true | _ => false end
  | None => false
  end.

Definition ev_created (e : ev) : option handle :=
  match e with
  | EvVector n _ _ _ _ | EvHVector n _ _ _ _ | EvResized n _ _ _ | EvDup n _ => Some n
  | _ => None
  end.
Fixpoint created (tr : list ev) : list handle :=
  match tr with
  | [] => []
  | e :: tr' => match ev_created e with Some n => n :: created tr' | None => created tr' end
  end.
Fixpoint count_free (h : handle) (tr : list ev) : nat :=
  match tr with
  | [] => O
  | EvFree h' :: tr' => if h' =? h then S (count_free h tr') else count_free h tr'
  | _ :: tr' => count_free h tr'
  end.

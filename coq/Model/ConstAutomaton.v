(* C16 -- the const automaton: overload resolution of the access / view-forming / mutating members of
   boost::multi as a function of (library type, dimensionality class, top-level const, value category).

   Definitions only.  The model follows the overload sets of the headers (/repo at f94579a, to which the line numbers refer) class by class:
     const_subarray<T,D>      include/boost/multi/array_ref.hpp:1017-1871   (D >= 2)
     const_subarray<T,1>      array_ref.hpp:2682-3269
     subarray<T,D>            array_ref.hpp:1911-2341                       (all D, derives from const_subarray<T,D>)
     array_ref<T,D>           array_ref.hpp:3293-3602                       (derives from subarray)
     static_array<T,D>, array array.hpp:200-216, 532-549, 621-639, 670-703, 1154-1366
     array_iterator<D>, <1>   array_ref.hpp:475-659, 2349-2534
     cursor_t                 array_ref.hpp:661-747
     elements_iterator_t      array_ref.hpp:750-866
     elements_range_t         array_ref.hpp:868-1002
   Every member function is a list of (ref-qualifier, result) pairs; `resolve` is C++ overload resolution on
   the implicit object parameter ([over.match.funcs]/4, [over.ics.rank]/3.2.3, 3.2.6); a derived class either
   re-exports the base overloads (`using base::f;`) or hides them.  The element type is int, the pointer is
   int* (pc = false) or int const* (pc = true), the layout is the default one. *)
From Coq Require Import List Bool Arith.
Import ListNotations.

(* ---------------------------------------------------------------------------------------------- *)
(* vocabulary                                                                                      *)
(* ---------------------------------------------------------------------------------------------- *)
Inductive cat := Lv | Rv.

Inductive kind :=
| KArr                        (* multi::array<int,D>                                   *)
| KSArr                       (* multi::static_array<int,D>                            *)
| KARef (pc : bool)           (* multi::array_ref<int,D,int*|int const*>               *)
| KSub (pc : bool)            (* multi::subarray<int,D,..>                             *)
| KCSub (pc : bool)           (* multi::const_subarray<int,D,..>                       *)
| KIt (c pc : bool)           (* array_iterator<int,D,ptr,IsConst = c>                 *)
| KER (pc : bool)             (* elements_range_t<ptr, layout_t<D>>                    *)
| KEI (pc : bool)             (* elements_iterator_t<ptr, layout_t<D>>                 *)
| KCu (pc : bool)             (* cursor_t<ptr, D, strides>                             *)
| KPt (pc : bool)             (* int* | int const*                                     *)
| KSP (c pc : bool)           (* subarray_ptr<int,D,ptr,layout,IsConst = c>            *)
| KElem.                      (* int: a reference to an element (int&, int const&, int&&) *)

Record state := mkSt { sk : kind; sd : nat; sc : bool; scat : cat }.

(* result of one step *)
Inductive outcome :=
| To (s : state)      (* well-formed; the result expression has this state                         *)
| ToVal               (* well-formed; a prvalue int (a copy, detached from the array)              *)
| ToOther             (* well-formed; a type outside the modelled fragment (move_iterator, move_ptr views) *)
| Mut                 (* a mutator that is accepted and instantiates: the elements can be written   *)
| NoDef               (* accepted by overload resolution but only declared, never defined: a program using it does not link *)
| No                  (* no viable overload / deleted: substitution failure                          *)
| Hard                (* ill-formed, but not a substitution failure (body or return conversion does not compile) *)
| NA.                 (* not a writability probe: assigning / swapping a copyable handle re-seats the handle *)

Inductive aop :=
| AIndex | ACall0 | ACall1 | ACallAll | ACallRng | ACallRngIdx | ACallIdxRng
| ABegin | AEnd | ACBegin | ACEnd | ADeref | APlus1
| AElements | ACElements | AConstElements | AHome | AFront | ABack
| ASliced | ASlicedS | AStrided | ATaked | ADropped | ARotated | AUnrotated | ATransposed | ATilde | AReversed
| ADiagonal | APartitioned | AChunked | AHalved | AFlatted | AReindexed | ABlocked | ARange | AStenciled
| ABroadcasted | AAsConst | ABase | ADataElements | AOrigin | AAddrOf | AAddressOf | AArrow
| AMove | ABindRef | ABindCRef
| AAssign | AFill | ASwap | AMSwap.

Definition all_ops : list aop :=
  [AIndex; ACall0; ACall1; ACallAll; ACallRng; ACallRngIdx; ACallIdxRng;
   ABegin; AEnd; ACBegin; ACEnd; ADeref; APlus1;
   AElements; ACElements; AConstElements; AHome; AFront; ABack;
   ASliced; ASlicedS; AStrided; ATaked; ADropped; ARotated; AUnrotated; ATransposed; ATilde; AReversed;
   ADiagonal; APartitioned; AChunked; AHalved; AFlatted; AReindexed; ABlocked; ARange; AStenciled;
   ABroadcasted; AAsConst; ABase; ADataElements; AOrigin; AAddrOf; AAddressOf; AArrow;
   AMove; ABindRef; ABindCRef;
   AAssign; AFill; ASwap; AMSwap].

Definition mutators : list aop := [AAssign; AFill; ASwap; AMSwap].

(* ---------------------------------------------------------------------------------------------- *)
(* overload resolution on the implicit object parameter                                            *)
(* ---------------------------------------------------------------------------------------------- *)
Inductive qual :=
| QL      (*  f() &        *)
| QR      (*  f() &&       *)
| QCL     (*  f() const&   *)
| QCR     (*  f() const&&  *)
| QC      (*  f() const    *)
| QN.     (*  f()          *)

(* can an object expression of constness c and category ct bind to the implicit object parameter? *)
Definition viable (q : qual) (c : bool) (ct : cat) : bool :=
  match q, c, ct with
  | QL, false, Lv => true
  | QR, false, Rv => true
  | QCL, _, _ => true
  | QCR, _, Rv => true
  | QC, _, _ => true
  | QN, false, _ => true
  | _, _, _ => false
  end.

(* smaller is better: an rvalue prefers && over const&; the less cv-qualified parameter wins *)
Definition rank (q : qual) (c : bool) (ct : cat) : nat :=
  match q, c, ct with
  | QL, _, _ => 0
  | QN, _, _ => 0
  | QR, _, _ => 0
  | QCR, false, _ => 1
  | QCR, true, _ => 0
  | QCL, false, Lv => 1
  | QCL, false, Rv => 2
  | QCL, true, Lv => 0
  | QCL, true, Rv => 1
  | QC, false, Lv => 1
  | QC, false, Rv => 2
  | QC, true, Lv => 0
  | QC, true, Rv => 1
  end.

Inductive delta := Same | Dec | Inc | One | Zero.

(* what the selected overload yields *)
Inductive kres :=
| RT (k : kind) (dd : delta) (c : bool) (ct : cat)
| RVal | ROther | RMut | RNoDef | RHard
| RDel.                                (* selected overload is deleted: substitution failure *)

Definition ovl := list (qual * kres).

Fixpoint best (c : bool) (ct : cat) (l : ovl) (acc : option (nat * kres)) : option (nat * kres) :=
  match l with
  | [] => acc
  | (q, r) :: tl =>
      if viable q c ct then
        let n := rank q c ct in
        match acc with
        | None => best c ct tl (Some (n, r))
        | Some (m, _) => if Nat.ltb n m then best c ct tl (Some (n, r)) else best c ct tl acc
        end
      else best c ct tl acc
  end.

Definition resolve (c : bool) (ct : cat) (l : ovl) : option kres :=
  match best c ct l None with Some (_, r) => Some r | None => None end.

(* dimensionality classes: the class templates are specialised at D = 0 and D = 1; results of D-1 see D = 2 *)
Inductive dcl := D0 | D1 | D2 | D3p.
Definition dcls (d : nat) : dcl :=
  match d with 0 => D0 | 1 => D1 | 2 => D2 | _ => D3p end.
Definition ge2 (dc : dcl) : bool := match dc with D2 | D3p => true | _ => false end.

(* shorthands *)
Definition V (k : kind) (dd : delta) : kres := RT k dd false Rv.          (* a prvalue view / iterator / range *)
Definition E (c : bool) : kres := RT KElem Zero c Lv.                    (* int& (c = false) or int const& *)
Definition P (pc : bool) : kres := RT (KPt pc) Zero false Rv.            (* a prvalue pointer *)

(* ---------------------------------------------------------------------------------------------- *)
(* const_subarray<T, D, ptr>, D >= 2      array_ref.hpp:1017-1871                                   *)
(*   pc: the pointer is int const*.  d1 = (D = 2): the (D-1)-dimensional item is the 1-D specialisation. *)
(* ---------------------------------------------------------------------------------------------- *)
Definition cs2 (pc : bool) (d1 : bool) (o : aop) : option ovl :=
  let cv := V (KCSub pc) in
  match o with
  | AIndex => Some [(QCL, cv Dec)]                                   (* :1143 operator[](index) const& -> const_reference *)
  | AFront | ABack => Some [(QCL, cv Dec)]                           (* :1171-1172 *)
  | ACall0 => Some [(QCL, cv Same)]                                  (* :1528 *)
  | ACall1 => Some [(QCL, cv Dec)]                                   (* :1551 -> paren_aux_(index) const& :1547 *)
  | ACallAll => Some [(QCL, E true)]                                 (* :1551-1554; ends in the 1-D operator[] const& :2838 *)
  | ACallRng => Some [(QCL, cv Same)]                                (* :1539 range().rotated().paren_aux_().unrotated() *)
  | ACallRngIdx => Some [(QCL, cv Dec)]
  | ACallIdxRng =>                                                   (* operator[](i) then the (D-1) call with a range: *)
      Some [(QCL, if d1 then V (KCSub true) Dec else cv Dec)]        (*   1-D range() const& is sliced() const& -> basic_const_array :2942 *)
  | ABegin | AEnd | ACBegin | ACEnd => Some [(QCL, V (KIt true pc) Same)]   (* :1633-1639 const_iterator *)
  | AElements =>                                                     (* :1076-1076 *)
      Some [(QC, V (KER true) Same)]
  | AConstElements => Some [(QC, if pc then V (KER true) Same else RHard)]  (* :1077 returns elements_aux_() as const_elements_range *)
  | AHome => Some [(QCL, V (KCu true) Same)]                         (* :1649 *)
  | ASliced => Some [(QCL, cv Same)]                                 (* :1277 *)
  | ASlicedS => Some [(QCL, cv Same)]                                (* :1335-1339 sliced(f,l).strided(s) on a prvalue *)
  | AStrided => Some [(QCL, cv Same); (QR, cv Same); (QL, cv Same)]  (* :1331-1333; const& -> const_subarray since the receiver fix *)
  | ATaked => Some [(QCL, cv Same)]                                  (* :1212 *)
  | ADropped => Some [(QCL, cv Same); (QR, cv Same); (QL, cv Same)]  (* :1249-1251 *)
  | ARotated | AUnrotated | ATransposed => Some [(QCL, cv Same)]     (* :1483, :1511-1512 *)
  | ATilde => Some [(QCL, cv Same)]                                  (* :1492 friend operator~(const_subarray const&) *)
  | AReversed => Some [(QCL, cv Same); (QL, cv Same); (QR, cv Same)] (* :1468-1470 *)
  | ADiagonal => Some [(QCL, cv Dec)]                                (* :1398 *)
  | APartitioned | AChunked | AHalved => Some [(QCL, cv Inc)]        (* :1431, :1444, :1223 *)
  | AFlatted => Some [(QCL, cv Dec)]                                 (* :1356 *)
  | AReindexed => Some [(QCL, cv Same); (QL, cv Same); (QR, cv Same)](* :1182-1196 *)
  | ABlocked => Some [(QCL, cv Same); (QL, cv Same)]                 (* :1279-1280 *)
  | ARange => Some [(QCL, cv Same)]                                  (* :1343 *)
  | AStenciled => Some [(QL, cv Same); (QR, cv Same); (QCL, cv Same)](* :1284, :1291, :1298 *)
  | ABroadcasted => Some [(QCL, V (KCSub true) Inc)]                 (* :1368 element_const_ptr *)
  | AAsConst => Some [(QC, V (KSub true) Same)]                      (* :1808 *)
  | ABase => Some [(QC, P true)]                                     (* :236 base() const -> element_const_ptr *)
  | AOrigin => Some [(QCL, P true)]                                  (* :255 origin() const& -> element_const_ptr *)
  | AAssign => Some [(QN, RDel)]                                     (* :1036-1037 deleted *)
  | AAddressOf | AAddrOf => Some [(QCL, V (KSP true pc) Same)]       (* :1596 addressof() const& -> const_ptr, :1601 operator&() const& *)
  | _ => None
  end.

(* ---------------------------------------------------------------------------------------------- *)
(* const_subarray<T, 1, ptr>              array_ref.hpp:2682-3269                                   *)
(* ---------------------------------------------------------------------------------------------- *)
Definition cs1 (pc : bool) (o : aop) : option ovl :=
  let cv := V (KCSub pc) in
  match o with
  | AIndex => Some [(QCL, E true)]                                   (* :2838 -> const_reference *)
  | AFront | ABack => Some [(QCL, E true)]                           (* :2840-2841 *)
  | ACall0 => Some [(QCL, cv Same)]                                  (* :2984 *)
  | ACall1 | ACallAll => Some [(QC, E true)]                         (* :2986 operator()(index) const -> operator[] *)
  | ACallRng => Some [(QCL, V (KCSub true) Same)]                    (* :2988 -> range -> sliced const& :2942 *)
  | ABegin | AEnd | ACBegin | ACEnd => Some [(QCL, V (KIt true pc) Same)]  (* :3116-3124 *)
  | AElements =>                                                     (* :2956-2956 *)
      Some [(QC, V (KER true) Same)]
  | ACElements => Some [(QC, if pc then V (KER true) Same else RHard)]     (* :2958 *)
  | AHome => Some [(QCL, V (KCu true) Same)]                         (* :2805 *)
  | ASliced => Some [(QCL, V (KCSub true) Same); (QL, cv Same); (QR, cv Same)]  (* :2942-2944 *)
  | ASlicedS => Some [(QCL, V (KCSub true) Same)]                    (* :2980 *)
  | AStrided => Some [(QCL, cv Same)]                                (* :2978 *)
  | ATaked => Some [(QCL, cv Same)]                                  (* :2903 *)
  | ADropped => Some [(QCL, cv Same)]                                (* :2923 *)
  | ARotated | AUnrotated => Some [(QCL, cv Same)]                   (* :3072-3073 *)
  | ATransposed | AFlatted => Some [(QCL, RDel)]                     (* :3075-3076 deleted *)
  | ADiagonal => Some [(QC, RDel)]                                   (* :2799 deleted *)
  | AReversed => Some [(QCL, V (KCSub true) Same); (QL, cv Same); (QR, cv Same)]  (* :3059-3061 *)
  | APartitioned | AChunked | AHalved => Some [(QCL, cv Inc)]        (* :3026, :3035, :3014 *)
  | AReindexed => Some [(QR, cv Same); (QL, cv Same); (QCL, V (KCSub true) Same)]   (* :2883-2893; const& -> basic_const_array *)
  | ABlocked => Some [(QL, cv Same); (QR, cv Same); (QCL, V (KCSub true) Same)]     (* :2969-2977 *)
  | ARange => Some [(QCL, V (KCSub true) Same)]                      (* :2982 -> sliced() on a const *this *)
  | AStenciled => Some [(QL, cv Same); (QR, cv Same); (QCL, V (KCSub true) Same)]   (* :2978-2986 *)
  | ABroadcasted => Some [(QCL, cv Inc)]                             (* :2824 const_subarray<T, 2, ElementPtr> *)
  | ABase => Some [(QC, P true)]                                     (* :236 *)
  | AOrigin => Some [(QCL, P true)]                                  (* :255 *)
  | ASwap => Some [(QL, RNoDef)]                                     (* std::swap: move ctor :2759 public, operator=(const_subarray&&)& :2787 only declared *)
  | AAddrOf => Some [(QCL, V (KSP true pc) Same)]                    (* :2769 operator&() const& -> const_subarray_ptr *)
  | _ => None
  end.

Definition csub (pc : bool) (dc : dcl) (o : aop) : option ovl :=
  match dc with
  | D1 => cs1 pc o
  | D2 => cs2 pc true o
  | D3p => cs2 pc false o
  | D0 => None
  end.

(* ---------------------------------------------------------------------------------------------- *)
(* subarray<T, D, ptr> : const_subarray<T, D, ptr>      array_ref.hpp:1911-2341                    *)
(*   (true, l): `using const_subarray::f;` plus the overloads l;  (false, l): l hides the base's.  *)
(* ---------------------------------------------------------------------------------------------- *)
Definition wr (pc : bool) : kres := if pc then RHard else RMut.    (* a mutator body writes through the pointer *)

Definition sub_own (pc : bool) (dc : dcl) (o : aop) : option (bool * ovl) :=
  let sv := V (KSub pc) in
  let g2 := ge2 dc in
  match o with
  | AIndex => Some (true, [(QR, if g2 then sv Dec else E pc); (QL, if g2 then sv Dec else E pc)])   (* :2178-2181 *)
  | ACall0 => Some (true, [(QL, sv Same); (QR, sv Same)])                                         (* :2224-2225 *)
  | ACall1 => Some (true, [(QL, if g2 then sv Dec else E pc); (QR, if g2 then sv Dec else E pc)])  (* :2227, :2232 -> paren_aux_(index) :2203 *)
  | ACallAll => Some (true, [(QL, E pc); (QR, E pc)])
  | ACallRng => Some (true, [(QL, sv Same); (QR, sv Same)])                                       (* :2210-2216 *)
  | ACallRngIdx | ACallIdxRng =>                                                                   (* 1-D: the variadic paren_aux_ body does not instantiate *)
      Some (true, [(QL, if g2 then sv Dec else RHard); (QR, if g2 then sv Dec else RHard)])
  | ABegin | AEnd => Some (true, [(QR, V (KIt false pc) Same); (QL, V (KIt false pc) Same)])     (* :1960-1966 *)
  | AHome => Some (true, [(QR, V (KCu pc) Same); (QL, V (KCu pc) Same)])                          (* :1971-1973 *)
  | AFill => Some (false, [(QL, wr pc); (QR, wr pc)])                                              (* :1982-1992 *)
  | AStrided | ATaked | ADropped | ASliced =>
      Some (true, [(QR, sv Same); (QL, sv Same)])                                                 (* :1994-2004, :2189-2191 *)
  | ARotated | AUnrotated => Some (true, [(QR, sv Same); (QL, sv Same)])                          (* :2006-2012 *)
  | ATransposed =>                                                                                 (* :2014-2016; 1-D: calls the deleted base function *)
      Some (true, [(QR, if g2 then sv Same else RHard); (QL, if g2 then sv Same else RHard)])
  | ATilde =>                                                                                      (* :2020-2023 friends (subarray&), (subarray&&), deduced return *)
      Some (true, [(QL, if g2 then sv Same else RHard); (QR, if g2 then sv Same else RHard)])
  | ADiagonal =>                                                                                   (* :2183-2186 deduced return, diagonal_aux_ *)
      Some (true, [(QL, if g2 then sv Dec else RHard); (QR, if g2 then sv Dec else RHard)])
  | ARange => Some (true, [(QR, sv Same); (QL, sv Same)])                                         (* :2193-2195 *)
  | APartitioned => Some (true, [(QL, sv Inc); (QR, sv Inc)])                                     (* :2250-2252 *)
  | AFlatted =>                                                                                    (* :2254-2261 *)
      Some (true, [(QL, if g2 then sv Dec else RHard); (QR, if g2 then sv Dec else RHard)])
  | ABase => Some (false, [(QCL, P true); (QL, P pc); (QR, P pc)])                                (* :2038-2040 *)
  | AAddrOf => Some (true, [(QR, V (KSP false pc) Same); (QL, V (KSP false pc) Same)])            (* :1942-1950 *)
  | AAddressOf =>                                                                                  (* :1952-1954 *)
      Some (false, [(QR, V (KSP false pc) Same); (QL, V (KSP false pc) Same); (QCL, V (KSP true pc) Same)])
  | AElements =>                                                                                   (* :1975-1977 *)
      Some (false, [(QL, V (KER pc) Same); (QR, V (KER pc) Same); (QCL, V (KER true) Same)])
  | AOrigin => Some (true, [(QL, P pc); (QR, P pc)])                                              (* :2042-2044 *)
  | AAssign =>                                                                                     (* :2047, :2077, :2126 (&&), :2148 (const&&, declared only) *)
      Some (false, [(QL, wr pc); (QR, wr pc); (QCR, RNoDef)])
  | ASwap =>                                                                                       (* :2058 friend swap(subarray&&, subarray&&); lvalues: std::swap via :1930, :2161 *)
      Some (false, [(QR, wr pc); (QL, wr pc)])
  | AMSwap => Some (false, [(QR, wr pc)])                                                          (* :2054 swap(subarray&&) && *)
  | _ => None
  end.

Definition qual_eqb (a b : qual) : bool :=
  match a, b with
  | QL, QL | QR, QR | QCL, QCL | QCR, QCR | QC, QC | QN, QN => true
  | _, _ => false
  end.

(* a using-declaration does not bring in a base function that the derived class redeclares with the same
   signature ([namespace.udecl]/14): those are overridden *)
Definition inherit (base : option ovl) (own : option (bool * ovl)) : option ovl :=
  match own with
  | None => base
  | Some (true, l) =>
      Some (match base with
            | Some b => filter (fun qr => negb (existsb (fun qr' => qual_eqb (fst qr) (fst qr')) l)) b ++ l
            | None => l
            end)
  | Some (false, l) => Some l
  end.

Definition sub (pc : bool) (dc : dcl) (o : aop) : option ovl := inherit (csub pc dc o) (sub_own pc dc o).

(* ---------------------------------------------------------------------------------------------- *)
(* array_ref<T, D, ptr> : subarray<T, D, ptr>           array_ref.hpp:3293-3602                    *)
(* ---------------------------------------------------------------------------------------------- *)
Definition aref_own (pc : bool) (dc : dcl) (o : aop) : option (bool * ovl) :=
  match o with
  | AElements =>                                                                                   (* :3452-3454 flat 1-D array_ref *)
      Some (false, [(QCL, V (KARef true) One); (QL, V (KARef pc) One); (QR, V (KARef pc) One)])
  | ACElements => Some (false, [(QCL, V (KARef true) One)])                                        (* :3460 *)
  | ADataElements => Some (false, [(QCL, P true); (QL, P pc); (QR, P pc)])                         (* :3391, :3508-3509 *)
  | AAssign => Some (true, [(QL, wr pc); (QR, wr pc)])                                             (* :3383 using, :3393-3438 *)
  | ASwap => Some (false, [(QR, wr pc)])                                                           (* copy/move ctor deleted :3314, :3319: only swap(subarray&&, subarray&&) *)
  | _ => None
  end.

Definition aref (pc : bool) (dc : dcl) (o : aop) : option ovl := inherit (sub pc dc o) (aref_own pc dc o).

(* ---------------------------------------------------------------------------------------------- *)
(* static_array<T, D> : array_ref<T, D, T*>             array.hpp                                   *)
(* ---------------------------------------------------------------------------------------------- *)
Definition sarr_own (dc : dcl) (o : aop) : option (bool * ovl) :=
  match o with
  | AIndex => Some (true, [(QR, if ge2 dc then ROther else RT KElem Zero false Rv)])               (* array.hpp:541-542 multi::move(ref::operator[]) *)
  | ACall0 => Some (true, [(QR, ROther)])                                                          (* :209-210 element_moved() *)
  | ATaked | ADropped => Some (true, [(QR, ROther)])                                               (* :212-216 *)
  | ABegin | AEnd =>                                                                               (* :532-539 *)
      Some (false, [(QCL, V (KIt true false) Same); (QR, ROther); (QL, V (KIt false false) Same)])
  | ADataElements => Some (false, [(QCL, P true); (QL, P false); (QR, RHard)])                    (* :621-623; && makes a move_iterator of the wrong type *)
  | ABase => Some (false, [(QL, P false); (QCL, P true)])                                          (* :629-630 *)
  | AOrigin => Some (false, [(QL, P false); (QCL, P true)])                                        (* :635-636 *)
  | AAssign => Some (false, [(QN, RMut)])                                                          (* :670-703: no `using`, not ref-qualified or & *)
  | ASwap => Some (false, [(QL, RMut); (QR, RMut)])                                                (* std::swap on lvalues; swap(subarray&&, subarray&&) on rvalues *)
  | _ => None
  end.

Definition sarr (dc : dcl) (o : aop) : option ovl := inherit (aref false dc o) (sarr_own dc o).

(* array<T, D> : static_array<T, D>                     array.hpp:1131-1648 *)
Definition arr_own (dc : dcl) (o : aop) : option (bool * ovl) :=
  match o with
  | AAssign => Some (false, [(QN, RMut)])                                                          (* array.hpp:1295-1366 *)
  | AMSwap => Some (false, [(QL, RMut)])                                                           (* array::swap(array&) *)
  | AAddrOf => Some (false, [(QR, RDel); (QL, ROther); (QCL, ROther)])                             (* array.hpp:1164-1168 array*, array const* *)
  | _ => None
  end.

Definition arr (dc : dcl) (o : aop) : option ovl := inherit (sarr dc o) (arr_own dc o).

(* ---------------------------------------------------------------------------------------------- *)
(* handles                                                                                          *)
(* ---------------------------------------------------------------------------------------------- *)
(* array_iterator<T, D, ptr, IsConst = c>: every member is const-qualified.  :475-659 (D >= 2), :2354-2539 (D = 1) *)
Definition iter (c pc : bool) (dc : dcl) (o : aop) : option ovl :=
  if ge2 dc then
    match o with
    | ADeref => Some [(QC, V (if c then KCSub pc else KSub pc) Dec)]      (* :545 operator*() const -> reference (:501-505) *)
    | AIndex | ACall1 =>                                                 (* :560 operator[] -> reference; :600 -> operator[] *)
        Some [(QC, V (if c then KCSub pc else KSub pc) Dec)]
    | ACallAll => Some [(QC, E (c || pc))]                               (* :599 operator[](idx)(args...) on the prvalue it returns *)
    | APlus1 => Some [(QC, V (KIt c pc) Same)]                           (* :559 *)
    | ABase => Some [(QC, P pc)]                                         (* :632 base() const -> element_ptr whatever IsConst *)
    | AArrow => Some [(QC, V (KSP true pc) Dec)]                         (* :553 returns ptr_ : ptr_type = subarray_ptr<.., IsConst = true> (:516) *)
    | _ => None
    end
  else
    match o with
    | ADeref | AIndex => Some [(QC, E (c || pc))]                        (* :2536, :2453; reference :2383-2395 *)
    | APlus1 => Some [(QC, V (KIt c pc) Same)]                           (* :2478 *)
    | ABase => Some [(QC, P (c || pc))]                                  (* :2481 static_cast<pointer>, pointer :2376-2380 *)
    | AArrow => Some [(QC, P (c || pc))]                                 (* :2457 *)
    | _ => None
    end.

(* subarray_ptr<T, D, ptr, layout, IsConst = c>  :316-470 *)
Definition sptr (c pc : bool) (o : aop) : option ovl :=
  match o with
  | ADeref | AIndex => Some [(QC, V (if c then KCSub pc else KSub pc) Same)]   (* :390, :407 -> reference (:348-351) *)
  | APlus1 => Some [(QC, V (KSP c pc) Same)]                                    (* iterator_facade operator+ *)
  | ABase => Some [(QC, P (c || pc))]                                           (* :415 base() const -> element_const_ptr when IsConst *)
  | AArrow => Some [(QC, ROther)]                                               (* :392 a local proxy class *)
  | _ => None
  end.

(* elements_range_t<ptr, layout>  :868-1002 *)
Definition erange (pc : bool) (o : aop) : option ovl :=
  match o with
  | AIndex | AFront | ABack => Some [(QCL, E true); (QR, E pc); (QL, E pc)]          (* :923-925, :966-973 *)
  | ABegin | AEnd => Some [(QCL, V (KEI true) Same); (QR, V (KEI pc) Same); (QL, V (KEI pc) Same)]   (* :957-964 *)
  | ABase => Some [(QN, P pc); (QC, P true)]                                          (* :900-901 *)
  | AAssign => if pc then None else Some [(QN, RMut)]                                 (* :977 operator=(elements_range_t&&); :982-994 SFINAE away for a const range *)
  | AMSwap => Some [(QL, wr pc); (QR, wr pc)]                                         (* :945-948 *)
  | _ => None
  end.

(* elements_iterator_t<ptr, layout>  :750-866 *)
Definition eiter (pc : bool) (o : aop) : option ovl :=
  match o with
  | AIndex | ADeref => Some [(QC, E pc)]                                              (* :846-847 *)
  | APlus1 => Some [(QC, V (KEI pc) Same)]                                            (* :855 *)
  | AArrow => Some [(QC, P pc)]                                                       (* :845 *)
  | ABase => Some [(QN, P pc); (QC, P true)]                                          (* :780-781 *)
  | _ => None
  end.

(* cursor_t<ptr, D, strides>  :661-747 *)
Definition cursor (pc : bool) (dc : dcl) (o : aop) : option ovl :=
  match o with
  | AIndex | ACall1 => Some [(QC, if ge2 dc then V (KCu pc) Dec else E pc)]          (* :702-721 *)
  | ACallAll => Some [(QC, E pc)]                                                     (* :723 *)
  | ADeref => Some [(QC, E pc)]                                                       (* :740 *)
  | ABase => Some [(QC, P pc)]                                                        (* :743 *)
  | AArrow => Some [(QC, P pc)]                                                       (* :741 *)
  | _ => None
  end.

(* raw pointers and element references: the language's own rules *)
Definition pointer (pc : bool) (o : aop) : option ovl :=
  match o with
  | AIndex | ADeref => Some [(QC, E pc)]
  | APlus1 => Some [(QC, P pc)]
  | _ => None
  end.

Definition elemref (o : aop) : option ovl :=
  match o with
  | APlus1 | ATilde => Some [(QC, RVal)]             (* int + 1, ~int: prvalues *)
  | AAssign | ASwap => Some [(QL, RMut)]             (* only a non-const lvalue int is assignable / swappable *)
  | _ => None
  end.

Definition is_handle (k : kind) : bool :=
  match k with KIt _ _ | KEI _ | KCu _ | KPt _ | KSP _ _ => true | _ => false end.
(* kinds without an operator& of their own: the built-in address-of of an lvalue yields a pointer to the object itself *)
Definition builtin_addr (k : kind) : bool :=
  match k with KIt _ _ | KEI _ | KCu _ | KPt _ | KSP _ _ | KER _ => true | _ => false end.

Definition members (k : kind) (dc : dcl) (o : aop) : option ovl :=
  match k with
  | KArr => arr dc o
  | KSArr => sarr dc o
  | KARef pc => aref pc dc o
  | KSub pc => sub pc dc o
  | KCSub pc => csub pc dc o
  | KIt c pc => iter c pc dc o
  | KER pc => erange pc o
  | KEI pc => eiter pc o
  | KCu pc => cursor pc dc o
  | KPt pc => pointer pc o
  | KSP c pc => sptr c pc o
  | KElem => elemref o
  end.

(* one step at the level of (kind, dimensionality class, const, category) *)
Definition astep_k (k : kind) (dc : dcl) (c : bool) (ct : cat) (o : aop) : kres + outcome :=
  match o with
  | AMove => inl (RT k Same c Rv)                    (* std::move(x) *)
  | ABindRef => inl (RT k Same c Lv)                 (* auto&& x = e;  then the name x *)
  | ABindCRef => inl (RT k Same true Lv)             (* auto const& x = e; *)
  | AAddrOf =>                                       (* &x *)
      if builtin_addr k then match ct with Lv => inl ROther | Rv => inr No end
      else match k with
           | KElem => match ct with Lv => inl (RT (KPt c) Zero false Rv) | Rv => inr No end   (* int* or int const* *)
           | _ => match members k dc o with
                  | None => inr No
                  | Some l => match resolve c ct l with None => inr No | Some r => inl r end
                  end
           end
  | _ =>
      if is_handle k && (match o with AAssign | ASwap | AMSwap => true | _ => false end) then inr NA
      else match members k dc o with
           | None => inr No
           | Some l => match resolve c ct l with
                       | None => inr No
                       | Some r => inl r
                       end
           end
  end.

Definition shift (dd : delta) (d : nat) : nat :=
  match dd with Same => d | Dec => pred d | Inc => S d | One => 1 | Zero => 0 end.

Definition astep (s : state) (o : aop) : outcome :=
  match astep_k (sk s) (dcls (sd s)) (sc s) (scat s) o with
  | inr out => out
  | inl (RT k dd c ct) => To (mkSt k (shift dd (sd s)) c ct)
  | inl RVal => ToVal
  | inl ROther => ToOther
  | inl RMut => Mut
  | inl RNoDef => NoDef
  | inl RHard => Hard
  | inl RDel => No
  end.

Fixpoint run_path (p : list aop) (s : state) : option state :=
  match p with
  | [] => Some s
  | o :: tl => match astep s o with To s' => run_path tl s' | _ => None end
  end.

(* ---------------------------------------------------------------------------------------------- *)
(* the predicates of the property                                                                   *)
(* ---------------------------------------------------------------------------------------------- *)
Definition is_mut (o : outcome) : bool := match o with Mut => true | _ => false end.

(* an expression is writable when some mutator is accepted on it: for an element reference that is
   `e = 1` (only int& qualifies), for a view or element range `e = other`, `e.fill(v)`, swap *)
Definition writable (s : state) : bool := existsb (fun m => is_mut (astep s m)) mutators.

(* read-only typed: what the type of the expression promises *)
Definition ro_k (k : kind) (c : bool) : bool :=
  match k with
  | KArr | KSArr | KARef false | KSub false => c             (* const-qualified owner / view over a mutable pointer *)
  | KARef true | KSub true | KCSub _ => true                 (* pointer to const, or the read-only interface class *)
  | KIt ci pc => ci || pc                                    (* const_iterator, or iterator over const elements *)
  | KER pc => pc || c                                        (* elements range: const elements or const-qualified range *)
  | KEI pc | KCu pc | KPt pc => pc                           (* handles are shallow: only the pointee type counts *)
  | KSP ci pc => ci || pc                                    (* const_subarray_ptr, or pointer over const elements *)
  | KElem => c
  end.
Definition ro (s : state) : bool := ro_k (sk s) (sc s).

(* the six kinds of root of the property's quantifier *)
Definition root_kind (k : kind) : bool :=
  match k with KArr | KSArr | KARef false | KSub false => true | _ => false end.
Definition is_root (s : state) : bool :=
  root_kind (sk s) && match scat s with Lv => true | Rv => false end && Nat.leb 1 (sd s).
Definition const_root (s : state) : bool := is_root s && sc s.
Definition mutable_root (s : state) : bool := is_root s && negb (sc s).

(* the one step at which the code still hands a mutable result to a read-only receiver: the exclusion predicate of
   the partial theorem.  (Five more such steps of the snapshot -- const_iterator[] / (), const_subarray::elements() on a
   non-const object, origin() const&, addressof()/operator& of a non-const const_subarray, const_subarray_ptr::base() --
   were repaired by the commits 0cc5cd0, c42ae62, 0310609, 49fc935, f94579a and are ordinary rows now.) *)
Definition hole_iter_base (k : kind) (g2 : bool) (o : aop) : bool :=     (* array_ref.hpp:632 base() const -> element_ptr whatever IsConst *)
  match k, o with
  | KIt true false, ABase => g2
  | _, _ => false
  end.
Definition hole_k (k : kind) (g2 : bool) (o : aop) : bool := hole_iter_base k g2 o.
Definition hole (s : state) (o : aop) : bool := hole_k (sk s) (ge2 (dcls (sd s))) o.

Fixpoint clean_path (p : list aop) (s : state) : bool :=
  match p with
  | [] => true
  | o :: tl => negb (hole s o) && match astep s o with To s' => clean_path tl s' | _ => true end
  end.

(* operations that keep a mutable receiver mutable (the rest either are meant to make the result
   read-only -- cbegin, celements, as_const, auto const& -- or do so on the pinned tree: front, back,
   sliced(f,l,s), reversed, chunked, halved, reindexed, blocked, stenciled, broadcasted) *)
Definition keeps_mut_op (o : aop) : bool :=
  match o with
  | AIndex | ACall0 | ACall1 | ACallAll | ACallRng | ACallRngIdx | ACallIdxRng
  | ABegin | AEnd | ADeref | APlus1 | AElements | AHome
  | ASliced | AStrided | ATaked | ADropped | ARotated | AUnrotated | ATransposed | ATilde
  | ADiagonal | APartitioned | AFlatted | ARange | ADataElements | AOrigin | AAddrOf | AAddressOf | ABindRef | AMove => true
  | _ => false
  end.
Definition owning (k : kind) : bool := match k with KArr | KSArr => true | _ => false end.
(* an rvalue owning array gives its elements away (move_iterator, moved elements): not a view *)
Definition keeps_mut_k (k : kind) (ct : cat) (o : aop) : bool :=
  keeps_mut_op o && negb (owning k && match ct with Rv => true | Lv => false end).
Definition keeps_mut (s : state) (o : aop) : bool := keeps_mut_k (sk s) (scat s) o.

Fixpoint mut_path (p : list aop) (s : state) : bool :=
  match p with
  | [] => true
  | o :: tl => keeps_mut s o && match astep s o with To s' => mut_path tl s' | _ => true end
  end.

Definition is_view (k : kind) : bool :=
  match k with KSub _ | KCSub _ => true | _ => false end.
Definition is_array_ref (k : kind) : bool := match k with KARef _ => true | _ => false end.
Definition elem_lvalue (s : state) : bool :=
  match sk s, scat s with KElem, Lv => true | _, _ => false end.
Definition assignable_k (k : kind) (ct : cat) : bool :=     (* element lvalue, view, array or element range *)
  match k with
  | KElem => match ct with Lv => true | Rv => false end
  | KArr | KSArr | KARef _ | KSub _ | KCSub _ | KER _ => true
  | _ => false
  end.
Definition assignable_thing (s : state) : bool := assignable_k (sk s) (scat s).

(* ---------------------------------------------------------------------------------------------- *)
(* rebinding, resizing, copying of reference types (third clause of the property)                   *)
(*   A view object is (type, layout, base).  Assignment to it is element assignment:                *)
(*   subarray::operator= :2047-2052, :2077-2081 (`this->elements() = other.elements()`),            *)
(*   array_ref::operator= :3400-3406 (copy_elements_): neither writes layout_ or base_.             *)
(* ---------------------------------------------------------------------------------------------- *)
Record vobj := mkV { v_base : nat; v_extents : list nat; v_elems : list nat }.
Definition view_assign (dst src : vobj) : vobj :=        (* what operator= of a reference type does *)
  mkV (v_base dst) (v_extents dst) (v_elems src).
Definition array_assign (dst src : vobj) (fresh : nat) : vobj :=   (* array::operator= may reallocate and resize *)
  mkV fresh (v_extents src) (v_elems src).

(* copy construction of a named (lvalue) object into a new object of the same type *)
Definition copy_constructible (k : kind) : bool :=
  match k with
  | KSub _ | KCSub _ => false       (* :1049 protected, :1921 private copy constructors *)
  | KARef _ => false                (* :3314 deleted *)
  | KER _ => false                  (* :933 deleted *)
  | _ => true
  end.
(* does assignment to an object of this kind change what it refers to / its extents? *)
Definition rebindable (k : kind) : bool := match k with KArr => true | _ => false end.
Definition resizable (k : kind) : bool := match k with KArr => true | _ => false end.

(* ---------------------------------------------------------------------------------------------- *)
(* the finite table that is tied to the library: all (state, op) rows for D = 1..3 (0 for pointers
   and element references)                                                                          *)
(* ---------------------------------------------------------------------------------------------- *)
Definition bools := [false; true].
Definition all_kinds : list kind :=
  [KArr; KSArr] ++ map KARef bools ++ map KSub bools ++ map KCSub bools
  ++ flat_map (fun c => map (KIt c) bools) bools
  ++ map KER bools ++ map KEI bools ++ map KCu bools ++ map KPt bools
  ++ flat_map (fun c => map (KSP c) bools) bools ++ [KElem].
Definition kind_dims (k : kind) : list nat :=
  match k with KPt _ | KElem => [0] | _ => [1; 2; 3] end.
Definition table_states : list state :=
  flat_map (fun k => flat_map (fun d => flat_map (fun c => map (fun ct => mkSt k d c ct) [Lv; Rv]) bools) (kind_dims k)) all_kinds.
Definition states_upto (maxd : nat) : list state :=
  flat_map (fun k => flat_map (fun d => flat_map (fun c => map (fun ct => mkSt k d c ct) [Lv; Rv]) bools)
                                (match k with KPt _ | KElem => [0] | _ => seq 1 maxd end)) all_kinds.
Definition rows_of (sts : list state) : list (state * aop * outcome) :=
  flat_map (fun s => map (fun o => (s, o, astep s o)) all_ops) sts.
Definition table_rows : list (state * aop * outcome) := rows_of table_states.

(* kind-level domain used by the invariant lemmas *)
Definition all_dcls := [D0; D1; D2; D3p].
Definition all_cats := [Lv; Rv].

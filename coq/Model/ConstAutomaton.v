(* C16 -- the const automaton: overload resolution of the access / view-forming / mutating members of
   boost::multi as a function of (library type, dimensionality class, top-level const, value category).

   Definitions only.  The model follows the overload sets of the headers (/repo at f94579a, to which the line numbers refer) class by class:
     const_subarray<T,D>      include/boost/multi/array_ref.hpp:1017-1871   (D >= 2)
     const_subarray<T,1>      array_ref.hpp:2682-3269
     subarray<T,D>            array_ref.hpp:1911-2341                       (all D, derives from const_subarray<T,D>)
     array_ref<T,D>           array_ref.hpp:3293-3602                       (derives from subarray)
     static_array<T,D>, array array.hpp:200-216, 532-549, 621-639, 670-703, 1154-1366
     array_iterator<D>, <1>   array_ref.hpp:475-659, 2349-2534
     cursor_t                 array_ref.hpp:661-747
     elements_iterator_t      array_ref.hpp:750-866
     elements_range_t         array_ref.hpp:868-1002
   Every member function is a list of (ref-qualifier, result) pairs; `resolve` is C++ overload resolution on
   the implicit object parameter ([over.match.funcs]/4, [over.ics.rank]/3.2.3, 3.2.6); a derived class either
   re-exports the base overloads (`using base::f;`) or hides them.  The element type is int, the pointer is
   int* (pc = false) or int const* (pc = true), the layout is the default one. *)
From Coq Require Import List Bool Arith.
Import ListNotations.

(* ---------------------------------------------------------------------------------------------- *)
(* vocabulary                                                                                      *)
(* ---------------------------------------------------------------------------------------------- *)
Inductive cat := Lv | Rv.

(* pointer families.  The projections produce views over fancy pointers:
     transform_ptr<int, F, S*|S const*, Ref>   utility.hpp:78-157   (element_transformed; S = struct {int a; int b;})
     move_ptr<int, int*>                       utility.hpp:24-66    (element_moved)
   A transform_ptr family is (underlying pointer to const?, reference): the functor F does not enter overload resolution
   after element_transformed has computed Ref = invoke_result_t<F const&, element_ref | element_cref>.  `int` and
   `int const` (the reference of a value-returning functor and of its rebind to const) are one family. *)
Inductive tk :=
| TmR      (* transform_ptr<int, F, S*,       int&>        *)
| TmC      (* transform_ptr<int, F, S*,       int const&>  : rebind<int const> of TmR (utility.hpp:86-95), or a const&-returning functor *)
| TcC      (* transform_ptr<int, F, S const*, int const&>  *)
| TmV      (* transform_ptr<int, F, S*,       int | int const> *)
| TcV.     (* transform_ptr<int, F, S const*, int | int const> *)
Inductive pfam :=
| PI (pc : bool)      (* int* | int const*        *)
| PT (t : tk)         (* transform_ptr            *)
| PM.                 (* move_ptr<int, int*>      *)
(* array_ref is produced over raw pointers and, by array_ref::element_moved, over move_ptr *)
Inductive apf := A0 | A1 | AM.
Definition apf_pf (a : apf) : pfam := match a with A0 => PI false | A1 => PI true | AM => PM end.

Inductive kind :=
| KArr                        (* multi::array<int,D>                                   *)
| KSArr                       (* multi::static_array<int,D>                            *)
| KARef (a : apf)             (* multi::array_ref<int,D,ptr>                           *)
| KSub (pf : pfam)            (* multi::subarray<int,D,ptr>                            *)
| KCSub (pf : pfam)           (* multi::const_subarray<int,D,ptr>                      *)
| KIt (c : bool) (pf : pfam)  (* array_iterator<int,D,ptr,IsConst = c>                 *)
| KER (pf : pfam)             (* elements_range_t<ptr, layout_t<D>>                    *)
| KEI (pf : pfam)             (* elements_iterator_t<ptr, layout_t<D>>                 *)
| KCu (pf : pfam)             (* cursor_t<ptr, D, strides>                             *)
| KPt (pf : pfam)             (* the element pointer itself                            *)
| KSP (c : bool) (pf : pfam)  (* subarray_ptr<int,D,ptr,layout,IsConst = c>            *)
| KElem                       (* int: a reference to an element (int&, int const&, int&&) *)
(* struct-element arrays and views: modelled only as the sources of the projections *)
| KArrS                       (* multi::array<S,D>                                     *)
| KSubS (pc : bool)           (* multi::subarray<S,D,S*|S const*>                      *)
| KCSubS (pc : bool)          (* multi::const_subarray<S,D,S*|S const*>                *)
| KPtS (pc : bool).           (* S* | S const*                                         *)

Record state := mkSt { sk : kind; sd : nat; sc : bool; scat : cat }.

(* result of one step *)
Inductive outcome :=
| To (s : state)      (* well-formed; the result expression has this state                         *)
| ToVal               (* well-formed; a prvalue int (a copy, detached from the array)              *)
| ToCopy (s : state)  (* well-formed; a prvalue owning array: a copy, detached from the array        *)
| ToOther             (* well-formed; a type outside the modelled fragment (move_iterator, move_ptr views) *)
| Mut                 (* a mutator that is accepted and instantiates: the elements can be written   *)
| NoDef               (* accepted by overload resolution but only declared, never defined: a program using it does not link *)
| No                  (* no viable overload / deleted: substitution failure                          *)
| Hard                (* ill-formed, but not a substitution failure (body or return conversion does not compile) *)
| NA.                 (* outside the modelled fragment: assigning / swapping a copyable handle re-seats the handle; a conversion
                         whose target type is not defined for the receiver; a struct-element receiver beyond the projections *)

Inductive form := FI | FE | FA.              (* implicit, explicit (static_cast<T>), assignment to an lvalue T *)
Inductive vtarget := VSub | VCSub | VARef.

Inductive aop :=
| AIndex | ACall0 | ACall1 | ACallAll | ACallRng | ACallRngIdx | ACallIdxRng
| ABegin | AEnd | ACBegin | ACEnd | ADeref | APlus1
| AElements | ACElements | AConstElements | AHome | AFront | ABack
| ASliced | ASlicedS | AStrided | ATaked | ADropped | ARotated | AUnrotated | ATransposed | ATilde | AReversed
| ADiagonal | APartitioned | AChunked | AHalved | AFlatted | AReindexed | ABlocked | ARange | AStenciled
| ABroadcasted | AAsConst | ABase | ADataElements | AOrigin | AAddrOf | AAddressOf | AArrow
(* (a) projections *)
| AETransMP | AETransLR | AETransLC | AETransLV | AMemberCast | AReinterpretN
| AReinterpret | AStaticCast | AStaticCastC | AConstCast | AElementMoved | AMoved
(* (c) other members that hand out element access *)
| AMutableBase | ACBase | AElementsAt | AApply | AData
(* (b) conversions of a handle to the handle of the same family with IsConst = c' over the mutable (p' = false) / const
   (p' = true) variant of its pointer: implicit, explicit, by assignment; comparison with it *)
| AConv (f : form) (c' p' : bool) | AEqM | AEqC
(* construction of a view from a view: subarray / const_subarray / array_ref over the mutable / const variant *)
| AToView (t : vtarget) (e : bool) (p' : bool)
(* copies into an owning array *)
| AUPlus | ADecay | AToArr
| AMove | ABindRef | ABindCRef
| AAssign | AFill | ASwap | AMSwap.

Definition all_ops : list aop :=
  [AIndex; ACall0; ACall1; ACallAll; ACallRng; ACallRngIdx; ACallIdxRng;
   ABegin; AEnd; ACBegin; ACEnd; ADeref; APlus1;
   AElements; ACElements; AConstElements; AHome; AFront; ABack;
   ASliced; ASlicedS; AStrided; ATaked; ADropped; ARotated; AUnrotated; ATransposed; ATilde; AReversed;
   ADiagonal; APartitioned; AChunked; AHalved; AFlatted; AReindexed; ABlocked; ARange; AStenciled;
   ABroadcasted; AAsConst; ABase; ADataElements; AOrigin; AAddrOf; AAddressOf; AArrow;
   AETransMP; AETransLR; AETransLC; AETransLV; AMemberCast; AReinterpretN;
   AReinterpret; AStaticCast; AStaticCastC; AConstCast; AElementMoved; AMoved;
   AMutableBase; ACBase; AElementsAt; AApply; AData]
  ++ flat_map (fun f => flat_map (fun c => map (fun p => AConv f c p) [false; true]) [false; true]) [FI; FE; FA]
  ++ [AEqM; AEqC]
  ++ flat_map (fun t => flat_map (fun e => map (fun p => AToView t e p) [false; true]) [false; true]) [VSub; VCSub; VARef]
  ++ [AUPlus; ADecay; AToArr;
   AMove; ABindRef; ABindCRef;
   AAssign; AFill; ASwap; AMSwap].

Definition mutators : list aop := [AAssign; AFill; ASwap; AMSwap].

(* ---------------------------------------------------------------------------------------------- *)
(* overload resolution on the implicit object parameter                                            *)
(* ---------------------------------------------------------------------------------------------- *)
Inductive qual :=
| QL      (*  f() &        *)
| QR      (*  f() &&       *)
| QCL     (*  f() const&   *)
| QCR     (*  f() const&&  *)
| QC      (*  f() const    *)
| QN.     (*  f()          *)

(* can an object expression of constness c and category ct bind to the implicit object parameter? *)
Definition viable (q : qual) (c : bool) (ct : cat) : bool :=
  match q, c, ct with
  | QL, false, Lv => true
  | QR, false, Rv => true
  | QCL, _, _ => true
  | QCR, _, Rv => true
  | QC, _, _ => true
  | QN, false, _ => true
  | _, _, _ => false
  end.

(* smaller is better: an rvalue prefers && over const&; the less cv-qualified parameter wins *)
Definition rank (q : qual) (c : bool) (ct : cat) : nat :=
  match q, c, ct with
  | QL, _, _ => 0
  | QN, _, _ => 0
  | QR, _, _ => 0
  | QCR, false, _ => 1
  | QCR, true, _ => 0
  | QCL, false, Lv => 1
  | QCL, false, Rv => 2
  | QCL, true, Lv => 0
  | QCL, true, Rv => 1
  | QC, false, Lv => 1
  | QC, false, Rv => 2
  | QC, true, Lv => 0
  | QC, true, Rv => 1
  end.

Inductive delta := Same | Dec | Inc | One | Zero.

(* what the selected overload yields *)
Inductive kres :=
| RT (k : kind) (dd : delta) (c : bool) (ct : cat)
| RVal | ROther | RMut | RNoDef | RHard
| RCopy                                (* a prvalue multi::array<int, D>: a copy of the elements *)
| RDel.                                (* selected overload is deleted: substitution failure *)

Definition ovl := list (qual * kres).

Fixpoint best (c : bool) (ct : cat) (l : ovl) (acc : option (nat * kres)) : option (nat * kres) :=
  match l with
  | [] => acc
  | (q, r) :: tl =>
      if viable q c ct then
        let n := rank q c ct in
        match acc with
        | None => best c ct tl (Some (n, r))
        | Some (m, _) => if Nat.ltb n m then best c ct tl (Some (n, r)) else best c ct tl acc
        end
      else best c ct tl acc
  end.

Definition resolve (c : bool) (ct : cat) (l : ovl) : option kres :=
  match best c ct l None with Some (_, r) => Some r | None => None end.

(* dimensionality classes: the class templates are specialised at D = 0 and D = 1; results of D-1 see D = 2 *)
Inductive dcl := D0 | D1 | D2 | D3p.
Definition dcls (d : nat) : dcl :=
  match d with 0 => D0 | 1 => D1 | 2 => D2 | _ => D3p end.
Definition ge2 (dc : dcl) : bool := match dc with D2 | D3p => true | _ => false end.

(* shorthands *)
Definition V (k : kind) (dd : delta) : kres := RT k dd false Rv.          (* a prvalue view / iterator / range *)

(* the pointer to const of a family: std::pointer_traits<ptr>::rebind<int const> -- int const*; transform_ptr::rebind
   (utility.hpp:86-95: the reference gets const added); move_ptr::rebind (utility.hpp:32-36: the plain pointer to const int) *)
Definition cp (pf : pfam) : pfam :=
  match pf with
  | PI _ => PI true
  | PT TmR => PT TmC
  | PT t => PT t
  | PM => PI true
  end.
(* std::pointer_traits<ptr>::rebind<int>: what static_array_cast<int>() and const_array_cast() name *)
Definition sp (pf : pfam) : pfam := match pf with PI _ => PI false | _ => pf end.
(* the mutable variant of a family: the target of the conversion ops with p' = false *)
Definition mp (pf : pfam) : pfam := match pf with PI _ => PI false | PT TmC => PT TmR | _ => pf end.
Definition variant (p' : bool) (pf : pfam) : pfam := if p' then cp pf else mp pf.
(* the reference of the pointer is not a mutable one *)
Definition pconst (pf : pfam) : bool :=
  match pf with PI pc => pc | PT TmR => false | PT _ => true | PM => false end.
Definition tk_eqb (a b : tk) : bool :=
  match a, b with TmR, TmR | TmC, TmC | TcC, TcC | TmV, TmV | TcV, TcV => true | _, _ => false end.
Definition pfam_eqb (a b : pfam) : bool :=
  match a, b with
  | PI x, PI y => Bool.eqb x y
  | PT x, PT y => tk_eqb x y
  | PM, PM => true
  | _, _ => false
  end.
(* element_const_ptr is the same type as element_ptr (for a value-returning functor `int const` is not `int`) *)
Definition cpfix (pf : pfam) : bool := match pf with PI true | PT TmC | PT TcC => true | _ => false end.
Definition und_const (t : tk) : bool := match t with TcC | TcV => true | _ => false end.   (* the wrapped pointer is S const* *)
(* the array_ref over a family, when there is one *)
Definition apf_of (pf : pfam) : option apf :=
  match pf with PI false => Some A0 | PI true => Some A1 | PM => Some AM | PT _ => None end.

(* *p, p[n] of an element pointer: int& | int const& | int (a prvalue) | int&& *)
Definition E (pf : pfam) : kres :=
  match pf with
  | PI pc => RT KElem Zero pc Lv
  | PT TmR => RT KElem Zero false Lv
  | PT TmC | PT TcC => RT KElem Zero true Lv
  | PT TmV | PT TcV => RVal                    (* a value-returning functor: nothing to write to *)
  | PM => RT KElem Zero false Rv               (* std::move_iterator: int&& *)
  end.
Definition P (pf : pfam) : kres := RT (KPt pf) Zero false Rv.            (* a prvalue pointer *)
Definition PS (pc : bool) : kres := RT (KPtS pc) Zero false Rv.

(* ---------------------------------------------------------------------------------------------- *)
(* repairs proposed by this package (notes/patches_C16/0006-0008); false = the tree without them    *)
(* ---------------------------------------------------------------------------------------------- *)
Definition fx_sptr_conv : bool := true.      (* 06: subarray_ptr's generic converting constructor keeps IsConst *)
Definition fx_tptr_conv : bool := true.      (* 07: transform_ptr's converting constructors require a convertible reference *)
Definition fx_csub_proj : bool := true.      (* 08: the non-const overloads of element_transformed / member_cast move from const_subarray to subarray; 1-D member_cast() const -> pointer to const *)

(* ---------------------------------------------------------------------------------------------- *)
(* const_subarray<T, D, ptr>, D >= 2      array_ref.hpp:1017-1871                                   *)
(*   d1 = (D = 2): the (D-1)-dimensional item is the 1-D specialisation.                            *)
(* ---------------------------------------------------------------------------------------------- *)
Definition static_cast_res (pf : pfam) : kres :=            (* static_cast<rebind<int>>(base_) *)
  match pf with PI true => RHard | _ => V (KSub (sp pf)) Same end.

Definition cs2 (pf : pfam) (d1 : bool) (o : aop) : option ovl :=
  let cv := V (KCSub pf) in
  match o with
  | AIndex => Some [(QCL, cv Dec)]                                   (* :1143 operator[](index) const& -> const_reference *)
  | AFront | ABack => Some [(QCL, cv Dec)]                           (* :1171-1172 *)
  | ACall0 => Some [(QCL, cv Same)]                                  (* :1528 *)
  | ACall1 => Some [(QCL, cv Dec)]                                   (* :1551 -> paren_aux_(index) const& :1547 *)
  | ACallAll => Some [(QCL, E (cp pf))]                              (* :1551-1554; ends in the 1-D operator[] const& :2838 *)
  | ACallRng => Some [(QCL, cv Same)]                                (* :1539 range().rotated().paren_aux_().unrotated() *)
  | ACallRngIdx => Some [(QCL, cv Dec)]
  | ACallIdxRng =>                                                   (* operator[](i) then the (D-1) call with a range: *)
      Some [(QCL, if d1 then V (KCSub (cp pf)) Dec else cv Dec)]     (*   1-D range() const& is sliced() const& -> basic_const_array :2942 *)
  | ABegin | AEnd | ACBegin | ACEnd => Some [(QCL, V (KIt true pf) Same)]   (* :1633-1639 const_iterator *)
  | AElements =>                                                     (* :1076-1076 *)
      Some [(QC, V (KER (cp pf)) Same)]
  | AConstElements => Some [(QC, if cpfix pf then V (KER (cp pf)) Same else RHard)]  (* :1077 returns elements_aux_() as const_elements_range *)
  | AHome => Some [(QCL, V (KCu (cp pf)) Same)]                      (* :1649 *)
  | ASliced => Some [(QCL, cv Same)]                                 (* :1277 *)
  | ASlicedS => Some [(QCL, cv Same)]                                (* :1335-1339 sliced(f,l).strided(s) on a prvalue *)
  | AStrided => Some [(QCL, cv Same); (QR, cv Same); (QL, cv Same)]  (* :1331-1333; const& -> const_subarray since the receiver fix *)
  | ATaked => Some [(QCL, cv Same)]                                  (* :1212 *)
  | ADropped => Some [(QCL, cv Same); (QR, cv Same); (QL, cv Same)]  (* :1249-1251 *)
  | ARotated | AUnrotated | ATransposed => Some [(QCL, cv Same)]     (* :1483, :1511-1512 *)
  | ATilde => Some [(QCL, cv Same)]                                  (* :1492 friend operator~(const_subarray const&) *)
  | AReversed => Some [(QCL, cv Same); (QL, cv Same); (QR, cv Same)] (* :1468-1470 *)
  | ADiagonal => Some [(QCL, cv Dec)]                                (* :1398 *)
  | APartitioned | AChunked | AHalved => Some [(QCL, cv Inc)]        (* :1431, :1444, :1223 *)
  | AFlatted => Some [(QCL, cv Dec)]                                 (* :1356 *)
  | AReindexed => Some [(QCL, cv Same); (QL, cv Same); (QR, cv Same)](* :1182-1196 *)
  | ABlocked => Some [(QCL, cv Same); (QL, cv Same)]                 (* :1279-1280 *)
  | ARange => Some [(QCL, cv Same)]                                  (* :1343 *)
  | AStenciled => Some [(QL, cv Same); (QR, cv Same); (QCL, cv Same)](* :1284, :1291, :1298 *)
  | ABroadcasted => Some [(QCL, V (KCSub (cp pf)) Inc)]              (* :1368 element_const_ptr *)
  | AAsConst => Some [(QC, V (KSub (cp pf)) Same)]                   (* :1810 *)
  | ABase => Some [(QC, P (cp pf))]                                  (* :236 base() const -> element_const_ptr *)
  | AOrigin => Some [(QCL, P (cp pf))]                               (* :255 origin() const& -> element_const_ptr *)
  | AAssign => Some [(QN, RDel)]                                     (* :1036-1037 deleted *)
  | AAddressOf | AAddrOf => Some [(QCL, V (KSP true pf) Same)]       (* :1596 addressof() const& -> const_ptr, :1601 operator&() const& *)
  (* (a) the casts *)
  | AStaticCast =>                                                   (* :1693-1713: every overload returns subarray<T2, D, rebind<T2>>; the const& one *)
      Some [(QCL, static_cast_res pf); (QR, static_cast_res pf); (QL, static_cast_res pf)]   (*   for a non-const T2 is [[deprecated("violates constness")]] :1700 *)
  | AStaticCastC => Some [(QCL, ROther); (QR, ROther); (QL, ROther)] (* subarray<int const, D, ..>: the element type is outside the fragment *)
  | AConstCast => Some [(QC, V (KSub (sp pf)) Same)]                 (* :1802-1808 const_array_cast() const: the library's const_cast *)
  | AReinterpret =>                                                  (* :1828 reinterpret_array_cast<T2>() const& -> aux_<T2, rebind<T2 const>>().as_const() *)
      match pf with PI _ => Some [(QCL, V (KSub (PI true)) Same)] | _ => None end
  (* (c) *)
  | AMutableBase => Some [(QC, P pf)]                                (* :238 mutable_base() const -> element_ptr: a named way out *)
  | ACBase => Some [(QC, P (cp pf))]                                 (* :240 *)
  | AElementsAt => Some [(QCL, E (cp pf)); (QR, E (cp pf)); (QL, E (cp pf))]   (* :1310-1323: every overload goes through const_subarray::operator[] const& *)
  | AApply => Some [(QCL, E (cp pf))]                                (* :1562 -> operator()(i...) const& *)
  | AUPlus => Some [(QC, RCopy)]                                     (* :1114 operator+() const -> decay_type *)
  | ADecay => Some [(QCL, RCopy)]                                    (* :1109 *)
  | _ => None
  end.

(* ---------------------------------------------------------------------------------------------- *)
(* const_subarray<T, 1, ptr>              array_ref.hpp:2682-3269                                   *)
(* ---------------------------------------------------------------------------------------------- *)
Definition cs1 (pf : pfam) (o : aop) : option ovl :=
  let cv := V (KCSub pf) in
  let cc := V (KCSub (cp pf)) in
  match o with
  | AIndex => Some [(QCL, E (cp pf))]                                (* :2838 -> const_reference *)
  | AFront | ABack => Some [(QCL, E (cp pf))]                        (* :2840-2841 *)
  | ACall0 => Some [(QCL, cv Same)]                                  (* :2984 *)
  | ACall1 | ACallAll => Some [(QC, E (cp pf))]                      (* :2986 operator()(index) const -> operator[] *)
  | ACallRng => Some [(QCL, cc Same)]                                (* :2988 -> range -> sliced const& :2942 *)
  | ABegin | AEnd | ACBegin | ACEnd => Some [(QCL, V (KIt true pf) Same)]  (* :3116-3124 *)
  | AElements =>                                                     (* :2956-2956 *)
      Some [(QC, V (KER (cp pf)) Same)]
  | ACElements => Some [(QC, if cpfix pf then V (KER (cp pf)) Same else RHard)]     (* :2958 *)
  | AHome => Some [(QCL, V (KCu (cp pf)) Same)]                      (* :2805 *)
  | ASliced => Some [(QCL, cc Same); (QL, cv Same); (QR, cv Same)]   (* :2942-2944 *)
  | ASlicedS => Some [(QCL, cc Same)]                                (* :2980 *)
  | AStrided => Some [(QCL, cv Same)]                                (* :2978 *)
  | ATaked => Some [(QCL, cv Same)]                                  (* :2903 *)
  | ADropped => Some [(QCL, cv Same)]                                (* :2923 *)
  | ARotated | AUnrotated => Some [(QCL, cv Same)]                   (* :3072-3073 *)
  | ATransposed | AFlatted => Some [(QCL, RDel)]                     (* :3075-3076 deleted *)
  | ADiagonal => Some [(QC, RDel)]                                   (* :2799 deleted *)
  | AReversed => Some [(QCL, cc Same); (QL, cv Same); (QR, cv Same)] (* :3059-3061 *)
  | APartitioned | AChunked | AHalved => Some [(QCL, cv Inc)]        (* :3026, :3035, :3014 *)
  | AReindexed => Some [(QR, cv Same); (QL, cv Same); (QCL, cc Same)]   (* :2883-2893; const& -> basic_const_array *)
  | ABlocked => Some [(QL, cv Same); (QR, cv Same); (QCL, cc Same)]     (* :2969-2977 *)
  | ARange => Some [(QCL, cc Same)]                                  (* :2982 -> sliced() on a const *this *)
  | AStenciled => Some [(QL, cv Same); (QR, cv Same); (QCL, cc Same)]   (* :2978-2986 *)
  | ABroadcasted => Some [(QCL, cv Inc)]                             (* :2824 const_subarray<T, 2, ElementPtr> *)
  | ABase => Some [(QC, P (cp pf))]                                  (* :236 *)
  | AOrigin => Some [(QCL, P (cp pf))]                               (* :255 *)
  | ASwap => Some [(QL, RNoDef)]                                     (* std::swap: move ctor :2759 public, operator=(const_subarray&&)& :2787 only declared *)
  | AAddrOf => Some [(QCL, V (KSP true pf) Same)]                    (* :2769 operator&() const& -> const_subarray_ptr *)
  | AStaticCast => Some [(QC, static_cast_res pf)]                   (* :3228 static_array_cast<T2>() const -> subarray<T2, 1, rebind<T2>> *)
  | AStaticCastC => Some [(QC, ROther)]
  | AReinterpret =>                                                  (* :3287 reinterpret_array_cast<T2>() const& -> const_subarray<T2, 1, rebind<T2>> *)
      match pf with PI false => Some [(QCL, V (KCSub (PI false)) Same)] | PI true => Some [(QCL, RHard)] | _ => None end
  | AMutableBase => Some [(QC, P pf)]                                (* :238 *)
  | ACBase => Some [(QC, P (cp pf))]                                 (* :240 *)
  | AElementsAt => Some [(QCL, E (cp pf)); (QR, E (cp pf)); (QL, E (cp pf))]   (* :2907-2909 -> operator[] const& *)
  | AApply => Some [(QCL, E (cp pf))]                                (* :2886 *)
  | AUPlus => Some [(QC, RCopy)]                                     (* :2785 *)
  | ADecay => Some [(QC, RCopy)]                                     (* :2754 *)
  | _ => None
  end.

Definition csub (pf : pfam) (dc : dcl) (o : aop) : option ovl :=
  match dc with
  | D1 => cs1 pf o
  | D2 => cs2 pf true o
  | D3p => cs2 pf false o
  | D0 => None
  end.

(* ---------------------------------------------------------------------------------------------- *)
(* subarray<T, D, ptr> : const_subarray<T, D, ptr>      array_ref.hpp:1911-2341                    *)
(*   (true, l): `using const_subarray::f;` plus the overloads l;  (false, l): l hides the base's.  *)
(* ---------------------------------------------------------------------------------------------- *)
(* a mutator body writes through the pointer: `*it = v` needs a mutable lvalue reference *)
Definition writes (pf : pfam) : bool := match pf with PI false | PT TmR => true | _ => false end.
Definition wr (pf : pfam) : kres := if writes pf then RMut else RHard.

Definition sub_own (pf : pfam) (dc : dcl) (o : aop) : option (bool * ovl) :=
  let sv := V (KSub pf) in
  let g2 := ge2 dc in
  match o with
  | AIndex => Some (true, [(QR, if g2 then sv Dec else E pf); (QL, if g2 then sv Dec else E pf)])   (* :2178-2181 *)
  | ACall0 => Some (true, [(QL, sv Same); (QR, sv Same)])                                         (* :2224-2225 *)
  | ACall1 => Some (true, [(QL, if g2 then sv Dec else E pf); (QR, if g2 then sv Dec else E pf)])  (* :2227, :2232 -> paren_aux_(index) :2203 *)
  | ACallAll => Some (true, [(QL, E pf); (QR, E pf)])
  | ACallRng => Some (true, [(QL, sv Same); (QR, sv Same)])                                       (* :2210-2216 *)
  | ACallRngIdx | ACallIdxRng =>                                                                   (* 1-D: the variadic paren_aux_ body does not instantiate *)
      Some (true, [(QL, if g2 then sv Dec else RHard); (QR, if g2 then sv Dec else RHard)])
  | ABegin | AEnd => Some (true, [(QR, V (KIt false pf) Same); (QL, V (KIt false pf) Same)])     (* :1960-1966 *)
  | AHome => Some (true, [(QR, V (KCu pf) Same); (QL, V (KCu pf) Same)])                          (* :1971-1973 *)
  | AFill => Some (false, [(QL, wr pf); (QR, wr pf)])                                              (* :1982-1992 *)
  | AStrided | ATaked | ADropped | ASliced =>
      Some (true, [(QR, sv Same); (QL, sv Same)])                                                 (* :1994-2004, :2189-2191 *)
  | ARotated | AUnrotated => Some (true, [(QR, sv Same); (QL, sv Same)])                          (* :2006-2012 *)
  | ATransposed =>                                                                                 (* :2014-2016; 1-D: calls the deleted base function *)
      Some (true, [(QR, if g2 then sv Same else RHard); (QL, if g2 then sv Same else RHard)])
  | ATilde =>                                                                                      (* :2020-2023 friends (subarray&), (subarray&&), deduced return *)
      Some (true, [(QL, if g2 then sv Same else RHard); (QR, if g2 then sv Same else RHard)])
  | ADiagonal =>                                                                                   (* :2183-2186 deduced return, diagonal_aux_ *)
      Some (true, [(QL, if g2 then sv Dec else RHard); (QR, if g2 then sv Dec else RHard)])
  | ARange => Some (true, [(QR, sv Same); (QL, sv Same)])                                         (* :2193-2195 *)
  | APartitioned => Some (true, [(QL, sv Inc); (QR, sv Inc)])                                     (* :2250-2252 *)
  | AFlatted =>                                                                                    (* :2254-2261 *)
      Some (true, [(QL, if g2 then sv Dec else RHard); (QR, if g2 then sv Dec else RHard)])
  | ABase => Some (false, [(QCL, P (cp pf)); (QL, P pf); (QR, P pf)])                             (* :2038-2040 *)
  | AAddrOf => Some (true, [(QR, V (KSP false pf) Same); (QL, V (KSP false pf) Same)])            (* :1942-1950 *)
  | AAddressOf =>                                                                                  (* :1952-1954 *)
      Some (false, [(QR, V (KSP false pf) Same); (QL, V (KSP false pf) Same); (QCL, V (KSP true pf) Same)])
  | AElements =>                                                                                   (* :1975-1977 *)
      Some (false, [(QL, V (KER pf) Same); (QR, V (KER pf) Same); (QCL, V (KER (cp pf)) Same)])
  | AOrigin => Some (true, [(QL, P pf); (QR, P pf)])                                              (* :2042-2044 *)
  | AAssign =>                                                                                     (* :2047, :2077, :2126 (&&), :2148 (const&&, declared only) *)
      Some (false, [(QL, wr pf); (QR, wr pf)] ++ match pf with PI _ => [(QCR, RNoDef)] | _ => [] end)   (* :2148 is constrained on the pointer being a raw pointer *)
  | ASwap =>                                                                                       (* :2058 friend swap(subarray&&, subarray&&); lvalues: std::swap via :1930, :2161 *)
      Some (false, [(QR, wr pf); (QL, wr pf)])
  | AMSwap => Some (false, [(QR, wr pf)])                                                          (* :2054 swap(subarray&&) && *)
  | AReinterpret =>                                                                                (* :2275 using; :2278, :2289 &, && -> subarray<T2, D, rebind<T2>> *)
      match pf with
      | PI pc => Some (true, [(QL, if pc then RHard else sv Same); (QR, if pc then RHard else sv Same)])
      | _ => None
      end
  | AElementMoved =>                                                                               (* :2338-2339 &, && -> subarray<T, D, move_ptr<T, ptr>> *)
      Some (false, [(QL, match pf with PI false => V (KSub PM) Same | _ => ROther end);
                    (QR, match pf with PI false => V (KSub PM) Same | _ => ROther end)])
  | AMoved => Some (false, [(QN, ROther)])                                                         (* :1926 move() -> move_subarray *)
  | AApply => Some (true, [(QR, E pf); (QL, E pf)])                                               (* :2259-2260 *)
  | _ => None
  end.

Definition qual_eqb (a b : qual) : bool :=
  match a, b with
  | QL, QL | QR, QR | QCL, QCL | QCR, QCR | QC, QC | QN, QN => true
  | _, _ => false
  end.

(* a using-declaration does not bring in a base function that the derived class redeclares with the same
   signature ([namespace.udecl]/14): those are overridden *)
Definition inherit (base : option ovl) (own : option (bool * ovl)) : option ovl :=
  match own with
  | None => base
  | Some (true, l) =>
      Some (match base with
            | Some b => filter (fun qr => negb (existsb (fun qr' => qual_eqb (fst qr) (fst qr')) l)) b ++ l
            | None => l
            end)
  | Some (false, l) => Some l
  end.

Definition sub (pf : pfam) (dc : dcl) (o : aop) : option ovl := inherit (csub pf dc o) (sub_own pf dc o).

(* ---------------------------------------------------------------------------------------------- *)
(* array_ref<T, D, ptr> : subarray<T, D, ptr>           array_ref.hpp:3293-3602                    *)
(* ---------------------------------------------------------------------------------------------- *)
Definition acp (a : apf) : apf := A1.                      (* array_ref over element_const_ptr: int const* for all three *)
Definition aref_own (a : apf) (dc : dcl) (o : aop) : option (bool * ovl) :=
  let pf := apf_pf a in
  match o with
  | AElements =>                                                                                   (* :3452-3454 flat 1-D array_ref *)
      Some (false, [(QCL, V (KARef (acp a)) One); (QL, V (KARef a) One); (QR, V (KARef a) One)])
  | ACElements => Some (false, [(QCL, V (KARef (acp a)) One)])                                     (* :3460 *)
  | ADataElements => Some (false, [(QCL, P (cp pf)); (QL, P pf); (QR, P pf)])                      (* :3391, :3508-3509 *)
  | AData =>                                                                                       (* :3560-3562 data() -> data_elements(), D = 1 only *)
      match dc with
      | D1 => Some (false, [(QCL, P (cp pf)); (QR, P pf); (QL, P pf)])
      | _ => None
      end
  | AAssign => Some (true, [(QL, wr pf); (QR, wr pf)])                                             (* :3383 using, :3393-3438 *)
  | ASwap => Some (false, [(QR, wr pf)])                                                           (* copy/move ctor deleted :3314, :3319: only swap(subarray&&, subarray&&) *)
  | AElementMoved =>                                                                               (* :3508-3509 &, && -> array_ref<T, D, move_ptr<T, ptr>> *)
      Some (false, [(QL, match a with A0 => V (KARef AM) Same | _ => ROther end);
                    (QR, match a with A0 => V (KARef AM) Same | _ => ROther end)])
  | ADecay => Some (false, [(QCL, RT KArr Same true Lv)])                                          (* :3571 decay() const& -> decay_type const&: the array_ref seen as a const array *)
  | AUPlus =>                                                                                      (* a non-const array_ref over move_ptr: array(array_ref&) hands data_elements() & = move_ptr *)
      match a with AM => Some (true, [(QL, RHard); (QR, RHard)]) | _ => None end                  (*   to std::uninitialized_copy (array.hpp:178): does not instantiate *)
  | _ => None
  end.

Definition aref (a : apf) (dc : dcl) (o : aop) : option ovl := inherit (sub (apf_pf a) dc o) (aref_own a dc o).

(* ---------------------------------------------------------------------------------------------- *)
(* static_array<T, D> : array_ref<T, D, T*>             array.hpp                                   *)
(* ---------------------------------------------------------------------------------------------- *)
Definition sarr_own (dc : dcl) (o : aop) : option (bool * ovl) :=
  match o with
  | AIndex => Some (true, [(QR, if ge2 dc then ROther else RT KElem Zero false Rv)])               (* array.hpp:541-542 multi::move(ref::operator[]) *)
  | ACall0 => Some (true, [(QR, V (KARef AM) Same)])                                               (* :209-210 element_moved() *)
  | ATaked | ADropped => Some (true, [(QR, V (KSub PM) Same)])                                     (* :212-216 element_moved().taked(n) *)
  | ABegin | AEnd =>                                                                               (* :532-539 *)
      Some (false, [(QCL, V (KIt true (PI false)) Same); (QR, ROther); (QL, V (KIt false (PI false)) Same)])
  | ADataElements => Some (false, [(QCL, P (PI true)); (QL, P (PI false)); (QR, RHard)])          (* :621-623; && makes a move_iterator of the wrong type *)
  | ABase => Some (false, [(QL, P (PI false)); (QCL, P (PI true))])                                (* :629-630 *)
  | AOrigin => Some (false, [(QL, P (PI false)); (QCL, P (PI true))])                              (* :635-636 *)
  | AAssign => Some (false, [(QN, RMut)])                                                          (* :670-703: no `using`, not ref-qualified or & *)
  | ASwap => Some (false, [(QL, RMut); (QR, RMut)])                                                (* std::swap on lvalues; swap(subarray&&, subarray&&) on rvalues *)
  | _ => None
  end.

Definition sarr (dc : dcl) (o : aop) : option ovl := inherit (aref A0 dc o) (sarr_own dc o).

(* array<T, D> : static_array<T, D>                     array.hpp:1131-1648 *)
Definition arr_own (dc : dcl) (o : aop) : option (bool * ovl) :=
  match o with
  | AAssign => Some (false, [(QN, RMut)])                                                          (* array.hpp:1295-1366 *)
  | AMSwap => Some (false, [(QL, RMut)])                                                           (* array::swap(array&) *)
  | AAddrOf => Some (false, [(QR, RDel); (QL, ROther); (QCL, ROther)])                             (* array.hpp:1164-1168 array*, array const* *)
  | AUPlus => Some (false, [(QCL, RCopy); (QR, RCopy)])                                            (* array.hpp:1560-1561 *)
  | _ => None
  end.

Definition arr (dc : dcl) (o : aop) : option ovl := inherit (sarr dc o) (arr_own dc o).

(* ---------------------------------------------------------------------------------------------- *)
(* struct-element arrays and views (S = struct {int a; int b;}): the sources of the projections     *)
(*   element_transformed :1722-1745, :3236-3259; member_cast :1747-1782, :3261-3281;                *)
(*   reinterpret_array_cast<T2>(count) :1830-1858, :2311-2334, :3297-3306                           *)
(* ---------------------------------------------------------------------------------------------- *)
(* element_transformed(f) const& builds transform_ptr<.., element_const_ptr, invoke_result<F const&, element_cref>>, the & overload
   transform_ptr<.., element_ptr, invoke_result<F const&, element_ref>>; && forwards to &.  pc: element_ptr is S const*. *)
Inductive functor := FMP | FLR | FLC | FLV.          (* &S::b;  S& -> int&;  S const& -> int const&;  S const& -> int *)
Definition etrans_res (f : functor) (pc : bool) : kres :=     (* the result over a pointer S* (pc = false) / S const* *)
  match f, pc with
  | FMP, false => V (KSub (PT TmR)) Same | FMP, true => V (KSub (PT TcC)) Same
  | FLR, false => V (KSub (PT TmR)) Same | FLR, true => RHard                 (* invoke_result_t<LR const&, S const&> does not exist: a hard error in the deduced return type *)
  | FLC, false => V (KSub (PT TmC)) Same | FLC, true => V (KSub (PT TcC)) Same
  | FLV, false => V (KSub (PT TmV)) Same | FLV, true => V (KSub (PT TcV)) Same
  end.
(* the &, && overloads live in const_subarray (:1735, :1745; :3249, :3259): a non-const const_subarray object hands out element_ptr *)
Definition etrans (f : functor) (pc : bool) (is_csub : bool) : option ovl :=
  Some ((QCL, etrans_res f true) :: if is_csub && fx_csub_proj then [] else [(QL, etrans_res f pc); (QR, etrans_res f pc)]).

Definition functor_of (o : aop) : option functor :=
  match o with AETransMP => Some FMP | AETransLR => Some FLR | AETransLC => Some FLC | AETransLV => Some FLV | _ => None end.

(* const_subarray<S, D, S*|S const*> *)
(* is_csub: the receiver's class is const_subarray itself (not a subarray, which after repair 09 redeclares the mutable overloads) *)
Definition csubS_gen (is_csub : bool) (pc : bool) (dc : dcl) (o : aop) : option ovl :=
  let g2 := ge2 dc in
  match functor_of o with
  | Some f => etrans f pc is_csub
  | None =>
    match o with
    | AIndex => Some [(QCL, if g2 then V (KCSubS pc) Dec else ROther)]            (* :1143; 1-D: S const& *)
    | ACall0 => Some [(QCL, V (KCSubS pc) Same)]                                  (* :1528, :2984 *)
    | AAsConst => if g2 then Some [(QC, V (KSubS true) Same)] else None           (* :1810 *)
    | ABase => Some [(QC, PS true)]                                               (* :236 *)
    | AConstCast => if g2 then Some [(QC, V (KSubS false) Same)] else None        (* :1802 *)
    | AMemberCast =>
        let m := if pc then RHard else V (KSub (PI false)) Same in                   (* static_cast<rebind<T2>>(&(base_->*pm)) from S const* *)
        let own := if is_csub && fx_csub_proj then [] else [(QL, m); (QR, m)] in
        if g2 then                                                                (* :1752 const& -> subarray<T2, D, rebind<T2 const>>; :1766, :1780 &, && -> rebind<T2> *)
          Some ((QCL, V (KSub (PI true)) Same) :: own)
        else if fx_csub_proj then Some ((QC, if pc then RHard else V (KSub (PI true)) Same) :: own)   (* :3266 the 1-D body reinterpret_casts base_ to element_type* const& *)
        else Some [(QC, m)]                                                       (* :3266 member_cast(pm) const -> subarray<T2, 1, rebind<T2>>: one overload *)
    | AReinterpretN =>
        if g2 then Some [(QCL, V (KCSub (PI pc)) Inc)]                            (* :1839 const& -> const_subarray<T2, D + 1, rebind<T2> | rebind<T2 const>> *)
        else Some [(QCL, V (KSub (PI true)) Inc)]                                 (* :3297 const& -> subarray<T2, 2, rebind<T2 const>> *)
    | _ => None
    end
  end.

Definition csubS := csubS_gen true.

Definition subS_own (pc : bool) (dc : dcl) (o : aop) : option (bool * ovl) :=
  let g2 := ge2 dc in
  match o with
  | AIndex => Some (true, [(QR, if g2 then V (KSubS pc) Dec else ROther); (QL, if g2 then V (KSubS pc) Dec else ROther)])   (* :2178-2181 *)
  | ACall0 => Some (true, [(QL, V (KSubS pc) Same); (QR, V (KSubS pc) Same)])                     (* :2224-2225 *)
  | ABase => Some (false, [(QCL, PS true); (QL, PS pc); (QR, PS pc)])                              (* :2038-2040 *)
  | AReinterpretN =>                                                                               (* :2311, :2324 &, && -> subarray<T2, D + 1, rebind<T2>> *)
      Some (true, [(QL, if pc then RHard else V (KSub (PI false)) Inc); (QR, if pc then RHard else V (KSub (PI false)) Inc)])
  | _ => None
  end.
Definition subS (pc : bool) (dc : dcl) (o : aop) : option ovl :=
  match functor_of o with
  | Some f => etrans f pc false
  | None => inherit (csubS_gen false pc dc o) (subS_own pc dc o)
  end.

(* array<S, D> : static_array : array_ref<S, D, S*> : subarray<S, D, S*> *)
Definition arrS_own (dc : dcl) (o : aop) : option (bool * ovl) :=
  match o with
  | AIndex => Some (true, [(QR, ROther)])                                                          (* array.hpp:541-542 *)
  | ACall0 => Some (true, [(QR, ROther)])                                                          (* :209-210 element_moved() *)
  | ABase => Some (false, [(QL, PS false); (QCL, PS true)])                                        (* :629-630 *)
  | _ => None
  end.
Definition arrS (dc : dcl) (o : aop) : option ovl := inherit (subS false dc o) (arrS_own dc o).

(* the operations a struct-element receiver is modelled with *)
Definition s_op (o : aop) : bool :=
  match o with
  | AIndex | ACall0 | AAsConst | ABase | AConstCast | AETransMP | AETransLR | AETransLC | AETransLV | AMemberCast | AReinterpretN
  | AMove | ABindRef | ABindCRef => true
  | _ => false
  end.
Definition s_ptr_op (o : aop) : bool :=
  match o with ADeref | AIndex | APlus1 | AAddrOf | AMove | ABindRef | ABindCRef => true | _ => false end.
Definition pointerS (pc : bool) (o : aop) : option ovl :=
  match o with
  | AIndex | ADeref => Some [(QC, ROther)]            (* S&, S const&: outside the fragment *)
  | APlus1 => Some [(QC, PS pc)]
  | _ => None
  end.

(* ---------------------------------------------------------------------------------------------- *)
(* handles                                                                                          *)
(* ---------------------------------------------------------------------------------------------- *)
Definition cif (c : bool) (pf : pfam) : pfam := if c then cp pf else pf.

(* array_iterator<T, D, ptr, IsConst = c>: every member is const-qualified.  :475-659 (D >= 2), :2354-2539 (D = 1) *)
Definition iter (c : bool) (pf : pfam) (dc : dcl) (o : aop) : option ovl :=
  if ge2 dc then
    match o with
    | ADeref => Some [(QC, V (if c then KCSub pf else KSub pf) Dec)]      (* :545 operator*() const -> reference (:501-505) *)
    | AIndex | ACall1 =>                                                 (* :560 operator[] -> reference; :600 -> operator[] *)
        Some [(QC, V (if c then KCSub pf else KSub pf) Dec)]
    | ACallAll => Some [(QC, E (cif c pf))]                              (* :599 operator[](idx)(args...) on the prvalue it returns *)
    | AApply => Some [(QC, E (cif c pf))]                                (* :611 apply(tuple) const *)
    | APlus1 => Some [(QC, V (KIt c pf) Same)]                           (* :559 *)
    | ABase => Some [(QC, P pf)]                                         (* :632 base() const -> element_ptr whatever IsConst *)
    | AArrow => Some [(QC, V (KSP true pf) Dec)]                         (* :553 returns ptr_ : ptr_type = subarray_ptr<.., IsConst = true> (:516) *)
    | _ => None
    end
  else
    match o with
    | ADeref | AIndex => Some [(QC, E (cif c pf))]                       (* :2536, :2453; reference :2383-2395 *)
    | APlus1 => Some [(QC, V (KIt c pf) Same)]                           (* :2478 *)
    | ABase | AData => Some [(QC, P (cif c pf))]                         (* :2481 static_cast<pointer>, pointer :2376-2380; :2496 data() -> base() *)
    | AArrow => Some [(QC, P (cif c pf))]                                (* :2457 *)
    | _ => None
    end.

(* subarray_ptr<T, D, ptr, layout, IsConst = c>  :316-470 *)
Definition sptr (c : bool) (pf : pfam) (o : aop) : option ovl :=
  match o with
  | ADeref | AIndex => Some [(QC, V (if c then KCSub pf else KSub pf) Same)]   (* :390, :407 -> reference (:348-351) *)
  | APlus1 => Some [(QC, V (KSP c pf) Same)]                                    (* iterator_facade operator+ *)
  | ABase => Some [(QC, P (cif c pf))]                                          (* :415 base() const -> element_const_ptr when IsConst *)
  | AArrow => Some [(QC, ROther)]                                               (* :392 a local proxy class *)
  | _ => None
  end.

(* elements_range_t<ptr, layout>  :868-1002 *)
Definition erange (pf : pfam) (o : aop) : option ovl :=
  match o with
  | AIndex | AFront | ABack => Some [(QCL, E (cp pf)); (QR, E pf); (QL, E pf)]          (* :923-925, :966-973 *)
  | ABegin | AEnd => Some [(QCL, V (KEI (cp pf)) Same); (QR, V (KEI pf) Same); (QL, V (KEI pf) Same)]   (* :957-964 *)
  | ABase => Some [(QN, P pf); (QC, P (cp pf))]                                          (* :900-901 *)
  | AAssign => if pconst pf then None else Some [(QN, wr pf)]                            (* :977 operator=(elements_range_t&&); :982-994 SFINAE away for a const range *)
  | AMSwap => Some [(QL, wr pf); (QR, wr pf)]                                            (* :945-948 *)
  | _ => None
  end.

(* elements_iterator_t<ptr, layout>  :750-866 *)
Definition eiter (pf : pfam) (o : aop) : option ovl :=
  match o with
  | AIndex | ADeref => Some [(QC, E pf)]                                              (* :846-847 *)
  | APlus1 => Some [(QC, V (KEI pf) Same)]                                            (* :855 *)
  | AArrow => Some [(QC, P pf)]                                                       (* :845 *)
  | ABase => Some [(QN, P pf); (QC, P (cp pf))]                                       (* :780-781 *)
  | _ => None
  end.

(* cursor_t<ptr, D, strides>  :661-747 *)
Definition cursor (pf : pfam) (dc : dcl) (o : aop) : option ovl :=
  match o with
  | AIndex | ACall1 => Some [(QC, if ge2 dc then V (KCu pf) Dec else E pf)]          (* :702-721 *)
  | ACallAll => Some [(QC, E pf)]                                                     (* :723 *)
  | ADeref => Some [(QC, E pf)]                                                       (* :740 *)
  | ABase => Some [(QC, P pf)]                                                        (* :743 *)
  | AArrow => Some [(QC, P pf)]                                                       (* :741 *)
  | _ => None
  end.

(* element pointers: int*, int const* (the language's own rules); transform_ptr utility.hpp:78-157; move_ptr utility.hpp:24-66 *)
Definition pointer (pf : pfam) (o : aop) : option ovl :=
  match o with
  | AIndex | ADeref => Some [(QC, E pf)]                                              (* utility.hpp:111, :135; :62-63 *)
  | APlus1 => Some [(QC, P pf)]                                                       (* utility.hpp:129; :55 *)
  | ABase =>                                                                          (* utility.hpp:109 base() const -> Ptr const&: the wrapped S* whatever the reference *)
      match pf with PT t => Some [(QC, RT (KPtS (und_const t)) Zero true Lv)] | _ => None end
  | _ => None
  end.

Definition elemref (o : aop) : option ovl :=
  match o with
  | APlus1 | ATilde | AUPlus => Some [(QC, RVal)]    (* int + 1, ~int, +int: prvalues *)
  | AAssign | ASwap => Some [(QL, RMut)]             (* only a non-const lvalue int is assignable / swappable *)
  | _ => None
  end.

Definition is_handle (k : kind) : bool :=
  match k with KIt _ _ | KEI _ | KCu _ | KPt _ | KSP _ _ | KPtS _ => true | _ => false end.
(* kinds without an operator& of their own: the built-in address-of of an lvalue yields a pointer to the object itself *)
Definition builtin_addr (k : kind) : bool :=
  match k with KIt _ _ | KEI _ | KCu _ | KPt _ | KSP _ _ | KER _ | KPtS _ => true | _ => false end.
Definition is_view_kind (k : kind) : bool :=
  match k with KArr | KSArr | KARef _ | KSub _ | KCSub _ => true | _ => false end.
Definition is_s_kind (k : kind) : bool := match k with KArrS | KSubS _ | KCSubS _ => true | _ => false end.

Definition members (k : kind) (dc : dcl) (o : aop) : option ovl :=
  match k with
  | KArr => arr dc o
  | KSArr => sarr dc o
  | KARef a => aref a dc o
  | KSub pf => sub pf dc o
  | KCSub pf => csub pf dc o
  | KIt c pf => iter c pf dc o
  | KER pf => erange pf o
  | KEI pf => eiter pf o
  | KCu pf => cursor pf dc o
  | KPt pf => pointer pf o
  | KSP c pf => sptr c pf o
  | KElem => elemref o
  | KArrS => arrS dc o
  | KSubS pc => subS pc dc o
  | KCSubS pc => csubS pc dc o
  | KPtS pc => pointerS pc o
  end.

(* ---------------------------------------------------------------------------------------------- *)
(* (b) conversions                                                                                  *)
(* ---------------------------------------------------------------------------------------------- *)
(* multi::detail::implicit_cast<To>(From) is well-formed: int* -> int const*; move_ptr -> int* -> int const* (operator Ptr()
   utility.hpp:42); transform_ptr(Other const&) utility.hpp:104-106 looks at the wrapped pointers only (S* in every pair of
   variants): its reference type is not compared, so the rebind to const converts back *)
Definition pconv (a b : pfam) : bool :=
  match a, b with
  | PI x, PI y => negb x || y
  | PM, PM => true
  | PM, PI _ => true
  | PT TmC, PT TmR => negb fx_tptr_conv
  | PT x, PT y => Bool.eqb (und_const x) (und_const y) || negb (und_const x)
  | _, _ => false
  end.
Definition defctor (pf : pfam) : bool := match pf with PT _ => false | _ => true end.   (* `typename Other::pointer{}` *)

Inductive cres := CYes | CNo | CHard.
(* array_iterator, D >= 2: copy; :527-541 from array_iterator<E, D, PPtr> (IsConst = false only) with a convertible pointer *)
Definition conv_it2 (c : bool) (pf : pfam) (c' : bool) (pf' : pfam) : bool :=
  (Bool.eqb c c' && pfam_eqb pf pf') || (negb c && pconv pf pf').
(* array_iterator, D = 1: copy; :2437-2443 implicit from Other with implicit_cast<Ptr>(typename Other::pointer{}), pointer = the
   const pointer for a const_iterator (:2376-2380); :2430-2434 explicit from the mutable iterator over the same pointer *)
Definition conv_it1 (e : bool) (c : bool) (pf : pfam) (c' : bool) (pf' : pfam) : bool :=
  (Bool.eqb c c' && pfam_eqb pf pf') || (defctor pf && pconv (cif c pf) pf') || (e && negb c && pfam_eqb pf pf').
(* subarray_ptr: :360-362 from IsConst = false, same pointer; :367-375 from any subarray_ptr with a convertible pointer, whatever IsConst *)
Definition conv_sp (c : bool) (pf : pfam) (c' : bool) (pf' : pfam) : bool :=
  pconv pf pf' && (negb fx_sptr_conv || c' || negb c).
(* elements_iterator_t: copy; :783-785 implicit when the pointer converts; :786-787 explicit, unconstrained: ambiguous with the
   implicit one when both are viable, a hard error in its body when the pointer does not convert *)
Definition conv_ei (e : bool) (pf pf' : pfam) : cres :=
  if pfam_eqb pf pf' then CYes
  else if pconv pf pf' then (if e then CNo else CYes)
  else (if e then CHard else CNo).
(* cursor_t: the converting constructors are private (:693-700): copy only.  Element pointers: pconv *)
(* the value families (`int` and `int const` references are one family) have no conversion rows: the canonical target type is
   not the type of every member of the family *)
Definition is_value_family (pf : pfam) : bool := match pf with PT TmV | PT TcV => true | _ => false end.
Definition handle_pf (k : kind) : option pfam :=
  match k with KIt _ pf | KSP _ pf | KEI pf | KCu pf | KPt pf => Some pf | _ => None end.
Definition conv_handle (k : kind) (g2 : bool) (f : form) (c' p' : bool) : option (kind * cres) :=
  let e := match f with FE => true | _ => false end in
  let yn (b : bool) := if b then CYes else CNo in
  if match handle_pf k with Some pf => is_value_family pf | None => false end then None else
  match k with
  | KIt c pf => let t := variant p' pf in
                Some (KIt c' t, yn (if g2 then conv_it2 c pf c' t else conv_it1 e c pf c' t))
  | KSP c pf => let t := variant p' pf in Some (KSP c' t, yn (conv_sp c pf c' t))
  | KEI pf => if c' then None else let t := variant p' pf in Some (KEI t, conv_ei e pf t)
  | KCu pf => if c' then None else let t := variant p' pf in Some (KCu t, yn (pfam_eqb pf t))
  | KPt pf => if c' then None else let t := variant p' pf in Some (KPt t, yn (pconv pf t))
  | _ => None
  end.
Definition is_yes (r : cres) : bool := match r with CYes => true | _ => false end.
(* x == t: array_iterator and subarray_ptr compare through friends / a facade that convert either side; elements_iterator_t and
   transform_ptr through a member that converts the right-hand side; raw pointers and move_ptr always; cursor_t has no operator== *)
Definition eq_handle (k : kind) (g2 : bool) (cst : bool) : option cres :=
  let yn (b : bool) := if b then CYes else CNo in
  if match handle_pf k with Some pf => is_value_family pf | None => false end then None else
  match k with
  | KIt c pf =>                                      (* :565 / :2538 any IsConst over the same pointer; :571 / :2527 the right-hand side converts *)
      let t := mp pf in
      Some (yn (pfam_eqb pf t || (if g2 then conv_it2 cst t c pf else conv_it1 false cst t c pf)))
  | KSP c pf =>                                      (* :421 any subarray_ptr-like, unconstrained: base() == other.base() in the body; for *)
      let t := mp pf in                              (*   transform_ptr that is the member utility.hpp:137, whose argument converts to the left-hand type *)
      Some (match pf with PT _ => if pconv (cif cst t) (cif c pf) then CYes else CHard | _ => CYes end)
  | KEI pf => let t := if cst then cp pf else mp pf in Some (yn (is_yes (conv_ei false t pf)))      (* :859 *)
  | KCu pf => Some CNo
  | KPt pf => let t := if cst then cp pf else mp pf in
              Some (yn (match pf with PT _ => pconv t pf | _ => true end))                           (* utility.hpp:137 *)
  | _ => None
  end.

(* construction of a view from a view: the move constructors subarray(subarray&&) :1930, const_subarray(const_subarray&&) :1049
   bind a non-const rvalue of the same pointer type (of a derived class too); every copy constructor is private / protected /
   deleted; array_ref<T, D, int const*> is constructible from an array or array_ref over int* / move_ptr (:3340-3350) *)
Definition view_pf (k : kind) : option pfam :=
  match k with
  | KArr | KSArr => Some (PI false)
  | KARef a => Some (apf_pf a)
  | KSub pf | KCSub pf => Some pf
  | _ => None
  end.
Definition conv_view (k : kind) (t : vtarget) (p' : bool) : option (kind * ovl) :=
  match view_pf k with
  | None => None
  | Some pf =>
      if is_value_family pf then None else
      let tp := variant p' pf in
      match t with
      | VSub => Some (KSub tp, match k with KCSub _ => [] | _ => if pfam_eqb pf tp then [(QR, V (KSub tp) Same)] else [] end)
      | VCSub => Some (KCSub tp, if pfam_eqb pf tp then [(QR, V (KCSub tp) Same)] else [])
      | VARef =>
          match apf_of tp with
          | None => None
          | Some a => Some (KARef a, match k, a with
                                     | KArr, A1 | KSArr, A1 | KARef A0, A1 | KARef AM, A1 => [(QCL, V (KARef A1) Same)]
                                     | _, _ => []
                                     end)
          end
      end
  end.

(* one step at the level of (kind, dimensionality class, const, category) *)
Definition astep_k (k : kind) (dc : dcl) (c : bool) (ct : cat) (o : aop) : kres + outcome :=
  let via (l : option ovl) : kres + outcome :=
    match l with
    | None => inr No
    | Some l => match resolve c ct l with None => inr No | Some r => inl r end
    end in
  match o with
  | AMove => inl (RT k Same c Rv)                    (* std::move(x) *)
  | ABindRef => inl (RT k Same c Lv)                 (* auto&& x = e;  then the name x *)
  | ABindCRef => inl (RT k Same true Lv)             (* auto const& x = e; *)
  | AAddrOf =>                                       (* &x *)
      if is_s_kind k then inr NA
      else if builtin_addr k then match ct with Lv => inl ROther | Rv => inr No end
      else match k with
           | KElem => match ct with Lv => inl (RT (KPt (PI c)) Zero false Rv) | Rv => inr No end   (* int* or int const* *)
           | _ => via (members k dc o)
           end
  | AConv f c' p' =>
      match conv_handle k (ge2 dc) f c' p' with
      | None => inr NA
      | Some (t, CYes) => inl (RT t Same false (match f with FA => Lv | _ => Rv end))
      | Some (_, CNo) => inr No
      | Some (_, CHard) => inl RHard
      end
  | AEqM | AEqC =>
      match eq_handle k (ge2 dc) (match o with AEqC => true | _ => false end) with
      | None => inr NA
      | Some CYes => inl ROther
      | Some CNo => inr No
      | Some CHard => inl RHard
      end
  | AToView t e p' =>
      match conv_view k t p' with
      | None => inr NA
      | Some (_, l) => via (Some l)
      end
  | AToArr =>                                                       (* multi::array<int, D>(x): array.hpp:330-420 copies the elements *)
      if is_view_kind k then
        match k, c with KARef AM, false => inl RHard | _, _ => inl RCopy end     (* see AUPlus of array_ref *)
      else inr NA
  | _ =>
      if is_s_kind k && negb (s_op o) then inr NA
      else if (match k with KPtS _ => negb (s_ptr_op o) | _ => false end) then inr NA
      else if (match o with AUPlus | ADecay => negb (is_view_kind k) | _ => false end) then inr NA
      else if (match o with AETransMP | AETransLR | AETransLC | AETransLV | AMemberCast | AReinterpretN => negb (is_s_kind k) | _ => false end) then inr NA
      else if (match o with AReinterpret => negb (match view_pf k with Some (PI _) => true | _ => false end) | _ => false end) then inr NA
      else if is_handle k && (match o with AAssign | ASwap | AMSwap => true | _ => false end) then inr NA
      else via (members k dc o)
  end.

Definition shift (dd : delta) (d : nat) : nat :=
  match dd with Same => d | Dec => pred d | Inc => S d | One => 1 | Zero => 0 end.

Definition astep (s : state) (o : aop) : outcome :=
  match astep_k (sk s) (dcls (sd s)) (sc s) (scat s) o with
  | inr out => out
  | inl (RT k dd c ct) => To (mkSt k (shift dd (sd s)) c ct)
  | inl RVal => ToVal
  | inl RCopy => ToCopy (mkSt KArr (sd s) false Rv)
  | inl ROther => ToOther
  | inl RMut => Mut
  | inl RNoDef => NoDef
  | inl RHard => Hard
  | inl RDel => No
  end.

Fixpoint run_path (p : list aop) (s : state) : option state :=
  match p with
  | [] => Some s
  | o :: tl => match astep s o with To s' => run_path tl s' | _ => None end
  end.

(* ---------------------------------------------------------------------------------------------- *)
(* the predicates of the property                                                                   *)
(* ---------------------------------------------------------------------------------------------- *)
Definition is_mut (o : outcome) : bool := match o with Mut => true | _ => false end.

(* an expression is writable when some mutator is accepted on it: for an element reference that is
   `e = 1` (only int& qualifies), for a view or element range `e = other`, `e.fill(v)`, swap *)
Definition writable (s : state) : bool := existsb (fun m => is_mut (astep s m)) mutators.

(* read-only typed: what the type of the expression promises *)
Definition ro_k (k : kind) (c : bool) : bool :=
  match k with
  | KArr | KSArr | KArrS => c                                (* const-qualified owner *)
  | KARef a => pconst (apf_pf a) || c                        (* view over a pointer to const / with a const reference, or const-qualified *)
  | KSub pf => pconst pf || c
  | KSubS pc => pc || c
  | KCSub _ | KCSubS _ => true                               (* the read-only interface class *)
  | KIt ci pf => ci || pconst pf                             (* const_iterator, or iterator over const elements *)
  | KER pf => pconst pf || c                                 (* elements range: const elements or const-qualified range *)
  | KEI pf | KCu pf | KPt pf => pconst pf                    (* handles are shallow: only the pointee type counts *)
  | KPtS pc => pc
  | KSP ci pf => ci || pconst pf                             (* const_subarray_ptr, or pointer over const elements *)
  | KElem => c
  end.
Definition ro (s : state) : bool := ro_k (sk s) (sc s).

(* the six kinds of root of the property's quantifier *)
Definition root_kind (k : kind) : bool :=
  match k with
  | KArr | KSArr | KARef A0 | KSub (PI false) => true                  (* array, static_array, array_ref, view *)
  | KArrS | KSub (PT TmR) | KSub PM => true                            (* struct-element array, projection view, element_moved view *)
  | _ => false
  end.
Definition is_root (s : state) : bool :=
  root_kind (sk s) && match scat s with Lv => true | Rv => false end && Nat.leb 1 (sd s).
Definition const_root (s : state) : bool := is_root s && sc s.
Definition mutable_root (s : state) : bool := is_root s && negb (sc s).

(* the steps at which the code still hands a mutable result to a read-only receiver: the exclusion predicate of the partial
   theorem.  (Five such steps of the snapshot -- const_iterator[] / (), const_subarray::elements() on a non-const object,
   origin() const&, addressof()/operator& of a non-const const_subarray, const_subarray_ptr::base() -- were repaired by the
   commits 0cc5cd0, c42ae62, 0310609, 49fc935, f94579a and are ordinary rows.) *)
Definition hole_iter_base (k : kind) (g2 : bool) (o : aop) : bool :=     (* array_ref.hpp:632 base() const -> element_ptr whatever IsConst *)
  match k, o with
  | KIt true pf, ABase => g2 && negb (pconst pf)
  | _, _ => false
  end.
Definition hole_tptr_base (k : kind) (o : aop) : bool :=                 (* utility.hpp:109 transform_ptr::base(): the wrapped S* of a pointer whose reference is const / a value *)
  match k, o with
  | KPt (PT t), ABase => pconst (PT t) && negb (und_const t)
  | _, _ => false
  end.
Definition hole_sptr_conv (k : kind) (o : aop) : bool :=                 (* array_ref.hpp:367-375 subarray_ptr(subarray_ptr<.., OtherIsConst> const&): IsConst = true converts to false *)
  match k, o with
  | KSP true pf, AConv _ false p' => negb fx_sptr_conv && negb (pconst (variant p' pf))
  | _, _ => false
  end.
Definition hole_tptr_conv (k : kind) (g2 : bool) (o : aop) : bool :=     (* utility.hpp:104-108 transform_ptr(Other const&): <.., int const&> converts to <.., int&>, *)
  match o with                                                            (*   and with it every handle that propagates the convertibility of its pointer *)
  | AConv _ c' false =>
      negb fx_tptr_conv &&
      match k with
      | KPt (PT TmC) | KEI (PT TmC) => true
      | KSP _ (PT TmC) => negb c'
      | KIt false (PT TmC) => g2 && negb c'
      | _ => false
      end
  | _ => false
  end.
Definition hole_static_cast (k : kind) (o : aop) : bool :=               (* array_ref.hpp:1700 [[deprecated("violates constness")]] static_array_cast<T2>() const&; :3228 *)
  match o with AStaticCast => is_view_kind k | _ => false end.
Definition hole_member_cast1 (k : kind) (g2 : bool) (o : aop) : bool :=  (* array_ref.hpp:3266 1-D member_cast() const -> subarray<T2, 1, rebind<T2>> *)
  match o with AMemberCast => negb fx_csub_proj && is_s_kind k && negb g2 | _ => false end.
Definition hole_csub_proj (k : kind) (g2 : bool) (o : aop) : bool :=      (* array_ref.hpp:1735, :1745, :3249, :3259 const_subarray::element_transformed() &, &&; *)
  match k, o with                                                         (*   :1766, :1780 const_subarray::member_cast() &, &&: a non-const const_subarray hands out element_ptr *)
  | KCSubS false, (AETransMP | AETransLR) => negb fx_csub_proj
  | KCSubS false, AMemberCast => negb fx_csub_proj && g2
  | _, _ => false
  end.
(* the library's named ways out of const-ness: const_array_cast() (its const_cast) and mutable_base() *)
Definition escape_op (o : aop) : bool := match o with AConstCast | AMutableBase => true | _ => false end.
Definition hole_k (k : kind) (g2 : bool) (o : aop) : bool :=
  hole_iter_base k g2 o || hole_tptr_base k o || hole_sptr_conv k o || hole_tptr_conv k g2 o
  || hole_static_cast k o || hole_member_cast1 k g2 o || hole_csub_proj k g2 o || escape_op o.
Definition hole (s : state) (o : aop) : bool := hole_k (sk s) (ge2 (dcls (sd s))) o.

Fixpoint clean_path (p : list aop) (s : state) : bool :=
  match p with
  | [] => true
  | o :: tl => negb (hole s o) && match astep s o with To s' => clean_path tl s' | _ => true end
  end.

(* operations that keep a mutable receiver mutable (the rest either are meant to make the result
   read-only -- cbegin, celements, as_const, auto const& -- or do so on the pinned tree: front, back,
   sliced(f,l,s), reversed, chunked, halved, reindexed, blocked, stenciled, broadcasted) *)
Definition keeps_mut_op (o : aop) : bool :=
  match o with
  | AIndex | ACall0 | ACall1 | ACallAll | ACallRng | ACallRngIdx | ACallIdxRng
  | ABegin | AEnd | ADeref | APlus1 | AElements | AHome
  | ASliced | AStrided | ATaked | ADropped | ARotated | AUnrotated | ATransposed | ATilde
  | ADiagonal | APartitioned | AFlatted | ARange | ADataElements | AOrigin | AAddrOf | AAddressOf | ABindRef | AMove => true
  (* the projections of a mutable array stay mutable when the functor / member allows it; conversions to the mutable variant *)
  | AETransMP | AETransLR | AMemberCast | AReinterpretN | AReinterpret | AStaticCast | AConstCast | AElementMoved
  | AMutableBase | AApply | AData => true
  | AConv _ false false | AToView VSub _ false => true
  | _ => false
  end.
Definition owning (k : kind) : bool := match k with KArr | KSArr | KArrS => true | _ => false end.
(* an rvalue owning array gives its elements away (move_iterator, moved elements): not a view *)
Definition keeps_mut_k (k : kind) (ct : cat) (o : aop) : bool :=
  keeps_mut_op o && negb (owning k && match ct with Rv => true | Lv => false end).
Definition keeps_mut (s : state) (o : aop) : bool := keeps_mut_k (sk s) (scat s) o.

Fixpoint mut_path (p : list aop) (s : state) : bool :=
  match p with
  | [] => true
  | o :: tl => keeps_mut s o && match astep s o with To s' => mut_path tl s' | _ => true end
  end.

Definition is_view (k : kind) : bool :=
  match k with KSub _ | KCSub _ => true | _ => false end.
Definition is_array_ref (k : kind) : bool := match k with KARef _ => true | _ => false end.
Definition elem_lvalue (s : state) : bool :=
  match sk s, scat s with KElem, Lv => true | _, _ => false end.
(* element lvalue, view, array or element range (over a pointer that yields lvalues: a move_ptr view hands out int&&,
   its elements can be moved from, not assigned to) *)
Definition assignable_k (k : kind) (ct : cat) : bool :=
  let lv (pf : pfam) := match pf with PM => false | _ => true end in
  match k with
  | KElem => match ct with Lv => true | Rv => false end
  | KArr | KSArr => true
  | KARef a => lv (apf_pf a)
  | KSub pf | KCSub pf | KER pf => lv pf
  | _ => false
  end.
Definition assignable_thing (s : state) : bool := assignable_k (sk s) (scat s).

(* ---------------------------------------------------------------------------------------------- *)
(* rebinding, resizing, copying of reference types (third clause of the property)                   *)
(*   A view object is (type, layout, base).  Assignment to it is element assignment:                *)
(*   subarray::operator= :2047-2052, :2077-2081 (`this->elements() = other.elements()`),            *)
(*   array_ref::operator= :3400-3406 (copy_elements_): neither writes layout_ or base_.             *)
(* ---------------------------------------------------------------------------------------------- *)
Record vobj := mkV { v_base : nat; v_extents : list nat; v_elems : list nat }.
Definition view_assign (dst src : vobj) : vobj :=        (* what operator= of a reference type does *)
  mkV (v_base dst) (v_extents dst) (v_elems src).
Definition array_assign (dst src : vobj) (fresh : nat) : vobj :=   (* array::operator= may reallocate and resize *)
  mkV fresh (v_extents src) (v_elems src).

(* copy construction of a named (lvalue) object into a new object of the same type *)
Definition copy_constructible (k : kind) : bool :=
  match k with
  | KSub _ | KCSub _ | KSubS _ | KCSubS _ => false       (* :1049 protected, :1921 private copy constructors *)
  | KARef _ => false                (* :3314 deleted *)
  | KER _ => false                  (* :933 deleted *)
  | _ => true
  end.
(* does assignment to an object of this kind change what it refers to / its extents? *)
Definition rebindable (k : kind) : bool := match k with KArr => true | _ => false end.
Definition resizable (k : kind) : bool := match k with KArr => true | _ => false end.

(* ---------------------------------------------------------------------------------------------- *)
(* the finite table that is tied to the library: all (state, op) rows for D = 1..3 (0 for pointers
   and element references)                                                                          *)
(* ---------------------------------------------------------------------------------------------- *)
Definition bools := [false; true].
Definition all_pfams : list pfam := [PI false; PI true; PT TmR; PT TmC; PT TcC; PT TmV; PT TcV; PM].
Definition all_kinds : list kind :=
  [KArr; KSArr] ++ map KARef [A0; A1; AM] ++ map KSub all_pfams ++ map KCSub all_pfams
  ++ flat_map (fun c => map (KIt c) all_pfams) bools
  ++ map KER all_pfams ++ map KEI all_pfams ++ map KCu all_pfams ++ map KPt all_pfams
  ++ flat_map (fun c => map (KSP c) all_pfams) bools ++ [KElem]
  ++ [KArrS] ++ map KSubS bools ++ map KCSubS bools ++ map KPtS bools.
Definition dim0_kind (k : kind) : bool := match k with KPt _ | KPtS _ | KElem => true | _ => false end.
(* the 25 kinds over int* / int const* of the first version of the table *)
Definition old_kind (k : kind) : bool :=
  match k with
  | KArr | KSArr | KElem | KARef A0 | KARef A1 => true
  | KSub (PI _) | KCSub (PI _) | KIt _ (PI _) | KER (PI _) | KEI (PI _) | KCu (PI _) | KPt (PI _) | KSP _ (PI _) => true
  | _ => false
  end.
Definition kind_dims (k : kind) : list nat :=
  if dim0_kind k then [0] else [1; 2; 3].
Definition table_states : list state :=
  flat_map (fun k => flat_map (fun d => flat_map (fun c => map (fun ct => mkSt k d c ct) [Lv; Rv]) bools) (kind_dims k)) all_kinds.
(* maxd: dimensionalities of the 25 old kinds; maxd_new: of the kinds over the pointer families of the projections *)
Definition states_upto (maxd maxd_new : nat) : list state :=
  flat_map (fun k => flat_map (fun d => flat_map (fun c => map (fun ct => mkSt k d c ct) [Lv; Rv]) bools)
                                (if dim0_kind k then [0] else seq 1 (if old_kind k then maxd else maxd_new))) all_kinds.
Definition rows_of (sts : list state) : list (state * aop * outcome) :=
  flat_map (fun s => map (fun o => (s, o, astep s o)) all_ops) sts.
Definition table_rows : list (state * aop * outcome) := rows_of table_states.

(* kind-level domain used by the invariant lemmas *)
Definition all_dcls := [D0; D1; D2; D3p].
Definition all_cats := [Lv; Rv].

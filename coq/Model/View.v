(* L2: views = (layout, base), and the view-forming operations of const_subarray as written in
   /repo/include/boost/multi/array_ref.hpp (D > 1: lines 1121-1563; D = 1: lines 2805-3070).
   The base pointer is an integer offset, in elements, from data_elements() of the root array.
   Every operation is split in two:
     exec_op : the arithmetic the code performs (total, no checks);
     dom_op  : the documented domain (README reference table + the property's quantifier text).
   apply_op o v = if dom_op o v then Some (exec_op o v) else None.
   Definitions only. *)
From Coq Require Import ZArith List Bool.
From BM Require Import Model.Layout.
Import ListNotations.
Local Open Scope Z_scope.

Record view := mkview { lay : layout; base : Z }.

Definition v_rank (v : view) : nat := length (lay v).
Definition v_size (v : view) : Z := l_size (lay v).
Definition v_extension (v : view) : range := l_extension (lay v).

Definition hd_dim (l : layout) : dim := hd (mkdim 0 0 0) l.

(* operator[] : array_ref.hpp:1146-1153 (D>1), 2805-2816 (D=1) *)
Definition v_index (i : Z) (v : view) : view :=
  let d := hd_dim (lay v) in
  mkview (tl (lay v)) (base v + (i * d_stride d - d_offset d)).

(* sliced : D>1 array_ref.hpp:1258-1277, D=1 :2922-2934 (layout().slice, layout.hpp:898-909); both move the
   base by first*stride - offset (the D=1 form since fix 16 of DESIGN section 7) *)
Definition v_sliced (a b : Z) (v : view) : view :=
  match lay v with
  | [] => v
  | [d] => mkview [d_slice d a b] (base v + (a * d_stride d - d_offset d))
  | d :: sub =>
      mkview (mkdim (d_stride d) (d_offset d) (d_stride d * (b - a)) :: sub)
             (base v + (a * d_stride d - d_offset d))
  end.

(* strided : :1328-1331, :2969-2972; the offset is scaled with the stride so that the first valid index is
   kept (fix 18a of DESIGN section 7; before it the offset was left unscaled) *)
Definition v_strided (s : Z) (v : view) : view :=
  match lay v with
  | [] => v
  | d :: sub => mkview (mkdim (d_stride d * s) (d_offset d * s) (d_nelems d) :: sub) (base v)
  end.

(* dropped : :1229-1249, :2901-2915 (neither subtracts the offset) *)
Definition v_dropped (n : Z) (v : view) : view :=
  match lay v with
  | [] => v
  | d :: sub => mkview (d_drop d n :: sub) (base v + n * d_stride d)
  end.

(* taked : :1208-1212, :2886-2895 *)
Definition v_taked (n : Z) (v : view) : view :=
  match lay v with
  | [] => v
  | d :: sub => mkview (d_take d n :: sub) (base v)
  end.

Definition v_rotated    (v : view) : view := mkview (l_rotate (lay v)) (base v).
Definition v_unrotated  (v : view) : view := mkview (l_unrotate (lay v)) (base v).
Definition v_transposed (v : view) : view := mkview (l_transpose (lay v)) (base v).
Definition v_reversed   (v : view) : view := mkview (l_reverse (lay v)) (base v).

(* reindexed : :1185-1205, :2878-2883; blocked : :1282-1283, :2961-2963 *)
Definition v_reindexed (i : Z) (v : view) : view :=
  match lay v with
  | [] => v
  | d :: sub => mkview (d_reindex d i :: sub) (base v)
  end.
Definition v_blocked (a b : Z) (v : view) : view := v_reindexed a (v_sliced a b v).
(* reindexed(first, idxs...) = reindexed(first).rotated().reindexed(idxs...).unrotated() : :1199-1202 *)
Fixpoint v_reindexedL (is : list Z) (v : view) : view :=
  match is with
  | [] => v
  | [i] => v_reindexed i v
  | i :: rest => v_unrotated (v_reindexedL rest (v_rotated (v_reindexed i v)))
  end.

(* partitioned : :1423-1431, :3014-3020 *)
Definition v_partitioned (n : Z) (v : view) : view :=
  match lay v with
  | [] => v
  | d :: sub =>
      mkview (mkdim (Z.quot (d_nelems d) n) 0 (d_nelems d)
              :: mkdim (d_stride d) (d_offset d) (Z.quot (d_nelems d) n) :: sub) (base v)
  end.
(* chunked : :1441-1444, :3026-3029 *)
Definition v_chunked (c : Z) (v : view) : view := v_partitioned (Z.quot (v_size v) c) v.
(* halved : layout.hpp:975-983 via :1220-1223, :3005-3008 *)
Definition v_halved (v : view) : view :=
  match lay v with
  | [] => v
  | d :: sub =>
      mkview (mkdim (Z.quot (d_nelems d) 2) 0 (d_nelems d)
              :: d_take d (Z.quot (d_size d) 2) :: sub) (base v)
  end.
(* flatted : :1359-1363 *)
Definition v_flatted (v : view) : view :=
  match lay v with
  | d :: d1 :: sub =>
      mkview (mkdim (d_stride d1) (d_offset d1) (d_nelems d1 * d_size d) :: sub) (base v)
  | _ => v
  end.
Definition v_is_flattable (v : view) : bool :=          (* :1351-1356 *)
  match lay v with
  | d :: d1 :: _ => (d_size d <=? 1) || (d_stride d =? d_nelems d1)
  | _ => false
  end.

(* call syntax : paren_aux_ :1528-1563; a range argument is range(rng).rotated().paren_aux_(rest).unrotated(),
   an index argument is operator[](idx).paren_aux_(rest); `_` (ALL) is intersected with extension(). *)
Inductive parg := PIdx (i : Z) | PRange (a b : Z) | PAll.
Definition all_range (v : view) : range :=          (* intersection(extension(), ALL), then range(rng) *)
  let e := r_inter (v_extension v) (v_extension v) in (fst e, fst e + r_size e).
Fixpoint v_paren (args : list parg) (v : view) : view :=
  match args with
  | [] => v
  | PIdx i :: rest => v_paren rest (v_index i v)
  | PRange a b :: rest => v_unrotated (v_paren rest (v_rotated (v_sliced a b v)))
  | PAll :: rest =>
      let e := all_range v in
      v_unrotated (v_paren rest (v_rotated (v_sliced (fst e) (snd e) v)))
  end.

(* diagonal : :1378-1385 -- built from *this({0,sq},{0,sq}); keeps the ORIGINAL base *)
Definition v_diagonal (v : view) : view :=
  match lay v with
  | d0 :: d1 :: _ =>
      let sq := Z.min (d_size d0) (d_size d1) in
      match lay (v_paren [PRange 0 sq; PRange 0 sq] v) with
      | e0 :: e1 :: sub =>
          mkview (mkdim (d_stride e1 + d_stride e0) (d_offset e1) (d_nelems e1 + d_nelems e0) :: sub)
                 (base v)
      | _ => v
      end
  | _ => v
  end.

(* broadcasted : :1371-1375, :2819-2824; nelems_ of the new dimension is left uninitialised by the
   code, here a parameter *)
Definition v_broadcasted (unspecified_nelems : Z) (v : view) : view :=
  mkview (mkdim 0 0 unspecified_nelems :: lay v) (base v).

Inductive op :=
| OIndex (i : Z)
| OSliced (a b : Z)
| OSlicedS (a b s : Z)
| OStrided (s : Z)
| ODropped (n : Z)
| OTaked (n : Z)
| ORotated | OUnrotated | OTransposed | OReversed
| ODiagonal
| OPartitioned (n : Z)
| OChunked (c : Z)
| OHalved
| OFlatted
| OParen (args : list parg)
| OReindexed (i : Z)
| OBlocked (a b : Z)
| OReindexedL (is : list Z).     (* reindexed(i, j, ...) : array_ref.hpp:1199-1202 *)

Definition exec_op (o : op) (v : view) : view :=
  match o with
  | OIndex i => v_index i v
  | OSliced a b => v_sliced a b v
  | OSlicedS a b s => v_strided s (v_sliced a b v)         (* :1338-1342, :2977 *)
  | OStrided s => v_strided s v
  | ODropped n => v_dropped n v
  | OTaked n => v_taked n v
  | ORotated => v_rotated v
  | OUnrotated => v_unrotated v
  | OTransposed => v_transposed v
  | OReversed => v_reversed v
  | ODiagonal => v_diagonal v
  | OPartitioned n => v_partitioned n v
  | OChunked c => v_chunked c v
  | OHalved => v_halved v
  | OFlatted => v_flatted v
  | OParen args => v_paren args v
  | OReindexed i => v_reindexed i v
  | OBlocked a b => v_blocked a b v
  | OReindexedL is => v_reindexedL is v
  end.

(* ---- documented domains ---- *)
Definition in_slice (e : range) (a b : Z) : bool := (fst e <=? a) && (a <=? b) && (b <=? snd e).

Fixpoint dom_paren (args : list parg) (v : view) : bool :=
  match args with
  | [] => true
  | PIdx i :: rest =>
      (1 <=? Z.of_nat (v_rank v)) && r_contains (v_extension v) i && dom_paren rest (v_index i v)
  | PRange a b :: rest =>
      (1 <=? Z.of_nat (v_rank v)) && in_slice (v_extension v) a b
      && dom_paren rest (v_rotated (v_sliced a b v))
  | PAll :: rest =>
      let e := all_range v in
      (1 <=? Z.of_nat (v_rank v)) && dom_paren rest (v_rotated (v_sliced (fst e) (snd e) v))
  end.

Definition dom_op (o : op) (v : view) : bool :=
  let D := Z.of_nat (v_rank v) in
  let e := v_extension v in
  let n := v_size v in
  match o with
  | OIndex i => (1 <=? D) && r_contains e i
  | OSliced a b => (1 <=? D) && in_slice e a b
  | OSlicedS a b s => (1 <=? D) && in_slice e a b && (1 <=? s) && (Z.rem (b - a) s =? 0)
  | OStrided s => (1 <=? D) && (1 <=? s) && (Z.rem n s =? 0)
  | ODropped k => (1 <=? D) && (0 <=? k) && (k <=? n)
  | OTaked k => (1 <=? D) && (0 <=? k) && (k <=? n)
  | ORotated | OUnrotated | OReversed => 1 <=? D
  | OTransposed => 2 <=? D
  | ODiagonal => 2 <=? D
  | OPartitioned k => (1 <=? D) && (1 <=? k) && (0 <? n) && (Z.rem n k =? 0)
  | OChunked c => (1 <=? D) && (1 <=? c) && (0 <? n) && (Z.rem n c =? 0)
  | OHalved => (1 <=? D) && (0 <? n) && (Z.rem n 2 =? 0)
  | OFlatted => (2 <=? D) && v_is_flattable v
  | OParen args => (Z.of_nat (length args) <=? D) && dom_paren args v
  | OReindexed _ => 1 <=? D
  | OBlocked a b => (1 <=? D) && in_slice e a b
  | OReindexedL is => (1 <=? Z.of_nat (length is)) && (Z.of_nat (length is) <=? D)
  end.

Definition apply_op (o : op) (v : view) : option view :=
  if dom_op o v then Some (exec_op o v) else None.

Fixpoint run_ops (ops : list op) (v : view) : option view :=
  match ops with
  | [] => Some v
  | o :: rest => match apply_op o v with Some v' => run_ops rest v' | None => None end
  end.

Definition root_view (x : list range) : view := mkview (mk_layout x) 0.

(* ---- the four access paths to one element (C01) ---- *)
Definition addr_brackets (v : view) (idx : list Z) : Z :=
  base (fold_left (fun w i => v_index i w) idx v).
Definition addr_paren (v : view) (idx : list Z) : Z :=
  base (v_paren (map PIdx idx) v).
(* cursor : home() = (base, strides); cursor[i] adds stride*i; cursor_t :702-717 *)
Definition addr_cursor (v : view) (idx : list Z) : Z :=
  fold_left Z.add (map (fun p => fst p * snd p) (combine idx (l_strides (lay v)))) (base v).
Definition v_addr (v : view) (idx : list Z) : Z := base v + l_addr (lay v) idx.

(* C11: the address computations of View.v, Iter.v, Assign.v and Compare.v re-stated over an ABSTRACT pointer
   type.  `ptr` is any type with
       padd  : ptr -> Z -> ptr          p + n, p - n, p += n, ++p ...  (the pointer type's own arithmetic)
       pdiff : ptr -> ptr -> Z          p - q                          (its own difference)
       peq   : ptr -> ptr -> bool       p == q                         (its own comparison)
   and storage is a function of `ptr` (dereference).  Nothing below converts a pointer to or from an integer:
   a pointer is only ever moved by padd, subtracted by pdiff, compared by peq, or dereferenced -- exactly the
   operations the property allows the library to use (array_ref.hpp: base_ + n in operator[] :1146-1153,
   :2805-2816, sliced :1258-1277, dropped :1229-1249, array_iterator :476-660 ptr_->base_ += stride,
   operator- :(base - other.base)/stride, elements_iterator_t :751-1000 base_[l_(ns_)]).
   Every function is the same text as its integer twin with `base + k` replaced by `padd base k`; the layout part
   (strides, offsets, nelems) is integer data in both.  The laws of padd/pdiff/peq (a torsor over Z) are
   hypotheses of the PROOFS (Proofs/PtrAlgebraProofs.v), not of these definitions.
   The second half defines the observation of a program (what the replay harnesses print) for both models, and
   the lists of addresses each element loop dereferences (for C11_deref_in_bounds).  Definitions only. *)
From Coq Require Import ZArith List Bool.
From BM Require Import Model.Layout Model.View Model.Iter Model.Assign Model.Compare.
Import ListNotations.
Local Open Scope Z_scope.

Section PtrModel.
  Variable ptr : Type.
  Variable padd : ptr -> Z -> ptr.
  Variable pdiff : ptr -> ptr -> Z.
  Variable peq : ptr -> ptr -> bool.

  (* ---------------- L2: views ---------------- *)
  Record pview := mkpview { play : layout; pbase : ptr }.

  Definition p_rank (v : pview) : nat := length (play v).
  Definition p_size (v : pview) : Z := l_size (play v).
  Definition p_extension (v : pview) : range := l_extension (play v).

  Definition p_index (i : Z) (v : pview) : pview :=
    let d := hd_dim (play v) in
    mkpview (tl (play v)) (padd (pbase v) (i * d_stride d - d_offset d)).

  Definition p_sliced (a b : Z) (v : pview) : pview :=
    match play v with
    | [] => v
    | [d] => mkpview [d_slice d a b] (padd (pbase v) (a * d_stride d - d_offset d))
    | d :: sub =>
        mkpview (mkdim (d_stride d) (d_offset d) (d_stride d * (b - a)) :: sub)
                (padd (pbase v) (a * d_stride d - d_offset d))
    end.

  Definition p_strided (s : Z) (v : pview) : pview :=
    match play v with
    | [] => v
    | d :: sub => mkpview (mkdim (d_stride d * s) (d_offset d * s) (d_nelems d) :: sub) (pbase v)
    end.

  Definition p_dropped (n : Z) (v : pview) : pview :=
    match play v with
    | [] => v
    | d :: sub => mkpview (d_drop d n :: sub) (padd (pbase v) (n * d_stride d))
    end.

  Definition p_taked (n : Z) (v : pview) : pview :=
    match play v with
    | [] => v
    | d :: sub => mkpview (d_take d n :: sub) (pbase v)
    end.

  Definition p_rotated    (v : pview) : pview := mkpview (l_rotate (play v)) (pbase v).
  Definition p_unrotated  (v : pview) : pview := mkpview (l_unrotate (play v)) (pbase v).
  Definition p_transposed (v : pview) : pview := mkpview (l_transpose (play v)) (pbase v).
  Definition p_reversed   (v : pview) : pview := mkpview (l_reverse (play v)) (pbase v).

  Definition p_reindexed (i : Z) (v : pview) : pview :=
    match play v with
    | [] => v
    | d :: sub => mkpview (d_reindex d i :: sub) (pbase v)
    end.
  Definition p_blocked (a b : Z) (v : pview) : pview := p_reindexed a (p_sliced a b v).
  Fixpoint p_reindexedL (is : list Z) (v : pview) : pview :=
    match is with
    | [] => v
    | [i] => p_reindexed i v
    | i :: rest => p_unrotated (p_reindexedL rest (p_rotated (p_reindexed i v)))
    end.

  Definition p_partitioned (n : Z) (v : pview) : pview :=
    match play v with
    | [] => v
    | d :: sub =>
        mkpview (mkdim (Z.quot (d_nelems d) n) 0 (d_nelems d)
                 :: mkdim (d_stride d) (d_offset d) (Z.quot (d_nelems d) n) :: sub) (pbase v)
    end.
  Definition p_chunked (c : Z) (v : pview) : pview := p_partitioned (Z.quot (p_size v) c) v.
  Definition p_halved (v : pview) : pview :=
    match play v with
    | [] => v
    | d :: sub =>
        mkpview (mkdim (Z.quot (d_nelems d) 2) 0 (d_nelems d)
                 :: d_take d (Z.quot (d_size d) 2) :: sub) (pbase v)
    end.
  Definition p_flatted (v : pview) : pview :=
    match play v with
    | d :: d1 :: sub =>
        mkpview (mkdim (d_stride d1) (d_offset d1) (d_nelems d1 * d_size d) :: sub) (pbase v)
    | _ => v
    end.
  Definition p_is_flattable (v : pview) : bool :=
    match play v with
    | d :: d1 :: _ => (d_size d <=? 1) || (d_stride d =? d_nelems d1)
    | _ => false
    end.

  Definition p_all_range (v : pview) : range :=
    let e := r_inter (p_extension v) (p_extension v) in (fst e, fst e + r_size e).
  Fixpoint p_paren (args : list parg) (v : pview) : pview :=
    match args with
    | [] => v
    | PIdx i :: rest => p_paren rest (p_index i v)
    | PRange a b :: rest => p_unrotated (p_paren rest (p_rotated (p_sliced a b v)))
    | PAll :: rest =>
        let e := p_all_range v in
        p_unrotated (p_paren rest (p_rotated (p_sliced (fst e) (snd e) v)))
    end.

  Definition p_diagonal (v : pview) : pview :=
    match play v with
    | d0 :: d1 :: _ =>
        let sq := Z.min (d_size d0) (d_size d1) in
        match play (p_paren [PRange 0 sq; PRange 0 sq] v) with
        | e0 :: e1 :: sub =>
            mkpview (mkdim (d_stride e1 + d_stride e0) (d_offset e1) (d_nelems e1 + d_nelems e0) :: sub)
                    (pbase v)
        | _ => v
        end
    | _ => v
    end.

  Definition p_exec_op (o : op) (v : pview) : pview :=
    match o with
    | OIndex i => p_index i v
    | OSliced a b => p_sliced a b v
    | OSlicedS a b s => p_strided s (p_sliced a b v)
    | OStrided s => p_strided s v
    | ODropped n => p_dropped n v
    | OTaked n => p_taked n v
    | ORotated => p_rotated v
    | OUnrotated => p_unrotated v
    | OTransposed => p_transposed v
    | OReversed => p_reversed v
    | ODiagonal => p_diagonal v
    | OPartitioned n => p_partitioned n v
    | OChunked c => p_chunked c v
    | OHalved => p_halved v
    | OFlatted => p_flatted v
    | OParen args => p_paren args v
    | OReindexed i => p_reindexed i v
    | OBlocked a b => p_blocked a b v
    | OReindexedL is => p_reindexedL is v
    end.

  Fixpoint p_dom_paren (args : list parg) (v : pview) : bool :=
    match args with
    | [] => true
    | PIdx i :: rest =>
        (1 <=? Z.of_nat (p_rank v)) && r_contains (p_extension v) i && p_dom_paren rest (p_index i v)
    | PRange a b :: rest =>
        (1 <=? Z.of_nat (p_rank v)) && in_slice (p_extension v) a b
        && p_dom_paren rest (p_rotated (p_sliced a b v))
    | PAll :: rest =>
        let e := p_all_range v in
        (1 <=? Z.of_nat (p_rank v)) && p_dom_paren rest (p_rotated (p_sliced (fst e) (snd e) v))
    end.

  Definition p_dom_op (o : op) (v : pview) : bool :=
    let D := Z.of_nat (p_rank v) in
    let e := p_extension v in
    let n := p_size v in
    match o with
    | OIndex i => (1 <=? D) && r_contains e i
    | OSliced a b => (1 <=? D) && in_slice e a b
    | OSlicedS a b s => (1 <=? D) && in_slice e a b && (1 <=? s) && (Z.rem (b - a) s =? 0)
    | OStrided s => (1 <=? D) && (1 <=? s) && (Z.rem n s =? 0)
    | ODropped k => (1 <=? D) && (0 <=? k) && (k <=? n)
    | OTaked k => (1 <=? D) && (0 <=? k) && (k <=? n)
    | ORotated | OUnrotated | OReversed => 1 <=? D
    | OTransposed => 2 <=? D
    | ODiagonal => 2 <=? D
    | OPartitioned k => (1 <=? D) && (1 <=? k) && (0 <? n) && (Z.rem n k =? 0)
    | OChunked c => (1 <=? D) && (1 <=? c) && (0 <? n) && (Z.rem n c =? 0)
    | OHalved => (1 <=? D) && (0 <? n) && (Z.rem n 2 =? 0)
    | OFlatted => (2 <=? D) && p_is_flattable v
    | OParen args => (Z.of_nat (length args) <=? D) && p_dom_paren args v
    | OReindexed _ => 1 <=? D
    | OBlocked a b => (1 <=? D) && in_slice e a b
    | OReindexedL is => (1 <=? Z.of_nat (length is)) && (Z.of_nat (length is) <=? D)
    end.

  Definition p_apply_op (o : op) (v : pview) : option pview :=
    if p_dom_op o v then Some (p_exec_op o v) else None.

  (* the access paths to one element *)
  Definition p_addr_brackets (v : pview) (idx : list Z) : ptr :=
    pbase (fold_left (fun w i => p_index i w) idx v).
  Definition p_addr_paren (v : pview) (idx : list Z) : ptr :=
    pbase (p_paren (map PIdx idx) v).
  Definition p_addr_cursor (v : pview) (idx : list Z) : ptr :=
    fold_left padd (map (fun p => fst p * snd p) (combine idx (l_strides (play v)))) (pbase v).

  (* ---------------- L3: iterators ---------------- *)
  Record pait := mkpait { pibase : ptr; pistride : Z; pisub : layout }.
  Definition p_it_begin (v : pview) : pait :=
    let d := hd_dim (play v) in mkpait (pbase v) (d_stride d) (tl (play v)).
  Definition p_it_end (v : pview) : pait :=
    let d := hd_dim (play v) in mkpait (padd (pbase v) (d_nelems d)) (d_stride d) (tl (play v)).
  Definition p_it_inc (a : pait) : pait := mkpait (padd (pibase a) (pistride a)) (pistride a) (pisub a).
  Definition p_it_dec (a : pait) : pait := mkpait (padd (pibase a) (- pistride a)) (pistride a) (pisub a).
  Definition p_it_add (a : pait) (n : Z) : pait := mkpait (padd (pibase a) (pistride a * n)) (pistride a) (pisub a).
  Definition p_it_sub (a : pait) (n : Z) : pait := mkpait (padd (pibase a) (pistride a * (- n))) (pistride a) (pisub a).
  Definition p_it_diff (a b : pait) : Z := Z.quot (pdiff (pibase a) (pibase b)) (pistride a).
  Definition p_it_eq (a b : pait) : bool := peq (pibase a) (pibase b).
  Definition p_it_lt (a b : pait) : bool := 0 <? p_it_diff b a.
  Definition p_it_deref (a : pait) : pview := mkpview (pisub a) (pibase a).
  Definition p_it_index (a : pait) (n : Z) : pview := p_it_deref (p_it_add a n).
  Definition p_a_step (o : iop) (it : pait) : pait :=
    match o with IInc => p_it_inc it | IDec => p_it_dec it | IAdd k => p_it_add it k | ISub k => p_it_sub it k end.

  Record peit := mkpeit { pebase : ptr; pelay : layout; pen : Z; pexs : list range; pens : list Z }.
  Definition p_e_make (b : ptr) (l : layout) (n : Z) : peit :=
    let xs := l_extensions l in
    mkpeit b l n xs (if l_num_elements l =? 0 then zeros xs else x_from_linear xs n).
  Definition p_er_begin (v : pview) : peit := p_e_make (pbase v) (play v) 0.
  Definition p_er_end (v : pview) : peit := p_e_make (pbase v) (play v) (l_num_elements (play v)).
  Definition p_e_inc (it : peit) : peit :=
    mkpeit (pebase it) (pelay it) (pen it + 1) (pexs it) (snd (x_next_canonical (pexs it) (pens it))).
  Definition p_e_dec (it : peit) : peit :=
    mkpeit (pebase it) (pelay it) (pen it - 1) (pexs it) (snd (x_prev_canonical (pexs it) (pens it))).
  Definition p_e_add (it : peit) (n : Z) : peit :=
    if n =? 0 then it
    else mkpeit (pebase it) (pelay it) (pen it + n) (pexs it) (x_from_linear (pexs it) (pen it + n)).
  Definition p_e_sub (it : peit) (n : Z) : peit := p_e_add it (- n).
  Definition p_e_diff (a b : peit) : Z := pen a - pen b.
  Definition p_e_lt (a b : peit) : bool := pen a <? pen b.
  Definition p_e_eq (a b : peit) : bool := pen a =? pen b.
  Definition p_e_deref (it : peit) : ptr := padd (pebase it) (l_call (pelay it) (pens it)).
  Definition p_e_index (it : peit) (n : Z) : ptr :=
    padd (pebase it) (l_call (pelay it) (x_from_linear (pexs it) (pen it + n))).
  Definition p_er_at (v : pview) (k : Z) : ptr :=
    padd (pbase v) (l_call (play v) (x_from_linear (l_extensions (play v)) k)).
  Definition p_e_step (o : iop) (it : peit) : peit :=
    match o with IInc => p_e_inc it | IDec => p_e_dec it | IAdd k => p_e_add it k | ISub k => p_e_sub it k end.

  (* ---------------- L4: storage and the element loops ---------------- *)
  Definition pmem := ptr -> cell.
  Definition p_upd (m : pmem) (a : ptr) (c : cell) : pmem := fun p => if peq p a then c else m p.
  Definition p_copy1 (conv : Z -> Z) (D S : Z -> ptr) (m : pmem) (k : Z) : pmem :=
    p_upd m (D k) (mkcell (conv (c_val (m (S k)))) false).
  Definition p_move1 (D S : Z -> ptr) (m : pmem) (k : Z) : pmem :=
    let x := c_val (m (S k)) in
    p_upd (p_upd m (S k) (mkcell x true)) (D k) (mkcell x false).
  Definition p_fill1 (x : Z) (D : Z -> ptr) (m : pmem) (k : Z) : pmem := p_upd m (D k) (mkcell x false).
  Definition p_swap1 (D S : Z -> ptr) (m : pmem) (k : Z) : pmem :=
    let a := m (D k) in let b := m (S k) in p_upd (p_upd m (D k) b) (S k) a.
  Definition p_put1 (vals : list Z) (D : Z -> ptr) (m : pmem) (k : Z) : pmem :=
    p_upd m (D k) (mkcell (nth (Z.to_nat k) vals 0) false).
  Definition p_loop (step : pmem -> Z -> pmem) (n : Z) (m : pmem) : pmem := fold_left step (iota (Z.to_nat n)) m.
  Definition p_er_size (v : pview) : Z := l_num_elements (play v).
  Definition p_assign_view (conv : Z -> Z) (dst src : pview) (m : pmem) : pmem :=
    if l_num_elements (play dst) =? 0 then m
    else p_loop (p_copy1 conv (p_er_at dst) (p_er_at src)) (p_er_size src) m.
  Definition p_move_view (dst src : pview) (m : pmem) : pmem :=
    if l_num_elements (play dst) =? 0 then m
    else p_loop (p_move1 (p_er_at dst) (p_er_at src)) (p_er_size src) m.
  Definition p_fill_view (x : Z) (dst : pview) (m : pmem) : pmem := p_loop (p_fill1 x (p_er_at dst)) (p_er_size dst) m.
  Definition p_swap_views (a b : pview) (m : pmem) : pmem := p_loop (p_swap1 (p_er_at a) (p_er_at b)) (p_er_size a) m.
  Definition p_assign_vals (vals : list Z) (dst : pview) (m : pmem) : pmem :=
    p_loop (p_put1 vals (p_er_at dst)) (p_er_size dst) m.

  (* ---------------- L4: comparison (reads element values through the pointer) ---------------- *)
  Fixpoint p_abs_l (l : layout) (b : ptr) (m : ptr -> Z) : tree :=
    match l with
    | [] => Leaf (m b)
    | d :: l' =>
        let f := fst (d_extension d) in
        Node (map (fun i => p_abs_l l' (padd b ((f + i) * d_stride d - d_offset d)) m) (iotaz (Z.to_nat (d_size d))))
    end.
  Definition p_v_tree (v : pview) (m : ptr -> Z) : tree := p_abs_l (play v) (pbase v) m.
  Definition p_v_eq (a b : pview) (m : ptr -> Z) : bool :=
    x_eq (l_extensions (play a)) (l_extensions (play b)) && list_eqb (flat_t (p_v_tree a m)) (flat_t (p_v_tree b m)).
  Definition p_v_ne (a b : pview) (m : ptr -> Z) : bool :=
    negb (x_eq (l_extensions (play a)) (l_extensions (play b))) || negb (list_eqb (flat_t (p_v_tree a m)) (flat_t (p_v_tree b m))).
  Definition p_v_lt (a b : pview) (m : ptr -> Z) : bool :=
    match play a, play b with
    | da :: _, db :: _ =>
        let fa := fst (d_extension da) in let fb := fst (d_extension db) in
        if fb <? fa then true else if fa <? fb then false
        else lt_depth (length (play a)) (p_v_tree a m) (p_v_tree b m)
    | _, _ => lt_depth (length (play a)) (p_v_tree a m) (p_v_tree b m)
    end.
  Definition p_v_le (a b : pview) (m : ptr -> Z) : bool := p_v_eq a b m || p_v_lt a b m.
  Definition p_v_gt (a b : pview) (m : ptr -> Z) : bool := p_v_lt b a m.
  Definition p_v_ge (a b : pview) (m : ptr -> Z) : bool := p_v_lt b a m || p_v_eq a b m.
End PtrModel.

Arguments mkpview {ptr}.
Arguments play {ptr}.
Arguments pbase {ptr}.
Arguments mkpait {ptr}.
Arguments pibase {ptr}.
Arguments pistride {ptr}.
Arguments pisub {ptr}.
Arguments mkpeit {ptr}.
Arguments pebase {ptr}.
Arguments pelay {ptr}.
Arguments pen {ptr}.
Arguments pexs {ptr}.
Arguments pens {ptr}.

(* ---------------- observations: what the replay harnesses print ---------------- *)
(* A program is a root declaration followed by items; the observation is one record per item, with element /
   sub-view addresses of type A (Z for the integer model, ptr for the pointer model) and everything else integer. *)
Inductive item :=
| IOp (o : op)                  (* apply a view operation, observe the shape *)
| IProbe (idx : list Z)         (* element address through brackets, call syntax and the cursor *)
| IWalkA (tr : list iop)        (* walk an iterator from begin() of the view, observe every step *)
| IWalkE (tr : list iop).       (* walk an iterator from elements().begin(), observe every step *)

Inductive obs (A : Type) :=
| OShape (sizes : list Z) (exts : list range) (strides : list Z) (nel size : Z) (empty : bool)
| OAddr (brackets paren cursor : A)
| OStep (pos to_end : Z) (eq_begin lt_begin begin_lt eq_end lt_end : bool) (deref indexed : A)
| OFlat (size : Z) (front back : A)
| OStop.                         (* an operation outside its documented domain: nothing further is observed *)
Arguments OShape {A}.
Arguments OAddr {A}.
Arguments OStep {A}.
Arguments OFlat {A}.
Arguments OStop {A}.

Definition obs_map {A B : Type} (f : A -> B) (o : obs A) : obs B :=
  match o with
  | OShape s e t n z b => OShape s e t n z b
  | OAddr x y z => OAddr (f x) (f y) (f z)
  | OStep p q a b c d e x y => OStep p q a b c d e (f x) (f y)
  | OFlat n x y => OFlat n (f x) (f y)
  | OStop => OStop
  end.

(* the integer part of an observation: sizes, extensions, strides, positions, differences, comparisons *)
Definition obs_ints {A : Type} (o : obs A) : obs unit := obs_map (fun _ => tt) o.

Definition shape_obs {A : Type} (l : layout) : obs A :=
  OShape (l_sizes l) (l_extensions l) (l_strides l) (l_num_elements l) (l_size l) (l_is_empty l).

(* integer model *)
Fixpoint walk_a (b e it : ait) (tr : list iop) : list (obs Z) :=
  match tr with
  | [] => []
  | o :: rest =>
      let it' := a_step o it in
      OStep (it_diff it' b) (it_diff e it') (it_eq it' b) (it_lt it' b) (it_lt b it') (it_eq it' e) (it_lt it' e)
            (base (it_deref it')) (base (it_index it' 1))
      :: walk_a b e it' rest
  end.
Fixpoint walk_e (b e it : eit) (tr : list iop) : list (obs Z) :=
  match tr with
  | [] => []
  | o :: rest =>
      let it' := e_step o it in
      OStep (e_diff it' b) (e_diff e it') (e_eq it' b) (e_lt it' b) (e_lt b it') (e_eq it' e) (e_lt it' e)
            (e_deref it') (e_index it' 1)
      :: walk_e b e it' rest
  end.
Fixpoint observe_from (v : view) (prog : list item) : list (obs Z) :=
  match prog with
  | [] => []
  | IOp o :: rest =>
      match apply_op o v with
      | Some v' => shape_obs (lay v') :: observe_from v' rest
      | None => [OStop]
      end
  | IProbe idx :: rest => OAddr (addr_brackets v idx) (addr_paren v idx) (addr_cursor v idx) :: observe_from v rest
  | IWalkA tr :: rest => walk_a (it_begin v) (it_end v) (it_begin v) tr ++ observe_from v rest
  | IWalkE tr :: rest =>
      OFlat (er_size v) (er_front v) (er_back v) :: walk_e (er_begin v) (er_end v) (er_begin v) tr ++ observe_from v rest
  end.
Definition observe_Z (x : list range) (prog : list item) : list (obs Z) :=
  shape_obs (mk_layout x) :: observe_from (root_view x) prog.

(* pointer model *)
Section PtrObserve.
  Variable ptr : Type.
  Variable padd : ptr -> Z -> ptr.
  Variable pdiff : ptr -> ptr -> Z.
  Variable peq : ptr -> ptr -> bool.
  Let pv := pview ptr.

  Fixpoint p_walk_a (b e it : pait ptr) (tr : list iop) : list (obs ptr) :=
    match tr with
    | [] => []
    | o :: rest =>
        let it' := p_a_step ptr padd o it in
        OStep (p_it_diff ptr pdiff it' b) (p_it_diff ptr pdiff e it') (p_it_eq ptr peq it' b) (p_it_lt ptr pdiff it' b)
              (p_it_lt ptr pdiff b it') (p_it_eq ptr peq it' e) (p_it_lt ptr pdiff it' e)
              (pbase (p_it_deref ptr it')) (pbase (p_it_index ptr padd it' 1))
        :: p_walk_a b e it' rest
    end.
  Fixpoint p_walk_e (b e it : peit ptr) (tr : list iop) : list (obs ptr) :=
    match tr with
    | [] => []
    | o :: rest =>
        let it' := p_e_step ptr o it in
        OStep (p_e_diff ptr it' b) (p_e_diff ptr e it') (p_e_eq ptr it' b) (p_e_lt ptr it' b) (p_e_lt ptr b it')
              (p_e_eq ptr it' e) (p_e_lt ptr it' e) (p_e_deref ptr padd it') (p_e_index ptr padd it' 1)
        :: p_walk_e b e it' rest
    end.
  Fixpoint p_observe_from (v : pv) (prog : list item) : list (obs ptr) :=
    match prog with
    | [] => []
    | IOp o :: rest =>
        match p_apply_op ptr padd o v with
        | Some v' => shape_obs (play v') :: p_observe_from v' rest
        | None => [OStop]
        end
    | IProbe idx :: rest =>
        OAddr (p_addr_brackets ptr padd v idx) (p_addr_paren ptr padd v idx) (p_addr_cursor ptr padd v idx)
        :: p_observe_from v rest
    | IWalkA tr :: rest =>
        p_walk_a (p_it_begin ptr v) (p_it_end ptr padd v) (p_it_begin ptr v) tr ++ p_observe_from v rest
    | IWalkE tr :: rest =>
        OFlat (p_er_size ptr v) (p_e_deref ptr padd (p_er_begin ptr v))
              (p_e_deref ptr padd (p_e_add ptr (p_er_end ptr v) (-1)))
        :: p_walk_e (p_er_begin ptr v) (p_er_end ptr v) (p_er_begin ptr v) tr ++ p_observe_from v rest
    end.
  (* root: the pointer the array owns or was given; its view is (mk_layout x, root) as array_ref's constructor builds it *)
  Definition observe_ptr (root : ptr) (x : list range) (prog : list item) : list (obs ptr) :=
    shape_obs (mk_layout x) :: p_observe_from (mkpview (mk_layout x) root) prog.
End PtrObserve.

(* ---------------- the addresses each element loop dereferences (integer model; C11_deref_in_bounds) ---------------- *)
Definition ks (n : Z) : list Z := iota (Z.to_nat n).
Definition derefs_assign (dst src : view) : list Z :=
  if l_num_elements (lay dst) =? 0 then []
  else flat_map (fun k => [e_addr src k; e_addr dst k]) (ks (er_size src)).         (* read source k, write destination k *)
Definition derefs_move (dst src : view) : list Z := derefs_assign dst src.
Definition derefs_fill (dst : view) : list Z := flat_map (fun k => [e_addr dst k]) (ks (er_size dst)).
Definition derefs_swap (a b : view) : list Z := flat_map (fun k => [e_addr a k; e_addr b k]) (ks (er_size a)).
Definition derefs_vals (dst : view) : list Z := derefs_fill dst.
(* comparison: the leaves of the value tree, read through the identity storage, are the addresses read *)
Definition derefs_tree (v : view) : list Z := flat_t (v_tree v (fun a => a)).
Definition derefs_compare (a b : view) : list Z := derefs_tree a ++ derefs_tree b.

(* ---------------- a pointer type that is not an integer, to run the pointer model (the extracted driver uses it;
   its laws are proved in Proofs/PtrAlgebraProofs.v: seg_laws) ---------------- *)
Definition seg_ptr := (nat * Z)%type.                      (* (segment, offset): an offset-style fancy pointer *)
Definition seg_add (p : seg_ptr) (n : Z) : seg_ptr := (fst p, snd p + n).
Definition seg_diff (p q : seg_ptr) : Z := snd p - snd q.
Definition seg_eq (p q : seg_ptr) : bool := Nat.eqb (fst p) (fst q) && (snd p =? snd q).

(* C13 -- reference (column-major) semantics of the BLAS routines the adaptor calls, and the
   mathematical definition of the operations on the logical contents of the views.
   Definitions only.  These are the trusted reading of the BLAS standard (DESIGN 6.3): xGEMM / xGEMV as in
   the reference implementation (dgemm.f / zgemm.f, dgemv.f / zgemv.f), over an arbitrary carrier R with
   an addition, a multiplication and a conjugation.  The theorems state which laws of R they use. *)
From Coq Require Import ZArith List Bool.
From BM Require Import Model.BlasC13.
Local Open Scope Z_scope.
Local Open Scope bool_scope.

Section Carrier.
  Variable R : Type.
  Variable rzero : R.
  Variable radd rmul : R -> R -> R.
  Variable cj : R -> R.

  (* sum_{l = 0}^{n-1} f l, accumulated in increasing l as the reference loops do *)
  Fixpoint rsum (n : nat) (f : Z -> R) : R :=
    match n with O => rzero | S n' => radd (rsum n' f) (f (Z.of_nat n')) end.
  Definition zsum (k : Z) (f : Z -> R) : R := rsum (Z.to_nat k) f.

  Definition cjif (b : bool) (x : R) : R := if b then cj x else x.

  (* address and conjugation of element (r,c) of op(X), X stored column-major at p with leading dimension ld *)
  Definition opaddr (t : trans) (p ld r c : Z) : Z :=
    match t with TN => p + r + c * ld | TT | TC => p + c + r * ld end.
  Definition opconj (t : trans) : bool := match t with TC => true | _ => false end.
  Definition opelt (t : trans) (mem : Z -> R) (p ld r c : Z) : R := cjif (opconj t) (mem (opaddr t p ld r c)).

  (* xGEMM:  C := alpha*op(A)*op(B) + beta*C,  C is m x n column-major at pc with leading dimension ldc;
     every other cell keeps its value.  The cell p is decoded as pc + i + j*ldc (meaningful for ldc >= max 1 m,
     which gemm_legal demands). *)
  Definition gemm_cell (alpha beta : R) (c : gemm_call) (mem : Z -> R) (i j : Z) : R :=
    radd (rmul alpha (zsum (g_k c) (fun l => rmul (opelt (g_ta c) mem (g_pa c) (g_lda c) i l)
                                                  (opelt (g_tb c) mem (g_pb c) (g_ldb c) l j))))
         (rmul beta (mem (g_pc c + i + j * g_ldc c))).

  Definition gemm_ref (alpha beta : R) (c : gemm_call) (mem : Z -> R) : Z -> R :=
    fun p => let d := p - g_pc c in
             let j := d / g_ldc c in
             let i := d mod g_ldc c in
             if (0 <=? d) && (i <? g_m c) && (j <? g_n c) then gemm_cell alpha beta c mem i j else mem p.

  (* xGEMV:  y := alpha*op(A)*x + beta*y.  A is m x n column-major (lda); op(A) is m x n ('N') or n x m ('T','C');
     x has n ('N') or m elements, y has m ('N') or n elements; increments are positive here (the adaptor's
     views with negative increments are outside the theorem: BLAS then reads from the other end). *)
  Definition gemv_ylen (c : gemv_call) : Z := if is_n (v_ta c) then v_m c else v_n c.
  Definition gemv_xlen (c : gemv_call) : Z := if is_n (v_ta c) then v_n c else v_m c.
  Definition gemv_cell (alpha beta : R) (c : gemv_call) (mem : Z -> R) (i : Z) : R :=
    radd (rmul alpha (zsum (gemv_xlen c) (fun l => rmul (opelt (v_ta c) mem (v_pa c) (v_lda c) i l)
                                                        (mem (v_px c + l * v_incx c)))))
         (rmul beta (mem (v_py c + i * v_incy c))).
  (* "Quick return if possible": IF ((M.EQ.0) .OR. (N.EQ.0) .OR. ((ALPHA.EQ.ZERO).AND.(BETA.EQ.ONE))) RETURN  (dgemv.f);
     the third disjunct does not change the result, the first two do: y is not scaled by beta. *)
  Definition gemv_ref (alpha beta : R) (c : gemv_call) (mem : Z -> R) : Z -> R :=
    fun p => let d := p - v_py c in
             let i := d / v_incy c in
             if (v_m c =? 0) || (v_n c =? 0) then mem p
             else if (0 <=? d) && (d mod v_incy c =? 0) && (i <? gemv_ylen c) then gemv_cell alpha beta c mem i else mem p.

  (* ---------------------------------------------------------------------------------------- *)
  (* the mathematical definition on the logical contents of the views                          *)
  (* ---------------------------------------------------------------------------------------- *)
  Definition mval (a : mat) (mem : Z -> R) (i j : Z) : R := cjif (mconj a) (mem (maddr a i j)).
  Definition vval (x : vec) (mem : Z -> R) (i : Z) : R := cjif (vconj x) (mem (vaddr x i)).

  (* (alpha * A.B + beta * C)(i,j) *)
  Definition gemm_math (alpha beta : R) (a b c : mat) (mem : Z -> R) (i j : Z) : R :=
    radd (rmul alpha (zsum (cols a) (fun l => rmul (mval a mem i l) (mval b mem l j)))) (rmul beta (mval c mem i j)).

  (* (alpha * M.x + beta * y)(i) *)
  Definition gemv_math (alpha beta : R) (m : mat) (x y : vec) (mem : Z -> R) (i : Z) : R :=
    radd (rmul alpha (zsum (cols m) (fun l => rmul (mval m mem i l) (vval x mem l)))) (rmul beta (vval y mem i)).
End Carrier.

(* ------------------------------------------------------------------------------------------ *)
(* which operand views the statements quantify over                                            *)
(* ------------------------------------------------------------------------------------------ *)
(* a view with non-negative sizes, positive strides, and distinct cells for distinct indices once one of
   its strides is 1 (Proofs/BlasC13Ref: wf_mat_injective).  Every 2-D view the view algebra of C01 builds
   from a row-major array without reversing or broadcasting satisfies it. *)
Definition wf_mat (a : mat) : Prop :=
  0 <= rows a /\ 0 <= cols a /\ 0 < s0 a /\ 0 < s1 a
  /\ (s1 a = 1 -> 2 <= rows a -> cols a <= s0 a)
  /\ (s0 a = 1 -> 2 <= cols a -> rows a <= s1 a).

Definition wf_matb (a : mat) : bool :=
  (0 <=? rows a) && (0 <=? cols a) && (0 <? s0 a) && (0 <? s1 a)
  && (negb (s1 a =? 1) || negb (2 <=? rows a) || (cols a <=? s0 a))
  && (negb (s0 a =? 1) || negb (2 <=? cols a) || (rows a <=? s1 a)).

Definition wf_vec (x : vec) : Prop := 0 <= len x /\ 0 < inc x.

(* A.B is defined and has the shape of C *)
Definition shapes_conform (a b c : mat) : Prop := rows b = cols a /\ rows c = rows a /\ cols c = cols b.
Definition shapes_conformb (a b c : mat) : bool := (rows b =? cols a) && (rows c =? rows a) && (cols c =? cols b).
Definition gemv_shapes (m : mat) (x y : vec) : Prop := len x = cols m /\ len y = rows m.

Definition in_mat (c : mat) (p : Z) : Prop := exists i j, 0 <= i < rows c /\ 0 <= j < cols c /\ p = maddr c i j.
Definition in_vec (y : vec) (p : Z) : Prop := exists i, 0 <= i < len y /\ p = vaddr y i.

(* C12 model: projection views of boost::multi, function by function, on top of L1 (Layout.v) and
   L2 (View.v).  Sources:
     /repo/include/boost/multi/array_ref.hpp
        static_array_cast            :1695-1724 (D>1)   :3179-3186 (D=1)
        element_transformed          :1727-1750 (D>1)   :3188-3211 (D=1)
        member_cast                  :1752-1787 (D>1)   :3213-3233 (D=1)
        const_array_cast / as_const  :1792-1817
        reinterpret_array_cast<U>()  :1819-1833, :2260-2280 (D>1)   :3238-3246 (D=1, separate code)
        reinterpret_array_cast<U>(n) :1835-1865, :2293-2317 (D>1)   :3248-3257 (D=1)
        elements_iterator_t          :749-867 (constructor :774-775, ++ :801-805, * :846)
     /repo/include/boost/multi/utility.hpp      transform_ptr :72-151 (operator* :112-116, += :124)
     /repo/include/boost/multi/detail/layout.hpp layout_t::scale(num, den) :985-989 (= ProjectC12Based.l_scale_b:
        stride, OFFSET and nelems are scaled -- the code since /repo 1b46e17; before it the offset was left as it
        was and asserted to be 0, Layout.l_scale)
     /repo/include/boost/multi/array.hpp        static_array(const_subarray<OtherT,...> const&, alloc) :371-388

   Pointers.  View.v measures a base pointer in ELEMENTS from the root's data_elements().  A cast to
   another element type U keeps the machine address but changes the unit of pointer arithmetic, so a
   projected view is a view whose strides/offsets/base count elements of size p_esz, placed at a BYTE
   origin p_org:   byte address of element idx = p_org + p_esz * (element address in p_view).
   Every cast below re-normalises: the new origin is the (byte) value of the new base pointer and the
   new view has base 0.  View operations act on p_view exactly as in View.v (pointer arithmetic on a
   U* moves p_esz bytes per unit), which is what p_exec_op says.
   Definitions only. *)
From Coq Require Import ZArith List Bool.
From BM Require Import Model.Layout Model.View Model.ProjectC12Based.
Import ListNotations.
Local Open Scope Z_scope.

Record pview := mkpview { p_view : view; p_org : Z; p_esz : Z }.

(* an ordinary view of elements of size szT, seen at byte level (origin = the root's data) *)
Definition p_embed (szT : Z) (v : view) : pview := mkpview v 0 szT.
(* the value of base(), in bytes from the root's data *)
Definition p_ptr (x : pview) : Z := p_org x + p_esz x * base (p_view x).
(* &x[i][j]...[k] in bytes: chained brackets (View.addr_brackets) on a pointer to p_esz-byte objects *)
Definition p_addr_brackets (x : pview) (idx : list Z) : Z := p_org x + p_esz x * addr_brackets (p_view x) idx.
Definition p_addr (x : pview) (idx : list Z) : Z := p_org x + p_esz x * v_addr (p_view x) idx.
Definition p_rebase (l : layout) (ptr esz : Z) : pview := mkpview (mkview l 0) ptr esz.

(* view algebra on a projected view *)
Definition p_exec_op (o : op) (x : pview) : pview := mkpview (exec_op o (p_view x)) (p_org x) (p_esz x).
Definition p_dom_op (o : op) (x : pview) : bool := dom_op o (p_view x).
Definition p_apply_op (o : op) (x : pview) : option pview :=
  if p_dom_op o x then Some (p_exec_op o x) else None.
Fixpoint p_run_ops (ops : list op) (x : pview) : option pview :=
  match ops with
  | [] => Some x
  | o :: rest => match p_apply_op o x with Some y => p_run_ops rest y | None => None end
  end.

(* ---- member_cast<U>(&T::m) ----
   :1763/:1777  subarray<T2,D,P2>{layout().scale(sizeof(T), sizeof(T2)), static_cast<P2>(&(base_->*member))}
   :3232        subarray<T2,1,P2>(layout().scale(sizeof(T), sizeof(T2)), p2)      p2 = address of base_->member
   moff = offsetof(T, m). *)
Definition p_member_cast (szU moff : Z) (x : pview) : pview :=
  p_rebase (l_scale_b (p_esz x) szU (lay (p_view x))) (p_ptr x + moff) szU.

(* layout.hpp:986  assert((stride_*num) % den == 0), evaluated at every level of the recursion
   (:987 assert((offset_*num) % den == 0) is ProjectC12Based.dom_scale_offset; both = dom_scale_b) *)
Definition dom_scale (num den : Z) (l : layout) : bool :=
  forallb (fun d => Z.rem (d_stride d * num) den =? 0) l.
(* :1758/:1772/:3219 static_assert(sizeof(T) % sizeof(T2) == 0); the member lies inside the element *)
Definition dom_member (szT szU moff : Z) : bool :=
  (0 <? szU) && (0 <? szT) && (Z.rem szT szU =? 0) && (0 <=? moff) && (moff + szU <=? szT).

(* ---- reinterpret_array_cast<U>() ----
   D>1 :1825-1828, :2265-2268   {layout().scale(sizeof(T), sizeof(T2)), reinterpret_pointer_cast<P2>(base_)}
   D=1 :3242-3245  layout_type{sub, stride*sizeof(T)/sizeof(T2), offset*sizeof(T)/sizeof(T2),
                                nelems*sizeof(T)/sizeof(T2)}           -- written out by hand in the const& overload
                                of const_subarray<T,1>; the & / && overloads of a rank-1 subarray are the generic ones
                                (:2278-2296) and go through scale.  Since 1b46e17 both compute the same triple. *)
Definition d_rescale1 (num den : Z) (d : dim) : dim :=
  mkdim (Z.quot (d_stride d * num) den) (Z.quot (d_offset d * num) den) (Z.quot (d_nelems d * num) den).
Definition l_reinterpret (num den : Z) (l : layout) : layout :=
  match l with
  | [d] => [d_rescale1 num den d]
  | _ => l_scale_b num den l
  end.
Definition p_reinterpret (szU : Z) (x : pview) : pview :=
  p_rebase (l_reinterpret (p_esz x) szU (lay (p_view x))) (p_ptr x) szU.
(* D>1: the assert inside scale; D=1 :3240 BOOST_MULTI_ASSERT(stride*sizeof(T) % sizeof(T2) == 0) *)
Definition dom_reinterpret (szT szU : Z) (l : layout) : bool :=
  (0 <? szU) && (0 <? szT) && dom_scale szT szU l.

(* ---- reinterpret_array_cast<U>(n) ----
   D>1 :1855-1858, :2300-2303  (layout_t<D+1>(layout().scale(sizeof(T), sizeof(T2)), 1, 0, n).rotate(), base)
   D=1 :3253-3256  subarray<T2,2,P2>{layout_t<2>{layout().scale(...), 1, 0, n}, base}.rotated() *)
Definition p_reinterpret_n (szU n : Z) (x : pview) : pview :=
  let l := lay (p_view x) in
  match l with
  | [_] => mkpview (v_rotated (mkview (mkdim 1 0 n :: l_scale_b (p_esz x) szU l) 0)) (p_ptr x) szU
  | _ => p_rebase (l_rotate (mkdim 1 0 n :: l_scale_b (p_esz x) szU l)) (p_ptr x) szU
  end.
(* :1845 static_assert(sizeof(T) % sizeof(T2) == 0), :1847 BOOST_MULTI_ASSERT(sizeof(T) == sizeof(T2)*count)
   (the D=1 overload has only the static_assert; the documented use is the same) *)
Definition dom_reinterpret_n (szT szU n : Z) : bool :=
  (0 <? szU) && (0 <? szT) && (0 <=? n) && (szT =? szU * n).

(* ---- casts that change only the pointer TYPE ----
   static_array_cast :1699-1717, :3181  subarray<T2,D,P2>(layout(), static_cast<P2>(base_))
   const_array_cast  :1809             rebind<T2,P2>(layout(), const_cast<P2>(base_))
   as_const          :1816             rebind<element, element_const_ptr>{layout(), base()}
   element_transformed :1723, :3185    subarray<T2,D,P2>(layout(), P2{base_, fun})   P2 = transform_ptr *)
Definition v_static_array_cast (v : view) : view := mkview (lay v) (base v).
Definition v_const_array_cast (v : view) : view := mkview (lay v) (base v).
Definition v_as_const (v : view) : view := mkview (lay v) (base v).
Definition v_element_transformed (v : view) : view := mkview (lay v) (base v).

Section Elements.
  Context {A B : Type}.
  (* storage of the root array: element position -> value *)
  Definition v_read (s : Z -> A) (v : view) (idx : list Z) : A := s (addr_brackets v idx).
  (* transform_ptr: arithmetic is done on the underlying pointer p_ (utility.hpp:124-136), dereference
     is std::invoke(f_, deref p_) (:112-116): nothing is evaluated before the access *)
  Definition t_read (f : A -> B) (s : Z -> A) (v : view) (idx : list Z) : B :=
    f (s (addr_brackets (v_element_transformed v) idx)).
  Definition s_upd (s : Z -> A) (a : Z) (x : A) : Z -> A := fun k => if k =? a then x else s k.
  (* assignment through a reference-returning projection: the referenced sub-object of the source
     element is replaced (put), the rest of the element and of the storage is not touched *)
  Definition t_write (put : B -> A -> A) (s : Z -> A) (v : view) (idx : list Z) (x : B) : Z -> A :=
    let a := addr_brackets (v_element_transformed v) idx in s_upd s a (put x (s a)).
End Elements.

(* ---- array constructed from a view of another element type (array.hpp:374-388) ----
   ref(allocate(layout_t{other.extensions()}.num_elements()), other.extensions()), then
   adl_alloc_uninitialized_copy_n(alloc, other.elements().begin(), this->num_elements(), data_elements()).
   elements().begin() is elements_iterator_t(base, layout, 0) (array_ref.hpp:774-775):
      ns_ = (lyt.num_elements() == 0) ? indices_type{} : xs_.from_linear(0)
   and from_linear divides by the number of elements of every inner extension tuple (layout.hpp:176-181):
   x/0 is undefined behaviour, the model returns None there (the proofs show it is never reached).
   (At the snapshot 87f5c7b the test was lyt.is_empty(), leading dimension only, and a view with a
   non-zero outer size and a zero inner extent divided by zero; /repo commit 1e6770c changed it.) *)
Fixpoint x_inner_nonzero (x : list range) : bool :=
  match x with
  | [] => true
  | [_] => true
  | _ :: rest => negb (x_num_elements rest =? 0) && x_inner_nonzero rest
  end.
Definition e_begin (l : layout) : option (list Z) :=
  let xs := l_extensions l in
  if l_num_elements l =? 0 then Some (map (fun _ => 0) xs)
  else if x_inner_nonzero xs then Some (x_from_linear xs 0)
  else None.
(* copy_n: n times { dst[k] = conv(deref it); ++it }   with deref it = base_[l_(ns_)] (:846), ++it = next_canonical (:801-805) *)
Fixpoint e_copy_n {B : Type} (n : nat) (xs : list range) (ns : list Z) (g : list Z -> B) : list B :=
  match n with
  | O => []
  | S n' => g ns :: e_copy_n n' xs (snd (x_next_canonical xs ns)) g
  end.
Record carray (B : Type) := mkcarray { c_lay : layout; c_data : list B }.
Arguments mkcarray {B}. Arguments c_lay {B}. Arguments c_data {B}.
(* rd k = the value obtained by dereferencing (source base pointer + k) *)
Definition convert_construct {A B : Type} (conv : A -> B) (rd : Z -> A) (l : layout) : option (carray B) :=
  let xs := l_extensions l in
  let nl := mk_layout xs in
  match e_begin l with
  | None => None
  | Some ns0 =>
      Some (mkcarray nl (e_copy_n (Z.to_nat (l_num_elements nl)) xs ns0 (fun ns => conv (rd (l_call l ns)))))
  end.
(* element idx of the constructed (row-major, zero-based) array *)
Definition c_at {B : Type} (c : carray B) (idx : list Z) : option B :=
  nth_error (c_data c) (Z.to_nat (l_addr (c_lay c) idx)).

(* ---- entry points for the extracted runner ---- *)
Inductive proj :=
| PMember (szU moff : Z)
| PReinterpret (szU : Z)
| PReinterpretN (szU n : Z)
| PIdentity.          (* static_array_cast / const_array_cast / as_const / element_transformed: same view *)
Definition p_exec_proj (p : proj) (x : pview) : pview :=
  match p with
  | PMember szU moff => p_member_cast szU moff x
  | PReinterpret szU => p_reinterpret szU x
  | PReinterpretN szU n => p_reinterpret_n szU n x
  | PIdentity => mkpview (v_static_array_cast (p_view x)) (p_org x) (p_esz x)
  end.
(* the documented domain (static_asserts, BOOST_MULTI_ASSERTs) together with the two assertions inside
   layout_t::scale.  constref = the projection is called through a const reference: only then a rank-1 view
   takes the hand-written code of const_subarray<T,1>::reinterpret_array_cast() const& (:3287-3295), which asserts
   the stride divisibility only. *)
Definition p_dom_proj (constref : bool) (p : proj) (x : pview) : bool :=
  let l := lay (p_view x) in
  match p with
  | PMember szU moff => dom_member (p_esz x) szU moff && dom_scale_b (p_esz x) szU l
  | PReinterpret szU =>
      dom_reinterpret (p_esz x) szU l
      && match l with
         | [_] => constref || dom_scale_b (p_esz x) szU l
         | _ => dom_scale_b (p_esz x) szU l
         end
  | PReinterpretN szU n => dom_reinterpret_n (p_esz x) szU n && dom_scale_b (p_esz x) szU l
  | PIdentity => true
  end.

(* C13 -- syrk / herk: the statements, as definitions (full-strength per call site; refuted at 601, 602.., 704 on the current
   tree: Proofs/BlasC13RankKSites.v). *)
From Coq Require Import ZArith List Bool.
From BM Require Import Model.BlasC13 Model.BlasC13Ref Model.BlasC13L3 Model.BlasC13L3Crit.
Local Open Scope Z_scope.

Section Carrier.
  Variable R : Type.
  Variable rzero : R.
  Variables radd rmul : R -> R -> R.
  Variable cj re : R -> R.

  (* legality + result on the selected triangle + frame (the other triangle of c included) *)
  Definition rk_correct_at (herm upper : bool) (alpha beta : R) (a c : mat) (k : rk_call) (mem : Z -> R) : Prop :=
       rk_legal k = true
    /\ (forall i j, 0 <= i < rows c -> 0 <= j < rows c -> in_triangle upper i j = true ->
          rk_ref R rzero radd rmul cj re herm alpha beta k mem (maddr c i j) = rk_math R rzero radd rmul cj re herm alpha beta a c mem i j)
    /\ (forall p, ~ (exists i j, 0 <= i < rows c /\ 0 <= j < rows c /\ in_triangle upper i j = true /\ p = maddr c i j) ->
          rk_ref R rzero radd rmul cj re herm alpha beta k mem p = mem p).
End Carrier.

Definition syrk_site_full (s : Z) : Prop :=
  forall (R : Type) (rzero : R) (radd rmul : R -> R -> R) (cj re : R -> R),
    (forall x y, rmul x y = rmul y x) -> (forall x, cj (cj x) = x) ->
    forall (upper : bool) (alpha beta : R) (a c : mat) (mem : Z -> R),
      wf_mat a -> wf_mat c -> rows a = rows c -> cols c = rows c -> mconj a = false -> mconj c = false ->
      r_site (syrk_dispatch upper a c) = s ->
      rk_correct_at R rzero radd rmul cj re false upper alpha beta a c (syrk_dispatch upper a c) mem.

Definition herk_site_full (s : Z) : Prop :=
  forall (R : Type) (rzero : R) (radd rmul : R -> R -> R) (cj re : R -> R),
    (forall x y, rmul x y = rmul y x) -> (forall x, cj (cj x) = x) ->
    forall (upper : bool) (alpha beta : R) (a c : mat) (k : rk_call) (mem : Z -> R),
      wf_mat a -> wf_mat c -> rows a = rows c -> cols c = rows c -> mconj c = false ->
      herk_dispatch upper a c = L3Call k -> r_site k = s ->
      rk_correct_at R rzero radd rmul cj re true upper alpha beta a c k mem.

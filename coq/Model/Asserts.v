(* C20: the debug contracts of the library, next to every operation of Model/View.v, Model/Iter.v and
   Model/Assign.v.  Each predicate is the conjunction of the assertion expressions the C++ code evaluates when it
   executes the operation, transcribed line by line from
     /repo/include/boost/multi/array_ref.hpp   (BOOST_MULTI_ASSERT)
     /repo/include/boost/multi/detail/layout.hpp   (plain assert)
     /repo/include/boost/multi/detail/config/ASSERT.hpp:10-14
        BOOST_MULTI_ASSERT(e) is assert(e) unless BOOST_MULTI_ASSERT_DISABLE is defined; assert(e) vanishes under NDEBUG.
   So there are three build configurations and two kinds of assertion:
        Debug          : BOOST_MULTI_ASSERT and plain assert are evaluated
        AssertDisable  : only the plain asserts of layout.hpp / operators.hpp that are NOT nested inside a
                         BOOST_MULTI_ASSERT expression are evaluated
        NDebug         : nothing is evaluated.
   asrt_bm o v    = the BOOST_MULTI_ASSERT expressions of operation o (with the plain asserts nested inside them,
                    e.g. extension() inside `extension().contains(idx)`),
   asrt_plain o v = the plain asserts evaluated outside any BOOST_MULTI_ASSERT expression,
   nz_op o v      = every divisor the code of o (assertions included) evaluates is non-zero (x/0 is UB in C++ and 0 in
                    Coq; no theorem of C20 is true "because Z.quot x 0 = 0").
   No function of View.v / Iter.v / Assign.v / Compare.v mentions any of these predicates (this file imports them,
   not the converse): results cannot depend on the assertion switch.  Definitions only. *)
From Coq Require Import ZArith List Bool.
From BM Require Import Model.Layout Model.View Model.Iter Model.Assign.
Import ListNotations.
Local Open Scope Z_scope.

Inductive config := Debug | AssertDisable | NDebug.

(* ---------------- layout_t ---------------- *)
(* extension(): layout.hpp:880-886
     if(nelems_ == 0) return {};  assert(offset_ % stride_ == 0);  assert(nelems_ % stride_ == 0); *)
Definition a_ext (d : dim) : bool :=
  (d_nelems d =? 0) || ((Z.rem (d_offset d) (d_stride d) =? 0) && (Z.rem (d_nelems d) (d_stride d) =? 0)).
(* size() :846-853 and extension() divide by stride_ when nelems_ != 0 *)
Definition nz_dim (d : dim) : bool := (d_nelems d =? 0) || negb (d_stride d =? 0).
(* what every harness does after every operation: sizes(), extensions(), strides(), num_elements(), is_empty() *)
Definition asrt_observe (v : view) : bool := forallb a_ext (lay v).
Definition nz_observe (v : view) : bool := forallb nz_dim (lay v).

(* ---------------- element access ---------------- *)
(* operator[] : array_ref.hpp:1146 (D>1), :2806 (D=1), at_aux_ :1121
     BOOST_MULTI_ASSERT((this->stride()==0 || (this->extension().contains(idx))) && ("out of bounds"));
   the first statement of the function: it is evaluated BEFORE base_ + (idx*stride - offset) is formed *)
Definition asrt_index (i : Z) (v : view) : bool :=
  match lay v with
  | [] => true
  | d :: _ => (d_stride d =? 0) || (a_ext d && r_contains (d_extension d) i)
  end.
Definition nz_index (v : view) : bool :=
  match lay v with [] => true | d :: _ => (d_stride d =? 0) || nz_dim d end.

(* chained brackets v[i0][i1]...: one assertion per level, each on the sub-view reached so far *)
Fixpoint asrt_brackets (v : view) (idx : list Z) : bool :=
  match idx with
  | [] => true
  | i :: rest => asrt_index i v && asrt_brackets (v_index i v) rest
  end.
(* the level at which chained brackets abort (None = no assertion fires) *)
Fixpoint abort_level (v : view) (idx : list Z) : option nat :=
  match idx with
  | [] => None
  | i :: rest => if asrt_index i v then option_map S (abort_level (v_index i v) rest) else Some O
  end.

(* ---------------- view-forming operations ---------------- *)
(* sliced_aux_ : D>1 :1259-1260
     BOOST_MULTI_ASSERT(((first==last) || this->extension().contains(first   )) && ("sliced first out of bounds"));
     BOOST_MULTI_ASSERT(((first==last) || this->extension().contains(last - 1)) && ("sliced last  out of bounds"));
   D=1 :2922-2934: NO assertion (layout().slice, layout.hpp:909-918, has none either) *)
Definition asrt_sliced (a b : Z) (v : view) : bool :=
  match lay v with
  | [] => true
  | [_] => true
  | d :: _ => ((a =? b) || (a_ext d && r_contains (d_extension d) a))
           && ((a =? b) || (a_ext d && r_contains (d_extension d) (b - 1)))
  end.
(* D=1 slice: is_empty() ? 0 : nelems()/size()*(last-first); D>1: extension() when first != last *)
Definition nz_sliced (a b : Z) (v : view) : bool :=
  match lay v with
  | [] => true
  | [d] => (d_nelems d =? 0) || (negb (d_stride d =? 0) && negb (d_size d =? 0))
  | d :: _ => (a =? b) || nz_dim d
  end.
(* :1263  BOOST_MULTI_ASSERT(this->base_ || ((first*stride - offset) == 0));  "it is UB to offset a nullptr".
   The model's base is an offset from data_elements() and has no null value; this conjunct is evaluated only for
   views whose base pointer is null, i.e. views of an EMPTY OWNING array (array.hpp allocates nothing for 0 elements).
   It is kept as a separate predicate: see C20_null_base_slice_refuted. *)
Definition asrt_sliced_nullbase (a : Z) (v : view) : bool :=
  match lay v with
  | [] => true
  | [_] => true
  | d :: _ => a * d_stride d - d_offset d =? 0
  end.

(* dropped_aux_ : D>1 :1229 BOOST_MULTI_ASSERT(n <= size()); D=1 :2901-2910 layout().drop(count), layout.hpp:899/:652
   plain assert(count <= size()) *)
Definition asrt_dropped_bm (n : Z) (v : view) : bool :=
  match lay v with _ :: _ :: _ => n <=? v_size v | _ => true end.
Definition asrt_dropped_plain (n : Z) (v : view) : bool :=
  match lay v with [_] => n <=? v_size v | _ => true end.
(* taked_aux_ : :1208 (D>1), :2887 (D=1)  BOOST_MULTI_ASSERT(n <= size()) *)
Definition asrt_taked (n : Z) (v : view) : bool :=
  match lay v with [] => true | _ => n <=? v_size v end.
(* partitioned_aux_ : :1423,:1426 (D>1), :3015-3016 (D=1)  BOOST_MULTI_ASSERT(n != 0); BOOST_MULTI_ASSERT(nelems % n == 0) *)
Definition asrt_partitioned (n : Z) (v : view) : bool :=
  match lay v with
  | [] => true
  | d :: _ => negb (n =? 0) && (Z.rem (d_nelems d) n =? 0)
  end.
(* chunked_aux_ : :1441, :3027  BOOST_MULTI_ASSERT(size() % count == 0); return partitioned_aux_(size()/count) *)
Definition asrt_chunked (c : Z) (v : view) : bool :=
  match lay v with
  | [] => true
  | _ => (Z.rem (v_size v) c =? 0) && asrt_partitioned (Z.quot (v_size v) c) v
  end.
(* halved : layout().halve(), layout.hpp:976 plain assert(size()%2 == 0) *)
Definition asrt_halved_plain (v : view) : bool :=
  match lay v with [] => true | _ => Z.rem (v_size v) 2 =? 0 end.

(* call syntax, paren_aux_ :1541-1549 (D>1), :2988-2994 (D=1):
     index  -> operator[](idx)                                 (asrt_index)
     range  -> range(rng) = sliced(front, front+size)          (asrt_sliced; none for D=1)
     `_`    -> intersection(this->extension(), inr), then as range: extension() is called OUTSIDE any
               BOOST_MULTI_ASSERT, so its two plain asserts are live in the AssertDisable build too *)
Fixpoint asrt_paren_bm (args : list parg) (v : view) : bool :=
  match args with
  | [] => true
  | PIdx i :: rest => asrt_index i v && asrt_paren_bm rest (v_index i v)
  | PRange a b :: rest => asrt_sliced a b v && asrt_paren_bm rest (v_rotated (v_sliced a b v))
  | PAll :: rest =>
      let e := all_range v in
      asrt_sliced (fst e) (snd e) v && asrt_paren_bm rest (v_rotated (v_sliced (fst e) (snd e) v))
  end.
Definition a_ext_head (v : view) : bool := match lay v with [] => true | d :: _ => a_ext d end.
Fixpoint asrt_paren_plain (args : list parg) (v : view) : bool :=
  match args with
  | [] => true
  | PIdx i :: rest => asrt_paren_plain rest (v_index i v)
  | PRange a b :: rest => asrt_paren_plain rest (v_rotated (v_sliced a b v))
  | PAll :: rest =>
      let e := all_range v in
      a_ext_head v && asrt_paren_plain rest (v_rotated (v_sliced (fst e) (snd e) v))
  end.
Definition nz_head (v : view) : bool := match lay v with [] => true | d :: _ => nz_dim d end.
Fixpoint nz_paren (args : list parg) (v : view) : bool :=
  match args with
  | [] => true
  | PIdx i :: rest => nz_index v && nz_paren rest (v_index i v)
  | PRange a b :: rest => nz_sliced a b v && nz_paren rest (v_rotated (v_sliced a b v))
  | PAll :: rest =>
      let e := all_range v in
      nz_head v && nz_sliced (fst e) (snd e) v && nz_paren rest (v_rotated (v_sliced (fst e) (snd e) v))
  end.

(* diagonal_aux_ :1377-1384: ( *this)({0,sq},{0,sq}) with sq = min(size0, size1) -- the block is taken from index 0 *)
Definition diag_args (v : view) : list parg :=
  match lay v with
  | d0 :: d1 :: _ => let sq := Z.min (d_size d0) (d_size d1) in [PRange 0 sq; PRange 0 sq]
  | _ => []
  end.

(* strided :1327-1330/:2969-2972, rotated/unrotated/transposed/reversed :1463-1510, reindexed :1184-1204 (one or several indices),
   flatted :1358-1362 evaluate no assertion (the is_flattable() assertion of flatted is commented out, :2251). *)
Definition asrt_bm (o : op) (v : view) : bool :=
  match o with
  | OIndex i => asrt_index i v
  | OSliced a b => asrt_sliced a b v
  | OSlicedS a b _ => asrt_sliced a b v                    (* sliced(a,b).strided(s) :1337-1341, :2977 *)
  | OBlocked a b => asrt_sliced a b v                      (* sliced(a,b).reindexed(a) :1281, :2961 *)
  | ODropped n => asrt_dropped_bm n v
  | OTaked n => asrt_taked n v
  | OPartitioned n => asrt_partitioned n v
  | OChunked c => asrt_chunked c v
  | ODiagonal => asrt_paren_bm (diag_args v) v
  | OParen args => asrt_paren_bm args v
  | OStrided _ | ORotated | OUnrotated | OTransposed | OReversed | OHalved | OFlatted | OReindexed _ | OReindexedL _ => true
  end.
Definition asrt_plain (o : op) (v : view) : bool :=
  match o with
  | ODropped n => asrt_dropped_plain n v
  | OHalved => asrt_halved_plain v
  | OParen args => asrt_paren_plain args v
  | _ => true
  end.
Definition asrt_op (o : op) (v : view) : bool := asrt_bm o v && asrt_plain o v.

Definition nz_op (o : op) (v : view) : bool :=
  match o with
  | OIndex _ => nz_index v
  | OSliced a b | OSlicedS a b _ | OBlocked a b => nz_sliced a b v
  | ODropped _ | OTaked _ => nz_head v                                       (* size() *)
  | OPartitioned n => negb (n =? 0)                                            (* nelems % n, nelems / n *)
  | OChunked c => nz_head v && negb (c =? 0) && negb (Z.quot (v_size v) c =? 0)
  | OHalved => nz_head v
  | OFlatted => nz_head v                                                      (* size() *)
  | ODiagonal => nz_head v && nz_head (v_rotated v) && nz_paren (diag_args v) v
  | OParen args => nz_paren args v
  | OStrided _ | ORotated | OUnrotated | OTransposed | OReversed | OReindexed _ | OReindexedL _ => true
  end.

(* the checks a configuration evaluates for one operation *)
Definition checks (c : config) (o : op) (v : view) : bool :=
  match c with Debug => asrt_op o v | AssertDisable => asrt_plain o v | NDebug => true end.
Definition checks_observe (c : config) (v : view) : bool :=
  match c with NDebug => true | _ => asrt_observe v end.

(* no modelled assertion is false, and no divisor is zero, along a run that observes the shape after every step *)
Fixpoint asserts_along (ops : list op) (v : view) : bool :=
  match ops with
  | [] => asrt_observe v && nz_observe v
  | o :: rest => asrt_observe v && nz_observe v && asrt_op o v && nz_op o v && asserts_along rest (exec_op o v)
  end.

(* ---------------- execution with the assertion switch ---------------- *)
Inductive outcome (A : Type) := Done (x : A) | Aborted.
Arguments Done {A} x.
Arguments Aborted {A}.
Definition g_apply (c : config) (o : op) (v : view) : outcome view :=
  if checks c o v then Done (exec_op o v) else Aborted.
(* a program that runs the operations and looks at the shape after each of them *)
Fixpoint g_run (c : config) (ops : list op) (v : view) : outcome view :=
  if checks_observe c v then
    match ops with
    | [] => Done v
    | o :: rest => match g_apply c o v with Done v' => g_run c rest v' | Aborted => Aborted end
    end
  else Aborted.
(* guarded element access: the assertion is evaluated first, the address only if it holds *)
Definition g_index (c : config) (i : Z) (v : view) : outcome view :=
  match c with
  | Debug => if asrt_index i v then Done (v_index i v) else Aborted
  | _ => Done (v_index i v)
  end.
Fixpoint g_brackets (c : config) (v : view) (idx : list Z) : outcome Z :=
  match idx with
  | [] => Done (base v)
  | i :: rest => match g_index c i v with Done v' => g_brackets c v' rest | Aborted => Aborted end
  end.

(* ---------------- array_iterator ---------------- *)
(* operator- : D>1 :651-655  ASSERT(stride == other.stride); ASSERT(stride != 0);
               D=1 :2503-2508 ASSERT(stride != 0); ASSERT(stride == other.stride); ASSERT((ptr - other.ptr) % stride == 0) *)
Definition asrt_it_diff (a b : ait) : bool :=
  (istride a =? istride b) && negb (istride a =? 0)
  && match isub a with [] => Z.rem (ibase a - ibase b) (istride a) =? 0 | _ => true end.
(* operator== : D>1 :570-574 ASSERT(stride == other.stride); ASSERT(ptr_->layout() == other.ptr_->layout());
                D=1 :2510-2513 ASSERT(stride == other.stride) (same-constness overload) *)
Fixpoint dim_list_eqb (a b : layout) : bool :=
  match a, b with
  | [], [] => true
  | x :: a', y :: b' =>
      (d_stride x =? d_stride y) && (d_offset x =? d_offset y) && (d_nelems x =? d_nelems y) && dim_list_eqb a' b'
  | _, _ => false
  end.
Definition asrt_it_eq (a b : ait) : bool := (istride a =? istride b) && dim_list_eqb (isub a) (isub b).
(* <, <=, >, >= go through operator- (:584-591, :2527-2529; totally_ordered2) *)
Definition asrt_it_cmp (a b : ait) : bool := asrt_it_diff a b && asrt_it_diff b a && asrt_it_eq a b.
(* post-increment, detail/operators.hpp:111-118: plain assert(self > tmp) after ++self *)
Definition asrt_it_postinc_plain (a : ait) : bool := it_lt a (it_inc a).

(* ---------------- elements_iterator_t ---------------- *)
(* operator-, <, ==, != : :826, :833, :859, :863  ASSERT(base_ == other.base_ && l_ == other.l_) *)
Definition asrt_e_cmp (a b : eit) : bool := (ebase a =? ebase b) && dim_list_eqb (elay a) (elay b).
(* constructor :774-775: l_.extensions() (plain asserts of extension(), every dimension) and, unless
   num_elements() == 0, xs_.from_linear(n): layout.hpp:176-183 plain assert(sub_num_elements != 0) at every level
   that has a tail *)
Fixpoint asrt_from_linear (x : list range) : bool :=
  match x with
  | [] => true
  | [_] => true
  | _ :: rest => negb (x_num_elements rest =? 0) && asrt_from_linear rest
  end.
Definition asrt_e_make_plain (l : layout) : bool :=
  forallb a_ext l && ((l_num_elements l =? 0) || asrt_from_linear (l_extensions l)).
(* elements_range_t::operator[] :913-916  ASSERT(!is_empty()) *)
Definition asrt_er_at (v : view) : bool := negb (l_is_empty (lay v)).

(* ---------------- assignment between views ---------------- *)
(* After fix 6c4fe5c (line numbers of /repo at cbe7c87) every overload of class subarray (array_ref.hpp:1919-) asserts ALL extensions:
   AView  : operator=(const_subarray const&)& :2048-2053, template (const_subarray<TT,D,As...> const&)& :2078-2082,
            (const_subarray<TT,D,As...>&&)& :2086-2090 (rvalue = rvalue arrives here through :2085), template
            (const_subarray<TT,D,As...> const&)&& :2127-2131, (subarray<TT,D,As...>&&)& :2135-2139 (element_moved()),
            (subarray const&)& :2156-2161, (subarray&&)& :2162-2167:
              BOOST_MULTI_ASSERT(this->extensions() == other.extensions());
            then this->elements() = other.elements(): elements_range_t::operator= :977-995, all three forms now
              BOOST_MULTI_ASSERT(size() == other.size());
   ASwap  : swap(subarray&&)&& :2055-2058: the all-extensions assertion, then adl_swap_ranges over elements()
   ARef   : array_ref::operator= :3395-3398, :3401-3407 (was num_elements only), :3429-3432:
              BOOST_MULTI_ASSERT(this->extensions() == other.extensions());   then copy_elements_ / adl_copy_n
   AElems : dst.elements() = src.elements(), any of :977-995: BOOST_MULTI_ASSERT(size() == other.size()).
   extensions() evaluates extension() of every dimension of both sides (layout.hpp:880-888, the two plain asserts of a_ext).
   Range equality is index_range.hpp:202-205 (all empty ranges are equal): r_eq / x_eq of Layout.v. *)
Inductive akind := AView | ASwap | ARef | AElems.
Definition numel_eq (dst src : view) : bool := l_num_elements (lay dst) =? l_num_elements (lay src).
Definition exts_eq (dst src : view) : bool :=
  asrt_observe dst && asrt_observe src && x_eq (l_extensions (lay dst)) (l_extensions (lay src)).
Definition asrt_assign (k : akind) (dst src : view) : bool :=
  match k with
  | AView => exts_eq dst src && numel_eq dst src
  | ASwap | ARef => exts_eq dst src
  | AElems => numel_eq dst src
  end.
(* the kinds that are assignments between VIEWS (elements() ranges are flat and compare sizes only) *)
Definition view_kind (k : akind) : bool := match k with AElems => false | _ => true end.
(* guarded assignment: the copy loop of Assign.v runs only if the assertion holds (Debug) *)
Definition g_assign (c : config) (k : akind) (conv : Z -> Z) (dst src : view) (m : mem) : outcome mem :=
  match c with
  | Debug => if asrt_assign k dst src then Done (assign_view conv dst src m) else Aborted
  | _ => Done (assign_view conv dst src m)
  end.
(* range / initializer-list assignment :2099, :2171, :999: size() == number of values *)
Definition asrt_assign_vals (n_vals : Z) (dst : view) : bool := v_size dst =? n_vals.

(* ---------------- layout_t::scale (member_cast, reinterpret_array_cast) ---------------- *)
(* detail/layout.hpp:985-989 AFTER the fix notes/patches_C20/scale-offset-rebased.diff: the offset is scaled with the stride,
     assert((stride_*num) % den == 0);  assert((offset_*num) % den == 0);
     return layout_t{sub_.scale(num, den), stride_*num/den, offset_*num/den, nelems_*num/den};
   (before the fix: assert(offset_ == 0) "TODO implement" and the offset left unscaled = Layout.d_scale, which is what
   C12 uses for zero-based views; the two agree there, see scale_fixed_zero_offset).  Plain asserts, every level. *)
Definition d_scale_fixed (num den : Z) (d : dim) : dim :=
  mkdim (Z.quot (d_stride d * num) den) (Z.quot (d_offset d * num) den) (Z.quot (d_nelems d * num) den).
Definition l_scale_fixed (num den : Z) (l : layout) : layout := map (d_scale_fixed num den) l.
Definition asrt_scale_stride (num den : Z) (l : layout) : bool :=
  forallb (fun d => Z.rem (d_stride d * num) den =? 0) l.
Definition asrt_scale_plain (num den : Z) (l : layout) : bool :=
  forallb (fun d => (Z.rem (d_stride d * num) den =? 0) && (Z.rem (d_offset d * num) den =? 0)) l.

(* C13 -- level 1: the call each adaptor routine builds, the reference semantics of the BLAS routine it calls, and the
   mathematical definition on the logical contents of the strided vector views.  Definitions only.
   Sources: axpy.hpp:29-41 (n = size(y)), scal.hpp:20-24, copy.hpp:22-33 (n = size(x)), swap.hpp (n = last - first of x),
   nrm2.hpp:21-24, asum.hpp, iamax.hpp + core.hpp:397 (`BLAS(ixamax)(n, x, incx) - 1`), axpy.hpp:153-165 (operator forms:
   y += a*x is axpy(+a, x, y), y -= a*x is axpy(-a, x, y)), scal.hpp:50-55 (x *= a is scal(a, x)).
   Reference semantics are given for POSITIVE increments (the views the theorems quantify over, wf_vec); with a negative
   increment reference BLAS walks the vector from its other end, which no theorem here relies on.  The update routines
   read the operands in the memory BEFORE the call (the semantics for operands that do not overlap). *)
From Coq Require Import ZArith List Bool.
From BM Require Import Model.BlasC13 Model.BlasC13Ref Model.BlasC13L1.
Local Open Scope Z_scope.
Local Open Scope bool_scope.

(* ---- the calls ---- *)
Definition axpy_call (x y : vec) : l1_call := mk_l1_call (len y) (vbase x) (inc x) (vbase y) (inc y).    (* axpy.hpp:41 *)
Definition copy_call (x y : vec) : l1_call := mk_l1_call (len x) (vbase x) (inc x) (vbase y) (inc y).    (* copy.hpp:32 *)
Definition swap_call (x y : vec) : l1_call := mk_l1_call (len x) (vbase x) (inc x) (vbase y) (inc y).    (* swap.hpp: swap_n(first, last - first, first2) *)
Definition scal_call (x : vec) : l1_call := l1_x x.                                                      (* scal.hpp:22 *)
Definition red_call (x : vec) : l1_call := l1_x x.                                                       (* nrm2 / asum / iamax *)

(* cell l of a strided BLAS vector *)
Definition l1_cell (p inc l : Z) : Z := p + l * inc.

(* "for l = 0 .. n-1: cell (p + l*inc) := f l", every other cell keeps its value (inc > 0) *)
Definition strided_update {R : Type} (n p inc : Z) (f : Z -> R) (mem : Z -> R) : Z -> R :=
  fun q => let d := q - p in
           if (0 <=? d) && (d mod inc =? 0) && (d / inc <? n) then f (d / inc) else mem q.

Section Carrier.
  Variable R : Type.
  Variable rzero : R.
  Variables radd rmul : R -> R -> R.
  Variable rneg : R -> R.

  (* xAXPY: y := alpha*x + y *)
  Definition axpy_ref (alpha : R) (c : l1_call) (mem : Z -> R) : Z -> R :=
    strided_update (l_n c) (l_py c) (l_incy c)
      (fun l => radd (rmul alpha (mem (l1_cell (l_px c) (l_incx c) l))) (mem (l1_cell (l_py c) (l_incy c) l))) mem.
  (* xSCAL: x := alpha*x *)
  Definition scal_ref (alpha : R) (c : l1_call) (mem : Z -> R) : Z -> R :=
    strided_update (l_n c) (l_px c) (l_incx c) (fun l => rmul alpha (mem (l1_cell (l_px c) (l_incx c) l))) mem.
  (* xCOPY: y := x *)
  Definition copy_ref (c : l1_call) (mem : Z -> R) : Z -> R :=
    strided_update (l_n c) (l_py c) (l_incy c) (fun l => mem (l1_cell (l_px c) (l_incx c) l)) mem.
  (* xSWAP: x, y := y, x (first the cells of y, then the cells of x, all read from the memory before the call) *)
  Definition swap_ref (c : l1_call) (mem : Z -> R) : Z -> R :=
    strided_update (l_n c) (l_px c) (l_incx c) (fun l => mem (l1_cell (l_py c) (l_incy c) l))
      (strided_update (l_n c) (l_py c) (l_incy c) (fun l => mem (l1_cell (l_px c) (l_incx c) l)) mem).

  (* the scalar the operator forms pass: axpy.hpp:153 (+a), :155 (-a) *)
  Definition axpy_op_scalar (minus : bool) (alpha : R) : R := if minus then rneg alpha else alpha.

  (* ---- reductions: Sc is the type of the real results ---- *)
  Variable Sc : Type.
  Variable szero : Sc.
  Variable sadd : Sc -> Sc -> Sc.
  Variable abs1 : R -> Sc.        (* |re| + |im| (xASUM, IxAMAX) *)
  Variable sq : R -> Sc.          (* |x|^2 (xNRM2) *)
  Variable root : Sc -> Sc.        (* square root *)
  Variable sltb : Sc -> Sc -> bool.  (* strict order on Sc *)

  (* xASUM / xNRM2: 0 when n < 1 or incx <= 0 *)
  Definition asum_ref (c : l1_call) (mem : Z -> R) : Sc :=
    if (l_n c <? 1) || (l_incx c <=? 0) then szero
    else zsum Sc szero sadd (l_n c) (fun l => abs1 (mem (l1_cell (l_px c) (l_incx c) l))).
  Definition nrm2_ref (c : l1_call) (mem : Z -> R) : Sc :=
    if (l_n c <? 1) || (l_incx c <=? 0) then szero
    else root (zsum Sc szero sadd (l_n c) (fun l => sq (mem (l1_cell (l_px c) (l_incx c) l)))).

  (* IxAMAX: the 1-based index of the FIRST element of largest abs1; 0 when n < 1 or incx <= 0.
     amax_scan k best: after the elements 0..k-1, `best` is the 0-based index of the first largest among them. *)
  Fixpoint amax_scan (v : Z -> Sc) (k : nat) : Z :=
    match k with
    | O => 0
    | S k' => let best := amax_scan v k' in
              if (0 <? Z.of_nat k') && sltb (v best) (v (Z.of_nat k')) then Z.of_nat k' else best
    end.
  Definition iamax_ref (c : l1_call) (mem : Z -> R) : Z :=
    if (l_n c <? 1) || (l_incx c <=? 0) then 0
    else 1 + amax_scan (fun l => abs1 (mem (l1_cell (l_px c) (l_incx c) l))) (Z.to_nat (l_n c)).
  (* what blas::iamax returns: core.hpp:397 *)
  Definition iamax_model (x : vec) (mem : Z -> R) : Z := iamax_ref (red_call x) mem - 1.

  (* ---- the mathematical definitions on the logical contents (plain views: vconj = false) ---- *)
  Definition xval (x : vec) (mem : Z -> R) (l : Z) : R := mem (vaddr x l).
  Definition asum_math (x : vec) (mem : Z -> R) : Sc := zsum Sc szero sadd (len x) (fun l => abs1 (xval x mem l)).
  Definition nrm2_math (x : vec) (mem : Z -> R) : Sc := root (zsum Sc szero sadd (len x) (fun l => sq (xval x mem l))).
  (* r is the index of the first element of largest abs1 *)
  Definition is_first_amax (x : vec) (mem : Z -> R) (r : Z) : Prop :=
    0 <= r < len x
    /\ (forall l, 0 <= l < len x -> sltb (abs1 (xval x mem r)) (abs1 (xval x mem l)) = false)
    /\ (forall l, 0 <= l < r -> sltb (abs1 (xval x mem l)) (abs1 (xval x mem r)) = true).
End Carrier.

Definition vec_disjoint (x y : vec) : Prop := forall i j, 0 <= i < len x -> 0 <= j < len y -> vaddr x i <> vaddr y j.

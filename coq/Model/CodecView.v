(* C17 -- serialization of views (subarray / const_subarray), function by function.

   Sources (pinned tree):
     include/boost/multi/array_ref.hpp:2324-2334   subarray::serialize        for_each over elements(), nvp "elem", element&
     include/boost/multi/array_ref.hpp:1867-1877   const_subarray::serialize  same, element const&  (saving only)
     include/boost/multi/array_ref.hpp:3259-3265   const_subarray<T,1>::serialize  begin()..end(), nvp "item"
     include/boost/multi/array_ref.hpp:2662-2669   0-D: the single element
   A view writes and reads no extents: it visits its elements in canonical (row-major) order of
   its own index tuples and hands each one to the archive.

   A view is its base address (offset in elements from the start of the buffer it lives in)
   and one (size, stride) pair per dimension, leading dimension first.  Views of zero-based
   arrays have zero offsets, so the address of index tuple (i0,i1,...) is base + sum ik*stridek
   (the C01 theorem).  Storage is a function from addresses to values; cells outside the buffer
   are the guard cells of the harness.

   Definitions only; no proofs in this file. *)
From Coq Require Import ZArith List Bool.
From BM Require Import Model.CodecArray.
Import ListNotations.
Local Open Scope Z_scope.

Record cview := mk_cview { cv_base : Z; cv_dims : list (Z * Z) }.   (* (size, stride) *)

(* addresses of the elements in canonical order: elements() of array_ref.hpp:680-900, the order
   extensions_t::next_canonical (layout.hpp:187-205) produces *)
Fixpoint cv_addrs_from (b : Z) (dims : list (Z * Z)) : list Z :=
  match dims with
  | [] => [b]
  | (n, st) :: rest => flat_map (fun i => cv_addrs_from (b + i * st) rest) (zseq 0 (Z.to_nat n))
  end.
Definition cv_addrs (v : cview) : list Z := cv_addrs_from (cv_base v) (cv_dims v).
Definition cv_sizes (v : cview) : list Z := map fst (cv_dims v).
Definition cv_extents (v : cview) : list crange := map (fun d => (0, fst d)) (cv_dims v).
Fixpoint cv_dot (idx : list Z) (dims : list (Z * Z)) : Z :=
  match idx, dims with
  | i :: idx', (_, st) :: rest => i * st + cv_dot idx' rest
  | _, _ => 0
  end.
Definition cv_addr (v : cview) (idx : list Z) : Z := cv_base v + cv_dot idx (cv_dims v).

(* ---- how the harness makes views, through the public API only ----
   root: array_ref<T,R>(buffer + base, sizes)  -- row-major strides
   per dimension k, leading first:   v[i]                      (drops the dimension), or
                                     v.sliced(a,b).strided(s)  then .rotated()
   then r times .rotated() and optionally .transposed() *)
Fixpoint cv_rowmajor (sizes : list Z) : list (Z * Z) :=
  match sizes with
  | [] => []
  | n :: rest => let sub := cv_rowmajor rest in
                 (n, fold_right Z.mul 1 rest) :: sub
  end.
Inductive cdimop := CIndex (i : Z) | CRange (a b s : Z).
(* array_ref.hpp:1244 (index), 1272 (sliced), layout.hpp:975 (strided: size = nelems / (stride*s)) *)
Fixpoint cv_apply_dimops (b : Z) (dims : list (Z * Z)) (ops : list cdimop) : Z * list (Z * Z) :=
  match dims, ops with
  | (n, st) :: rest, CIndex i :: ops' => cv_apply_dimops (b + i * st) rest ops'
  | (n, st) :: rest, CRange a e s :: ops' =>
      let '(b', rest') := cv_apply_dimops (b + a * st) rest ops' in
      (b', (Z.quot (e - a) s, st * s) :: rest')
  | _, _ => (b, dims)
  end.
Definition cv_rot (dims : list (Z * Z)) : list (Z * Z) :=
  match dims with [] => [] | d :: r => r ++ [d] end.
Definition cv_transpose (dims : list (Z * Z)) : list (Z * Z) :=
  match dims with a :: b :: r => b :: a :: r | _ => dims end.
Fixpoint cv_iter_rot (k : nat) (dims : list (Z * Z)) : list (Z * Z) :=
  match k with O => dims | S k' => cv_iter_rot k' (cv_rot dims) end.
Definition cv_recipe (base : Z) (sizes : list Z) (ops : list cdimop) (rots : nat) (transp : bool) : cview :=
  let '(b, dims) := cv_apply_dimops base (cv_rowmajor sizes) ops in
  let dims1 := cv_iter_rot rots dims in
  mk_cview b (if transp then cv_transpose dims1 else dims1).

Fixpoint z_nodupb (l : list Z) : bool :=
  match l with [] => true | a :: r => negb (existsb (Z.eqb a) r) && z_nodupb r end.

Section ViewCodec.
  Variable value : Type.
  Variable token : Type.
  Variable enc : value -> list token.
  Variable dec : value -> list token -> option (value * list token).

  Definition storage := Z -> value.
  Definition st_upd (s : storage) (a : Z) (v : value) : storage :=
    fun k => if k =? a then v else s k.

  (* array_ref.hpp:2324-2334 / 1867-1877, saving *)
  Definition save_view (v : cview) (s : storage) : list token :=
    flat_map (fun a => enc (s a)) (cv_addrs v).

  (* array_ref.hpp:2324-2334, loading: each element of elements(), in order, is read in place *)
  Fixpoint load_addrs (addrs : list Z) (t : list token) (s : storage) : option (storage * list token) :=
    match addrs with
    | [] => Some (s, t)
    | a :: rest =>
        match dec (s a) t with
        | None => None
        | Some (v, t1) => load_addrs rest t1 (st_upd s a v)
        end
    end.
  Definition load_view (w : cview) (t : list token) (s : storage) : option (storage * list token) :=
    load_addrs (cv_addrs w) t s.
End ViewCodec.

Arguments st_upd {value}.
Arguments save_view {value token}.
Arguments load_addrs {value token}.
Arguments load_view {value token}.

(* the instances that are run: integer-keyed elements and nested arrays; the buffer is a list *)
Definition st_of_list {A} (d : A) (l : list A) : Z -> A :=
  fun k => if k <? 0 then d else nth (Z.to_nat k) l d.
Definition st_window {A} (s : Z -> A) (n : nat) : list A := map s (zseq 0 n).

Definition save_view_flat (v : cview) (buf : list Z) : list Z :=
  save_view tok_enc v (st_of_list 0 buf).
Definition load_view_flat (w : cview) (t : list Z) (buf : list Z) : option (list Z * list Z) :=
  match load_view tok_dec w t (st_of_list 0 buf) with
  | None => None
  | Some (s, r) => Some (st_window s (length buf), r)
  end.
Definition save_view_nested (v : cview) (buf : list (carr Z)) : list Z :=
  save_view save_flat v (st_of_list nested_dflt buf).
Definition load_view_nested (w : cview) (t : list Z) (buf : list (carr Z)) : option (list (carr Z) * list Z) :=
  match load_view load_flat w t (st_of_list nested_dflt buf) with
  | None => None
  | Some (s, r) => Some (st_window s (length buf), r)
  end.

(* C20, follow-up 4: the RECEIVER of an indexing call and the ENTRY POINT it goes through.
   Asserts.v models "v[i0][i1]..." on one kind of object.  The library has five classes that can be indexed
   (const_subarray, subarray, move_subarray, array_ref, static_array / array), each in up to three value categories, and
   eleven ways of reaching an element (operator[], operator(), apply, operator[](tuple), front, back, iterator [] and *,
   end()[-k], cursor, elements_at).  This file transcribes, for every receiver kind, WHICH overload of operator[](index)
   overload resolution selects, WHICH assertion that overload evaluates, and WHAT it returns (= the receiver kind of the
   next level), and for every entry point which levels go through an operator[] at all.
   Line numbers: /repo HEAD 9e89822, include/boost/multi/array_ref.hpp unless array.hpp is named.  Definitions only. *)
From Coq Require Import ZArith List Bool.
From BM Require Import Model.Layout Model.View Model.Asserts.
Import ListNotations.
Local Open Scope Z_scope.

(* ---------------- receivers ---------------- *)
(* class x value category; T = a prvalue temporary, P = the prvalue array returned by unary + on a view *)
Inductive recv :=
  | RCvL | RCvC | RCvR                       (* const_subarray :1020 : named lvalue, const lvalue, rvalue *)
  | RSvL | RSvC | RSvR | RSvT                (* subarray :1914 *)
  | RMvL | RMvR                              (* move_subarray :1889 (element_moved(), std::move(A)[i] for D > 1) *)
  | RRefL | RRefC | RRefR | RRefT            (* array_ref :3338 (no operator[] of its own: subarray's) *)
  | RArrL | RArrC | RArrR | RArrT | RArrP    (* array, array.hpp:1160 (no operator[] of its own: static_array's) *)
  | RStaL | RStaC | RStaR.                   (* static_array, array.hpp:122 *)

(* ---------------- the overloads of operator[](index) ---------------- *)
Inductive ovl :=
  | OvConst   (* const_subarray<T,D>::operator[](index) const&   :1145 (D > 1; its own assertion :1146)
                 const_subarray<T,1>::operator[](index) const&   :2866 -> at_aux_ :2838 (assertion :2839)            *)
  | OvSubL    (* subarray::operator[](index) &                   :2193 -> at_aux_ :1120 (assertion :1121) / :2838   *)
  | OvSubR    (* subarray::operator[](index) &&                  :2192 -> at_aux_                                   *)
  | OvMoveR   (* move_subarray::operator[](index) &&             :1897  multi::move(subarray::operator[](idx)):
                 inside the member function *this is an lvalue, so the qualified call selects :2193                 *)
  | OvStaR.   (* static_array::operator[](index) &&              array.hpp:542  multi::move(ref::operator[](idx)):
                 ref = array_ref, the call selects :2193                                                            *)

(* overload resolution for  r[i]  (`using const_subarray::operator[]` :2190, `using subarray::operator[]` :1896,
   `using ref::operator[]` array.hpp:541 make the base overloads visible next to the class's own) *)
Definition ov_of (r : recv) : ovl :=
  match r with
  | RCvL | RCvC | RCvR => OvConst                  (* const_subarray has the const& overload only (:1158-1159 commented out) *)
  | RSvL | RRefL | RMvL | RArrL | RStaL => OvSubL
  | RSvC | RRefC | RArrC | RStaC => OvConst
  | RSvR | RSvT | RRefR | RRefT => OvSubR
  | RMvR => OvMoveR
  | RArrR | RArrT | RArrP | RStaR => OvStaR
  end.

(* the assertion each overload evaluates before it forms base_ + (idx*stride - offset):
     BOOST_MULTI_ASSERT((this->stride()==0 || (this->extension().contains(idx))) && ("out of bounds"));
   written out three times in the source (:1121 at_aux_ D>1, :1146 operator[] const& D>1, :2839 at_aux_ D=1) *)
Definition asrt_at_aux (i : Z) (v : view) : bool :=           (* :1121 / :2839 *)
  match lay v with
  | [] => true
  | d :: _ => (d_stride d =? 0) || (a_ext d && r_contains (d_extension d) i)
  end.
Definition asrt_index_const (i : Z) (v : view) : bool :=      (* :1146; D = 1: :2866 calls at_aux_ *)
  match lay v with
  | [] => true
  | [_] => asrt_at_aux i v
  | d :: _ => (d_stride d =? 0) || (a_ext d && r_contains (d_extension d) i)
  end.
Definition ov_asrt (o : ovl) (i : Z) (v : view) : bool :=
  match o with
  | OvConst => asrt_index_const i v
  | OvSubL | OvSubR => asrt_at_aux i v
  | OvMoveR | OvStaR => asrt_at_aux i v            (* through :2193 *)
  end.
(* what the overload returns for D > 1, as the receiver of the next [] :
     const_reference = const_subarray prvalue; reference = subarray prvalue; multi::move(subarray) = move_subarray prvalue *)
Definition ov_next (o : ovl) : recv :=
  match o with OvConst => RCvR | OvSubL | OvSubR => RSvT | OvMoveR | OvStaR => RMvR end.

(* ---------------- guarded access, level by level, with the overload each level selects ---------------- *)
Definition g_index_ov (c : config) (o : ovl) (i : Z) (v : view) : outcome view :=
  match c with
  | Debug => if ov_asrt o i v then Done (v_index i v) else Aborted
  | _ => Done (v_index i v)
  end.
(* r[i0][i1]... : the receiver of each level is what the previous level returned *)
Fixpoint g_brackets_r (c : config) (r : recv) (v : view) (idx : list Z) : outcome Z :=
  match idx with
  | [] => Done (base v)
  | i :: rest =>
      match g_index_ov c (ov_of r) i v with
      | Done v' => g_brackets_r c (ov_next (ov_of r)) v' rest
      | Aborted => Aborted
      end
  end.
(* the same with an arbitrary choice of overload at every level (what any entry point below amounts to) *)
Fixpoint g_levels (c : config) (ovs : list ovl) (v : view) (idx : list Z) : outcome Z :=
  match idx, ovs with
  | [], _ => Done (base v)
  | i :: rest, o :: ovs' =>
      match g_index_ov c o i v with Done v' => g_levels c ovs' v' rest | Aborted => Aborted end
  | i :: rest, [] =>
      match g_index_ov c OvConst i v with Done v' => g_levels c [] v' rest | Aborted => Aborted end
  end.
Fixpoint abort_level_ov (ovs : list ovl) (v : view) (idx : list Z) : option nat :=
  match idx with
  | [] => None
  | i :: rest =>
      let o := hd OvConst ovs in
      if ov_asrt o i v then option_map S (abort_level_ov (tl ovs) (v_index i v) rest) else Some O
  end.

(* ---------------- entry points ---------------- *)
Inductive entry :=
  | EBrackets     (* r[i0][i1]...                                                                                       *)
  | ECall         (* r(i0, i1, ...): operator() const& :1553-1556 / & :2239-2242 / && :2244-2247 -> paren_aux_(idx, args...)
                     const& :1549 / & :2218 / && :2219 = operator[](idx).paren_aux_(args...); D = 1: :3031, :3038.
                     Inside paren_aux_ && the object is an lvalue: the && receivers take :2193, never :2192 / :1897 /
                     array.hpp:542                                                                                      *)
  | EApply        (* r.apply(tuple): const& :1562 / & :2260 / && :2259 -> apply_impl_ -> operator()(get<I>(tuple)...)   *)
  | ETupleBr      (* r[tuple], D = 1: :2889 const& -> operator[](get<0>(indices)) on a const object                     *)
  | EFront        (* r.front()[i1]...: front() const& :1173 (D>1), :2868 (D=1) = *begin(); array_iterator::operator* :546
                     = *ptr_ (:391) builds the reference from (layout, base): NO assertion; the object returned is a
                     const_subarray                                                                                     *)
  | EBack         (* r.back()[i1]...:  back() const& :1174 = *(end() - 1), :2869 = *std::prev(end(), 1): NO assertion    *)
  | EItIndex      (* r.begin()[k][i1]...: array_iterator::operator[] :561 (D>1) = *(( *this) + n), :2465 (D=1): NO
                     assertion (an iterator holds a pointer and a stride, not the extension)                            *)
  | EItDeref      (* ( *(r.begin() + k))[i1]...: operator+ :560, operator* :546 / :2548: NO assertion                    *)
  | EEndIndex     (* r.end()[k - size][i1]...                                                                           *)
  | ECursor       (* r.home()[k0][k1]...: cursor_t::operator[] :703-717 adds stride*n to the pointer: NO assertion at any
                     level (README:1914-1919: cursors hold minimal information for indexing)                            *)
  | EElemsAt.     (* r.elements_at(n): const& :1310 / && :1315 / & :1320 (D>1), :2907-2909 (D=1)                        *)

(* does the FIRST level of the entry go through an operator[](index) (and so through an assertion)? *)
Definition first_checked (e : entry) : bool :=
  match e with EBrackets | ECall | EApply | ETupleBr => true | _ => false end.
(* the overload the first level selects, when there is one *)
Definition ov_first (e : entry) (r : recv) : ovl :=
  match e with
  | EBrackets => ov_of r
  | ECall | EApply =>                    (* paren_aux_ const& on a const object: OvConst; & and && : the object is an lvalue *)
      match ov_of r with OvConst => OvConst | _ => OvSubL end
  | _ => OvConst
  end.
(* what the first level returns: begin() const& gives a const_iterator, & an iterator, && (static_array, array.hpp:535) a
   move_iterator; front() / back() exist as const& only *)
Definition first_result (e : entry) (r : recv) : recv :=
  match e with
  | EBrackets | ECall | EApply | ETupleBr => ov_next (ov_first e r)
  | EFront | EBack => RCvR
  | EItIndex | EItDeref | EEndIndex =>
      match ov_of r with OvConst => RCvR | OvSubL | OvSubR => RSvT | OvMoveR | OvStaR => RMvR end
  | ECursor | EElemsAt => RCvR
  end.

(* guarded access through an entry point: idx is the FULL index tuple; for the unchecked first levels the entry point
   itself decides the first index (front: the first index, back: the last, iterators: first + k) and the caller passes it *)
Definition g_entry (c : config) (e : entry) (r : recv) (v : view) (idx : list Z) : outcome Z :=
  match e, idx with
  | ECursor, _ => Done (addr_brackets v idx)                              (* no assertion at any level *)
  | _, [] => Done (base v)
  | _, i :: rest =>
      if first_checked e then
        match g_index_ov c (ov_first e r) i v with
        | Done v' => g_brackets_r c (first_result e r) v' rest
        | Aborted => Aborted
        end
      else g_brackets_r c (first_result e r) (v_index i v) rest
  end.
(* the level that aborts (None: none): what the death harness compares, as `rank` *)
Definition abort_level_entry (e : entry) (v : view) (idx : list Z) : option nat :=
  match e, idx with
  | ECursor, _ => None
  | _, [] => None
  | _, i :: rest =>
      if first_checked e then abort_level v idx
      else option_map S (abort_level (v_index i v) rest)
  end.

(* ---------------- elements_at ---------------- *)
(* D > 1 :1310-1324 (the three value categories have the same body)
       BOOST_MULTI_ASSERT(idx < this->num_elements());                      size_type is SIGNED (detail/types.hpp:14)
       auto const sub_num_elements = this->begin()->num_elements();
       return operator[](idx / sub_num_elements).elements_at(idx % sub_num_elements);
   D = 1 :2907-2909   BOOST_MULTI_ASSERT(idx < this->num_elements()); return operator[](idx);
   The index handed to operator[] is counted from 0, the extension starts at its first index: on an array with index bases
   the inner operator[] assertion fires on a valid position (or, with NDEBUG, another element is returned).
   `pinned` = the code as it is; `fixed` = notes/patches_C20/elements-at-rebased.diff (first index added). *)
Definition asrt_elements_at (n : Z) (v : view) : bool := n <? l_num_elements (lay v).
Fixpoint elements_at_idx (fixed : bool) (l : layout) (n : Z) : list Z :=
  match l with
  | [] => []
  | d :: sub =>
      let s := l_num_elements sub in
      ((if fixed then fst (d_extension d) else 0) + Z.quot n s) :: elements_at_idx fixed sub (Z.rem n s)
  end.
(* the inner assertions: asrt_elements_at at every level (on the remainder) and the operator[] assertion of every level *)
Fixpoint asrt_elements_at_all (fixed : bool) (v : view) (n : Z) (fuel : nat) : bool :=
  match fuel with
  | O => true
  | S fuel' =>
      match lay v with
      | [] => true
      | d :: sub =>
          let s := l_num_elements sub in
          let i := (if fixed then fst (d_extension d) else 0) + Z.quot n s in
          asrt_elements_at n v && asrt_index i v && asrt_elements_at_all fixed (v_index i v) (Z.rem n s) fuel'
      end
  end.
Definition g_elements_at (c : config) (fixed : bool) (v : view) (n : Z) : outcome Z :=
  match c with
  | Debug => if asrt_elements_at_all fixed v n (length (lay v)) then Done (addr_brackets v (elements_at_idx fixed (lay v) n)) else Aborted
  | _ => Done (addr_brackets v (elements_at_idx fixed (lay v) n))
  end.

(* C13 -- trsm: reference xTRSM as a RELATION between the memory before and after the call (the routine solves a
   triangular system; what is specified is the equation the solution satisfies, plus the frame), the equation on the
   logical contents of the views, and the decidable criterion "this xTRSM call solves this view-level system".
   Definitions only.  xTRSM(side, uplo, transa, diag, m, n, alpha, A, lda, B, ldb):  op(A).X = alpha.B (side 'L', A is m x m)
   or X.op(A) = alpha.B (side 'R', A is n x n); only the uplo triangle of A is referenced, its diagonal is taken as 1
   when diag = 'U'; X overwrites the m x n column-major B. *)
From Coq Require Import ZArith List Bool.
From BM Require Import Model.BlasC13 Model.BlasC13Ref Model.BlasC13Crit Model.BlasC13L3.
Local Open Scope Z_scope.
Local Open Scope bool_scope.

Definition trsm_trans (k : trsm_call) : trans :=
  if t_trans k =? ch_N then TN else if t_trans k =? ch_C then TC else TT.

Section Carrier.
  Variable R : Type.
  Variables rzero rone : R.
  Variables radd rmul : R -> R -> R.
  Variable cj : R -> R.

  (* element (r,c) of the triangular matrix BLAS reads out of the stored array A *)
  Definition tri_entry (uplo_u unit : bool) (A : Z -> Z -> R) (r c : Z) : R :=
    if r =? c then (if unit then rone else A r c)
    else if (if uplo_u then r <? c else c <? r) then A r c else rzero.

  (* element (r,c) of op(tri(A)) *)
  Definition trsm_op (k : trsm_call) (mem : Z -> R) (r c : Z) : R :=
    let A := fun i j => mem (t_pa k + i + j * t_lda k) in
    let T := tri_entry (t_uplo k =? ch_U) (t_diag k =? ch_U) A in
    match trsm_trans k with TN => T r c | TT => T c r | TC => cj (T c r) end.

  Definition trsm_b (k : trsm_call) (mem : Z -> R) (i j : Z) : R := mem (t_pb k + i + j * t_ldb k).

  (* mem' is a possible memory after xTRSM(k) with scalar alpha on mem *)
  Definition trsm_post (alpha : R) (k : trsm_call) (mem mem' : Z -> R) : Prop :=
       (forall p, (forall i j, 0 <= i < t_m k -> 0 <= j < t_n k -> p <> t_pb k + i + j * t_ldb k) -> mem' p = mem p)
    /\ (if t_side k =? ch_L
        then forall i j, 0 <= i < t_m k -> 0 <= j < t_n k ->
               zsum R rzero radd (t_m k) (fun l => rmul (trsm_op k mem i l) (trsm_b k mem' l j)) = rmul alpha (trsm_b k mem i j)
        else forall i j, 0 <= i < t_m k -> 0 <= j < t_n k ->
               zsum R rzero radd (t_n k) (fun l => rmul (trsm_b k mem' i l) (trsm_op k mem l j)) = rmul alpha (trsm_b k mem i j)).

  (* the triangular matrix the caller means: the lower / upper triangle of the logical contents of a, unit diagonal on request *)
  Definition tri_view (lower unit : bool) (a : mat) (mem : Z -> R) (r c : Z) : R :=
    if r =? c then (if unit then rone else mval R cj a mem r c)
    else if (if lower then c <? r else r <? c) then mval R cj a mem r c else rzero.

  (* tri(a).X = alpha.B (left) resp. X.tri(a) = alpha.B (right) on the logical contents; X is b after, B is b before *)
  Definition trsm_math (left lower unit : bool) (alpha : R) (a b : mat) (mem mem' : Z -> R) : Prop :=
    if left
    then forall i j, 0 <= i < rows b -> 0 <= j < cols b ->
           zsum R rzero radd (rows b) (fun l => rmul (tri_view lower unit a mem i l) (mval R cj b mem' l j)) = rmul alpha (mval R cj b mem i j)
    else forall i j, 0 <= i < rows b -> 0 <= j < cols b ->
           zsum R rzero radd (cols b) (fun l => rmul (mval R cj b mem' i l) (tri_view lower unit a mem l j)) = rmul alpha (mval R cj b mem i j).
End Carrier.

(* the criterion.  M is the order of the triangular matrix.  "direct": the column-major B of the call is the view b and the
   side is the caller's; "transposed": B is b^T and the side is swapped (a.X = alpha.b  <=>  X^T.a^T = alpha.b^T).
   stored_as_a: element (r,c) of the stored array A is the cell of a(r,c) (else it is the cell of a(c,r)); then the BLAS
   triangle is the caller's, otherwise the opposite one.  A conjugated b conjugates the whole equation: the scalar must be
   conj(alpha) and op(A) must come out conjugated, i.e. the flag is 'C' exactly when one of a, b is conjugated. *)
Definition trsm_implements_b (left lower unit : bool) (k : trsm_call) (a b : mat) : bool :=
  let M := if left then rows b else cols b in
  let t := trsm_trans k in
  let side_l := (t_side k =? ch_L) in
  let direct := Bool.eqb side_l left in
  let stored_as_a := Bool.eqb direct (is_n t) in
  trsm_legal k
  && Bool.eqb (t_diag k =? ch_U) unit
  && Bool.eqb (t_conj_alpha k) (mconj b)
  && Bool.eqb (opconj t) (xorb (mconj a) (mconj b))
  && (if direct then (t_m k =? rows b) && (t_n k =? cols b) else (t_m k =? cols b) && (t_n k =? rows b))
  && ((rows b <=? 0) || (cols b <=? 0)
      || ((t_pb k =? mbase b)
          && (if direct then agree (rows b) (cols b) 1 (t_ldb k) (s0 b) (s1 b) else agree (rows b) (cols b) (t_ldb k) 1 (s0 b) (s1 b))
          && (t_pa k =? mbase a)
          && (if stored_as_a then agree M M 1 (t_lda k) (s0 a) (s1 a) else agree M M (t_lda k) 1 (s0 a) (s1 a))
          && Bool.eqb (t_uplo k =? ch_U) (if stored_as_a then negb lower else lower))).

(* the sites of trsm_dispatch satisfy the criterion when the leading dimensions they take from the strides are legal *)
Definition trsm_site_cond (k : trsm_call) : bool := trsm_legal k.

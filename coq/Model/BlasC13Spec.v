(* C13 -- the statements, as definitions (the full-strength statement is FALSE of the pinned code at many call
   sites; Proofs/BlasC13Refuted.v refutes it site by site, Properties_C13.v proves the partial statements). *)
From Coq Require Import ZArith List Bool.
From BM Require Import Model.BlasC13 Model.BlasC13Ref.
Local Open Scope Z_scope.

Section Carrier.
  Variable R : Type.
  Variable rzero : R.
  Variables radd rmul : R -> R -> R.
  Variable cj : R -> R.

  (* legality + result + frame of one xGEMM call with respect to the product of the views a, b into c *)
  Definition gemm_correct_at (alpha beta : R) (a b c : mat) (k : gemm_call) (mem : Z -> R) : Prop :=
       gemm_legal k = true
    /\ (forall i j, 0 <= i < rows c -> 0 <= j < cols c ->
          gemm_ref R rzero radd rmul cj alpha beta k mem (maddr c i j) = gemm_math R rzero radd rmul cj alpha beta a b c mem i j)
    /\ (forall p, ~ in_mat c p -> gemm_ref R rzero radd rmul cj alpha beta k mem p = mem p).

  Definition gemv_correct_at (alpha beta : R) (m : mat) (x y : vec) (k : gemv_call) (mem : Z -> R) : Prop :=
       gemv_legal k = true
    /\ (forall i, 0 <= i < rows m ->
          gemv_ref R rzero radd rmul cj alpha beta k mem (vaddr y i) = gemv_math R rzero radd rmul cj alpha beta m x y mem i)
    /\ (forall p, ~ in_vec y p -> gemv_ref R rzero radd rmul cj alpha beta k mem p = mem p).
End Carrier.

(* "every call the dispatch makes at site s is right", over every carrier with a commutative multiplication *)
Definition gemm_site_full (s : Z) : Prop :=
  forall (R : Type) (rzero : R) (radd rmul : R -> R -> R) (cj : R -> R),
    (forall x y, rmul x y = rmul y x) ->
    forall (alpha beta : R) (a b c : mat) (k : gemm_call) (mem : Z -> R),
      wf_mat a -> wf_mat b -> wf_mat c -> shapes_conform a b c -> mconj c = false ->
      gemm_n a b c = OCall k -> g_site k = s ->
      gemm_correct_at R rzero radd rmul cj alpha beta a b c k mem.

(* the full statement of the property for gemm: every accepted combination is computed correctly *)
Definition C13_gemm_full : Prop := forall s, gemm_site_full s.

Definition gemv_site_full (s : Z) : Prop :=
  forall (R : Type) (rzero : R) (radd rmul : R -> R -> R) (cj : R -> R),
    forall (alpha beta : R) (m : mat) (x y : vec) (k : gemv_call) (mem : Z -> R),
      wf_mat m -> wf_vec x -> wf_vec y -> gemv_shapes m x y -> vconj x = false -> vconj y = false ->
      gemv_n m x y = VCall k -> v_site k = s ->
      gemv_correct_at R rzero radd rmul cj alpha beta m x y k mem.
Definition C13_gemv_full : Prop := forall s, gemv_site_full s.

(* C03: what a standard algorithm can do to a random-access range whose references are proxies.
   A range is a family of sub-views  row : position -> view  (position p is *(first + p)):
     begin()/end() of a view v      : rows_of v p  = it_deref (it_add (it_begin v) p)   (array_ref.hpp:476-660, 1623-1624;
                                      D = 1: the element iterator :2350-2560, the "row" is a rank-0 view = one element)
     elements() of a view v         : elems_of v p = the element elements()[p]           (array_ref.hpp:749-1003)
   By C02 every iterator obtained by ++ -- += -= inside [first, last] designates the integer position the
   arithmetic computes, so positions are plain integers and iterator manipulation needs no constructor.
   A `value` (iterator::value_type, array_ref.hpp:494-519: subarray<T,D-1>::decay_type = array<T,D-1>, :1105;
   the element type for D = 1 / elements()) is an independent nested value: Compare.tree.
   Programs are a free monad over the operations on references (`prog`); run_on_view executes them on the
   storage through the library's own proxy operations (Assign.v / Compare.v, reused), run_on_values on a list
   of independent values.  Line numbers: /repo at 59eddc2.  Definitions only. *)
From Coq Require Import ZArith List Bool.
From BM Require Import Model.Layout Model.View Model.Spec Model.Iter Model.Assign Model.Compare.
Import ListNotations.
Local Open Scope Z_scope.

Definition value := tree.

Inductive prog (A : Type) : Type :=
| Ret   (a : A)
| Read  (p : Z) (k : value -> prog A)            (* value_type x = *it;              x is an independent copy       *)
| Take  (p : Z) (k : value -> prog A)            (* value_type x = std::move( *it);   (sort, rotate, partition ...)  *)
| Write (p : Z) (x : value) (k : prog A)         (* *it = x;  *it = std::move(x)                                    *)
| Copy  (p q : Z) (k : prog A)                   (* *it = *jt            proxy from proxy: deep                     *)
| Move  (p q : Z) (k : prog A)                   (* *it = std::move( *jt)                                            *)
| Swap  (p q : Z) (k : prog A)                   (* std::iter_swap(it, jt) / swap( *it, *jt)                         *)
| Less  (p q : Z) (k : bool -> prog A)           (* *it < *jt                                                       *)
| LessV (p : Z) (x : value) (k : bool -> prog A) (* *it < x     (pivot / searched value held by value)              *)
| VLess (x : value) (p : Z) (k : bool -> prog A) (* x < *it                                                         *)
| Eq    (p q : Z) (k : bool -> prog A)           (* *it == *jt  (unique, equal)                                     *)
| EqV   (p : Z) (x : value) (k : bool -> prog A). (* *it == x    (find, remove, count)                               *)
Arguments Ret {A}. Arguments Read {A}. Arguments Take {A}. Arguments Write {A}. Arguments Copy {A}.
Arguments Move {A}. Arguments Swap {A}. Arguments Less {A}. Arguments LessV {A}. Arguments VLess {A}.
Arguments Eq {A}. Arguments EqV {A}.

Fixpoint bind {A B : Type} (m : prog A) (f : A -> prog B) : prog B :=
  match m with
  | Ret a => f a
  | Read p k => Read p (fun x => bind (k x) f)
  | Take p k => Take p (fun x => bind (k x) f)
  | Write p x k => Write p x (bind k f)
  | Copy p q k => Copy p q (bind k f)
  | Move p q k => Move p q (bind k f)
  | Swap p q k => Swap p q (bind k f)
  | Less p q k => Less p q (fun b => bind (k b) f)
  | LessV p x k => LessV p x (fun b => bind (k b) f)
  | VLess x p k => VLess x p (fun b => bind (k b) f)
  | Eq p q k => Eq p q (fun b => bind (k b) f)
  | EqV p x k => EqV p x (fun b => bind (k b) f)
  end.

(* ---------------- the two kinds of ranges ---------------- *)
(* *(begin() + p): array_iterator::operator* on begin_aux_() advanced p times (Iter.v) *)
Definition rows_of (v : view) : Z -> view := fun p => it_deref (it_add (it_begin v) p).
(* elements()[p] / *(elements().begin() + p): the p-th element in canonical order (C02), as a rank-0 view *)
Definition elems_of (v : view) : Z -> view := fun p => mkview [] (e_addr v p).
(* two ranges side by side (two-range algorithms: copy, swap_ranges, equal, ...): positions 0..na-1 are a's *)
Definition cat_rows (ra : Z -> view) (na : Z) (rb : Z -> view) : Z -> view :=
  fun p => if p <? na then ra p else rb (p - na).

(* ---------------- execution on the storage, through the library's proxy operations ---------------- *)
Definition vals (m : mem) : Z -> Z := fun a => c_val (m a).
Definition rank0 (w : view) : bool := match lay w with [] => true | _ :: _ => false end.

(* the nested value a proxy designates *)
Definition rd0 (w : view) (m : mem) : value := v_tree w (vals m).
(* value_type x = *it : array<T,D-1>(subarray const&) allocates layout_t(extensions()) and copies elements()
   (array.hpp:376-388); T x = elem for rank 0.  layout_t(extensions) gives EVERY dimension size 0 as soon as an inner
   extent is 0 (layout.hpp:735-745, Spec.collapse): a row of sizes (3,0) decays to an array of sizes (0,0), which is
   not the row's shape any more (and compares as a proper prefix of every such row). *)
Definition collapses (sz : list Z) : bool := negb (list_eqb (collapse sz) sz).
Definition rd (w : view) (m : mem) : value := if collapses (l_sizes (lay w)) then Node [] else rd0 w m.
(* value_type x = std::move( *it): array(subarray&&) uses std::move(other).elements().begin(), a plain (copying)
   iterator (array.hpp:393-400); for an element it is T's move constructor: the source becomes moved-from *)
Definition do_take (w : view) (m : mem) : mem :=
  if rank0 w then upd m (base w) (mkcell (c_val (m (base w))) true) else m.
(* *it = x : subarray::operator=(const_subarray<TT,D,As...> const&) && -> elements() = x.elements() (array_ref.hpp:2125-2131, 976-995);
   x lives outside the storage, its elements arrive in canonical order *)
Definition do_write (w : view) (x : value) (m : mem) : mem := assign_vals (flat_t x) w m.
(* *it = *jt : array_ref.hpp:2048-2053 / 2083-2090 / 2125-2131 (every overload is elements() = other.elements()) *)
Definition do_copy (d s : view) (m : mem) : mem := assign_view (fun z => z) d s m.
(* *it = std::move( *jt): for proxies operator=(subarray&&) does elements() = std::move(other).elements(), and
   elements() && is the same copying range (:2086-2090, :2133-2139, :2162-2167): a deep COPY, the source row keeps its
   elements; for an element (rank 0) it is T's move assignment *)
Definition do_move (d s : view) (m : mem) : mem :=
  if rank0 d then move_view d s m else assign_view (fun z => z) d s m.
(* iter_swap -> swap(subarray&&, subarray&&) -> adl_swap_ranges over elements() (:2055-2059) *)
Definition do_swap (a b : view) (m : mem) : mem := swap_views a b m.
(* *it < *jt, *it == *jt : Compare.v (:1664-1691) *)
Definition do_less (a b : view) (m : mem) : bool := v_lt a b (vals m).
Definition do_eq (a b : view) (m : mem) : bool := v_eq a b (vals m).
(* comparison of a proxy with an independent value of the same shape: same operators with an array<T,D-1> operand,
   whose index bases are 0 like the row's (the pre-test on extension().first() is neutral, C07 v_lt_zero_based) *)
Definition do_lessv (a : view) (x : value) (m : mem) : bool := lt_depth (length (lay a)) (rd0 a m) x.
Definition do_vless (x : value) (a : view) (m : mem) : bool := lt_depth (length (lay a)) x (rd0 a m).
Definition do_eqv (a : view) (x : value) (m : mem) : bool := list_eqb (flat_t (rd0 a m)) (flat_t x).

Fixpoint run_on_view {A : Type} (row : Z -> view) (pr : prog A) (m : mem) : mem * A :=
  match pr with
  | Ret a => (m, a)
  | Read p k => run_on_view row (k (rd (row p) m)) m
  | Take p k => run_on_view row (k (rd (row p) m)) (do_take (row p) m)
  | Write p x k => run_on_view row k (do_write (row p) x m)
  | Copy p q k => run_on_view row k (do_copy (row p) (row q) m)
  | Move p q k => run_on_view row k (do_move (row p) (row q) m)
  | Swap p q k => run_on_view row k (do_swap (row p) (row q) m)
  | Less p q k => run_on_view row (k (do_less (row p) (row q) m)) m
  | LessV p x k => run_on_view row (k (do_lessv (row p) x m)) m
  | VLess x p k => run_on_view row (k (do_vless x (row p) m)) m
  | Eq p q k => run_on_view row (k (do_eq (row p) (row q) m)) m
  | EqV p x k => run_on_view row (k (do_eqv (row p) x m)) m
  end.

(* ---------------- execution on a sequence of independent values ---------------- *)
Fixpoint lset {A : Type} (l : list A) (n : nat) (x : A) : list A :=
  match l, n with
  | [], _ => []
  | _ :: r, O => x :: r
  | y :: r, S n' => y :: lset r n' x
  end.
Definition vget (l : list value) (p : Z) : value := nth (Z.to_nat p) l (Leaf 0).
Definition vset (l : list value) (p : Z) (x : value) : list value := lset l (Z.to_nat p) x.

Fixpoint tree_eqb (a b : tree) {struct a} : bool :=
  match a, b with
  | Leaf x, Leaf y => x =? y
  | Node l1, Node l2 =>
      (fix go (l1 l2 : list tree) {struct l1} : bool :=
         match l1, l2 with
         | [], [] => true
         | t1 :: r1, t2 :: r2 => tree_eqb t1 t2 && go r1 r2
         | _, _ => false
         end) l1 l2
  | _, _ => false
  end.

(* D = depth of the values (rank of the rows).  A moved-from value is left as it was: the standard leaves it
   "valid but unspecified" and no algorithm may depend on it; this is the choice under which the statement is
   an equality (a moved-from row of a view does keep its elements). *)
Fixpoint run_on_values {A : Type} (D : nat) (pr : prog A) (l : list value) : list value * A :=
  match pr with
  | Ret a => (l, a)
  | Read p k => run_on_values D (k (vget l p)) l
  | Take p k => run_on_values D (k (vget l p)) l
  | Write p x k => run_on_values D k (vset l p x)
  | Copy p q k => run_on_values D k (vset l p (vget l q))
  | Move p q k => run_on_values D k (vset l p (vget l q))
  | Swap p q k => run_on_values D k (vset (vset l p (vget l q)) q (vget l p))
  | Less p q k => run_on_values D (k (lt_depth D (vget l p) (vget l q))) l
  | LessV p x k => run_on_values D (k (lt_depth D (vget l p) x)) l
  | VLess x p k => run_on_values D (k (lt_depth D x (vget l p))) l
  | Eq p q k => run_on_values D (k (tree_eqb (vget l p) (vget l q))) l
  | EqV p x k => run_on_values D (k (tree_eqb (vget l p) x)) l
  end.

(* the values a range designates, in order *)
Definition abs_rows (row : Z -> view) (n : Z) (m : mem) : list value :=
  map (fun p => rd (row p) m) (iota (Z.to_nat n)).

(* ---------------- straight-line scripts: one primitive per instruction, results collected (the tie) ------- *)
Inductive instr :=
| IRead (p : Z) | ITake (p : Z) | IWrite (p : Z) (x : value) | ICopy (p q : Z) | IMove (p q : Z) | ISwap (p q : Z)
| ILess (p q : Z) | ILessV (p : Z) (x : value) | IVLess (x : value) (p : Z) | IEq (p q : Z) | IEqV (p : Z) (x : value).
Inductive obs := OVal (x : value) | OBool (b : bool) | ONone.

Definition pmap {A B : Type} (f : A -> B) (m : prog A) : prog B := bind m (fun a => Ret (f a)).
Fixpoint script (is : list instr) : prog (list obs) :=
  match is with
  | [] => Ret []
  | i :: r =>
      let rest := script r in
      match i with
      | IRead p => Read p (fun x => pmap (cons (OVal x)) rest)
      | ITake p => Take p (fun x => pmap (cons (OVal x)) rest)
      | IWrite p x => Write p x (pmap (cons ONone) rest)
      | ICopy p q => Copy p q (pmap (cons ONone) rest)
      | IMove p q => Move p q (pmap (cons ONone) rest)
      | ISwap p q => Swap p q (pmap (cons ONone) rest)
      | ILess p q => Less p q (fun b => pmap (cons (OBool b)) rest)
      | ILessV p x => LessV p x (fun b => pmap (cons (OBool b)) rest)
      | IVLess x p => VLess x p (fun b => pmap (cons (OBool b)) rest)
      | IEq p q => Eq p q (fun b => pmap (cons (OBool b)) rest)
      | IEqV p x => EqV p x (fun b => pmap (cons (OBool b)) rest)
      end
  end.

(* ---------------- a few of the property's algorithms written as programs (the vocabulary is enough) -------- *)
(* std::reverse(first, first + n): iter_swap(first++, --last) while first < last *)
Fixpoint reverse_from (cnt : nat) (i j : Z) : prog unit :=
  match cnt with
  | O => Ret tt
  | S c => if i <? j then Swap i j (reverse_from c (i + 1) (j - 1)) else Ret tt
  end.
Definition p_reverse (n : Z) : prog unit := reverse_from (Z.to_nat n) 0 (n - 1).

(* std::fill(first, first + n, x) *)
Definition p_fill (n : Z) (x : value) : prog unit :=
  fold_right (fun p k => Write p x k) (Ret tt) (iota (Z.to_nat n)).

(* std::find(first, first + n, x): position of the first element equal to x, n if none *)
Fixpoint find_from (cnt : nat) (i : Z) (x : value) : prog Z :=
  match cnt with
  | O => Ret i
  | S c => EqV i x (fun b => if b then Ret i else find_from c (i + 1) x)
  end.
Definition p_find (n : Z) (x : value) : prog Z := find_from (Z.to_nat n) 0 x.

(* std::is_sorted_until(first, first + n) - first, as libstdc++ writes it: first i with *(i) < *(i-1) *)
Fixpoint sorted_from (cnt : nat) (i : Z) : prog Z :=
  match cnt with
  | O => Ret i
  | S c => Less i (i - 1) (fun b => if b then Ret i else sorted_from c (i + 1))
  end.
Definition p_is_sorted_until (n : Z) : prog Z := if n <=? 1 then Ret n else sorted_from (Z.to_nat (n - 1)) 1.

(* insertion sort as libstdc++'s __insertion_sort / __unguarded_linear_insert: val = move( *i); shift; *hole = move(val).
   (std::sort's result is determined by the values when < is a strict total order, so any correct sort computes
   the same final contents.) *)
Fixpoint insert_shift (cnt : nat) (j : Z) (x : value) : prog unit :=
  match cnt with
  | O => Write j x (Ret tt)
  | S c => if j <=? 0 then Write j x (Ret tt)
           else VLess x (j - 1) (fun b => if b then Move j (j - 1) (insert_shift c (j - 1) x) else Write j x (Ret tt))
  end.
Fixpoint isort_from (cnt : nat) (i : Z) : prog unit :=
  match cnt with
  | O => Ret tt
  | S c => Take i (fun x => bind (insert_shift (Z.to_nat i) i x) (fun _ => isort_from c (i + 1)))
  end.
Definition p_sort (n : Z) : prog unit := if n <=? 1 then Ret tt else isort_from (Z.to_nat (n - 1)) 1.

(* std::rotate(first, first + 1, first + n) for random access iterators with k = 1 (libstdc++): save, move down, put *)
Fixpoint shift_down (cnt : nat) (i : Z) : prog unit :=
  match cnt with
  | O => Ret tt
  | S c => Move i (i + 1) (shift_down c (i + 1))
  end.
Definition p_rotate1 (n : Z) : prog unit :=
  if n <=? 1 then Ret tt else Take 0 (fun x => bind (shift_down (Z.to_nat (n - 1)) 0) (fun _ => Write (n - 1) x (Ret tt))).

Fixpoint repeat_prog (c : nat) (p : prog unit) : prog unit :=
  match c with O => Ret tt | S c' => bind p (fun _ => repeat_prog c' p) end.
(* std::rotate(first, first + k, first + n): k single-step rotations give the same final contents; returns first + (n - k) *)
Definition p_rotate (n k : Z) : prog Z := bind (repeat_prog (Z.to_nat k) (p_rotate1 n)) (fun _ => Ret (n - k)).

(* std::unique(first, first + n) - first (libstdc++: dest = first; for ++first: if !( *dest == *first) *++dest = move( *first)) *)
Fixpoint unique_from (cnt : nat) (dest i : Z) : prog Z :=
  match cnt with
  | O => Ret (dest + 1)
  | S c => Eq dest i (fun b =>
             if b then unique_from c dest (i + 1)
             else if dest + 1 =? i then unique_from c (dest + 1) (i + 1)
             else Move (dest + 1) i (unique_from c (dest + 1) (i + 1)))
  end.
Definition p_unique (n : Z) : prog Z := if n <=? 0 then Ret 0 else unique_from (Z.to_nat (n - 1)) 0 1.

(* std::remove(first, first + n, x) - first *)
Fixpoint remove_from (cnt : nat) (dest i : Z) (x : value) : prog Z :=
  match cnt with
  | O => Ret dest
  | S c => EqV i x (fun b =>
             if b then remove_from c dest (i + 1) x
             else if dest =? i then remove_from c (dest + 1) (i + 1) x
             else Move dest i (remove_from c (dest + 1) (i + 1) x))
  end.
Definition p_remove (n : Z) (x : value) : prog Z := remove_from (Z.to_nat n) 0 0 x.

(* std::swap_ranges / std::copy / std::equal between the two halves of a cat_rows range *)
Definition p_swap_ranges (n : Z) : prog unit :=
  fold_right (fun p k => Swap p (n + p) k) (Ret tt) (iota (Z.to_nat n)).
Definition p_copy (n : Z) : prog unit :=        (* copy(b, b + n, a): a = positions 0.., b = positions n.. *)
  fold_right (fun p k => Copy p (n + p) k) (Ret tt) (iota (Z.to_nat n)).
Fixpoint equal_from (cnt : nat) (i n : Z) : prog bool :=
  match cnt with
  | O => Ret true
  | S c => Eq i (n + i) (fun b => if b then equal_from c (i + 1) n else Ret false)
  end.
Definition p_equal (n : Z) : prog bool := equal_from (Z.to_nat n) 0 n.

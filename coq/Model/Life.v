(* L5: the lifecycle machine of owning arrays (C04, C06, C08, C09, C10).
   Source: /repo/include/boost/multi/array.hpp (array_allocator :42-113, static_array :121-725,
   array :1153-1560), /repo/include/boost/multi/detail/adl.hpp :199-465 (alloc_uninitialized_* with
   their rollback loops, alloc_destroy_n).

   The state does NOT build ownership in: a block table (append-only; a released block stays in the
   table, marked dead, so a double free, a leak and a release through the wrong allocator are all
   expressible), a pool of array objects {allocator; base pointer, possibly null or dangling;
   extents}, an event ledger, a fault countdown and a few counters.  Every array.hpp entry point is
   a short program over micro-steps in the order the code performs them; the interpreter CHECKS every
   transition and returns Err on an illegal one, so "no run returns Err" is a theorem
   (Proofs/LifeProofs*.v), not a definition.  Definitions only. *)
From Coq Require Import ZArith List Bool.
Import ListNotations.
Local Open Scope Z_scope.

(* ------------------------------------------------------------------------------------------ *)
(* values, cells, blocks, arrays                                                               *)
(* ------------------------------------------------------------------------------------------ *)
Inductive cell := Raw | Alive (v : Z) | Moved (v : Z).

Record block := mkblock { b_owner : Z; b_size : Z; b_cells : list cell; b_live : bool }.

Inductive ptr := PNull | PBlk (b : nat).

(* a_exts: the sizes the array reports (after the collapse of layout_t(extensions)); a_first: the first index of
   every dimension (its index base; 0 for a dimension that reports size 0, layout.hpp:880-886) *)
Record arr := mkarr { a_alloc : Z; a_base : ptr; a_exts : list Z; a_first : list Z }.

(* what select_on_container_copy_construction returns *)
Inductive socc_mode := SoccSame | SoccChild | SoccDefault.

Record config := mkcfg {
  c_rank : nat;          (* D *)
  (* the element type, by the traits the code branches on (one harness executable per element kind):
     int {tdc, tdx, quiet}; tracked class {}; struct{int v = 0;} {tdx, quiet}; trivial default constructor with
     user-provided copy operations {tdc, tdx, quiet} (not std::is_trivial) *)
  c_tdc : bool;          (* std::is_trivially_default_constructible: default construction is skipped, raw storage is an object *)
  c_tdx : bool;          (* declared trivially destructible (see c_tdtor) *)
  c_quiet : bool;        (* trivially copyable: no element operation can fail, no moved-from state *)
  c_pocca : bool; c_pocma : bool; c_pocs : bool; c_ae : bool;
  c_socc : socc_mode }.

(* std::is_trivially_destructible: destroy() is skipped.  A trivially default constructible type is trivially
   destructible (is_trivially_constructible looks at the destructor too, LWG 2116 as implemented by gcc and clang) *)
Definition c_tdtor (cfg : config) : bool := c_tdc cfg || c_tdx cfg.

Definition default_alloc : Z := 0.       (* allocator_type{} *)
Definition std_alloc : Z := -1.          (* std::allocator of the temporaries array<T,D> built by initializer-list constructors *)
Definition pat : Z := -842150451.        (* 0xCDCDCDCD: what the harness allocator pre-fills storage with *)

Definition alloc_eq (cfg : config) (a b : Z) : bool := c_ae cfg || (a =? b).
Definition socc (cfg : config) (a : Z) : Z :=
  match c_socc cfg with SoccSame => a | SoccChild => a + 1000 | SoccDefault => default_alloc end.

(* where a fault fired: the exclusion predicate of C09 is stated on these *)
Inductive site :=
| SAlloc            (* an allocation, before anything else changed *)
| SCtorElem         (* element construction into a block no array object owns yet (all constructors, temporaries) *)
| SAssignElem       (* element assignment into an owned block *)
| SReextElem        (* reextent &: construction / transfer into the not-yet-adopted new block *)
| SReextMove.       (* reextent &&: after the old block was released *)

Inductive event :=
| EvAlloc (a : Z) (b : nat) (n : Z)
| EvDealloc (a : Z) (b : nat) (n : Z)
| EvThrow (s : site).

Inductive err :=
| EConstructOverAlive | EDestroyRaw | EReadRaw | EAssignRaw | EDangling | EOutOfBlock
| EUnknownBlock | EDoubleFree | EWrongSize | EWrongAlloc | ELiveCells | EBadSlot | EDomain.

Record state := mkst {
  s_blocks : list block;
  s_arrs : list (option arr);
  s_ledger : list event;       (* newest first *)
  s_fault : option nat;        (* Some k: the k-th fallible event from now throws (k >= 1) *)
  s_copies : Z;                (* element copies since the operation began *)
  s_allocs : Z;                (* allocations through tracked allocators since the operation began *)
  s_fallible : Z }.            (* fallible events so far *)

Inductive res (A : Type) := Ok (x : A) (s : state) | Threw (s : state) | Err (e : err).
Arguments Ok {A}. Arguments Threw {A}. Arguments Err {A}.
Definition M (A : Type) := state -> res A.

Definition ret {A} (x : A) : M A := fun s => Ok x s.
Definition bind {A B} (m : M A) (f : A -> M B) : M B :=
  fun s => match m s with Ok x s' => f x s' | Threw s' => Threw s' | Err e => Err e end.
Definition fail {A} (e : err) : M A := fun _ => Err e.
Notation "x <- m ;; f" := (bind m (fun x => f)) (at level 61, m at next level, right associativity).
Notation "m ;;; f" := (bind m (fun _ => f)) (at level 61, right associativity).

(* run cleanup when m throws, then keep throwing (a catch(...){...; throw;} block) *)
Definition on_throw {A} (m : M A) (cleanup : M unit) : M A :=
  fun s => match m s with
           | Threw s' => match cleanup s' with Ok _ s'' => Threw s'' | Threw s'' => Threw s'' | Err e => Err e end
           | r => r
           end.

Definition get_state : M state := fun s => Ok s s.
Definition put_state (s' : state) : M unit := fun _ => Ok tt s'.

(* ------------------------------------------------------------------------------------------ *)
(* list helpers                                                                                *)
(* ------------------------------------------------------------------------------------------ *)
Fixpoint upd_nth {A} (l : list A) (n : nat) (x : A) : list A :=
  match l, n with
  | [], _ => []
  | _ :: t, O => x :: t
  | h :: t, S n' => h :: upd_nth t n' x
  end.

Definition numel (x : list Z) : Z := fold_right Z.mul 1 x.
(* layout_t(extensions): a zero inner extent makes every outer size report 0 (layout.hpp:735-745) *)
Fixpoint collapse (x : list Z) : list Z :=
  match x with [] => [] | n :: r => (if numel r =? 0 then 0 else n) :: collapse r end.
Definition zeros (d : nat) : list Z := repeat 0 d.

(* Extensions with index bases: per dimension (first index, size).  extensions == extensions is index_range.hpp:202-205
   per dimension: all empty ranges are equal, otherwise first and last must agree. *)
Definition bx := list (Z * Z).
Definition bx_sizes (x : bx) : list Z := map snd x.
Definition bx_firsts (x : bx) : list Z := map fst x.
Definition zb (sz : list Z) : bx := map (fun n => (0, n)) sz.
Fixpoint bx_eq (a b : bx) : bool :=
  match a, b with
  | [], [] => true
  | (fa, sa) :: a', (fb, sb) :: b' => (((sa =? 0) && (sb =? 0)) || ((fa =? fb) && (sa =? sb))) && bx_eq a' b'
  | _, _ => false
  end.
(* what an array constructed with extensions x reports: sizes collapse, empty dimensions report [0,0) *)
Definition mk_sizes (x : bx) : list Z := collapse (bx_sizes x).
Definition mk_firsts (x : bx) : list Z :=
  map (fun p => if snd p =? 0 then 0 else fst p) (combine (bx_firsts x) (mk_sizes x)).
Definition norm_bx (x : bx) : bx := combine (mk_firsts x) (mk_sizes x).

(* ------------------------------------------------------------------------------------------ *)
(* micro-steps                                                                                 *)
(* ------------------------------------------------------------------------------------------ *)
Definition set_blocks (s : state) (bs : list block) : state :=
  mkst bs (s_arrs s) (s_ledger s) (s_fault s) (s_copies s) (s_allocs s) (s_fallible s).
Definition set_arrs (s : state) (al : list (option arr)) : state :=
  mkst (s_blocks s) al (s_ledger s) (s_fault s) (s_copies s) (s_allocs s) (s_fallible s).
Definition emit (e : event) (s : state) : state :=
  mkst (s_blocks s) (s_arrs s) (e :: s_ledger s) (s_fault s) (s_copies s) (s_allocs s) (s_fallible s).
Definition add_copies (k : Z) (s : state) : state :=
  mkst (s_blocks s) (s_arrs s) (s_ledger s) (s_fault s) (s_copies s + k) (s_allocs s) (s_fallible s).
Definition add_allocs (k : Z) (s : state) : state :=
  mkst (s_blocks s) (s_arrs s) (s_ledger s) (s_fault s) (s_copies s) (s_allocs s + k) (s_fallible s).
Definition set_fault (f : option nat) (s : state) : state :=
  mkst (s_blocks s) (s_arrs s) (s_ledger s) f (s_copies s) (s_allocs s) (s_fallible s + 1).

(* a fallible event: the k-th one of the run throws *)
Definition tick (w : site) : M unit := fun s =>
  match s_fault s with
  | None => Ok tt (set_fault None s)
  | Some O => Ok tt (set_fault None s)
  | Some (S O) => Threw (emit (EvThrow w) (set_fault None s))
  | Some (S (S k)) => Ok tt (set_fault (Some (S k)) s)
  end.
(* element events of a trivially copyable element type cannot fail *)
Definition tick_elem (cfg : config) (w : site) : M unit :=
  if c_quiet cfg then ret tt else tick w.

Definition get_block (b : nat) : M block := fun s =>
  match nth_error (s_blocks s) b with
  | Some blk => if b_live blk then Ok blk s else Err EDangling
  | None => Err EUnknownBlock
  end.
Definition put_block (b : nat) (blk : block) : M unit := fun s =>
  Ok tt (set_blocks s (upd_nth (s_blocks s) b blk)).
Definition set_cell (b i : nat) (c : cell) : M unit :=
  blk <- get_block b ;;
  put_block b (mkblock (b_owner blk) (b_size blk) (upd_nth (b_cells blk) i c) (b_live blk)).
Definition get_cell (b i : nat) : M cell :=
  blk <- get_block b ;;
  match nth_error (b_cells blk) i with Some c => ret c | None => fail EOutOfBlock end.

(* array_allocator::allocate, array.hpp:60-65: n ? allocator_traits::allocate : nullptr *)
Definition alloc (a : Z) (n : Z) : M ptr :=
  if n <=? 0 then ret PNull
  else (if a =? std_alloc then ret tt else tick SAlloc) ;;;     (* std::allocator is not instrumented *)
       s <- get_state ;;
       let b := length (s_blocks s) in
       put_state (add_allocs (if a =? std_alloc then 0 else 1)
                    (emit (EvAlloc a b n)
                       (set_blocks s (s_blocks s ++ [mkblock a n (repeat Raw (Z.to_nat n)) true])))) ;;;
       ret (PBlk b).

Definition all_raw (cs : list cell) : bool :=
  forallb (fun c => match c with Raw => true | _ => false end) cs.

(* static_array::deallocate, array.hpp:554-559: if(num_elements()) deallocate(base_, num_elements()) *)
Definition dealloc (cfg : config) (a : Z) (p : ptr) (n : Z) : M unit :=
  if n <=? 0 then ret tt
  else match p with
       | PNull => fail EUnknownBlock
       | PBlk b => fun s =>
           match nth_error (s_blocks s) b with
           | None => Err EUnknownBlock
           | Some blk =>
               if negb (b_live blk) then Err EDoubleFree
               else if negb (b_size blk =? n) then Err EWrongSize
               else if negb (alloc_eq cfg (b_owner blk) a) then Err EWrongAlloc
               else if negb (c_tdtor cfg) && negb (all_raw (b_cells blk)) then Err ELiveCells
               else Ok tt (emit (EvDealloc a b n)
                             (set_blocks s (upd_nth (s_blocks s) b
                                (mkblock (b_owner blk) (b_size blk) (b_cells blk) false))))
           end
       end.

(* allocator_traits::construct / destroy, element read, element assignment *)
Definition construct1 (b i : nat) (v : Z) : M unit :=
  c <- get_cell b i ;;
  match c with Raw => set_cell b i (Alive v) | _ => fail EConstructOverAlive end.
Definition destroy1 (b i : nat) : M unit :=
  c <- get_cell b i ;;
  match c with Raw => fail EDestroyRaw | _ => set_cell b i Raw end.
Definition read1 (cfg : config) (b i : nat) : M Z :=
  c <- get_cell b i ;;
  match c with
  | Alive v | Moved v => ret v
  | Raw => if c_tdc cfg then ret pat else fail EReadRaw
  end.
Definition assign1 (cfg : config) (b i : nat) (v : Z) : M unit :=
  c <- get_cell b i ;;
  match c with
  | Raw => if c_tdc cfg then set_cell b i (Alive v) else fail EAssignRaw
  | _ => set_cell b i (Alive v)
  end.
Definition mark_moved (cfg : config) (b i : nat) : M unit :=
  if c_quiet cfg then ret tt
  else c <- get_cell b i ;;
       match c with Alive v | Moved v => set_cell b i (Moved v) | Raw => ret tt end.

(* where an element value comes from *)
Inductive src :=
| SVal (v : Z)                 (* a value outside the pool: fill value, initializer-list / range / converted element *)
| SCell (b i : nat)            (* copied from cell i of block b *)
| SMoveCell (b i : nat).       (* moved from cell i of block b (element_moved()) *)

Definition read_src (cfg : config) (x : src) : M Z :=
  match x with SVal v => ret v | SCell b i => read1 cfg b i | SMoveCell b i => read1 cfg b i end.
Definition after_src (cfg : config) (x : src) : M unit :=
  match x with
  | SMoveCell b i => mark_moved cfg b i
  | _ => fun s => Ok tt (add_copies 1 s)
  end.

(* alloc_destroy_n, adl.hpp:281-289 (last element first) *)
Fixpoint destroy_range (b start : nat) (n : nat) : M unit :=
  match n with
  | O => ret tt
  | S k => destroy1 b (start + k) ;;; destroy_range b start k
  end.

(* alloc_uninitialized_copy_n / _move_n / _fill_n, adl.hpp:376-464: construct one by one; when a
   construction throws, destroy what THIS call constructed (from `start`), rethrow *)
Fixpoint construct_loop (cfg : config) (w : site) (b start : nat) (i : nat) (srcs : list src) : M unit :=
  match srcs with
  | [] => ret tt
  | x :: rest =>
      on_throw (tick_elem cfg w) (destroy_range b start (i - start)) ;;;
      v <- read_src cfg x ;;
      construct1 b i v ;;;
      after_src cfg x ;;;
      construct_loop cfg w b start (S i) rest
  end.

(* row-wise construction (range constructor for D >= 2, array_ref.hpp:3751-3761: std::uninitialized_copy per
   innermost row, each with its own rollback); rowlen = 0 means one row *)
Fixpoint construct_rows (cfg : config) (w : site) (b : nat) (i : nat) (rowlen : nat) (fuel : nat) (srcs : list src) : M unit :=
  match fuel with
  | O => ret tt
  | S fuel' =>
      match srcs with
      | [] => ret tt
      | _ =>
          let row := if (rowlen =? 0)%nat then srcs else firstn rowlen srcs in
          let rest := if (rowlen =? 0)%nat then [] else skipn rowlen srcs in
          construct_loop cfg w b i i row ;;;
          construct_rows cfg w b (i + length row) rowlen fuel' rest
      end
  end.

(* alloc_uninitialized_default_construct_n, adl.hpp:226-250: in-place default construction (cannot fail for the
   element types considered); skipped for trivially default constructible elements (array.hpp:171-175) *)
Fixpoint default_construct_n (b : nat) (i : nat) (n : nat) : M unit :=
  match n with
  | O => ret tt
  | S k => construct1 b i 0 ;;; default_construct_n b (S i) k
  end.

(* adl_alloc_uninitialized_value_construct_n, adl.hpp:551-560: the allocator-aware overload is commented out, the call
   lands on std::uninitialized_value_construct_n: in-place value initialisation, no element copy or move *)
Definition value_construct_n (b : nat) (n : nat) : M unit := default_construct_n b 0 n.

(* adl_copy_n / adl_fill_n / elements() = elements(): assignment one by one, no rollback *)
Fixpoint assign_loop (cfg : config) (w : site) (b : nat) (offs : list nat) (srcs : list src) : M unit :=
  match offs, srcs with
  | o :: offs', x :: srcs' =>
      tick_elem cfg w ;;;
      v <- read_src cfg x ;;
      assign1 cfg b o v ;;;
      after_src cfg x ;;;
      assign_loop cfg w b offs' srcs'
  | _, _ => ret tt
  end.

(* ------------------------------------------------------------------------------------------ *)
(* array objects                                                                               *)
(* ------------------------------------------------------------------------------------------ *)
Definition get_arr (r : nat) : M arr := fun s =>
  match nth_error (s_arrs s) r with Some (Some a) => Ok a s | _ => Err EBadSlot end.
Definition slot_free (r : nat) : M unit := fun s =>
  match nth_error (s_arrs s) r with Some None => Ok tt s | _ => Err EBadSlot end.
Definition set_arr (r : nat) (a : arr) : M unit := fun s => Ok tt (set_arrs s (upd_nth (s_arrs s) r (Some a))).
Definition del_arr (r : nat) : M unit := fun s => Ok tt (set_arrs s (upd_nth (s_arrs s) r None)).

Definition seqn (n : nat) : list nat := seq 0 n.
Definition nel (a : arr) : Z := numel (a_exts a).
Definition nnel (a : arr) : nat := Z.to_nat (nel a).
Definition arr_bx (a : arr) : bx := combine (a_first a) (a_exts a).          (* extensions() *)
Definition empty_arr (cfg : config) (al : Z) (p : ptr) : arr :=                (* layout = {} *)
  mkarr al p (zeros (c_rank cfg)) (zeros (c_rank cfg)).
Definition with_bx (al : Z) (p : ptr) (x : bx) : arr := mkarr al p (mk_sizes x) (mk_firsts x).   (* layout_t(x) *)
Definition bnumel (x : bx) : Z := numel (bx_sizes x).

(* the elements of an array in flat order, as sources *)
Definition cells_of (mk : nat -> nat -> src) (a : arr) : list src :=
  match a_base a with PBlk b => map (mk b) (seqn (nnel a)) | PNull => [] end.
Definition base_blk (a : arr) : M nat :=
  match a_base a with PBlk b => ret b | PNull => fail EDangling end.

(* static_array::destroy (array.hpp:189-193; skipped for trivially destructible elements) then deallocate *)
Definition release (cfg : config) (a : arr) : M unit :=
  (if c_tdtor cfg || (nel a <=? 0) then ret tt
   else b <- base_blk a ;; destroy_range b 0 (nnel a)) ;;;
  dealloc cfg (a_alloc a) (a_base a) (nel a).

(* static_array::clear, array.hpp:560-565: destroy, deallocate, layout = {} (base_ is left as it is) *)
Definition p_clear (cfg : config) (r : nat) : M unit :=
  a <- get_arr r ;;
  release cfg a ;;;
  set_arr r (empty_arr cfg (a_alloc a) (a_base a)).
(* ~static_array, array.hpp:587-592 *)
Definition p_dtor (cfg : config) (r : nat) : M unit :=
  a <- get_arr r ;;
  release cfg a ;;;
  del_arr r.

(* the constructor pattern (array.hpp:227-531): allocate in the mem-initializer, construct in the body *)
Definition p_build (cfg : config) (a : Z) (n : Z) (rowlen : nat) (srcs : list src) : M ptr :=
  p <- alloc a n ;;
  match p with
  | PNull => ret PNull
  | PBlk b => construct_rows cfg SCtorElem b 0 rowlen (S (length srcs)) srcs ;;; ret p
  end.
Definition install (r : nat) (a : Z) (p : ptr) (x : bx) : M unit := set_arr r (with_bx a p x).

(* this->base_ = exchange(tmp.base_, nullptr); this->layout = exchange(tmp.layout, {}) *)
Definition p_adopt (cfg : config) (r t : nat) : M unit :=
  ar <- get_arr r ;; at_ <- get_arr t ;;
  set_arr r (mkarr (a_alloc ar) (a_base at_) (a_exts at_) (a_first at_)) ;;;
  set_arr t (empty_arr cfg (a_alloc at_) PNull).
Definition p_set_alloc (r : nat) (a : Z) : M unit :=
  ar <- get_arr r ;; set_arr r (mkarr a (a_base ar) (a_exts ar) (a_first ar)).

(* scratch slots for the temporaries of the code (array tmp(...), array(first,last), static_cast<array>(other)) *)
Definition NP : nat := 6.
Definition TMP1 : nat := 6.
Definition TMP2 : nat := 7.
Definition TMP3 : nat := 8.
Definition NSLOTS : nat := 9.

(* array::operator=(array&&), array.hpp:1296-1322 (after fix 10) *)
Definition move_assign (cfg : config) (tmp : nat) (r s : nat) : M unit :=
  if (r =? s)%nat then ret tt
  else
    ar <- get_arr r ;; as_ <- get_arr s ;;
    if negb (c_pocma cfg) && negb (c_ae cfg) && negb (a_alloc ar =? a_alloc as_) then
      (* array tmp(other().element_moved(), this->alloc()); other.clear(); clear(); adopt tmp *)
      p <- p_build cfg (a_alloc ar) (nel as_) 0 (cells_of SMoveCell as_) ;;
      install tmp (a_alloc ar) p (arr_bx as_) ;;;
      p_clear cfg s ;;;
      p_clear cfg r ;;;
      p_adopt cfg r tmp ;;;
      p_dtor cfg tmp
    else
      p_clear cfg r ;;;
      ar' <- get_arr r ;;
      set_arr r (mkarr (if c_pocma cfg then a_alloc as_ else a_alloc ar') (a_base as_) (a_exts as_) (a_first as_)) ;;;
      set_arr s (empty_arr cfg (a_alloc as_) (a_base as_)).

(* ------------------------------------------------------------------------------------------ *)
(* operations                                                                                  *)
(* ------------------------------------------------------------------------------------------ *)
(* A source that is a view of another live array: the extensions of the view and the offsets of its elements
   (canonical order) inside the block of the viewed array.  The driver computes both with Model/View.v
   (run_ops, er_at); the lifecycle theorems hold for any offsets inside the block. *)
Record vsrc := mkvsrc { vs_exts : bx; vs_offs : list nat }.

(* rows of an iterator range / nested initializer list: k zero-based rows of inner sizes ie, values in flat order *)
Record rows := mkrows { rw_k : Z; rw_ie : list Z; rw_vals : list Z }.
Definition rows_exts (w : rows) : bx := zb (rw_k w :: rw_ie w).
Definition rows_rowlen (w : rows) : nat := Z.to_nat (last (rw_ie w) 0).   (* 0 for D = 1: one row *)

Inductive lop :=
| OCtorDefault (r : nat) (a : Z)
| OCtorSized (r : nat) (a : Z) (x : bx)
| OCtorFill (r : nat) (a : Z) (x : bx) (v : Z)
| OCtorCopy (r s : nat)                      (* also unary plus / decay of an array: array{*this} *)
| OCtorCopyAlloc (r s : nat) (a : Z)
| OCtorMove (r s : nat)
| OCtorMoveAlloc (r s : nat) (a : Z)
| OCtorView (r : nat) (a : Z) (s : nat) (v : vsrc)
| OCtorRange (r : nat) (a : Z) (w : rows)
| OCtorIl (r : nat) (w : rows)
| OCtorConv (r : nat) (x : bx) (vals : list Z)
| OAssignCopy (r s : nat)
| OAssignMove (r s : nat)
| OAssignView (r s : nat) (v : vsrc) (mut : bool)   (* mut: a mutable view binds to operator=(Range&&), a const one to operator=(const_subarray const&) *)
| OAssignRange (r : nat) (w : rows)          (* assign(first,last); also = {nested list} with k > 0 *)
| OAssignIlEmpty (r : nat)                   (* = {} *)
| OAssignFill (r : nat) (x : bx) (v : Z)
| OAssignConv (r : nat) (x : bx) (vals : list Z)
| OSwap (r s : nat)
| OClear (r : nat)
| OReextent (r : nat) (x : bx) (fillv : option Z)
| OReextentMove (r : nat) (x : bx)
| OReshape (r : nat) (x : bx)
| OWrite (r : nat) (k : nat) (v : Z)
| ODestroy (r : nat)
| OViewAssign (r s : nat) (vr vs : vsrc).   (* view of r = view of s: subarray::operator= (all overloads), elements() = elements() *)

Definition vsrc_cells (as_ : arr) (v : vsrc) : list src :=
  match a_base as_ with PBlk b => map (SCell b) (vs_offs v) | PNull => [] end.

(* intersection of extensions (index_range.hpp:300-310 per dimension), as (first, size) *)
Definition bx_inter (a b : bx) : bx :=
  map (fun p => let '((fa, sa), (fb, sb)) := p in
                let f := Z.max fa fb in
                let l := Z.min (fa + sa) (fb + sb) in
                (Z.min f l, l - Z.min f l)) (combine a b).
(* offsets, in canonical order, of the index block `is` inside a row-major array of sizes e whose first indices are f *)
Fixpoint block_offsets (e f : list Z) (is : bx) : list Z :=
  match e, f, is with
  | _ :: e', f0 :: f', (i0, n) :: is' =>
      flat_map (fun j => map (fun o => (i0 + Z.of_nat j - f0) * numel e' + o) (block_offsets e' f' is')) (seqn (Z.to_nat n))
  | _, _, _ => [0]
  end.

(* array::assign(first,last), array.hpp:1432-1447 (after fix 6): same number of rows, and rows of the same extensions *)
Definition same_shape_rows (ar : arr) (w : rows) : bool :=
  (rw_k w =? hd 0 (a_exts ar)) &&
  ((length (a_exts ar) <=? 1)%nat || (hd 0 (a_exts ar) =? 0) || bx_eq (zb (rw_ie w)) (tl (arr_bx ar))).

(* temporaries of foreign type array<T,D,std::allocator<T>> (initializer-list constructor, array.hpp:1220-1223) *)
Definition ctor_from_tmp_moved (cfg : config) (r : nat) (a : Z) (t : nat) : M unit :=
  at_ <- get_arr t ;;
  p <- p_build cfg a (nel at_) 0 (cells_of SMoveCell at_) ;;
  install r a p (arr_bx at_).

Definition assign_all (cfg : config) (ar : arr) (srcs : list src) : M unit :=
  if nel ar <=? 0 then ret tt
  else b <- base_blk ar ;; assign_loop cfg SAssignElem b (seqn (nnel ar)) srcs.

Definition step (cfg : config) (o : lop) : M unit :=
  match o with
  | OCtorDefault r a =>
      slot_free r ;;; set_arr r (empty_arr cfg a PNull)
  | OCtorSized r a x =>
      (* array.hpp:362-366: allocate; uninitialized_default_construct (skipped for trivial elements) *)
      slot_free r ;;;
      p <- alloc a (bnumel x) ;;
      (match p with
       | PBlk b => if c_tdc cfg then ret tt else default_construct_n b 0 (Z.to_nat (bnumel x))
       | PNull => ret tt
       end) ;;;
      install r a p x
  | OCtorFill r a x v =>
      slot_free r ;;;
      p <- p_build cfg a (bnumel x) 0 (repeat (SVal v) (Z.to_nat (bnumel x))) ;;
      install r a p x
  | OCtorCopy r s =>
      (* array.hpp:492-507 *)
      slot_free r ;;; as_ <- get_arr s ;;
      let a := socc cfg (a_alloc as_) in
      p <- p_build cfg a (nel as_) 0 (cells_of SCell as_) ;;
      install r a p (arr_bx as_)
  | OCtorCopyAlloc r s a =>
      (* array.hpp:287-300 *)
      slot_free r ;;; as_ <- get_arr s ;;
      p <- p_build cfg a (nel as_) 0 (cells_of SCell as_) ;;
      install r a p (arr_bx as_)
  | OCtorMove r s =>
      (* array.hpp:1276: array{std::move(other), other.get_allocator()}: equal allocators, the block is adopted *)
      slot_free r ;;; as_ <- get_arr s ;;
      set_arr r (mkarr (a_alloc as_) (a_base as_) (a_exts as_) (a_first as_)) ;;;
      set_arr s (empty_arr cfg (a_alloc as_) PNull)
  | OCtorMoveAlloc r s a =>
      (* array.hpp:1273 (after fix 11) *)
      slot_free r ;;; as_ <- get_arr s ;;
      if alloc_eq cfg a (a_alloc as_) then
        set_arr r (mkarr a (a_base as_) (a_exts as_) (a_first as_)) ;;;
        set_arr s (empty_arr cfg (a_alloc as_) PNull)
      else
        p <- p_build cfg a (nel as_) 0 (cells_of SMoveCell as_) ;;
        p_clear cfg s ;;;
        install r a p (arr_bx as_)
  | OCtorView r a s v =>
      (* array.hpp:371-388 *)
      slot_free r ;;; as_ <- get_arr s ;;
      p <- p_build cfg a (bnumel (vs_exts v)) 0 (vsrc_cells as_ v) ;;
      install r a p (vs_exts v)
  | OCtorRange r a w =>
      (* array.hpp:250-268 *)
      slot_free r ;;;
      p <- p_build cfg a (bnumel (rows_exts w)) (rows_rowlen w) (map SVal (rw_vals w)) ;;
      install r a p (rows_exts w)
  | OCtorIl r w =>
      (* array.hpp:1220-1223: a temporary array<T,D> (std::allocator) built from the list, then converted *)
      slot_free r ;;;
      if rw_k w =? 0 then set_arr r (empty_arr cfg default_alloc PNull)
      else
        p <- p_build cfg std_alloc (bnumel (rows_exts w)) (rows_rowlen w) (map SVal (rw_vals w)) ;;
        install TMP3 std_alloc p (rows_exts w) ;;;
        ctor_from_tmp_moved cfg r default_alloc TMP3 ;;;
        p_dtor cfg TMP3
  | OCtorConv r x vals =>
      (* array.hpp:437-443 *)
      slot_free r ;;;
      p <- p_build cfg default_alloc (bnumel x) 0 (map SVal vals) ;;
      install r default_alloc p x
  | OAssignCopy r s =>
      (* array.hpp:1324-1350 (after fixes 8 and 12) *)
      if (r =? s)%nat then (get_arr r ;;; ret tt)
      else
        ar <- get_arr r ;; as_ <- get_arr s ;;
        let keep := bx_eq (arr_bx ar) (arr_bx as_)
                    && (negb (c_pocca cfg) || alloc_eq cfg (a_alloc ar) (a_alloc as_)) in
        if keep then
          (if c_pocca cfg then p_set_alloc r (a_alloc as_) else ret tt) ;;;
          assign_all cfg ar (cells_of SCell as_)
        else
          let a' := if c_pocca cfg then a_alloc as_ else a_alloc ar in
          p <- p_build cfg a' (nel as_) 0 (cells_of SCell as_) ;;
          install TMP1 a' p (arr_bx as_) ;;;
          p_clear cfg r ;;;
          (if c_pocca cfg then p_set_alloc r (a_alloc as_) else ret tt) ;;;
          p_adopt cfg r TMP1 ;;;
          p_dtor cfg TMP1
  | OAssignMove r s => get_arr r ;;; move_assign cfg TMP1 r s
  | OAssignView r s v mut =>
      (* const view: array.hpp:1352-1360; mutable view: operator=(Range&&), array.hpp:1384-1396 *)
      ar <- get_arr r ;; as_ <- get_arr s ;;
      if bx_eq (arr_bx ar) (vs_exts v) then assign_all cfg ar (vsrc_cells as_ v)
      else if mut && (nel ar =? bnumel (vs_exts v)) then
        (* reshape(other.extensions()); then element assignment (skipped when there is nothing to assign) *)
        let ar' := with_bx (a_alloc ar) (a_base ar) (vs_exts v) in
        set_arr r ar' ;;;
        assign_all cfg ar' (vsrc_cells as_ v)
      else
        (* operator=(array{other}): a default-allocator temporary, then move assignment *)
        p <- p_build cfg default_alloc (bnumel (vs_exts v)) 0 (vsrc_cells as_ v) ;;
        install TMP2 default_alloc p (vs_exts v) ;;;
        move_assign cfg TMP1 r TMP2 ;;;
        p_dtor cfg TMP2
  | OAssignRange r w =>
      (* array.hpp:1432-1447 (after fix 6) *)
      ar <- get_arr r ;;
      if same_shape_rows ar w then assign_all cfg ar (map SVal (rw_vals w))
      else
        p <- p_build cfg default_alloc (bnumel (rows_exts w)) (rows_rowlen w) (map SVal (rw_vals w)) ;;
        install TMP2 default_alloc p (rows_exts w) ;;;
        move_assign cfg TMP1 r TMP2 ;;;
        p_dtor cfg TMP2
  | OAssignIlEmpty r => p_clear cfg r
  | OAssignFill r x v =>
      (* array.hpp:1419-1430 (after the assign(extensions, value) fix) *)
      ar <- get_arr r ;;
      if bx_eq (arr_bx ar) x then assign_all cfg ar (repeat (SVal v) (nnel ar))
      else
        p <- p_build cfg (a_alloc ar) (bnumel x) 0 (repeat (SVal v) (Z.to_nat (bnumel x))) ;;
        install TMP1 (a_alloc ar) p x ;;;
        p_clear cfg r ;;;
        p_adopt cfg r TMP1 ;;;
        p_dtor cfg TMP1
  | OAssignConv r x vals =>
      (* array.hpp:1362-1376; the source array<TT,D> reports norm_bx x *)
      ar <- get_arr r ;;
      if bx_eq (arr_bx ar) (norm_bx x) then assign_all cfg ar (map SVal vals)
      else if nel ar =? bnumel x then
        let ar' := with_bx (a_alloc ar) (a_base ar) (norm_bx x) in
        set_arr r ar' ;;;
        assign_all cfg ar' (map SVal vals)
      else
        p <- p_build cfg default_alloc (bnumel x) 0 (map SVal vals) ;;
        install TMP2 default_alloc p x ;;;
        move_assign cfg TMP1 r TMP2 ;;;
        p_dtor cfg TMP2
  | OSwap r s =>
      (* array.hpp:1282-1293 *)
      ar <- get_arr r ;; as_ <- get_arr s ;;
      if (r =? s)%nat then ret tt
      else
        set_arr r (mkarr (if c_pocs cfg then a_alloc as_ else a_alloc ar) (a_base as_) (a_exts as_) (a_first as_)) ;;;
        set_arr s (mkarr (if c_pocs cfg then a_alloc ar else a_alloc as_) (a_base ar) (a_exts ar) (a_first ar))
  | OClear r => p_clear cfg r
  | OReextent r x fillv =>
      (* array.hpp:1478-1501, 1506-1534 (after fix 24 and the elements() transfer) *)
      ar <- get_arr r ;;
      if bx_eq x (arr_bx ar) then ret tt
      else
        p <- alloc (a_alloc ar) (bnumel x) ;;
        let nx := norm_bx x in
        (match p with
         | PNull => ret tt
         | PBlk b =>
             (match fillv with
              | Some v => construct_loop cfg SReextElem b 0 0 (repeat (SVal v) (Z.to_nat (bnumel x)))
              | None => if c_tdc cfg then ret tt else value_construct_n b (Z.to_nat (bnumel x))
              end) ;;;
             let is := bx_inter (arr_bx ar) nx in
             if bnumel is <=? 0 then ret tt
             else
               bo <- base_blk ar ;;
               assign_loop cfg SReextElem b (map Z.to_nat (block_offsets (bx_sizes nx) (bx_firsts nx) is))
                           (map (fun o => SCell bo (Z.to_nat o)) (block_offsets (a_exts ar) (a_first ar) is))
         end) ;;;
        release cfg ar ;;;
        set_arr r (with_bx (a_alloc ar) p x)
  | OReextentMove r x =>
      (* array.hpp:1459-1476 *)
      ar <- get_arr r ;;
      if bx_eq x (arr_bx ar) then ret tt
      else
        release cfg ar ;;;
        set_arr r (with_bx (a_alloc ar) (a_base ar) x) ;;;
        p <- on_throw (alloc (a_alloc ar) (bnumel x)) (fun s => Ok tt (emit (EvThrow SReextMove) s)) ;;
        set_arr r (with_bx (a_alloc ar) p x) ;;;
        (match p with
         | PNull => ret tt
         | PBlk b => if c_tdc cfg then ret tt else value_construct_n b (Z.to_nat (bnumel x))
         end)
  | OReshape r x =>
      (* array.hpp:1238-1244 *)
      ar <- get_arr r ;;
      if bnumel x =? nel ar then set_arr r (with_bx (a_alloc ar) (a_base ar) x) else fail EDomain
  | OWrite r k v =>
      ar <- get_arr r ;;
      if (Z.of_nat k <? nel ar) then (b <- base_blk ar ;; assign1 cfg b k v) else fail EDomain
  | ODestroy r => p_dtor cfg r
  | OViewAssign r s vr vs =>
      (* array_ref.hpp:2126-2165 (subarray::operator=), 975-988 (elements_range_t::operator=): the elements are copy
         assigned one by one in the canonical order of the two views; nothing is allocated, nothing rolled back *)
      ar <- get_arr r ;; as_ <- get_arr s ;;
      if nel ar <=? 0 then ret tt
      else b <- base_blk ar ;; assign_loop cfg SAssignElem b (vs_offs vr) (vsrc_cells as_ vs)
  end.

(* ------------------------------------------------------------------------------------------ *)
(* histories                                                                                   *)
(* ------------------------------------------------------------------------------------------ *)
Inductive outcome := OutOk | OutThrew | OutErr (e : err).

Definition st0 (fault : option nat) : state := mkst [] (repeat None NSLOTS) [] fault 0 0 0.
Definition reset_counts (s : state) : state :=
  mkst (s_blocks s) (s_arrs s) (s_ledger s) (s_fault s) 0 0 (s_fallible s).

(* unwinding of the temporaries of an operation that threw: fully constructed locals are destroyed *)
Definition unwind1 (cfg : config) (t : nat) (s : state) : res unit :=
  match nth_error (s_arrs s) t with
  | Some (Some _) => p_dtor cfg t s
  | _ => Ok tt s
  end.
Definition unwind (cfg : config) : M unit :=
  (fun s => unwind1 cfg TMP1 s) ;;; (fun s => unwind1 cfg TMP2 s) ;;; (fun s => unwind1 cfg TMP3 s).

Definition run_op (cfg : config) (o : lop) (s : state) : outcome * state :=
  match step cfg o (reset_counts s) with
  | Ok _ s' => (OutOk, s')
  | Threw s' => match unwind cfg s' with
                | Ok _ s'' => (OutThrew, s'')
                | Threw s'' => (OutThrew, s'')
                | Err e => (OutErr e, s')
                end
  | Err e => (OutErr e, s)
  end.

(* the caller catches the exception and carries on; an Err stops the run *)
Fixpoint run_life (cfg : config) (h : list lop) (s : state) : list outcome * state :=
  match h with
  | [] => ([], s)
  | o :: rest =>
      let '(out, s') := run_op cfg o s in
      match out with
      | OutErr _ => ([out], s')
      | _ => let '(outs, s'') := run_life cfg rest s' in (out :: outs, s'')
      end
  end.

(* ------------------------------------------------------------------------------------------ *)
(* observables                                                                                 *)
(* ------------------------------------------------------------------------------------------ *)
Definition arr_block (s : state) (a : arr) : option block :=
  match a_base a with
  | PBlk b => match nth_error (s_blocks s) b with Some blk => if b_live blk then Some blk else None | None => None end
  | PNull => None
  end.
Definition cell_init (cfg : config) (c : cell) : bool :=
  match c with Raw => c_tdc cfg | _ => true end.
(* an array seen from outside: its extents are backed by a live block of that many constructed cells *)
Definition arr_valid (cfg : config) (s : state) (a : arr) : bool :=
  if nel a <=? 0 then true
  else match arr_block s a with
       | Some blk => (b_size blk =? nel a) && forallb (cell_init cfg) (b_cells blk)
       | None => false
       end.
Definition live_blocks (s : state) : list block := filter b_live (s_blocks s).
Definition alive_cells (s : state) : Z :=
  fold_right (fun blk acc => acc + Z.of_nat (length (filter (fun c => match c with Raw => false | _ => true end) (b_cells blk))))
             0 (s_blocks s).

(* ------------------------------------------------------------------------------------------ *)
(* the reference interpreter over values (C04, C06): a pool of (extensions, flat values)       *)
(* ------------------------------------------------------------------------------------------ *)
Definition aval := (bx * list Z)%type.
Definition vpool := list (option aval).

Definition vget (p : vpool) (r : nat) : aval :=
  match nth_error p r with Some (Some v) => v | _ => ([], []) end.
Definition vset (p : vpool) (r : nat) (v : option aval) : vpool := upd_nth p r v.
Definition vempty (cfg : config) : aval := (zb (zeros (c_rank cfg)), []).
Definition at_offs (vals : list Z) (offs : list nat) : list Z := map (fun o => nth o vals 0) offs.
Definition vnumel (v : aval) : Z := bnumel (fst v).

(* reextent on values: element idx of the new extensions keeps the old value when idx is also in the old extensions *)
Fixpoint all_idx (x : bx) : list (list Z) :=
  match x with
  | [] => [[]]
  | (f, n) :: x' => flat_map (fun i => map (cons (f + Z.of_nat i)) (all_idx x')) (seqn (Z.to_nat n))
  end.
Fixpoint rowmajor (x : bx) (idx : list Z) : Z :=
  match x, idx with
  | (f, _) :: x', i :: idx' => (i - f) * bnumel x' + rowmajor x' idx'
  | _, _ => 0
  end.
Fixpoint in_bx (x : bx) (idx : list Z) : bool :=
  match x, idx with
  | (f, n) :: x', i :: idx' => (f <=? i) && (i <? f + n) && in_bx x' idx'
  | [], [] => true
  | _, _ => false
  end.
Definition reext_vals (oldx : bx) (oldv : list Z) (newx : bx) (dflt : Z) : list Z :=
  map (fun idx => if in_bx oldx idx then nth (Z.to_nat (rowmajor oldx idx)) oldv dflt else dflt) (all_idx newx).

(* writes at given positions, in order *)
Fixpoint put_list (l : list Z) (offs : list nat) (vs : list Z) : list Z :=
  match offs, vs with o :: offs', v :: vs' => put_list (upd_nth l o v) offs' vs' | _, _ => l end.

Definition dflt_val (cfg : config) : Z := if c_tdc cfg then pat else 0.

Definition vstep (cfg : config) (o : lop) (p : vpool) : vpool :=
  match o with
  | OCtorDefault r _ => vset p r (Some (vempty cfg))
  | OCtorSized r _ x => vset p r (Some (norm_bx x, repeat (dflt_val cfg) (Z.to_nat (bnumel x))))
  | OCtorFill r _ x v => vset p r (Some (norm_bx x, repeat v (Z.to_nat (bnumel x))))
  | OCtorCopy r s | OCtorCopyAlloc r s _ => vset p r (Some (vget p s))
  | OCtorMove r s | OCtorMoveAlloc r s _ => vset (vset p r (Some (vget p s))) s (Some (vempty cfg))
  | OCtorView r _ s v => vset p r (Some (norm_bx (vs_exts v), at_offs (snd (vget p s)) (vs_offs v)))
  | OCtorRange r _ w => vset p r (Some (norm_bx (rows_exts w), rw_vals w))
  | OCtorIl r w => vset p r (Some (if rw_k w =? 0 then vempty cfg else (norm_bx (rows_exts w), rw_vals w)))
  | OCtorConv r x vals => vset p r (Some (norm_bx x, vals))
  | OAssignCopy r s => vset p r (Some (vget p s))
  | OAssignMove r s => if (r =? s)%nat then p else vset (vset p r (Some (vget p s))) s (Some (vempty cfg))
  | OAssignView r s v _ =>
      let '(e, _) := vget p r in
      vset p r (Some ((if bx_eq e (vs_exts v) then e else norm_bx (vs_exts v)), at_offs (snd (vget p s)) (vs_offs v)))
  | OAssignRange r w =>
      let '(e, _) := vget p r in
      vset p r (Some ((if (rw_k w =? hd 0 (bx_sizes e)) && ((length e <=? 1)%nat || (hd 0 (bx_sizes e) =? 0) || bx_eq (zb (rw_ie w)) (tl e))
                       then e else norm_bx (rows_exts w)), rw_vals w))
  | OAssignIlEmpty r | OClear r => vset p r (Some (vempty cfg))
  | OAssignFill r x v =>
      let '(e, _) := vget p r in
      vset p r (Some ((if bx_eq e x then e else norm_bx x), repeat v (Z.to_nat (bnumel x))))
  | OAssignConv r x vals =>
      let '(e, _) := vget p r in
      vset p r (Some ((if bx_eq e (norm_bx x) then e else norm_bx x), vals))
  | OSwap r s => vset (vset p r (Some (vget p s))) s (Some (vget p r))
  | OReextent r x fillv =>
      let '(e, vals) := vget p r in
      if bx_eq x e then p
      else vset p r (Some (norm_bx x, reext_vals e vals (norm_bx x)
                                         (match fillv with Some v => v | None => dflt_val cfg end)))
  | OReextentMove r x =>
      let '(e, vals) := vget p r in
      if bx_eq x e then p
      else vset p r (Some (norm_bx x, repeat (dflt_val cfg) (Z.to_nat (bnumel x))))
  | OReshape r x => vset p r (Some (norm_bx x, snd (vget p r)))
  | OWrite r k v => let '(e, vals) := vget p r in vset p r (Some (e, upd_nth vals k v))
  | ODestroy r => vset p r None
  | OViewAssign r s vr vs =>
      let '(e, vals) := vget p r in
      vset p r (Some (e, put_list vals (vs_offs vr) (at_offs (snd (vget p s)) (vs_offs vs))))
  end.
Definition run_values (cfg : config) (h : list lop) (p : vpool) : vpool := fold_left (fun q o => vstep cfg o q) h p.

(* the value of a cell / an array of the machine state *)
Definition cell_val (c : cell) : Z := match c with Raw => pat | Alive v | Moved v => v end.
Definition abs_arr (s : state) (a : arr) : aval :=
  (arr_bx a, if nel a <=? 0 then [] else match arr_block s a with Some blk => map cell_val (b_cells blk) | None => [] end).
Definition abs_state (s : state) : vpool := map (option_map (abs_arr s)) (s_arrs s).
(* operator== of two arrays: equal extensions and equal elements *)
Definition arr_eqb (s : state) (a b : arr) : bool :=
  bx_eq (arr_bx a) (arr_bx b) &&
  (if nel a <=? 0 then true
   else match snd (abs_arr s a), snd (abs_arr s b) with
        | va, vb => (length va =? length vb)%nat && forallb (fun p => fst p =? snd p) (combine va vb)
        end).

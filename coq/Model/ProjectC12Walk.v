(* C12 model, second part: iterators of projected views, index bases, and the remaining ways of making
   an array out of a view of another element type.  Sources:
     /repo/include/boost/multi/array_ref.hpp
        array_iterator<T,D,P> (D>1)        :476-660   ++ :636  -- :637  += -= :649-650 (advance_ :614)  + :561  [] :562
        array_iterator<T,1,P>              :2355-2540 ++ -- :2500-2501  += -= :2503-2504  + - :2480-2481  [] :2453  * :2536
        begin/end                          :1623-1624 (D>1) :3125-3126 (D=1)
        elements_iterator_t                :751-870
     /repo/include/boost/multi/utility.hpp  transform_ptr :80-153: every arithmetic operator acts on the wrapped
        pointer p_ (+= :131, -= :132, + :138, - :139, difference :141, [] :143, == != < :145-151) and operator*
        is std::invoke(f_, *p_) (:114): an iterator over a transform_ptr is the iterator over the wrapped pointer,
        dereferenced through f.  That is what "the iterator of a projected view is the ait/eit of Model/Iter.v on
        p_view" says.
     /repo/include/boost/multi/array.hpp
        static_array(It first, It last[, alloc])                 :250-271   extensions = [0, last-first) x extensions of the first row
        static_array(Range const&)                               :273-280   = static_array(begin(rng), end(rng))
        static_array(array_ref<TT,D> [const]& / &&)  (6 forms)   :437-490   ref(allocate(num_elements), other.extensions()), copy of data_elements
        static_array(array_ref<TT,D> const&, alloc)              :287-300
        static_array(const_subarray<TT,D,..> const& [, alloc])   :371-388, :402-417
        static_array(subarray<TT,D,..>&& [, alloc])              :390-400, :419-426
        static_array::operator=(const_subarray<TT,..> const&)    :669-674   element-wise, same extensions required
        static_array::operator=(static_array<TT,..> const&)      :702-707
        array::operator=(const_subarray<TT,..> const&)           :1359-1367 same extensions: element-wise, else = array{other}
        array::operator=(array<TT,D,A> const&)                   :1369-1383 same extensions / same num_elements (reshape) / else
        array::operator=(Range&&), array::from(Range&&)          :1385-1425
        array::assign(It, It)                                    :1441-1457
   Definitions only. *)
From Coq Require Import ZArith List Bool.
From BM Require Import Model.Layout Model.View Model.Iter Model.ProjectC12.
Import ListNotations.
Local Open Scope Z_scope.

(* ---- leading iterator of a projected view ---- *)
(* begin()/end() of the projected view; ++ -- += -= + - move the (wrapped) pointer by multiples of the stride *)
Definition p_it_begin (x : pview) : ait := it_begin (p_view x).
Definition p_it_end (x : pview) : ait := it_end (p_view x).
(* what *it designates: for rank >= 2 the sub-view (layout of the rows, pointer of the iterator), for rank 1 the
   element (a rank-0 view) -- in the units and at the byte origin of the projected view *)
Definition p_it_deref (x : pview) (a : ait) : pview := mkpview (it_deref a) (p_org x) (p_esz x).
Definition p_it_index (x : pview) (a : ait) (k : Z) : pview := mkpview (it_index a k) (p_org x) (p_esz x).
(* std::reverse_iterator(it): operator* is *--tmp, r + k is reverse_iterator(it - k), r[k] is *(r + k) *)
Definition p_rit_deref (x : pview) (a : ait) : pview := p_it_deref x (it_dec a).
Definition p_rit_index (x : pview) (a : ait) (k : Z) : pview := p_it_deref x (it_dec (it_sub a k)).
(* the sub-view indexing designates: x[i] *)
Definition p_index (i : Z) (x : pview) : pview := p_exec_op (OIndex i) x.
(* byte address of the element idx of a projected view, with l_addr (Layout.v) on its layout *)
Definition p_sub_addr (x : pview) (idx : list Z) : Z := p_addr x idx.

(* ---- flat iterator (elements()) of a projected view ---- *)
Definition p_e_begin (x : pview) : eit := er_begin (p_view x).
Definition p_e_end (x : pview) : eit := er_end (p_view x).
(* byte address of *it and it[k] *)
Definition p_e_deref (x : pview) (it : eit) : Z := p_org x + p_esz x * e_deref it.
Definition p_e_index (x : pview) (it : eit) (k : Z) : Z := p_org x + p_esz x * e_index it k.

(* two projected views designate the same elements: same layout, same element size, same byte pointer *)
Definition pv_same (a b : pview) : Prop :=
  lay (p_view a) = lay (p_view b) /\ p_esz a = p_esz b /\ p_ptr a = p_ptr b.

(* ---- arrays made from an iterator pair / from the flat range ---- *)
(* array(first, last): ref(allocate(...), index_extension(last - first) * extensions( *first)): the leading index
   range restarts at 0, the inner extensions are those of the rows; then uninitialized_copy(first, last, begin()),
   row by row in order = canonical order of the source *)
Definition convert_iter_pair {A B : Type} (conv : A -> B) (rd : Z -> A) (l : layout) : option (carray B) :=
  let xs := l_extensions l in
  let xs' := match xs with [] => [] | r :: rest => (0, r_size r) :: rest end in
  let nl := mk_layout xs' in
  match e_begin l with
  | None => None
  | Some ns0 =>
      Some (mkcarray nl (e_copy_n (Z.to_nat (l_num_elements nl)) xs ns0 (fun ns => conv (rd (l_call l ns)))))
  end.
(* array<T2,1>(v.elements()): the Range constructor over the flat iterators: extension [0, num_elements) *)
Definition convert_flat {A B : Type} (conv : A -> B) (rd : Z -> A) (l : layout) : option (carray B) :=
  let xs := l_extensions l in
  let nl := mk_layout [(0, l_num_elements l)] in
  match e_begin l with
  | None => None
  | Some ns0 =>
      Some (mkcarray nl (e_copy_n (Z.to_nat (l_num_elements nl)) xs ns0 (fun ns => conv (rd (l_call l ns)))))
  end.
(* Assignment from a view / array of another element type: array::operator= keeps the storage when the extensions
   agree (element-wise assignment), reshapes when only the number of elements agrees, and otherwise assigns
   array{other}; in all three branches the result has the extensions a constructed array reports for
   other.extensions() and element idx = conv (other[idx]): the value convert_construct describes. *)
Definition convert_assign {A B : Type} (conv : A -> B) (rd : Z -> A) (l : layout) : option (carray B) :=
  convert_construct conv rd l.

(* C15, the abstract side: the unnormalised multi-dimensional DFT, as a definition over an abstract
   commutative ring of "complex numbers" with an abstract twiddle factor
        tw s n k   standing for   exp(s * 2 pi i * k / n).
   Two definitions:
     mdft  -- what FFTW documents a rank-r plan computes on one batch cell (FFTW manual 4.8.1
              "The 1d Discrete Fourier Transform" and 4.8.6 "Multi-dimensional Transforms"):
              Y[k1..kr] = sum_{j1} ... sum_{jr} X[j1..jr] * w1^(s j1 k1) * ... * wr^(s jr kr);
     dftN  -- the property's right-hand side: the direct DFT of a D-dimensional array along
              exactly the dimensions selected by the mask, the others being independent batches.
   Everything is a definition inside a Section; the Section variables are the ring and tw.
   Definitions only. *)
From Coq Require Import ZArith List Bool.
From BM Require Import Model.Layout Model.View Model.FftwPlan.
Import ListNotations.
Local Open Scope Z_scope.

Section DftDefs.
  Variable C : Type.
  Variables (c0 c1 : C) (cadd cmul : C -> C -> C).
  Variable tw : Z -> Z -> Z -> C.

  (* sum_{k = 0}^{n-1} f k *)
  Definition csum (f : Z -> C) (n : Z) : C := fold_right (fun k acc => cadd (f k) acc) c0 (zrange n).

  (* the natural number k as an element of C: 1 + 1 + ... + 1 *)
  Fixpoint nc (k : nat) : C := match k with O => c0 | S k' => cadd c1 (nc k') end.
  Definition zc (n : Z) : C := nc (Z.to_nat n).

  Fixpoint mdft (s : Z) (ns : list Z) (x : list Z -> C) (k : list Z) : C :=
    match ns, k with
    | n :: ns', k1 :: k' =>
        csum (fun j => cmul (tw s n (j * k1)) (mdft s ns' (fun r => x (j :: r)) k')) n
    | _, _ => x []
    end.

  Fixpoint dftN (s : Z) (which : list bool) (ns : list Z) (x : list Z -> C) (idx : list Z) : C :=
    match which, ns, idx with
    | true :: w', n :: ns', i :: idx' =>
        csum (fun j => cmul (tw s n (j * i)) (dftN s w' ns' (fun r => x (j :: r)) idx')) n
    | false :: w', _ :: ns', i :: idx' =>
        dftN s w' ns' (fun r => x (i :: r)) idx'
    | _, _, _ => x []
    end.

  (* number of transformed points, as an element of C: product of the selected sizes *)
  Fixpoint scaleN (which : list bool) (ns : list Z) : C :=
    match which, ns with
    | true :: w', n :: ns' => cmul (zc n) (scaleN w' ns')
    | false :: w', _ :: ns' => scaleN w' ns'
    | _, _ => c1
    end.

  (* memory: the root storage(s), addressed by element offset *)
  Definition mem := Z -> C.

  (* reading a view out of memory as a function of the index tuple *)
  Definition view_read (m : mem) (v : view) (idx : list Z) : C := m (v_addr v idx).

  (* A reference executor: the memory after executing a plan, computed cell by cell from mdft.
     It is not used to state the theorems (those are about an arbitrary executor satisfying
     guru_contract); it shows that the contract can be met (Proofs/FftwDftProofs.v,
     ref_exec_meets_contract). *)
  Definition ref_exec (g : guru_call) (pin pout : Z) (m : mem) : mem :=
    fun a =>
      match find (fun c => a =? pout + c_out c) (guru_cells (g_dims g) (g_hdims g)) with
      | Some c => mdft (g_sign g) (map io_n (g_dims g))
                       (fun t' => m (pin + c_in (guru_cell (g_dims g) (g_hdims g) (c_batch c) t')))
                       (c_trans c)
      | None => m a
      end.

  (* The external library: executing a plan (created with the recorded arguments) on the arrays
     `pin`, `pout` (new-array execute, fftw_execute_dft) transforms memory.  A Section variable;
     what is assumed about it is the hypothesis guru_contract of Proofs/FftwDftProofs.v. *)
  Variable fftw_exec : guru_call -> Z -> Z -> mem -> mem.
  (* The external library, planning: creating a plan with the recorded arguments may itself write to
     the arrays (measuring planners run trial transforms on them).  A Section variable; what is assumed
     about it is the hypothesis plan_contract of Proofs/FftwDftProofs.v (FFTW manual 4.3.2: no write when
     the flags contain FFTW_ESTIMATE or FFTW_WISDOM_ONLY -- planning_preserves_arrays). *)
  Variable fftw_plan_effect : guru_call -> mem -> mem.

  (* a reference planner for the flags that do NOT promise to leave the arrays alone: it clears every cell
     of both arrays (what FFTW 3.3.10's measuring planner is observed to do).  Used only to show that the
     flag matters (C15_planner_flag_needed). *)
  Definition ref_plan_effect (g : guru_call) (m : mem) : mem :=
    if planning_preserves_arrays (g_flags g) then m
    else fun a =>
      if existsb (fun c => (a =? g_in g + c_in c) || (a =? g_out g + c_out c)) (guru_cells (g_dims g) (g_hdims g))
      then c0 else m a.

  (* Running the external calls of one front-end call: a plan is created (NULL, hence no result,
     when FFTW rejects the dimensions or is in wisdom-only mode; the planner may touch memory),
     executed, destroyed; a plan still alive at the end is a leak and counts as no result. *)
  Fixpoint run_events (evs : list fftw_event) (plan : option guru_call) (m : mem) : option mem :=
    match evs with
    | [] => match plan with None => Some m | Some _ => None end
    | EvPlan g :: r =>
        match plan with
        | None => if plan_nonnull g then run_events r (Some g) (fftw_plan_effect g m) else None
        | Some _ => None
        end
    | EvExecute pin pout :: r =>
        match plan with
        | Some g => run_events r plan (fftw_exec g pin pout m)
        | None => None
        end
    | EvDestroy :: r =>
        match plan with Some _ => run_events r None m | None => None end
    end.

  (* fftw::dft(which, in, out, sign) as a memory transformer *)
  Definition dft_mem (which : list bool) (vin vout : view) (s : Z) (m : mem) : option mem :=
    run_events (fe_dft which vin vout s) None m.
  (* an explicit plan object, created, executed once, destroyed *)
  Definition plan_mem (which : list bool) (vin vout : view) (s : Z) (m : mem) : option mem :=
    run_events (fe_plan_execute which vin vout s) None m.
  (* the lazy range form of adaptors/fft.hpp *)
  Definition fft_range_mem (which : list bool) (vin vout : view) (s : Z) (m : mem) : option mem :=
    run_events (fe_fft_range which vin vout s) None m.
End DftDefs.

(* product of the selected sizes, in Z *)
Fixpoint npoints (which : list bool) (ns : list Z) : Z :=
  match which, ns with
  | true :: w', n :: ns' => n * npoints w' ns'
  | false :: w', _ :: ns' => npoints w' ns'
  | _, _ => 1
  end.

(* L6 (LAPACK): the argument marshalling of boost::multi's LAPACK adaptor, function by function.
   Sources: /repo/include/boost/multi/adaptors/lapack/filling.hpp  (filling, flip)
            /repo/include/boost/multi/adaptors/lapack/potrf.hpp    (:25-59)
            /repo/include/boost/multi/adaptors/lapack/geqrf.hpp    (:38-77)
            /repo/include/boost/multi/adaptors/lapack/gesvd.hpp    (:24-93)
            /repo/include/boost/multi/adaptors/lapack/syev.hpp     (:23-55)
            /repo/include/boost/multi/array_ref.hpp                (begin/end :1623-1624, iterator
                                                                    difference :651-655, advance)
   A pointer is an integer offset (in elements) from the start of the buffer its operand lives in.
   A 2-D view the adaptor receives is (base, stride0, stride1, size0, size1), zero-based (index bases
   belong to C19); a 1-D view is (base, stride, size).
   Each adaptor entry point is split, as in View.v, into
     *_asrt : the conjunction of the assertions the code evaluates,
     *_dom  : the documented domain (what LAPACK needs; what the property calls "accepted"),
     *_call / *_trace : the arithmetic the code performs to build the Fortran call(s),
     *_ret  : the view it returns, as a function of LAPACK's info.
   Definitions only. *)
From Coq Require Import ZArith List Bool.
Import ListNotations.
Local Open Scope Z_scope.

(* ------------------------------------------------------------------------------------------ *)
(* views and the operations the adaptor uses                                                    *)
(* ------------------------------------------------------------------------------------------ *)
Record mat := mkmat { m_base : Z; m_s0 : Z; m_s1 : Z; m_n0 : Z; m_n1 : Z }.
Record vec := mkvec { vc_base : Z; vc_s : Z; vc_n : Z }.

Definition maddr (v : mat) (i j : Z) : Z := m_base v + i * m_s0 v + j * m_s1 v.   (* &v[i][j] *)
Definition vaddr (w : vec) (i : Z) : Z := vc_base w + i * vc_s w.                  (* &w[i]    *)

(* rotated() / transposed() / operator~ coincide for D = 2 (layout.hpp:935-949) *)
Definition m_rotated (v : mat) : mat := mkmat (m_base v) (m_s1 v) (m_s0 v) (m_n1 v) (m_n0 v).
(* A({0,r},{0,c}) on a zero-based view: sliced(0,r) keeps base and strides
   (array_ref.hpp:1258-1277 with first = 0, offset = 0) *)
Definition m_block (v : mat) (r c : Z) : mat := mkmat (m_base v) (m_s0 v) (m_s1 v) r c.
(* A() *)
Definition m_all (v : mat) : mat := v.

(* how the generator (and a user) obtains the views of the property's quantifier: a block
   [r0,r0+nr) x [c0,c0+nc) of a contiguous row-major array with C columns, possibly transposed *)
Definition root_block (C r0 c0 nr nc : Z) : mat := mkmat (r0 * C + c0) C 1 nr nc.
Definition mk_operand (C r0 c0 nr nc : Z) (transposed : bool) : mat :=
  if transposed then m_rotated (root_block C r0 c0 nr nc) else root_block C r0 c0 nr nc.
(* strides of multi::array<double,2>({R,C}): layout.hpp:735-745 gives (C,1), and (1,1) when C = 0 *)
Definition root_stride (C : Z) : Z := if C =? 0 then 1 else C.

(* array_iterator<T,2>: element pointer of the current row, stride, and the row's own stride *)
Record iter := mkit { it_ptr : Z; it_stride : Z; it_inner : Z }.
Definition m_begin (v : mat) : iter := mkit (m_base v) (m_s0 v) (m_s1 v).                       (* :1623 *)
Definition m_end   (v : mat) : iter := mkit (m_base v + m_n0 v * m_s0 v) (m_s0 v) (m_s1 v).      (* :1624, nelems = size*stride *)
Definition it_distance (a b : iter) : Z := Z.quot (it_ptr b - it_ptr a) (it_stride b).           (* :651-655, b - a *)
Definition it_plus (a : iter) (k : Z) : iter := mkit (it_ptr a + k * it_stride a) (it_stride a) (it_inner a).

(* ------------------------------------------------------------------------------------------ *)
(* filling.hpp                                                                                  *)
(* ------------------------------------------------------------------------------------------ *)
Inductive fchar := FU | FL.                       (* the character LAPACK receives: 'U' / 'L' *)
Inductive filling := Lower | Upper.
Definition filling_char (f : filling) : fchar := match f with Lower => FU | Upper => FL end.  (* :13-16 *)
Definition flip (f : filling) : filling := match f with Lower => Upper | Upper => Lower end.   (* :18-24 *)

(* which (row,col) positions a triangle designates; Fortran reading and the view's own reading *)
Definition ftri (c : fchar) (i j : Z) : bool := match c with FU => i <=? j | FL => j <=? i end.
Definition vtri (f : filling) (a b : Z) : bool := match f with Upper => a <=? b | Lower => b <=? a end.

(* ------------------------------------------------------------------------------------------ *)
(* potrf.hpp                                                                                    *)
(* ------------------------------------------------------------------------------------------ *)
Record potrf_call := mkpc { pc_uplo : fchar; pc_n : Z; pc_a : Z; pc_lda : Z }.

(* iterator form, :25-40 *)
Definition potrf_it_asrt (first last : iter) : bool :=
  (it_stride first =? it_stride last) && (it_inner first =? 1).                       (* :30-31 *)
Definition potrf_it_call (uplo : filling) (first last : iter) : potrf_call :=
  mkpc (filling_char uplo) (it_distance first last) (it_ptr first) (it_stride first).  (* :35 *)
Definition potrf_it_ret (first last : iter) (info : Z) : iter :=
  if info =? 0 then last else it_plus (it_plus first info) (-1).                       (* :39 *)

(* array form, :42-59 *)
Definition potrf_colbranch (v : mat) : bool := m_s0 v =? 1.                            (* :49 stride(A) == 1 *)
Definition potrf_asrt (v : mat) : bool :=
  if potrf_colbranch v then potrf_it_asrt (m_begin (m_rotated v)) (m_end (m_rotated v))
  else potrf_it_asrt (m_begin v) (m_end v).
Definition potrf_call_of (uplo : filling) (v : mat) : potrf_call :=
  if potrf_colbranch v
  then potrf_it_call (flip uplo) (m_begin (m_rotated v)) (m_end (m_rotated v))         (* :50 *)
  else potrf_it_call uplo (m_begin v) (m_end v).                                       (* :55 *)
Definition potrf_ret (v : mat) (info : Z) : mat :=
  if potrf_colbranch v
  then let r := m_rotated v in
       let k := it_distance (m_begin r) (potrf_it_ret (m_begin r) (m_end r) info) in
       m_block v k k                                                                   (* :52 *)
  else let k := it_distance (m_begin v) (potrf_it_ret (m_begin v) (m_end v) info) in
       m_block v k k.                                                                  (* :58 *)

(* documented domain: square, one unit stride, the other one a legal leading dimension *)
Definition potrf_dom (v : mat) : bool :=
  (0 <=? m_n0 v) && (m_n0 v =? m_n1 v) &&
  (((m_s0 v =? 1) && (Z.max 1 (m_n0 v) <=? m_s1 v)) || ((m_s1 v =? 1) && (Z.max 1 (m_n0 v) <=? m_s0 v))).
(* DPOTRF's own argument checks (reference LAPACK dpotrf.f: N >= 0, LDA >= max(1,N)) *)
Definition potrf_legal (c : potrf_call) : bool := (0 <=? pc_n c) && (Z.max 1 (pc_n c) <=? pc_lda c).
(* order of the leading block that was factorized, from info *)
Definition potrf_order (n info : Z) : Z := if info =? 0 then n else info - 1.

(* ------------------------------------------------------------------------------------------ *)
(* workspace protocol shared by geqrf and gesvd: query call, allocate, real call, deallocate    *)
(* ------------------------------------------------------------------------------------------ *)
Inductive workp := WLocal | WAlloc.           (* &dwork (a local double) / the block from alloc.allocate *)
Inductive event (call : Type) := EvCall (c : call) | EvAlloc (n : Z) | EvDealloc (n : Z) | EvThrow.
Arguments EvCall {call} c.
Arguments EvAlloc {call} n.
Arguments EvDealloc {call} n.
Arguments EvThrow {call}.

(* qinfo: info of the query; lwork: static_cast<int>(dwork) as answered by the query; rinfo: info of the real call *)
Definition ws_trace {call : Type} (mk : workp -> Z -> call) (qinfo lwork rinfo : Z) : list (event call) :=
  EvCall (mk WLocal (-1)) ::
  (if qinfo =? 0
   then EvAlloc lwork :: EvCall (mk WAlloc lwork) :: EvDealloc lwork :: (if rinfo =? 0 then [] else [EvThrow])
   else [EvThrow]).

(* ------------------------------------------------------------------------------------------ *)
(* geqrf.hpp:38-72                                                                               *)
(* ------------------------------------------------------------------------------------------ *)
Record geqrf_call := mkgq { gq_m : Z; gq_n : Z; gq_a : Z; gq_lda : Z; gq_tau : Z; gq_work : workp; gq_lwork : Z }.
Definition geqrf_asrt (aa : mat) (tau : vec) : bool :=
  (m_s0 (m_rotated aa) =? 1) &&                                                       (* :40 *)
  (vc_n tau =? Z.min (m_n0 (m_rotated aa)) (m_n0 aa)) &&                              (* :41 *)
  (vc_s tau =? 1).                                                                    (* :42 *)
Definition geqrf_mk (aa : mat) (tau : vec) (w : workp) (lwork : Z) : geqrf_call :=
  mkgq (m_n0 (m_rotated aa)) (m_n0 aa) (m_base aa) (m_s0 aa) (vc_base tau) w lwork.   (* :46-51, :59-64 *)
Definition geqrf_trace (aa : mat) (tau : vec) (qinfo lwork rinfo : Z) : list (event geqrf_call) :=
  ws_trace (geqrf_mk aa tau) qinfo lwork rinfo.
Definition geqrf_ret (aa : mat) : mat := aa.                                           (* :71 *)
Definition geqrf_dom (aa : mat) (tau : vec) : bool :=
  geqrf_asrt aa tau && (0 <=? m_n0 aa) && (0 <=? m_n1 aa) && (Z.max 1 (m_n1 aa) <=? m_s0 aa).
(* dgeqrf.f: M >= 0, N >= 0, LDA >= max(1,M), LWORK >= max(1,N) unless it is the query *)
Definition geqrf_legal (c : geqrf_call) : bool :=
  (0 <=? gq_m c) && (0 <=? gq_n c) && (Z.max 1 (gq_m c) <=? gq_lda c) &&
  ((gq_lwork c =? -1) || (Z.max 1 (gq_n c) <=? gq_lwork c)).

(* ------------------------------------------------------------------------------------------ *)
(* gesvd.hpp:24-70 (five-argument form), :80-93 (by-value form)                                  *)
(* ------------------------------------------------------------------------------------------ *)
Record gesvd_call := mkgs { gs_jobu_all : bool; gs_jobvt_all : bool; gs_m : Z; gs_n : Z; gs_a : Z; gs_lda : Z;
                            gs_s : Z; gs_u : Z; gs_ldu : Z; gs_vt : Z; gs_ldvt : Z; gs_work : workp; gs_lwork : Z }.
Definition gesvd_asrt (aa uu : mat) (ss : vec) (vv : mat) : bool :=
  (m_n0 aa =? m_n0 uu) && (m_n0 (m_rotated aa) =? m_n0 vv) && (vc_n ss =? Z.min (m_n0 uu) (m_n0 vv)) &&   (* :26-28 *)
  (m_s0 (m_rotated aa) =? 1) && (vc_s ss =? 1) && (m_s0 (m_rotated uu) =? 1) && (m_s0 (m_rotated vv) =? 1). (* :30-33 *)
Definition gesvd_mk (aa uu : mat) (ss : vec) (vv : mat) (w : workp) (lwork : Z) : gesvd_call :=
  mkgs true true (m_n0 vv) (m_n0 uu) (m_base aa) (m_s0 aa) (vc_base ss)
       (m_base vv) (m_s0 vv) (m_base uu) (m_s0 uu) w lwork.                            (* :38-46, :54-62 *)
Definition gesvd_trace (aa uu : mat) (ss : vec) (vv : mat) (qinfo lwork rinfo : Z) : list (event gesvd_call) :=
  ws_trace (gesvd_mk aa uu ss vv) qinfo lwork rinfo.
Definition gesvd_dom (aa uu : mat) (ss : vec) (vv : mat) : bool :=
  gesvd_asrt aa uu ss vv && (0 <=? m_n0 aa) && (0 <=? m_n1 aa) &&
  (m_n1 uu =? m_n0 uu) && (m_n1 vv =? m_n0 vv) &&
  (Z.max 1 (m_n1 aa) <=? m_s0 aa) && (Z.max 1 (m_n0 uu) <=? m_s0 uu) && (Z.max 1 (m_n0 vv) <=? m_s0 vv).
(* dgesvd.f with JOBU = JOBVT = 'A': M,N >= 0, LDA >= max(1,M), LDU >= max(1,M), LDVT >= max(1,N),
   LWORK >= max(1, 3*min(M,N)+max(M,N), 5*min(M,N)) unless it is the query *)
Definition gesvd_minwork (m n : Z) : Z := Z.max 1 (Z.max (3 * Z.min m n + Z.max m n) (5 * Z.min m n)).
Definition gesvd_legal (c : gesvd_call) : bool :=
  gs_jobu_all c && gs_jobvt_all c && (0 <=? gs_m c) && (0 <=? gs_n c) && (Z.max 1 (gs_m c) <=? gs_lda c) &&
  (Z.max 1 (gs_m c) <=? gs_ldu c) && (Z.max 1 (gs_n c) <=? gs_ldvt c) &&
  ((gs_lwork c =? -1) || (gesvd_minwork (gs_m c) (gs_n c) <=? gs_lwork c)).
(* by-value form :80-93: AA_copy (contiguous copy of an r x c matrix), UU r x r, ss min(r,c), VV c x c, all fresh *)
Definition gesvd_value_operands (r c : Z) : mat * mat * vec * mat :=
  (mkmat 0 (root_stride c) 1 r c, mkmat 0 (root_stride r) 1 r r, mkvec 0 1 (Z.min r c), mkmat 0 (root_stride c) 1 c c).

(* ------------------------------------------------------------------------------------------ *)
(* syev.hpp:23-55                                                                                *)
(* ------------------------------------------------------------------------------------------ *)
Record syev_call := mksy { sy_jobz_v : bool; sy_uplo : fchar; sy_n : Z; sy_a : Z; sy_lda : Z; sy_w : Z; sy_work : Z; sy_lwork : Z }.
Definition syev_asrt (a : mat) (w work : vec) : bool :=
  (Z.max 1 (3 * m_n0 a - 1) <=? vc_n work) && (m_n0 a =? vc_n w) && (vc_s w =? 1) && (vc_s work =? 1).   (* :26-29 *)
Inductive syev_step := SyNoCall | SyCall (c : syev_call) | SyAssertFails.
Definition syev_rowbranch (a : mat) : bool := m_s0 (m_rotated a) =? 1.                 (* :36 *)
Definition syev_colbranch (a : mat) : bool := negb (syev_rowbranch a) && (m_s0 a =? 1). (* :38 *)
Definition syev_step_of (uplo : filling) (a : mat) (w work : vec) : syev_step :=
  if m_n0 a =? 0 then SyNoCall                                                          (* :31-32 *)
  else if syev_rowbranch a
  then SyCall (mksy true (match uplo with Upper => FL | Lower => FU end) (m_n0 a) (m_base a) (m_s0 a)
                    (vc_base w) (vc_base work) (vc_n work))                             (* :37 *)
  else if m_s0 a =? 1
  then SyCall (mksy true (match uplo with Upper => FU | Lower => FL end) (m_n0 a) (m_base a) (m_s0 (m_rotated a))
                    (vc_base w) (vc_base work) (vc_n work))                             (* :39 *)
  else SyAssertFails.                                                                   (* :41 *)
Definition syev_ret (a : mat) (info : Z) : mat :=
  if m_n0 a =? 0 then m_all a else m_block a (m_n0 a - info) (m_n0 a - info).            (* :32, :48 *)
(* three-argument form :51-55 allocates the workspace itself *)
Definition syev_work_size (n : Z) : Z := Z.max 1 (3 * n - 1).
Definition syev_dom (a : mat) (w work : vec) : bool :=
  syev_asrt a w work && (0 <=? m_n0 a) && (m_n0 a =? m_n1 a) &&
  (((m_s1 a =? 1) && (Z.max 1 (m_n0 a) <=? m_s0 a)) || ((m_s0 a =? 1) && (Z.max 1 (m_n0 a) <=? m_s1 a))).
(* dsyev.f: N >= 0, LDA >= max(1,N), LWORK >= max(1, 3N-1) *)
Definition syev_legal (c : syev_call) : bool :=
  sy_jobz_v c && (0 <=? sy_n c) && (Z.max 1 (sy_n c) <=? sy_lda c) && (Z.max 1 (3 * sy_n c - 1) <=? sy_lwork c).

(* ------------------------------------------------------------------------------------------ *)
(* footprints: the set of addresses a Fortran argument designates, and the set a view owns      *)
(* ------------------------------------------------------------------------------------------ *)
Definition in_colmajor (a lda m n : Z) (p : Z) : Prop :=
  exists i j, 0 <= i < m /\ 0 <= j < n /\ p = a + i + j * lda.
Definition in_coltri (c : fchar) (a lda n : Z) (p : Z) : Prop :=
  exists i j, 0 <= i < n /\ 0 <= j < n /\ ftri c i j = true /\ p = a + i + j * lda.
Definition in_mat (v : mat) (p : Z) : Prop :=
  exists i j, 0 <= i < m_n0 v /\ 0 <= j < m_n1 v /\ p = maddr v i j.
Definition in_mattri (f : filling) (v : mat) (p : Z) : Prop :=
  exists i j, 0 <= i < m_n0 v /\ 0 <= j < m_n1 v /\ vtri f i j = true /\ p = maddr v i j.
Definition in_vec (w : vec) (p : Z) : Prop := exists i, 0 <= i < vc_n w /\ p = vaddr w i.
Definition in_run (a n : Z) (p : Z) : Prop := a <= p < a + n.

(* C07 for ANY element equality.  Model/Compare.v compares elements with Z.eqb, which is reflexive; the library compares
   with the element type's own operator==, which need not be (a NaN is not equal to itself; two element_transformed
   views of one array through different functions read different values from the same addresses).  Here the comparison
   of two views is parametrised by the element test `eqe` (any function, no law assumed) and by what each operand
   reads (`ma`, `mb`: two views of the same storage through different projections read different values), as
   adl_equal(other.begin(), other.end(), begin()) over the two elements() ranges does (array_ref.hpp elements_range_t
   operator==, reached from const_subarray operator== after the extension test).  Definitions only. *)
From Coq Require Import ZArith List Bool.
From BM Require Import Model.Layout Model.View Model.Compare.
Import ListNotations.
Local Open Scope Z_scope.

Fixpoint list_eqb_by (eqe : Z -> Z -> bool) (a b : list Z) : bool :=
  match a, b with
  | [], [] => true
  | x :: a', y :: b' => eqe x y && list_eqb_by eqe a' b'
  | _, _ => false
  end.

(* the comparison on what is observable from outside: extensions and flat element lists of both operands *)
Definition eq_flat_by (eqe : Z -> Z -> bool) (xa xb : list range) (fa fb : list Z) : bool :=
  x_eq xa xb && list_eqb_by eqe fa fb.

Definition v_eq_by (eqe : Z -> Z -> bool) (a b : view) (ma mb : Z -> Z) : bool :=
  eq_flat_by eqe (l_extensions (lay a)) (l_extensions (lay b)) (flat_t (v_tree a ma)) (flat_t (v_tree b mb)).
Definition v_ne_by (eqe : Z -> Z -> bool) (a b : view) (ma mb : Z -> Z) : bool := negb (v_eq_by eqe a b ma mb).

(* the element test of a floating-point type over codes: code `nan` stands for a NaN (equal to nothing, itself included) *)
Definition nan_eqb (nan : Z) (x y : Z) : bool := negb (x =? nan) && negb (y =? nan) && (x =? y).

(* C19: the zero-based twin of a program on a re-based view.  twin_op v o is the operation (or none) to
   apply to the twin when o is applied to v: index arguments are shifted by the first valid index of the
   dimension they address; reindexed has no counterpart (it only renames indices); blocked(a,b) is
   sliced on the twin.  norm v is the twin view itself: same base, strides and sizes, offsets 0. *)
From Coq Require Import ZArith List Bool.
From BM Require Import Model.Layout Model.View.
Import ListNotations.
Local Open Scope Z_scope.

Definition norm_d (d : dim) : dim := mkdim (d_stride d) 0 (d_nelems d).
Definition norm (v : view) : view := mkview (map norm_d (lay v)) (base v).

Definition v_first (v : view) : Z := fst (v_extension v).

Fixpoint twin_paren (args : list parg) (v : view) : list parg :=
  match args with
  | [] => []
  | PIdx i :: rest => PIdx (i - v_first v) :: twin_paren rest (v_index i v)
  | PRange a b :: rest => PRange (a - v_first v) (b - v_first v) :: twin_paren rest (v_rotated (v_sliced a b v))
  | PAll :: rest =>
      let e := all_range v in PAll :: twin_paren rest (v_rotated (v_sliced (fst e) (snd e) v))
  end.

Definition twin_op (v : view) (o : op) : list op :=
  let f := v_first v in
  match o with
  | OIndex i => [OIndex (i - f)]
  | OSliced a b => [OSliced (a - f) (b - f)]
  | OSlicedS a b s => [OSlicedS (a - f) (b - f) s]
  | OBlocked a b => [OSliced (a - f) (b - f)]
  | OReindexed _ => []
  | OReindexedL _ => []
  | OParen args => [OParen (twin_paren args v)]
  | _ => [o]
  end.

(* the twin program of a whole sequence, threaded through the re-based run *)
Fixpoint twin_ops (ops : list op) (v : view) : list op :=
  match ops with
  | [] => []
  | o :: rest => twin_op v o ++ twin_ops rest (exec_op o v)
  end.

Definition firsts_of (v : view) : list Z := map fst (l_extensions (lay v)).
Fixpoint vsubz (a b : list Z) : list Z :=
  match a, b with x :: a', y :: b' => (x - y) :: vsubz a' b' | _, _ => [] end.
(* diagonal() takes its block from index 0 (array_ref.hpp:1380): only meaningful when the first two index
   bases are 0 -- the one operation excluded from the transparency theorem (known finding) *)
Definition diag_ok (v : view) : bool :=
  match l_extensions (lay v) with
  | e0 :: e1 :: _ => ((fst e0 =? 0) && (fst e1 =? 0)) || (r_size e0 =? 0) || (r_size e1 =? 0)
  | _ => true
  end.

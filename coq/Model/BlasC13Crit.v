(* C13 -- a decidable criterion "this BLAS call computes this product of views".
   Definitions only.  gemm_implements_b / gemv_implements_b compare COEFFICIENTS (strides against leading
   dimensions, sizes against m/n/k, conjugation flags against 'C'), so they are linear and computable; they are
   proved sound for all sizes and strides in Proofs/BlasC13Gemm.v / BlasC13Gemv.v, they are extracted, and the
   check evaluates them on every generated case: where the criterion holds the library's result must be right
   (no known finding can mask a disagreement there). *)
From Coq Require Import ZArith List Bool.
From BM Require Import Model.BlasC13 Model.BlasC13Ref.
Local Open Scope Z_scope.
Local Open Scope bool_scope.

(* for all 0 <= r < nr, 0 <= c < nc:  r*x0 + c*x1 = r*y0 + c*y1  (a row/column that has at most one index
   does not constrain its stride) *)
Definition agree (nr nc x0 x1 y0 y1 : Z) : bool :=
  ((nr <=? 1) || (x0 =? y0)) && ((nc <=? 1) || (x1 =? y1)).

(* element (r,c) of op(X) as xGEMM reads it (X at p, leading dimension ld, flag t) is element (r,c) of the view x,
   for r < nr, c < nc *)
Definition op_is (t : trans) (p ld : Z) (x : mat) (nr nc : Z) : bool :=
  (nr <=? 0) || (nc <=? 0)
  || (Bool.eqb (opconj t) (mconj x) && (p =? mbase x)
      && agree nr nc (if is_n t then 1 else ld) (if is_n t then ld else 1) (s0 x) (s1 x)).

(* ... is element (c,r) of the view x *)
Definition op_is_tr (t : trans) (p ld : Z) (x : mat) (nr nc : Z) : bool :=
  (nr <=? 0) || (nc <=? 0)
  || (Bool.eqb (opconj t) (mconj x) && (p =? mbase x)
      && agree nr nc (if is_n t then 1 else ld) (if is_n t then ld else 1) (s1 x) (s0 x)).

(* the m x n column-major output of the call is the view c (direct) or its transpose (swapped) *)
Definition out_is (k : gemm_call) (c : mat) : bool :=
  (g_m k =? rows c) && (g_n k =? cols c)
  && ((rows c <=? 0) || (cols c <=? 0) || ((g_pc k =? mbase c) && agree (rows c) (cols c) 1 (g_ldc k) (s0 c) (s1 c))).
Definition out_is_tr (k : gemm_call) (c : mat) : bool :=
  (g_m k =? cols c) && (g_n k =? rows c)
  && ((rows c <=? 0) || (cols c <=? 0) || ((g_pc k =? mbase c) && agree (rows c) (cols c) (g_ldc k) 1 (s0 c) (s1 c))).

Definition gemm_implements_b (k : gemm_call) (a b c : mat) : bool :=
  gemm_legal k && (g_k k =? cols a) && negb (mconj c)
  && (   (out_is k c    && op_is    (g_ta k) (g_pa k) (g_lda k) a (rows c) (cols a) && op_is    (g_tb k) (g_pb k) (g_ldb k) b (cols a) (cols c))
      || (out_is_tr k c && op_is_tr (g_ta k) (g_pa k) (g_lda k) b (cols c) (cols a) && op_is_tr (g_tb k) (g_pb k) (g_ldb k) a (cols a) (rows c))).

(* xGEMV: op(A) is ylen x xlen; the vectors are read with their own increments.  The reference routine returns
   at once when m = 0 or n = 0 (dgemv.f "Quick return if possible"), WITHOUT scaling y by beta: a product with an
   empty inner dimension is therefore only right when y is empty too (or beta = 1, which the dispatch cannot see). *)
Definition gemv_implements_b (k : gemv_call) (m : mat) (x y : vec) : bool :=
  gemv_legal k && (0 <? v_incx k) && (0 <? v_incy k)
  && (gemv_ylen k =? rows m) && (gemv_xlen k =? cols m)
  && ((rows m <=? 0) || (0 <? cols m))
  && op_is (v_ta k) (v_pa k) (v_lda k) m (rows m) (cols m)
  && ((cols m <=? 0) || (rows m <=? 0) || ((v_px k =? vbase x) && ((cols m <=? 1) || (v_incx k =? inc x)) && negb (vconj x)))
  && ((rows m <=? 0) || ((v_py k =? vbase y) && ((rows m <=? 1) || (v_incy k =? inc y)) && negb (vconj y))).

(* ------------------------------------------------------------------------------------------ *)
(* Named conditions under which a call site of gemm_n is right (proved: BlasC13GemmSites.v).   *)
(* M = rows a, K = cols a, N = cols b.  The conditions say where the leading dimension the site *)
(* passes is at least what BLAS demands; they hold automatically when the corresponding operand *)
(* has two or more rows/columns (wf_mat), i.e. they only bite for sizes 0 and 1.                *)
(* Sites not listed (104 108 111 112 113 114 201 202 204 205 206 401) have no such condition    *)
(* here: they are wrong in general (see the _refuted theorems) and are covered by the criterion.*)
(* ------------------------------------------------------------------------------------------ *)
Definition gemm_site_cond (k : gemm_call) (a b c : mat) : bool :=
  let M := rows a in let K := cols a in let N := cols b in
  let s := g_site k in
  if s =? 101 then (1 <=? K)
  else if s =? 102 then (1 <=? K) && (1 <=? N) && ((2 <=? K) || (N <=? s0 b))
  else if s =? 103 then (2 <=? K) || (N <=? s0 b)
  else if s =? 105 then ((2 <=? K) || (N <=? s0 b)) && ((2 <=? N) || (M <=? s1 c))
  else if s =? 106 then N <=? 1
  else if s =? 107 then (2 <=? K) || ((N <=? s0 b) && (M <=? s1 a))
  else if s =? 109 then ((2 <=? K) || ((M <=? s1 a) && (N <=? s0 b))) && ((2 <=? N) || (M <=? s1 c))
  else if s =? 110 then 1 <=? K
  else if s =? 115 then (2 <=? N) || (K <=? s1 b)
  else if s =? 116 then ((2 <=? K) || (M <=? s1 a)) && (K <=? s1 b)
  else if s =? 117 then ((2 <=? K) || (M <=? s1 a)) && ((2 <=? N) || ((K <=? s1 b) && (M <=? s1 c)))
  else if s =? 118 then ((2 <=? N) || (K <=? s1 b)) && ((2 <=? K) || (M <=? s1 a)) && ((2 <=? M) || (N <=? s0 c))
  else if s =? 203 then (2 <=? N) || (K <=? s1 b)
  else if s =? 301 then (Z.max 1 N <=? K) && ((2 <=? K) || (N <=? s0 b))
  else if s =? 302 then (2 <=? K) || ((N <=? s0 b) && (M <=? s1 a))
  else false.


(* all three sizes >= 2: the sites that are still wrong *)
Definition gemm_general_position_defect (k : gemm_call) (a b : mat) : bool :=
  let s := g_site k in
  (s =? 113) || (s =? 201) || (s =? 204) || (s =? 205)
  || (((s =? 206) || (s =? 401)) && negb (rows a =? cols b)).

(* gemv_n: the condition under which its three call sites are right: the inner dimension is not empty unless y is
   (xGEMV's quick return).  Since fix 909e657 the leading dimension is max(stride, max(rows as stored, 1)), legal for
   every shape, so no condition on the strides remains. *)
Definition gemv_site_cond (k : gemv_call) (m : mat) : bool :=
  let s := v_site k in
  ((rows m <=? 0) || (0 <? cols m))
  && ((s =? 501) || (s =? 502) || (s =? 503)).

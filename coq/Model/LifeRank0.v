(* L5 at dimensionality 0: the lifecycle machine of rank-0 owning arrays and rank-0 references (C04, C05, C07, C10 at D = 0).
   Source: /repo/include/boost/multi/array.hpp :731-1143 (static_array<T, 0, Alloc>, array<T, 0, Alloc>: separate class
   specialisations), /repo/include/boost/multi/array_ref.hpp :2549-2680 (const_subarray<T, 0, ...>), :1913-2340 (the generic
   subarray, whose operator= / swap / fill / elements() are also instantiated at D = 0), :3311-3520 (array_ref),
   /repo/include/boost/multi/detail/layout.hpp :1010-1130 (layout_t<0>: extensions() = {}, num_elements() = nelems_ = 1).
   Line numbers are those of /repo HEAD (ec272ed); "(patch NN)" marks an entry point that only compiles, or only does what is
   transcribed here, with notes/patches_rank0/NN_*.diff applied (the probe matrix of vlib/rank0_probes.py decides at run
   time which entry points exist on the tree under test; the harness leaves the others out).

   State, monad, micro-steps (alloc, construct1, destroy1, read1, assign1, mark_moved, dealloc, tick = the fault oracle),
   the composite steps p_build / install / assign_all / assign_loop / release / p_dtor and the unwinding of temporaries are
   those of Model/Life.v, imported, not copied.  A rank-0 array object is an `arr` whose extents list is empty: its
   num_elements() is numel [] = 1 (layout_t<0>{extensions}: nelems_ = 1), so every such object owns a block of ONE cell.
   There is no "empty" rank-0 array: the move constructor allocates and moves the element (array.hpp:949-958), move assignment
   moves the element (:1073-1077), neither takes the block.
   Allocators (C10): the configuration's propagate_on_container_{copy_assignment, move_assignment, swap}, is_always_equal and
   select_on_container_copy_construction are read by ZCtorCopy (patch 16), assign0 (patches 17, 18) and ZSwapMember (patch 19);
   patches 16-19 are against /repo HEAD 9e89822 (the tree with patches 01-15 committed).

   A rank-0 REFERENCE (array_ref<T, 0, P>, subarray<T, 0, P>, a(), the result of element_moved()) designates one element that
   some array object owns: the element of a rank-0 array of the pool (a(), array_ref(a.base(), {})), or element k of a BUFFER
   -- a one-dimensional array object of the pool that stands for the storage the harness binds array_ref<T, 0> objects to.
   ref0 = (slot, index).  Definitions only. *)
From Coq Require Import ZArith List Bool.
From BM Require Import Model.Life.
Import ListNotations.
Local Open Scope Z_scope.

(* extensions_t<0>{} *)
Definition X0 : bx := [].

Record ref0 := mkref0 { rf_slot : nat; rf_idx : nat }.

(* the (block, offset) a reference designates; EDomain when the index is outside the object it refers into *)
Definition ref_cell (q : ref0) : M (nat * nat) :=
  a <- get_arr (rf_slot q) ;;
  if Z.of_nat (rf_idx q) <? nel a then (b <- base_blk a ;; ret (b, rf_idx q)) else fail EDomain.

(* std::swap(x, y) of two elements (libstdc++ move.h:196-205): T tmp(std::move(x)); x = std::move(y); y = std::move(tmp);
   the temporary lives on the stack: its value is carried by the program, the moved-from marks are those of the two cells *)
Definition swap_cells (cfg : config) (b i b' i' : nat) : M unit :=
  tick_elem cfg SAssignElem ;;; v <- read1 cfg b i ;; mark_moved cfg b i ;;;
  tick_elem cfg SAssignElem ;;; w <- read1 cfg b' i' ;; assign1 cfg b i w ;;; mark_moved cfg b' i' ;;;
  tick_elem cfg SAssignElem ;;; assign1 cfg b' i' v.

(* using std::swap; swap(this->alloc(), other.alloc()); swap(this->base_, other.base_): two array objects exchange allocator and
   block (each block stays with the allocator that produced it); the extents stay *)
Definition swap_store (r t : nat) : M unit :=
  ar <- get_arr r ;; at_ <- get_arr t ;;
  set_arr r (mkarr (a_alloc at_) (a_base at_) (a_exts ar) (a_first ar)) ;;;
  set_arr t (mkarr (a_alloc ar) (a_base ar) (a_exts at_) (a_first at_)).

(* copy / move assignment of a rank-0 array from another one (array.hpp:1053-1071, :1084-1103 after patches 17, 18).  `prop` is the
   propagate_on_container_{copy,move}_assignment trait, mk says whether the element is copied or moved from.
     prop, allocators equal:    this->alloc() = other.alloc(); then the element is assigned;
     prop, allocators unequal:  static_array tmp(other, other.alloc()) / tmp(std::move(other)): one element in a block of OTHER's
                                allocator; swap(alloc(), tmp.alloc()); swap(base_, tmp.base_); ~tmp releases the old element and
                                block through the old allocator.  A rank-0 array never gives its block away: "move" moves the element;
     not prop:                  the element is assigned, the allocator stays, whatever the two allocators are. *)
Definition assign0 (cfg : config) (prop : bool) (mk : nat -> nat -> src) (tmp r s : nat) : M unit :=
  ar <- get_arr r ;; as_ <- get_arr s ;;
  if prop then
    if alloc_eq cfg (a_alloc ar) (a_alloc as_) then
      p_set_alloc r (a_alloc as_) ;;; assign_all cfg ar (cells_of mk as_)
    else
      p <- p_build cfg (a_alloc as_) (bnumel X0) 0 (cells_of mk as_) ;;
      install tmp (a_alloc as_) p X0 ;;;
      swap_store r tmp ;;;
      p_dtor cfg tmp
  else assign_all cfg ar (cells_of mk as_).

Inductive lop0 :=
(* ---- the environment ---- *)
| ZBuf (r : nat) (a : Z) (vals : list Z)   (* the storage rank-0 references are bound to: a buffer of length vals elements *)
(* ---- construction, array.hpp ---- *)
| ZCtorValue (r : nat) (a : Z)             (* (extensions, alloc) :927-931; (extensions) :932-935 and () :889 with allocator_type{};
                                              (alloc) :808 (patch 03).  One value-initialised element. *)
| ZCtorElem (r : nat) (a : Z) (v : Z)      (* (extensions, elem, alloc) :815-829; (elem, alloc) :831; (extensions, elem) :881-887 and
                                              (elem) :891 with array_alloc{} *)
| ZCtorSingleton (r : nat) (v : Z)         (* (Singleton const&) :898-908: a value of a convertible type, default allocator *)
| ZCtorCopy (r s : nat)                    (* (static_array const&) :943-947, with select_on_container_copy_construction (patch 16);
                                              unary plus and the copy-initialisations go here *)
| ZCtorCopyAlloc (r s : nat) (a : Z)       (* (static_array const&, alloc) :937-941 (patch 04) *)
| ZCtorMove (r s : nat)                    (* (static_array&&) :949-958: allocates, MOVES THE ELEMENT, leaves the source alone *)
| ZCtorMoveAlloc (r s : nat) (a : Z)       (* (decay_type&&, alloc) :810-813 (patch 13) *)
| ZCtorRef (r : nat) (a : Z) (q : ref0)    (* (const_subarray<OtherT, 0, ...> const&, alloc) :835-848; without allocator (patch 05) *)
| ZCtorMovedRef (r : nat) (a : Z) (q : ref0)  (* the same constructor on q.element_moved(): other.base() is a pointer to const,
                                              the element is COPIED (known finding) *)
| ZCtorConv (r : nat) (a : Z) (v : Z)      (* (static_array<TT, 0, Args...> const&, alloc) :851-861; :864 with allocator_type{} *)
(* ---- assignment, array.hpp ---- *)
| ZAssignCopy (r s : nat)                  (* static_array::operator=(static_array const&) :1053-1060; POCCA with patch 17 *)
| ZAssignMove (r s : nat)                  (* static_array::operator=(static_array&&) :1073-1077: adl_move of the element; self test with patch 15,
                                              POCMA with patch 18 *)
| ZAssignElem (r : nat) (v : Z)            (* array::operator=(Other const&) :1130-1133 -> assign(&other) :754-759;
                                              static_array::operator=(Singleton const&) :764-767 *)
| ZAssignRef (r : nat) (q : ref0)          (* static_array::operator=(const_subarray<TT, 0, Args...> const&) :876-879 (patch 06) *)
| ZAssignMovedRef (r : nat) (q : ref0)     (* the same operator on q.element_moved(): copies (known finding) *)
| ZAssignConv (r : nat) (v : Z)            (* array::operator=(array<TT, 0, Args...> const&) :1112-1125; static_array :1085-1089 *)
(* ---- swap ---- *)
| ZSwap (r s : nat)                        (* std::swap(a, b), the generic algorithm: move constructor, two move assignments,
                                              destructor of the temporary (unqualified swap(a, b) is ZSwapMember with patch 19) *)
| ZSwapMember (r s : nat)                  (* a.swap(b) and, by the friend, swap(a, b) (patches 12, 19): allocators and blocks under
                                              POCS, std::swap of the two elements otherwise *)
(* ---- element access ---- *)
| ZWrite (r : nat) (v : Z)                 (* static_cast<T&>(a) = v (conversion :1002-1004) / *a.base() = v: the caller's own write *)
| ZMoveOut (r : nat)                       (* T e = std::move(a): conversion :997-999 (patch 07), then the element's move constructor *)
| ZDestroy (r : nat)                       (* ~static_array :973-976 (also the buffer's end of life) *)
(* ---- through references, array_ref.hpp ---- *)
| ZRefAssignRef (q p : ref0)               (* array_ref::operator=(array_ref const&) :3402-3408 and its && / array_ref<TT> forms
                                              :3410-3441 (copy_elements_ / adl_copy_n of one element); subarray<T, 0>::operator=
                                              :2049-2054, :2078-2091, :2133-2173 via elements() (patch 09) *)
| ZRefAssignElem (q : ref0) (v : Z)        (* const_subarray<T, 0>::operator=(element const&) :2563-2571; reached from subarray and
                                              array_ref objects with patch 08; fill(v) :1984-1987 with patch 14 *)
| ZRefAssignMoved (q p : ref0)             (* q = p.element_moved(): every rank-0 path reads through a pointer to const: COPIES *)
| ZRefSwap (q p : ref0)                    (* swap(subarray&&, subarray&&) :2056-2060: adl_swap_ranges over elements() (patch 09) *)
| ZRefWrite (q : ref0) (v : Z).            (* static_cast<T&>(ref) = v (conversion :2604-2606), the caller's own write *)

Definition one_cell (a : arr) (mk : nat -> nat -> src) : list src := cells_of mk a.

Definition step0 (cfg : config) (o : lop0) : M unit :=
  match o with
  | ZBuf r a vals =>
      slot_free r ;;;
      let x : bx := [(0, Z.of_nat (length vals))] in
      p <- p_build cfg a (bnumel x) 0 (map SVal vals) ;;
      install r a p x
  | ZCtorValue r a =>
      (* allocate(layout_t{extensions}.num_elements()) in the mem-initializer; uninitialized_value_construct() in the body
         (:783-787: skipped for trivially default constructible elements) *)
      slot_free r ;;;
      p <- alloc a (bnumel X0) ;;
      (match p with
       | PBlk b => if c_tdc cfg then ret tt else value_construct_n b (Z.to_nat (bnumel X0))
       | PNull => ret tt
       end) ;;;
      install r a p X0
  | ZCtorElem r a v =>
      slot_free r ;;;
      p <- p_build cfg a (bnumel X0) 0 [SVal v] ;;
      install r a p X0
  | ZCtorSingleton r v =>
      slot_free r ;;;
      p <- p_build cfg default_alloc (bnumel X0) 0 [SVal v] ;;
      install r default_alloc p X0
  | ZCtorCopy r s =>
      (* array_alloc{select_on_container_copy_construction(other.alloc())}, allocate(other.num_elements(), hint) *)
      slot_free r ;;; as_ <- get_arr s ;;
      p <- p_build cfg (socc cfg (a_alloc as_)) (bnumel X0) 0 (one_cell as_ SCell) ;;
      install r (socc cfg (a_alloc as_)) p X0
  | ZCtorCopyAlloc r s a =>
      slot_free r ;;; as_ <- get_arr s ;;
      p <- p_build cfg a (bnumel X0) 0 (one_cell as_ SCell) ;;
      install r a p X0
  | ZCtorMove r s =>
      slot_free r ;;; as_ <- get_arr s ;;
      p <- p_build cfg (a_alloc as_) (bnumel X0) 0 (one_cell as_ SMoveCell) ;;
      install r (a_alloc as_) p X0
  | ZCtorMoveAlloc r s a =>
      slot_free r ;;; as_ <- get_arr s ;;
      p <- p_build cfg a (bnumel X0) 0 (one_cell as_ SMoveCell) ;;
      install r a p X0
  | ZCtorRef r a q | ZCtorMovedRef r a q =>
      slot_free r ;;; c <- ref_cell q ;;
      p <- p_build cfg a (bnumel X0) 0 [SCell (fst c) (snd c)] ;;
      install r a p X0
  | ZCtorConv r a v =>
      slot_free r ;;;
      p <- p_build cfg a (bnumel X0) 0 [SVal v] ;;
      install r a p X0
  | ZAssignCopy r s =>
      if (r =? s)%nat then (get_arr r ;;; ret tt)
      else assign0 cfg (c_pocca cfg) SCell TMP1 r s
  | ZAssignMove r s =>
      if (r =? s)%nat then (get_arr r ;;; ret tt)     (* if(this == &other) return *this;  (patch 15) *)
      else assign0 cfg (c_pocma cfg) SMoveCell TMP1 r s
  | ZAssignElem r v | ZAssignConv r v =>
      ar <- get_arr r ;; assign_all cfg ar [SVal v]
  | ZAssignRef r q | ZAssignMovedRef r q =>
      ar <- get_arr r ;; c <- ref_cell q ;;
      b <- base_blk ar ;; assign_loop cfg SAssignElem b [0%nat] [SCell (fst c) (snd c)]
  | ZSwap r s =>
      ar <- get_arr r ;; as_ <- get_arr s ;;
      if (r =? s)%nat then fail EDomain
      else
        p <- p_build cfg (a_alloc ar) (bnumel X0) 0 (one_cell ar SMoveCell) ;;     (* T tmp(std::move(a)) *)
        install TMP1 (a_alloc ar) p X0 ;;;
        assign0 cfg (c_pocma cfg) SMoveCell TMP2 r s ;;;                            (* a = std::move(b) *)
        assign0 cfg (c_pocma cfg) SMoveCell TMP2 s TMP1 ;;;                         (* b = std::move(tmp) *)
        p_dtor cfg TMP1
  | ZSwapMember r s =>
      ar <- get_arr r ;; as_ <- get_arr s ;;
      if (r =? s)%nat then fail EDomain
      else if c_pocs cfg then swap_store r s
      else b <- base_blk ar ;; b' <- base_blk as_ ;; swap_cells cfg b 0 b' 0
  | ZWrite r v =>
      ar <- get_arr r ;; b <- base_blk ar ;; assign1 cfg b 0 v
  | ZMoveOut r =>
      ar <- get_arr r ;; b <- base_blk ar ;;
      tick_elem cfg SAssignElem ;;; v <- read1 cfg b 0 ;; mark_moved cfg b 0
  | ZDestroy r => p_dtor cfg r
  | ZRefAssignRef q p | ZRefAssignMoved q p =>
      c <- ref_cell q ;; d <- ref_cell p ;;
      assign_loop cfg SAssignElem (fst c) [snd c] [SCell (fst d) (snd d)]
  | ZRefAssignElem q v =>
      c <- ref_cell q ;; assign_loop cfg SAssignElem (fst c) [snd c] [SVal v]
  | ZRefSwap q p =>
      c <- ref_cell q ;; d <- ref_cell p ;;
      if ((fst c =? fst d) && (snd c =? snd d))%nat then fail EDomain
      else swap_cells cfg (fst c) (snd c) (fst d) (snd d)
  | ZRefWrite q v =>
      c <- ref_cell q ;; assign1 cfg (fst c) (snd c) v
  end.

(* ------------------------------------------------------------------------------------------ *)
(* histories (the caller catches an exception and carries on; temporaries are unwound)         *)
(* ------------------------------------------------------------------------------------------ *)
Definition run_op0 (cfg : config) (o : lop0) (s : state) : outcome * state :=
  match step0 cfg o (reset_counts s) with
  | Ok _ s' => (OutOk, s')
  | Threw s' => match unwind cfg s' with
                | Ok _ s'' => (OutThrew, s'')
                | Threw s'' => (OutThrew, s'')
                | Err e => (OutErr e, s')
                end
  | Err e => (OutErr e, s)
  end.

Fixpoint run_rank0 (cfg : config) (h : list lop0) (s : state) : list outcome * state :=
  match h with
  | [] => ([], s)
  | o :: rest =>
      let '(out, s') := run_op0 cfg o s in
      match out with
      | OutErr _ => ([out], s')
      | _ => let '(outs, s'') := run_rank0 cfg rest s' in (out :: outs, s'')
      end
  end.

(* ------------------------------------------------------------------------------------------ *)
(* comparisons (C07): programs that read the two elements                                      *)
(* ------------------------------------------------------------------------------------------ *)
Inductive cmpop := CEq | CNe | CLt | CLe | CGt | CGe.
Inductive operand := OpRef (q : ref0) | OpVal (v : Z).    (* an array / reference, or an element value *)

Definition read_operand (cfg : config) (x : operand) : M Z :=
  match x with
  | OpRef q => c <- ref_cell q ;; read1 cfg (fst c) (snd c)
  | OpVal v => ret v
  end.

(* std::lexicographical_compare of two ranges of ONE element (const_subarray<T, 0>::operator< :2593-2598) *)
Definition lex1 (x y : Z) : bool := if x <? y then true else if y <? x then false else false.

(* ==: array_ref's friend :3485-3502 (extensions() are equal, then adl_equal(other, other + 1, self): *other == *self),
   const_subarray<T, 0>::operator==(const_subarray const&) :2591 and (element const&) :2573-2576 (the same std::equal with the
   operands in that order), element == reference with patch 10; != is written separately (:3504-3512, :2590, :2577) as the
   negation of the same std::equal; <= > >= do not exist at rank 0: both operands convert to elements and the ELEMENT's
   operator is used *)
Definition rel0 (o : cmpop) (x y : Z) : bool :=
  match o with
  | CEq => y =? x
  | CNe => negb (y =? x)
  | CLt => lex1 x y
  | CLe => x <=? y
  | CGt => y <? x
  | CGe => y <=? x
  end.

Definition cmp0 (cfg : config) (o : cmpop) (l r : operand) : M bool :=
  x <- read_operand cfg l ;; y <- read_operand cfg r ;; ret (rel0 o x y).

(* ------------------------------------------------------------------------------------------ *)
(* the reference interpreter over values: a pool of (extensions, values); a rank-0 array is ([], [v]) *)
(* ------------------------------------------------------------------------------------------ *)
Definition rval (p : vpool) (q : ref0) : Z := nth (rf_idx q) (snd (vget p (rf_slot q))) 0.
Definition v0 (v : Z) : option aval := Some (X0, [v]).
Definition vput (p : vpool) (q : ref0) (v : Z) : vpool :=
  let '(e, vals) := vget p (rf_slot q) in vset p (rf_slot q) (Some (e, upd_nth vals (rf_idx q) v)).

Definition vstep0 (cfg : config) (o : lop0) (p : vpool) : vpool :=
  match o with
  | ZBuf r _ vals => vset p r (Some (norm_bx [(0, Z.of_nat (length vals))], vals))
  | ZCtorValue r _ => vset p r (v0 (dflt_val cfg))
  | ZCtorElem r _ v | ZCtorSingleton r v | ZCtorConv r _ v => vset p r (v0 v)
  | ZCtorCopy r s | ZCtorCopyAlloc r s _ => vset p r (Some (vget p s))
  | ZCtorMove r s | ZCtorMoveAlloc r s _ => vset p r (Some (vget p s))      (* the source keeps an unspecified, valid element *)
  | ZCtorRef r _ q | ZCtorMovedRef r _ q => vset p r (v0 (rval p q))
  | ZAssignCopy r s | ZAssignMove r s => vset p r (Some (vget p s))
  | ZAssignElem r v | ZAssignConv r v | ZWrite r v => vset p r (v0 v)
  | ZAssignRef r q | ZAssignMovedRef r q => vset p r (v0 (rval p q))
  | ZSwap r s | ZSwapMember r s => vset (vset p r (Some (vget p s))) s (Some (vget p r))
  | ZMoveOut _ => p
  | ZDestroy r => vset p r None
  | ZRefAssignRef q t | ZRefAssignMoved q t => vput p q (rval p t)
  | ZRefAssignElem q v | ZRefWrite q v => vput p q v
  | ZRefSwap q t => vput (vput p q (rval p t)) t (rval p q)
  end.
Definition run_values0 (cfg : config) (h : list lop0) (p : vpool) : vpool := fold_left (fun q o => vstep0 cfg o q) h p.

(* what the properties say about q = p.element_moved() and array(p.element_moved()): the value arrives AND exactly the source
   element is left moved-from (C05: "moves from exactly the viewed elements").  The source cell after the operation: *)
Definition ref_cell_state (s : state) (q : ref0) : option cell :=
  match nth_error (s_arrs s) (rf_slot q) with
  | Some (Some a) => match arr_block s a with Some blk => nth_error (b_cells blk) (rf_idx q) | None => None end
  | _ => None
  end.
Definition is_moved (c : option cell) : bool := match c with Some (Moved _) => true | _ => false end.

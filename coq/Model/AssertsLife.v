(* C20, lifecycle part: the assertions the array.hpp entry points of Model/Life.v evaluate, transcribed from
     /repo/include/boost/multi/array.hpp   (plain `assert`: live in the default and in the BOOST_MULTI_ASSERT_DISABLE build)
     /repo/include/boost/multi/array_ref.hpp (BOOST_MULTI_ASSERT reached through view assignment and reextent)
   as predicates over what the lifecycle machine knows of an array object BEFORE the operation (allocator, base pointer,
   reported sizes, first indices) and the operation's arguments.  An owning array's layout is always layout_t(extensions)
   (layout.hpp:735-745), so strides are determined by the sizes.  step / run_op / run_life of Life.v never mention
   these predicates (this file imports Life.v, not the converse).  Definitions only. *)
From Coq Require Import ZArith List Bool.
From BM Require Import Model.Life.
Import ListNotations.
Local Open Scope Z_scope.

Definition slot_of (A : list (option arr)) (r : nat) : option arr :=
  match nth_error A r with Some o => o | None => None end.

(* layout_t(extensions), layout.hpp:742: stride_ = sub_.num_elements() ? sub_.num_elements() : 1 *)
Definition lead_stride (sizes : list Z) : Z := let n := numel (tl sizes) in if n =? 0 then 1 else n.
(* assert(this->stride() != 0): array.hpp:1229 (initializer-list ctor), :1241 (reshape), :1247 (clear), :1285/:1288 (move ctors),
   :1303 (swap), :1327-1328 (move assignment), :1384 (assignment from an array of another element type), and the
   static_array constructors :365-:590 *)
Definition stride_ok (sizes : list Z) : bool := negb (lead_stride sizes =? 0).

(* tmp.apply(is) / this->apply(is) in reextent (array.hpp:1491, :1521): call syntax with one range per dimension, i.e. per
   dimension sliced_aux_ (array_ref.hpp:1257-1276) on the extension [f, f+s) with the range [i, i+n):
     :1259  first==last || extension().contains(first)        :1260  first==last || extension().contains(last - 1)
   (no assertion for one-dimensional arrays, :2922-2934; the predicate below is then stronger than the code) *)
Fixpoint asrt_block (x is : bx) : bool :=
  match x, is with
  | (f, s) :: x', (i, n) :: is' =>
      ((n =? 0) || ((f <=? i) && (i <? f + s))) && ((n =? 0) || ((f <=? i + n - 1) && (i + n - 1 <? f + s)))
      && asrt_block x' is'
  | _, _ => true
  end.
(* :1263  base_ || (first*stride - offset) == 0  -- "it is UB to offset a nullptr": the block starts at the first index of
   every dimension, or the base pointer is not null *)
Fixpoint starts_at_first (x is : bx) : bool :=
  match x, is with
  | (f, _) :: x', (i, _) :: is' => (i =? f) && starts_at_first x' is'
  | _, _ => true
  end.
Definition base_nonnull (a : arr) : bool := match a_base a with PBlk _ => true | PNull => false end.
(* elements() = elements() (array_ref.hpp:977-995): BOOST_MULTI_ASSERT(size() == other.size()); the size of the block
   is_k = [i, i+n) cut out of a dimension that contains it is n *)
Definition block_size (is : bx) : Z := bnumel is.

(* reextent(extensions) & and reextent(extensions, value) &: array.hpp:1478-1501, :1506-1534 (after fixes cbe7c87, 97e4116, 3905732) *)
Definition asrt_reextent (ar : arr) (x : bx) : bool :=
  if bx_eq x (arr_bx ar) then true
  else
    let nx := norm_bx x in                                   (* what tmp reports *)
    let is := bx_inter (arr_bx ar) nx in
    if bnumel is <=? 0 then true                             (* is.num_elements() == 0: nothing is sliced, nothing assigned *)
    else asrt_block nx is && asrt_block (arr_bx ar) is       (* tmp.apply(is), this->apply(is) *)
         && ((0 <? bnumel x) || starts_at_first nx is)       (* :1263 on tmp: allocate(n) is non-null iff n != 0 *)
         && (base_nonnull ar || starts_at_first (arr_bx ar) is)   (* :1263 on *this *)
         && (block_size is =? block_size is).                (* .elements() = .elements(): both blocks have the sizes of `is` *)

(* reshape: array.hpp:1237-1243  assert(new_layout.num_elements() == this->num_elements()); assert(stride() != 0) *)
Definition asrt_reshape (ar : arr) (x : bx) : bool :=
  (numel (mk_sizes x) =? nel ar) && stride_ok (mk_sizes x).

(* operator=(const_subarray const&) :1352-1360 and operator=(Range&&) :1384-1400 *)
Definition asrt_assign_view (ar : arr) (v : vsrc) (mut : bool) : bool :=
  if bx_eq (arr_bx ar) (vs_exts v) then
    (* static_::operator=(other): array.hpp:692/:704 assert(extensions(other) == extensions());  ( *this)() = other:
       array_ref.hpp:2079/:2087 BOOST_MULTI_ASSERT(extensions() == other.extensions()) -- the comparison that selected the branch *)
    bx_eq (arr_bx ar) (vs_exts v)
  else if mut && (nel ar =? bnumel (vs_exts v)) then
    asrt_reshape ar (vs_exts v)
    && ((nel ar =? 0)                                        (* :1392 if(num_elements() != 0) *)
        || bx_eq (norm_bx (vs_exts v)) (vs_exts v))          (* ( *this)() = other after reshape: array_ref.hpp:2079/:2087 *)
  else stride_ok (mk_sizes (vs_exts v)).                     (* operator=(array{other}): move assignment :1327 *)

(* operator=(array<TT,D,AAlloc> const&) :1362-1376 *)
Definition asrt_assign_conv (ar : arr) (x : bx) : bool :=
  if bx_eq (arr_bx ar) (norm_bx x) then bx_eq (arr_bx ar) (norm_bx x)           (* static_::operator= :692 *)
  else if nel ar =? bnumel x then
    asrt_reshape ar (norm_bx x) && bx_eq (norm_bx (norm_bx x)) (norm_bx x)      (* reshape, then static_::operator= :692 *)
  else stride_ok (mk_sizes x).

(* operator=(array const&) :1324-1350: the keep-storage branch runs static_::operator=(other) :1077
   assert(equal_extensions_if_(...)) -- again the comparison that selected the branch *)
Definition asrt_assign_copy (cfg : config) (ar as_ : arr) : bool :=
  let keep := bx_eq (arr_bx ar) (arr_bx as_) && (negb (c_pocca cfg) || alloc_eq cfg (a_alloc ar) (a_alloc as_)) in
  if keep then bx_eq (arr_bx ar) (arr_bx as_) else stride_ok (a_exts as_).

Definition asrt_lop (cfg : config) (A : list (option arr)) (o : lop) : bool :=
  match o with
  | OCtorSized _ _ x | OCtorFill _ _ x _ | OCtorConv _ x _ => stride_ok (mk_sizes x)
  | OCtorDefault _ _ => stride_ok (zeros (c_rank cfg))
  | OCtorCopy _ s | OCtorCopyAlloc _ s _ | OCtorMove _ s | OCtorMoveAlloc _ s _ =>
      match slot_of A s with Some as_ => stride_ok (a_exts as_) && stride_ok (zeros (c_rank cfg)) | None => true end
  | OCtorView _ _ _ v => stride_ok (mk_sizes (vs_exts v))
  | OCtorRange _ _ w | OCtorIl _ w => stride_ok (mk_sizes (rows_exts w))
  | OAssignCopy r s =>
      match slot_of A r, slot_of A s with
      | Some ar, Some as_ => (r =? s)%nat || asrt_assign_copy cfg ar as_
      | _, _ => true
      end
  | OAssignMove r s =>
      match slot_of A s with Some as_ => stride_ok (a_exts as_) && stride_ok (zeros (c_rank cfg)) | None => true end
  | OAssignView r _ v mut => match slot_of A r with Some ar => asrt_assign_view ar v mut | None => true end
  | OAssignRange _ w => stride_ok (mk_sizes (rows_exts w))
  | OAssignIlEmpty _ | OClear _ => stride_ok (zeros (c_rank cfg))
  | OAssignFill _ x _ => stride_ok (mk_sizes x)
  | OAssignConv r x _ => match slot_of A r with Some ar => asrt_assign_conv ar x | None => true end
  | OSwap r s =>
      match slot_of A r, slot_of A s with
      | Some ar, Some as_ => stride_ok (a_exts ar) && stride_ok (a_exts as_)
      | _, _ => true
      end
  | OReextent r x _ => match slot_of A r with Some ar => asrt_reextent ar x | None => true end
  | OReextentMove _ x => stride_ok (mk_sizes x)
  | OReshape r x => match slot_of A r with Some ar => asrt_reshape ar x | None => true end
  | OWrite _ _ _ | ODestroy _ => true
  (* view = view of another array (added with the lifecycle model's OViewAssign): every subarray::operator= overload
     asserts extensions() == other.extensions() (array_ref.hpp:2128, :2136, :2160, :2166) *)
  | OViewAssign _ _ vr vs => bx_eq (vs_exts vr) (vs_exts vs)
  end.

(* no transcribed assertion is false along a history (each operation judged on the array objects it finds) *)
Fixpoint life_asserts (cfg : config) (h : list lop) (s : state) : bool :=
  match h with
  | [] => true
  | o :: rest => asrt_lop cfg (s_arrs s) o && life_asserts cfg rest (snd (run_op cfg o s))
  end.

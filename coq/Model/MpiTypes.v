(* L6 (MPI), part 1: the derived-datatype algebra of MPI-3.1 section 4.1, restricted to the
   constructors that /repo/include/boost/multi/adaptors/mpi.hpp calls
   (MPI_Type_vector, MPI_Type_create_hvector, MPI_Type_create_resized, MPI_Type_dup) over ONE basic
   type of `sz` bytes (MPI_INT, MPI_FLOAT, MPI_DOUBLE: size = extent = alignment = sz).

   These are DEFINITIONS: the trusted reading of the standard (DESIGN.md section 6, item 3).
     - MPI-3.1 4.1      a general datatype is a type map {(type_0,disp_0),...}; with a single basic
                        type the map is the sequence of byte displacements `typemap`.
     - MPI-3.1 4.1.2    MPI_Type_vector / MPI_Type_create_hvector: count blocks of blocklength copies
                        of oldtype, copy j of block i displaced by i*stride + j*extent(oldtype)
                        (stride in bytes for hvector, in multiples of extent(oldtype) for vector);
                        entries ordered block by block, copy by copy, then as in oldtype.
     - MPI-3.1 4.1.7    lb/ub/extent; MPI_Type_create_resized(oldtype, lb, extent) keeps the type map
                        and sets lower bound lb and upper bound lb+extent; the bounds of a type built
                        from copies of oldtype are the min/max over the copies of oldtype's bounds.
                        The alignment padding epsilon of 4.1.7 is not modelled: every displacement
                        and bound produced by mpi.hpp is a multiple of sz (lemma
                        skeleton_bounds_aligned in Proofs/MpiSkeletonProofs.v), so epsilon = 0.
     - MPI-3.1 4.1.10   MPI_Type_dup: same type map, same bounds.
     - MPI-3.1 4.1.11   a message (buf, count, datatype) is the concatenation of count copies of the
                        type map, copy c displaced by c*extent(datatype), relative to buf.
     - MPI-3.1 4.2      MPI_Pack stores the entries of the message in that order (Open MPI on one
                        architecture: contiguously, no header -- observed by the harness on every run);
                        MPI_Unpack stores consecutive packed entries at the entries of the message.
   Definitions only. *)
From Coq Require Import ZArith List Bool.
Import ListNotations.
Local Open Scope Z_scope.

Inductive dt :=
| Base (sz : Z)                                   (* predefined: MPI_INT / MPI_FLOAT / MPI_DOUBLE *)
| Vector (count blocklen stride : Z) (t : dt)     (* MPI_Type_vector: stride in extents of t *)
| HVector (count blocklen stride : Z) (t : dt)    (* MPI_Type_create_hvector: stride in bytes *)
| Resized (t : dt) (lb extent : Z)                (* MPI_Type_create_resized *)
| Dup (t : dt).                                   (* MPI_Type_dup *)

(* 0, 1, ..., n-1 (empty when n <= 0) *)
Definition zseq (n : Z) : list Z := map Z.of_nat (seq 0 (Z.to_nat n)).

(* bounds (lb, ub) of count blocks of blocklen copies of a type with bounds bo, block stride s bytes *)
Definition hv_bounds (c b s : Z) (bo : Z * Z) : Z * Z :=
  let (l, u) := bo in
  if (c <=? 0) || (b <=? 0) then (0, 0)
  else
    let ex := u - l in
    (l + Z.min 0 (s * (c - 1)) + Z.min 0 (ex * (b - 1)),
     u + Z.max 0 (s * (c - 1)) + Z.max 0 (ex * (b - 1))).

Fixpoint dt_bounds (t : dt) : Z * Z :=
  match t with
  | Base sz => (0, sz)
  | Vector c b s t' => let bo := dt_bounds t' in hv_bounds c b (s * (snd bo - fst bo)) bo
  | HVector c b s t' => hv_bounds c b s (dt_bounds t')
  | Resized _ lb ext => (lb, lb + ext)
  | Dup t' => dt_bounds t'
  end.
Definition dt_lb (t : dt) : Z := fst (dt_bounds t).
Definition dt_ub (t : dt) : Z := snd (dt_bounds t).
Definition dt_extent (t : dt) : Z := dt_ub t - dt_lb t.          (* MPI_Type_get_extent *)

(* type map of count blocks of blocklen copies (extent ex, type map tm), block stride s bytes *)
Definition hv_map (c b s ex : Z) (tm : list Z) : list Z :=
  flat_map (fun i => flat_map (fun j => map (Z.add (i * s + j * ex)) tm) (zseq b)) (zseq c).

Fixpoint typemap (t : dt) : list Z :=
  match t with
  | Base _ => [0]
  | Vector c b s t' => hv_map c b (s * dt_extent t') (dt_extent t') (typemap t')
  | HVector c b s t' => hv_map c b s (dt_extent t') (typemap t')
  | Resized t' _ _ => typemap t'
  | Dup t' => typemap t'
  end.

Fixpoint dt_base_size (t : dt) : Z :=
  match t with
  | Base sz => sz
  | Vector _ _ _ t' | HVector _ _ _ t' | Resized t' _ _ | Dup t' => dt_base_size t'
  end.
Definition dt_size (t : dt) : Z := Z.of_nat (length (typemap t)) * dt_base_size t.   (* MPI_Type_size *)

(* MPI_Type_get_true_extent: bounds of the data actually addressed (meaningful when non-empty) *)
Definition list_min (l : list Z) : Z := match l with [] => 0 | x :: r => fold_left Z.min r x end.
Definition list_max (l : list Z) : Z := match l with [] => 0 | x :: r => fold_left Z.max r x end.
Definition dt_true_lb (t : dt) : Z := list_min (typemap t).
Definition dt_true_ub (t : dt) : Z :=
  match typemap t with [] => 0 | _ => list_max (typemap t) + dt_base_size t end.

(* the byte displacements, relative to buf, of the entries of the message (buf, count, t), in order *)
Definition message_bytes (count : Z) (t : dt) : list Z :=
  flat_map (fun c => map (Z.add (c * dt_extent t)) (typemap t)) (zseq count).

(* ---- memory, MPI_Pack, MPI_Unpack ----
   A memory maps the byte address at which an entry (one element of the basic type) starts to the
   value stored there.  pack reads the entries of a message in order; unpack writes consecutive
   values to the entries of a message in order (sequential, so overlapping entries are representable:
   the later write wins; MPI declares such receive types erroneous). *)
Definition upd {V : Type} (m : Z -> V) (a : Z) (x : V) : Z -> V :=
  fun b => if b =? a then x else m b.
Definition pack {V : Type} (m : Z -> V) (buf : Z) (offs : list Z) : list V :=
  map (fun o => m (buf + o)) offs.
Fixpoint unpack {V : Type} (m : Z -> V) (buf : Z) (offs : list Z) (vals : list V) : Z -> V :=
  match offs, vals with
  | o :: offs', x :: vals' => unpack (upd m (buf + o) x) buf offs' vals'
  | _, _ => m
  end.

(* C13 -- the EXPRESSION layer of the BLAS adaptor: the lazy ranges, the operators on them, the decorations of the
   operands and the statements that consume them, as a small expression language.  Definitions only.

     compilation  = what the C++ does: the state of the range object after the operators were applied, and the
                    BLAS call (scalars included) the consuming statement makes through the modelled dispatch
                    (gemm_lazy / gemv_lazy / axpy_call / dot_n_model / trsm_model / herk_model / syrk_model);
     denotation   = the mathematical value on the logical contents of the UNDECORATED operand views.

   Proofs/BlasC13Expr.v proves, for every expression tree, all sizes, strides and scalars, that the reference routine
   run on the compiled call yields the denotation on the assigned view and leaves every other cell alone.

   Sources (pinned tree):
     operations.hpp:23-24   T = rotated(), N = identity;  :26-29, 43  H = T(conj(.));  :78-86 C (vectors) / J = conj
     operations.hpp:90-98   operators: unary * = conj, ~ = T
     numeric.hpp:291-312    conj: the array itself for real elements; adds the conjugating pointer to a plain complex
                            view; REMOVES it from a conjugated one (so J(J(a)) is a, H(H(a)) is a, J(H(a)) is T(a))
     gemm.hpp:268-303       gemm_range {s_, a_begin_, a_end_, b_begin_};  :295 operator+ ;  :296-299 operator+= (beta = 1.)
                            :300-302 operator*(Scalar factor, gemm_range) -> {factor*s_, a, b}
     gemm.hpp:229-238       copy_n(gemm_iterator) = gemm_n(s_, a, count, b, 0.0, d_first)   (assignment, construction)
     gemm.hpp:305-337       blas::gemm(s, a, b);  :348-354  operators: a * b = blas::gemm(1.0, a, b)
     gemv.hpp:91-96         copy_n(gemv_iterator) = gemv_n(alpha_, m, count, v, 0.0, result)
     gemv.hpp:148-157       operator+(gemv_range) = decay;  operator+= : gemv_n(alpha_, ..., 1.0, v.begin())
     gemv.hpp:160-176       blas::gemv(s, m, v);  :178-187 scaled_matrix % v = blas::gemv(aa_, A_, v)
     gemv.hpp:190-200       operators: m % v = +blas::gemv(1.0, m, v);  aa * A = scaled_matrix{aa, A}
     axpy.hpp:100-135       axpy_range {alpha_, x_begin_, count_}: += -> axpy_n(+alpha_, ...), -= -> axpy_n(-alpha_, ...),
                            *= s -> alpha_ *= s;   :137-149 blas::axpy(a, x)
     axpy.hpp:151-162       scaled{a, x}: y += a*x -> axpy(+a, x, y), y -= a*x -> axpy(-a, x, y)
     axpy.hpp:164-178       operators: y += x -> axpy(+one, x, y), y -= x -> axpy(-one, x, y), a * x = scaled,
                            x + y = (copy of x) += y, x - y = (copy of x) -= y;   :51-54 axpy(x, y) = axpy(+1.0, x, y)
     dot.hpp:93-135         dot_ref: decay() = dot_n(...) into a local, operator decay_type, unary +, ==, !=,
                            lhs * dot_ref = lhs * decay();   :172-177 operators: (x, y) = dot(x, y)
     scal.hpp:36-55         scal_range{alpha}: x *= scal(a) -> scal(a, x);  operators: x *= a -> scal(a, x)
     copy.hpp:64-88         blas::copy(x) (lazy) and operators: y << x -> copy(x, y)
     trsm.hpp:115-170       trsm(side, fill, alpha, a, b) = diagonal::non_unit;  trsm(side, alpha, U(a) | L(a), b);
                            operators: b /= T -> trsm(right, 1.0, T, b),  b |= T -> trsm(left, 1.0, T, b)
     herk.hpp:147-175       herk(fill, alpha, a, c) = beta 0;  herk(alpha, a, c) = lower after upper;  herk(a, c) = alpha 1;
                            herk(alpha, a) = herk(alpha, a, fresh size(a) x size(a) array);  herk(a) = herk(1.0, a)
     syrk.hpp:38-42         syrk(fill, alpha, a, c) = beta 0
     array_ref.hpp:2104-2114  subarray::operator=(Range): adl_copy_n(begin(rng), size(rng), begin())
     array.hpp:273-280      array(Range) = array(begin(rng), end(rng)): allocate, uninitialized_copy
     array.hpp:1423-1442    array::operator=(Range): same extensions -> view assignment; same number of elements ->
                            reshape + (if not empty) view assignment; otherwise construct a new array and move it in  *)
From Coq Require Import ZArith List Bool.
From BM Require Import Model.BlasC13 Model.BlasC13Ref Model.BlasC13L1 Model.BlasC13L1Ref Model.BlasC13L3.
Import ListNotations.
Local Open Scope Z_scope.
Local Open Scope bool_scope.

(* ------------------------------------------------------------------------------------------ *)
(* decorations                                                                                 *)
(* ------------------------------------------------------------------------------------------ *)
Inductive deco := DcN | DcT | DcJ | DcH.

Definition rot_mat (a : mat) : mat := mk_mat (mbase a) (s1 a) (s0 a) (cols a) (rows a) (mconj a).
(* cplx = the element type is complex *)
Definition cnj_mat (cplx : bool) (a : mat) : mat := if cplx then conj_mat a else a.
Definition deco_mat (cplx : bool) (d : deco) (a : mat) : mat :=
  match d with
  | DcN => a
  | DcT => rot_mat a
  | DcJ => cnj_mat cplx a
  | DcH => rot_mat (cnj_mat cplx a)
  end.
(* the decorations are applied left to right: [d1; d2] is d2(d1(a)) *)
Definition decos_mat (cplx : bool) (ds : list deco) (a : mat) : mat := fold_left (fun m d => deco_mat cplx d m) ds a.

(* vectors: blas::C(x) / unary * (only DcN and DcJ are meaningful; T and H of a vector are read as N and J) *)
Definition cnj_vec (cplx : bool) (x : vec) : vec := if cplx then mk_vec (vbase x) (inc x) (len x) (negb (vconj x)) else x.
Definition deco_vec (cplx : bool) (d : deco) (x : vec) : vec :=
  match d with DcN | DcT => x | DcJ | DcH => cnj_vec cplx x end.
Definition decos_vec (cplx : bool) (ds : list deco) (x : vec) : vec := fold_left (fun v d => deco_vec cplx d v) ds x.

(* an operand as written in the program: a view and the decorations applied to it *)
Record operand := mk_operand { op_decos : list deco; op_view : mat }.
Record voperand := mk_voperand { vo_decos : list deco; vo_view : vec }.
Definition resolve (cplx : bool) (o : operand) : mat := decos_mat cplx (op_decos o) (op_view o).
Definition vresolve (cplx : bool) (o : voperand) : vec := decos_vec cplx (vo_decos o) (vo_view o).

(* how many times the decorations transpose / conjugate, modulo 2 *)
Definition deco_tr (d : deco) : bool := match d with DcT | DcH => true | _ => false end.
Definition deco_cj (d : deco) : bool := match d with DcJ | DcH => true | _ => false end.
Definition decos_tr (ds : list deco) : bool := fold_left (fun b d => xorb b (deco_tr d)) ds false.
Definition decos_cj (ds : list deco) : bool := fold_left (fun b d => xorb b (deco_cj d)) ds false.

(* the layout of a multi::array<T, 2> built with the extensions r x c: row-major and contiguous; an array whose LAST
   extension is empty has the extensions 0 x 0 and the strides (1, 1) (layout_t: the sizes of the leading dimensions are
   num_elements / stride) *)
Definition array_mat (base r c : Z) : mat := if c =? 0 then mk_mat base 1 1 0 0 false else mk_mat base c 1 r c false.

Section Carrier.
  Variable R : Type.
  Variables rzero rone : R.
  Variables radd rmul : R -> R -> R.
  Variables rneg cj : R -> R.
  Variable cplx : bool.

  (* the mathematical meaning of the decorations on a matrix of values *)
  Definition deco_den (d : deco) (f : Z -> Z -> R) : Z -> Z -> R :=
    match d with
    | DcN => f
    | DcT => fun i j => f j i
    | DcJ => fun i j => cj (f i j)
    | DcH => fun i j => cj (f j i)
    end.
  Definition decos_den (ds : list deco) (f : Z -> Z -> R) : Z -> Z -> R := fold_left (fun g d => deco_den d g) ds f.
  Definition operand_den (o : operand) (mem : Z -> R) : Z -> Z -> R := decos_den (op_decos o) (mval R cj (op_view o) mem).

  Definition vdeco_den (d : deco) (f : Z -> R) : Z -> R := match d with DcN | DcT => f | DcJ | DcH => fun i => cj (f i) end.
  Definition vdecos_den (ds : list deco) (f : Z -> R) : Z -> R := fold_left (fun g d => vdeco_den d g) ds f.
  Definition voperand_den (o : voperand) (mem : Z -> R) : Z -> R := vdecos_den (vo_decos o) (vval R cj (vo_view o) mem).

  (* ---------------------------------------------------------------------------------------- *)
  (* matrix products: gemm_range                                                                *)
  (* ---------------------------------------------------------------------------------------- *)
  Inductive gexpr :=
  | GxGemm (s : R) (a b : operand)       (* blas::gemm(s, a, b) *)
  | GxStar (a b : operand)               (* a * b   (blas::operators) *)
  | GxScale (f : R) (e : gexpr).         (* f * e *)

  (* the fields of the range object *)
  Record grange := mk_grange { gr_scale : R; gr_a : mat; gr_b : mat }.

  Fixpoint geval (e : gexpr) : grange :=
    match e with
    | GxGemm s a b => mk_grange s (resolve cplx a) (resolve cplx b)                      (* gemm.hpp:311 *)
    | GxStar a b => mk_grange rone (resolve cplx a) (resolve cplx b)                     (* gemm.hpp:353 *)
    | GxScale f e' => let r := geval e' in mk_grange (rmul f (gr_scale r)) (gr_a r) (gr_b r)   (* gemm.hpp:301 *)
    end.

  Inductive consume := CsAssign | CsPlusAssign.
  Inductive gtarget :=
  | GtView (c : operand)                 (* a view:  c = e,  c += e *)
  | GtFresh (base : Z)                   (* multi::array<T, 2> r = e;  +e   (the new block starts at base) *)
  | GtArray (base r0 c0 fresh : Z).      (* a multi::array of r0 x c0 elements at base;  arr = e,  arr += e;
                                            fresh = where a re-allocated block would start *)
  Record gstmt := mk_gstmt { gs_target : gtarget; gs_consume : consume; gs_expr : gexpr }.

  (* the view the product is written into; None = the statement does not reach the adaptor (array.hpp:1436) *)
  Definition gstmt_out (st : gstmt) : option mat :=
    let r := geval (gs_expr st) in
    let M := rows (gr_a r) in let N := cols (gr_b r) in
    match gs_target st, gs_consume st with
    | GtView c, _ => Some (resolve cplx c)
    | GtFresh base, _ => Some (array_mat base M N)
    | GtArray base r0 c0 _, CsPlusAssign => Some (array_mat base r0 c0)                   (* gemm.hpp:297: a.begin() *)
    | GtArray base r0 c0 fresh, CsAssign =>
        let arr := array_mat base r0 c0 in
        if (rows arr =? M) && (cols arr =? N) then Some arr                               (* array.hpp:1430 *)
        else if rows arr * cols arr =? M * N then
          (if M * N =? 0 then None else Some (array_mat base M N))                        (* array.hpp:1433-1438 *)
        else Some (array_mat fresh M N)                                                   (* array.hpp:1440 *)
    end.

  Definition consume_beta (c : consume) : R := match c with CsAssign => rzero | CsPlusAssign => rone end.

  Inductive gplan :=
  | GpNothing
  | GpCall (alpha beta : R) (a b c : mat) (f : final).

  Definition gcompile (debug : bool) (st : gstmt) : gplan :=
    let r := geval (gs_expr st) in
    match gstmt_out st with
    | None => GpNothing
    | Some c => GpCall (gr_scale r) (consume_beta (gs_consume st)) (gr_a r) (gr_b r) c (gemm_lazy debug (gr_a r) (gr_b r) c)
    end.

  (* denotation: inner dimension K *)
  Definition prod_den (K : Z) (fa fb : Z -> Z -> R) (i j : Z) : R := zsum R rzero radd K (fun l => rmul (fa i l) (fb l j)).
  Fixpoint gden (e : gexpr) (mem : Z -> R) (i j : Z) : R :=
    match e with
    | GxGemm s a b => rmul s (prod_den (cols (resolve cplx a)) (operand_den a mem) (operand_den b mem) i j)
    | GxStar a b => prod_den (cols (resolve cplx a)) (operand_den a mem) (operand_den b mem) i j
    | GxScale f e' => rmul f (gden e' mem i j)
    end.
  (* the value element (i,j) of the output view c must have afterwards *)
  Definition gstmt_den (cs : consume) (e : gexpr) (c : mat) (mem : Z -> R) (i j : Z) : R :=
    match cs with
    | CsAssign => gden e mem i j
    | CsPlusAssign => radd (mval R cj c mem i j) (gden e mem i j)
    end.

  (* ---------------------------------------------------------------------------------------- *)
  (* matrix-vector products: gemv_range                                                         *)
  (* ---------------------------------------------------------------------------------------- *)
  Inductive vexpr :=
  | VxGemv (s : R) (m : operand) (x : vec)         (* blas::gemv(s, m, x) *)
  | VxScaledPct (aa : R) (m : operand) (x : vec)   (* (aa * m) % x *)
  | VxPct (m : operand) (x : vec).                 (* m % x   (decays at once: only as the source of a construction) *)

  Record vrange := mk_vrange { vr_scale : R; vr_m : mat; vr_x : vec }.
  Definition veval (e : vexpr) : vrange :=
    match e with
    | VxGemv s m x => mk_vrange s (resolve cplx m) x                                      (* gemv.hpp:162 *)
    | VxScaledPct aa m x => mk_vrange aa (resolve cplx m) x                               (* gemv.hpp:185 *)
    | VxPct m x => mk_vrange rone (resolve cplx m) x                                      (* gemv.hpp:193 *)
    end.

  Inductive vtarget :=
  | VtView (y : vec)
  | VtFresh (base : Z)
  | VtArray (base n0 fresh : Z).
  Record vstmt := mk_vstmt { vs_target : vtarget; vs_consume : consume; vs_expr : vexpr }.

  Definition fresh_vec (base n : Z) : vec := mk_vec base 1 n false.
  Definition vstmt_out (st : vstmt) : vec :=
    let r := veval (vs_expr st) in
    let M := rows (vr_m r) in
    match vs_target st, vs_consume st with
    | VtView y, _ => y
    | VtFresh base, _ => fresh_vec base M
    | VtArray base n0 _, CsPlusAssign => fresh_vec base n0
    | VtArray base n0 fresh, CsAssign => if n0 =? M then fresh_vec base M else fresh_vec fresh M
    end.

  Inductive vplan := VpCall (alpha beta : R) (m : mat) (x y : vec) (f : vfinal).
  Definition vcompile (debug : bool) (st : vstmt) : vplan :=
    let r := veval (vs_expr st) in
    let y := vstmt_out st in
    VpCall (vr_scale r) (consume_beta (vs_consume st)) (vr_m r) (vr_x r) y (gemv_lazy debug (vr_m r) (vr_x r) y).

  Definition vexpr_m (e : vexpr) : operand := match e with VxGemv _ m _ | VxScaledPct _ m _ | VxPct m _ => m end.
  Definition vexpr_x (e : vexpr) : vec := match e with VxGemv _ _ x | VxScaledPct _ _ x | VxPct _ x => x end.
  Definition vprod_den (e : vexpr) (mem : Z -> R) (i : Z) : R :=
    zsum R rzero radd (cols (resolve cplx (vexpr_m e))) (fun l => rmul (operand_den (vexpr_m e) mem i l) (vval R cj (vexpr_x e) mem l)).
  Definition vden (e : vexpr) (mem : Z -> R) (i : Z) : R :=
    match e with
    | VxGemv s _ _ => rmul s (vprod_den e mem i)
    | VxScaledPct aa _ _ => rmul aa (vprod_den e mem i)
    | VxPct _ _ => vprod_den e mem i
    end.
  Definition vstmt_den (cs : consume) (e : vexpr) (y : vec) (mem : Z -> R) (i : Z) : R :=
    match cs with
    | CsAssign => vden e mem i
    | CsPlusAssign => radd (vval R cj y mem i) (vden e mem i)
    end.

  (* ---------------------------------------------------------------------------------------- *)
  (* axpy: axpy_range, scaled, plain vectors                                                     *)
  (* ---------------------------------------------------------------------------------------- *)
  Inductive aexpr :=
  | AxRange (a : R) (x : vec)            (* blas::axpy(a, x) *)
  | AxRescale (e : aexpr) (s : R)        (* r *= s  on an axpy_range *)
  | AxScaled (a : R) (x : vec)           (* a * x   (blas::operators) *)
  | AxPlain (x : vec).                   (* x itself:  y += x,  y -= x  (blas::operators);  blas::axpy(x, y) *)

  Fixpoint aexpr_scale (e : aexpr) : R :=
    match e with
    | AxRange a _ => a
    | AxRescale e' s => rmul (aexpr_scale e') s                                            (* axpy.hpp:134 *)
    | AxScaled a _ => a
    | AxPlain _ => rone                                                                    (* axpy.hpp:53, 170-171 *)
    end.
  Fixpoint aexpr_vec (e : aexpr) : vec :=
    match e with AxRange _ x | AxScaled _ x | AxPlain x => x | AxRescale e' _ => aexpr_vec e' end.

  Inductive asign := SgPlus | SgMinus.
  (* y += e / y -= e : the scalar handed to xAXPY (axpy.hpp:124, 130, 159, 161, 170, 171) and the call *)
  Definition astmt_alpha (sg : asign) (e : aexpr) : R :=
    match sg with SgPlus => aexpr_scale e | SgMinus => rneg (aexpr_scale e) end.
  Definition astmt_call (y : vec) (e : aexpr) : l1_call := axpy_call (aexpr_vec e) y.

  Fixpoint aden (e : aexpr) (mem : Z -> R) (l : Z) : R :=
    match e with
    | AxRange a x => rmul a (xval R x mem l)
    | AxRescale e' s => rmul (aden e' mem l) s
    | AxScaled a x => rmul a (xval R x mem l)
    | AxPlain x => xval R x mem l
    end.
  Definition astmt_den (sg : asign) (e : aexpr) (y : vec) (mem : Z -> R) (l : Z) : R :=
    match sg with
    | SgPlus => radd (xval R y mem l) (aden e mem l)
    | SgMinus => radd (xval R y mem l) (rneg (aden e mem l))
    end.

  (* ---------------------------------------------------------------------------------------- *)
  (* dot: dot_ref and what is done with its value                                                *)
  (* ---------------------------------------------------------------------------------------- *)
  Inductive dexpr :=
  | DxDot (x y : voperand)               (* blas::dot(x, y), (x, y): converted / unary + / compared / stored *)
  | DxTimes (f : R) (e : dexpr).         (* f * e: lhs * decay()  (dot.hpp:107) -- computed by the caller, after the BLAS call *)

  Fixpoint dexpr_x (e : dexpr) : voperand := match e with DxDot x _ => x | DxTimes _ e' => dexpr_x e' end.
  Fixpoint dexpr_y (e : dexpr) : voperand := match e with DxDot _ y => y | DxTimes _ e' => dexpr_y e' end.
  Definition dexpr_call (et : etype) (e : dexpr) : option dot_call :=
    dot_n_model et (vresolve cplx (dexpr_x e)) (vresolve cplx (dexpr_y e)).
  (* the value of the expression, given what the BLAS routine stored in the result cell *)
  Fixpoint dexpr_post (e : dexpr) (stored : R) : R :=
    match e with DxDot _ _ => stored | DxTimes f e' => rmul f (dexpr_post e' stored) end.
  Fixpoint dden (e : dexpr) (mem : Z -> R) : R :=
    match e with
    | DxDot x y => zsum R rzero radd (len (vo_view x)) (fun l => rmul (voperand_den x mem l) (voperand_den y mem l))
    | DxTimes f e' => rmul f (dden e' mem)
    end.
End Carrier.

(* ------------------------------------------------------------------------------------------ *)
(* the one-call forms that only fix arguments of a routine modelled elsewhere                   *)
(* ------------------------------------------------------------------------------------------ *)
(* trsm: which (left, lower, unit) and which scalar reach trsm(side, fill, diag, alpha, a, b); `one` = the scalar 1.0 *)
Inductive tri_part := TriU | TriL.                                   (* blas::U(a), blas::L(a) *)
Definition tri_lower (t : tri_part) : bool := match t with TriL => true | TriU => false end.
Inductive tstmt (S : Type) :=
| TsFull (left lower unit : bool) (alpha : S)                        (* trsm(side, fill, diag, alpha, a, b) *)
| TsNonUnit (left lower : bool) (alpha : S)                          (* trsm(side, fill, alpha, a, b):        trsm.hpp:120-123, 137-141 *)
| TsTri (left : bool) (alpha : S) (t : tri_part)                     (* trsm(side, alpha, U(a) | L(a), b):    trsm.hpp:152-155 *)
| TsDivEq (t : tri_part)                                             (* b /= U(a) | L(a):                     trsm.hpp:159-162 *)
| TsOrEq (t : tri_part).                                             (* b |= U(a) | L(a):                     trsm.hpp:164-167 *)
Arguments TsFull {S}. Arguments TsNonUnit {S}. Arguments TsTri {S}. Arguments TsDivEq {S}. Arguments TsOrEq {S}.

Record trsm_args (S : Type) := mk_trsm_args { ta_left : bool; ta_lower : bool; ta_unit : bool; ta_alpha : S }.
Arguments mk_trsm_args {S}. Arguments ta_left {S}. Arguments ta_lower {S}. Arguments ta_unit {S}. Arguments ta_alpha {S}.
Definition tstmt_args {S : Type} (one : S) (st : tstmt S) : trsm_args S :=
  match st with
  | TsFull lf lw un alpha => mk_trsm_args lf lw un alpha
  | TsNonUnit lf lw alpha => mk_trsm_args lf lw false alpha
  | TsTri lf alpha t => mk_trsm_args lf (tri_lower t) false alpha
  | TsDivEq t => mk_trsm_args false (tri_lower t) false one
  | TsOrEq t => mk_trsm_args true (tri_lower t) false one
  end.
Definition tstmt_model {S : Type} (one : S) (debug : bool) (st : tstmt S) (a b : mat) : l3_outcome trsm_call :=
  let g := tstmt_args one st in trsm_model debug (ta_left g) (ta_lower g) (ta_unit g) a b.

(* herk / syrk: the list of (upper, alpha, beta) passes over the same a and c, in the order they run *)
Inductive hstmt (S : Type) :=
| HkFull (upper : bool) (alpha beta : S)                             (* herk | syrk (fill, alpha, a, beta, c) *)
| HkNoBeta (upper : bool) (alpha : S)                                (* herk | syrk (fill, alpha, a, c):   herk.hpp:153-156, syrk.hpp:38-42 *)
| HkBoth (alpha : S)                                                 (* herk(alpha, a, c):                  herk.hpp:158-161 *)
| HkBoth1                                                            (* herk(a, c):                         herk.hpp:163-166 *)
| HkValue (alpha : S)                                                (* herk(alpha, a) -> a new array:      herk.hpp:168-172 *)
| HkValue1.                                                          (* herk(a):                            herk.hpp:200-202 *)
Arguments HkFull {S}. Arguments HkNoBeta {S}. Arguments HkBoth {S}. Arguments HkBoth1 {S}. Arguments HkValue {S}. Arguments HkValue1 {S}.

Definition hstmt_passes {S : Type} (zero one : S) (st : hstmt S) : list (bool * S * S) :=
  match st with
  | HkFull upper alpha beta => [(upper, alpha, beta)]
  | HkNoBeta upper alpha => [(upper, alpha, zero)]
  | HkBoth alpha | HkValue alpha => [(true, alpha, zero); (false, alpha, zero)]
  | HkBoth1 | HkValue1 => [(true, one, zero); (false, one, zero)]
  end.
(* the output: the caller's c, or (value forms) a fresh contiguous rows a x rows a array *)
Definition hstmt_out {S : Type} (st : hstmt S) (a c : mat) (fresh : Z) : mat :=
  match st with
  | HkValue _ | HkValue1 => array_mat fresh (rows a) (rows a)
  | _ => c
  end.

(* level 1: the operator spellings of scal / copy / axpy that only rename a call *)
Inductive l1stmt (S : Type) :=
| L1ScalRange (a : S) (x : vec)          (* x *= blas::scal(a) *)
| L1ScalOp (x : vec) (a : S)             (* x *= a *)
| L1ScalIt (a : S) (x : vec)             (* blas::scal(a, x.begin(), x.end()) *)
| L1CopyShift (y x : vec)                (* y << x *)
| L1CopyAssign (y x : vec).              (* y = blas::copy(x) *)
Arguments L1ScalRange {S}. Arguments L1ScalOp {S}. Arguments L1ScalIt {S}. Arguments L1CopyShift {S}. Arguments L1CopyAssign {S}.
Definition l1stmt_call {S : Type} (st : l1stmt S) : l1_call :=
  match st with
  | L1ScalRange _ x | L1ScalOp x _ | L1ScalIt _ x => scal_call x
  | L1CopyShift y x | L1CopyAssign y x => copy_call x y
  end.
Definition l1stmt_scalar {S : Type} (st : l1stmt S) : option S :=
  match st with
  | L1ScalRange a _ | L1ScalOp _ a | L1ScalIt a _ => Some a
  | _ => None
  end.

(* ------------------------------------------------------------------------------------------ *)
(* the carrier the correspondence check instantiates the model with: Gaussian integers         *)
(* ------------------------------------------------------------------------------------------ *)
Definition gI := (Z * Z)%type.
Definition gI_mul (x y : gI) : gI := (fst x * fst y - snd x * snd y, fst x * snd y + snd x * fst y).
Definition gI_neg (x : gI) : gI := (- fst x, - snd x).

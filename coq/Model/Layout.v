(* L1: the strided descriptor of boost::multi, function by function.
   Source: /repo/include/boost/multi/detail/layout.hpp (layout_t<D>, extensions_t<D>)
           /repo/include/boost/multi/detail/index_range.hpp (range, extension_t, intersection)
   A layout_t<D> is (sub_, stride_, offset_, nelems_) with sub_ a layout_t<D-1>; we use the list
   of (stride, offset, nelems) triples, leading dimension first.  layout_t<0> carries
   offset_ = 0 and nelems_ = 1 on every layout reachable from an extensions constructor, which is
   what the empty list stands for.  C++ integer division truncates: Z.quot / Z.rem, never Z.div.
   Definitions only -- no proofs in this file, so that the model still runs when a proof breaks. *)
From Coq Require Import ZArith List Bool.
Import ListNotations.
Local Open Scope Z_scope.

Record dim := mkdim { d_stride : Z; d_offset : Z; d_nelems : Z }.
Definition layout := list dim.
Definition range := (Z * Z)%type.             (* [first, last) *)

Definition r_first (r : range) := fst r.
Definition r_last  (r : range) := snd r.
Definition r_size  (r : range) := snd r - fst r.
Definition r_contains (r : range) (i : Z) : bool := (i <? snd r) && (fst r <=? i).   (* index_range.hpp:214 *)
Definition r_empty (r : range) : bool := fst r =? snd r.
(* index_range.hpp:202-205: all empty ranges are equal *)
Definition r_eq (a b : range) : bool :=
  (r_empty a && r_empty b) || ((fst a =? fst b) && (snd a =? snd b)).
(* index_range.hpp:300-310 *)
Definition r_inter (a b : range) : range :=
  let f := Z.max (fst a) (fst b) in
  let l := Z.min (snd a) (snd b) in
  (Z.min f l, l).

(* layout.hpp:846-853 *)
Definition d_size (d : dim) : Z :=
  if d_nelems d =? 0 then 0 else Z.quot (d_nelems d) (d_stride d).
(* layout.hpp:880-886 *)
Definition d_extension (d : dim) : range :=
  if d_nelems d =? 0 then (0, 0)
  else (Z.quot (d_offset d) (d_stride d), Z.quot (d_offset d + d_nelems d) (d_stride d)).

Definition l_size (l : layout) : Z := match l with [] => 0 | d :: _ => d_size d end.
Definition l_extension (l : layout) : range := match l with [] => (0,0) | d :: _ => d_extension d end.
Definition l_sizes (l : layout) : list Z := map d_size l.
Definition l_extensions (l : layout) : list range := map d_extension l.
Definition l_strides (l : layout) : list Z := map d_stride l.
Definition l_offsets (l : layout) : list Z := map d_offset l.
Definition l_nelemss (l : layout) : list Z := map d_nelems l.
(* layout.hpp:837 (and :1060 for D = 0) *)
Fixpoint l_num_elements (l : layout) : Z :=
  match l with [] => 1 | d :: s => d_size d * l_num_elements s end.
(* layout.hpp:840: leading dimension only; :1081 for D = 0 (nelems_ = 1) *)
Definition l_is_empty (l : layout) : bool :=
  match l with [] => false | d :: _ => d_nelems d =? 0 end.

(* extensions_t<D>::num_elements, layout.hpp:244-252 *)
Fixpoint x_num_elements (x : list range) : Z :=
  match x with [] => 1 | r :: s => r_size r * x_num_elements s end.

(* layout_t(extensions), layout.hpp:735-745 *)
Fixpoint mk_layout (x : list range) : layout :=
  match x with
  | [] => []
  | r :: rest =>
      let sub := mk_layout rest in
      let n := l_num_elements sub in
      let st := if n =? 0 then 1 else n in
      mkdim st (fst r * st) (r_size r * n) :: sub
  end.

(* layout.hpp:935-949.  rotate = transpose; sub.rotate  moves the leading dimension to the end,
   unrotate = sub.unrotate; transpose moves the last to the front, reverse = unrotate; sub.reverse
   is list reversal. *)
Definition l_transpose (l : layout) : layout :=
  match l with a :: b :: r => b :: a :: r | _ => l end.
Fixpoint rot_ins (a : dim) (r : layout) : layout :=       (* the recursion of rotate() *)
  match r with [] => [a] | b :: r' => b :: rot_ins a r' end.
Definition l_rotate (l : layout) : layout :=
  match l with [] => [] | a :: r => rot_ins a r end.
Fixpoint l_unrotate (l : layout) : layout :=              (* sub_.unrotate(); transpose() *)
  match l with
  | [] => []
  | a :: r => match l_unrotate r with [] => [a] | b :: r' => b :: a :: r' end
  end.
Definition l_reverse (l : layout) : layout := rev l.  (* unrotate(); sub_.reverse() *)

(* the same three permutations on index tuples / size tuples *)
Section Perm.
  Context {A : Type}.
  Definition t_rot (l : list A) : list A := match l with [] => [] | a :: r => r ++ [a] end.
  Definition t_unrot (l : list A) : list A :=
    match rev l with [] => [] | a :: r => a :: rev r end.
  Definition t_transpose (l : list A) : list A := match l with a :: b :: r => b :: a :: r | _ => l end.
End Perm.

(* layout.hpp:898-918, 966-983 *)
Definition d_drop (d : dim) (n : Z) : dim :=
  mkdim (d_stride d) (d_offset d) (d_stride d * (d_size d - n)).
Definition d_slice (d : dim) (first last : Z) : dim :=
  mkdim (d_stride d) (d_offset d)
        (if d_nelems d =? 0 then 0 else Z.quot (d_nelems d) (d_size d) * (last - first)).
Definition d_take (d : dim) (n : Z) : dim :=
  mkdim (d_stride d) (d_offset d) (d_stride d * n).
(* layout.hpp:833 *)
Definition d_reindex (d : dim) (i : Z) : dim :=
  mkdim (d_stride d) (i * d_stride d) (d_nelems d).
(* layout.hpp:985-989 (two-argument scale): offset is left unscaled *)
Definition d_scale (num den : Z) (d : dim) : dim :=
  mkdim (Z.quot (d_stride d * num) den) (d_offset d) (Z.quot (d_nelems d * num) den).
Definition l_scale (num den : Z) (l : layout) : layout := map (d_scale num den) l.

(* Flat iteration (layout.hpp:775-784, 1070): the layout call operator accumulates, level by level,
   what indexing adds to the base pointer (array_ref.hpp:1131, 2812): idx*stride_ - offset_.
   (After fix 17 of DESIGN section 7; before it the offsets were added, wrong for re-based views.) *)
Fixpoint l_call (l : layout) (idx : list Z) : Z :=
  match l, idx with
  | d :: l', i :: idx' => i * d_stride d - d_offset d + l_call l' idx'
  | _, _ => 0
  end.
(* what chained brackets add to the base pointer *)
Fixpoint l_addr (l : layout) (idx : list Z) : Z :=
  match l, idx with
  | d :: l', i :: idx' => i * d_stride d - d_offset d + l_addr l' idx'
  | _, _ => 0
  end.

(* extensions_t: from_linear / to_linear / next_canonical / prev_canonical (layout.hpp:176-217, 373-411).
   All four work with indices OF THE EXTENSION (first <= i < last), i.e. from_linear adds and
   to_linear subtracts the first index of each dimension (fix 17; before it from_linear/to_linear were
   zero-based while next/prev_canonical were extension-based). *)
Fixpoint x_from_linear (x : list range) (n : Z) : list Z :=
  match x with
  | [] => []
  | [r] => [n + fst r]
  | r :: rest =>
      let sub := x_num_elements rest in
      (Z.quot n sub + fst r) :: x_from_linear rest (Z.rem n sub)
  end.
Fixpoint x_to_linear (x : list range) (idx : list Z) : Z :=
  match x, idx with
  | [r], [i] => i - fst r
  | r :: rest, i :: idx' => (i - fst r) * x_num_elements rest + x_to_linear rest idx'
  | _, _ => 0
  end.
(* returns (carry, new tuple) *)
Fixpoint x_next_canonical (x : list range) (idx : list Z) : bool * list Z :=
  match x, idx with
  | [r], [i] => if i =? snd r - 1 then (true, [fst r]) else (false, [i + 1])
  | r :: rest, i :: idx' =>
      let '(c, idx'') := x_next_canonical rest idx' in
      let i1 := if c then i + 1 else i in
      if i1 =? snd r then (true, fst r :: idx'') else (false, i1 :: idx'')
  | _, _ => (true, [])
  end.
Fixpoint x_prev_canonical (x : list range) (idx : list Z) : bool * list Z :=
  match x, idx with
  | [r], [i] => if i =? fst r then (true, [snd r - 1]) else (false, [i - 1])
  | r :: rest, i :: idx' =>
      let '(c, idx'') := x_prev_canonical rest idx' in
      let i1 := if c then i - 1 else i in
      if i1 <? fst r then (true, snd r - 1 :: idx'') else (false, i1 :: idx'')
  | _, _ => (true, [])
  end.
(* layout.hpp:253-261, 413-420 *)
Fixpoint x_intersection (a b : list range) : list range :=
  match a, b with
  | ra :: a', rb :: b' => r_inter ra rb :: x_intersection a' b'
  | _, _ => []
  end.
Fixpoint x_eq (a b : list range) : bool :=
  match a, b with
  | [], [] => true
  | ra :: a', rb :: b' => r_eq ra rb && x_eq a' b'
  | _, _ => false
  end.

(* The view source (Model/Life.v vsrc: extensions of the view + offsets of its elements, canonical order, inside the
   block of the viewed array) of a view of Model/View.v.  This is the function the correspondence driver
   (ocaml/life_driver.ml view_src) calls, extracted; Proofs/LifeViewCompose.v proves that it lands in the domain of the
   lifecycle theorems for every reachable view.  Definitions only. *)
From Coq Require Import ZArith List.
From BM Require Import Model.Layout Model.View Model.Iter Model.Assign Model.Life.
Import ListNotations.
Local Open Scope Z_scope.

Definition view_vsrc (v : view) : vsrc :=
  mkvsrc (map (fun r : range => (fst r, snd r - fst r)) (l_extensions (lay v)))
         (map (fun k => Z.to_nat (e_addr v k)) (iota (Z.to_nat (er_size v)))).

(* C13 -- a flat integer encoding of the model's verdict for a gemm / gemv case, so that the extracted OCaml model and
   `Eval vm_compute` inside coqc can be compared textually on a sub-sample of every run (DESIGN 2.4: bounds the trust in
   extraction and in the driver's number conversion).  Definitions only. *)
From Coq Require Import ZArith List Bool.
From BM Require Import Model.BlasC13 Model.BlasC13Expr.
Import ListNotations.
Local Open Scope Z_scope.

Definition trans_code (t : trans) : Z := match t with TN => 78 | TT => 84 | TC => 67 end.

Definition final_code (f : final) : list Z :=
  match f with
  | FNoCall => [0]
  | FAbort => [2]
  | FThrow w => [3; w]
  | FBlas cj k => [1; if cj then 1 else 0; g_site k; trans_code (g_ta k); trans_code (g_tb k); g_m k; g_n k; g_k k;
                   g_pa k; g_lda k; g_pb k; g_ldb k; g_pc k; g_ldc k; gemm_info k]
  end.

Definition vfinal_code (f : vfinal) : list Z :=
  match f with
  | GNoCall => [0]
  | GAbort => [2]
  | GBlas k => [1; v_site k; trans_code (v_ta k); v_m k; v_n k; v_pa k; v_lda k; v_px k; v_incx k; v_py k; v_incy k; gemv_info k]
  end.

(* expression cases (Model/BlasC13Expr.v over the Gaussian integers): the scalars, the resolved operand views and the verdict *)
Definition mat_code (a : mat) : list Z := [mbase a; s0 a; s1 a; rows a; cols a; if mconj a then 1 else 0].
Definition vec_code (x : vec) : list Z := [vbase x; inc x; len x; if vconj x then 1 else 0].
Definition gplan_code (p : gplan gI) : list Z :=
  match p with
  | GpNothing _ => [0]
  | GpCall _ alpha beta a b c f => [1; fst alpha; snd alpha; fst beta; snd beta] ++ mat_code a ++ mat_code b ++ mat_code c ++ final_code f
  end.
Definition vplan_code (p : vplan gI) : list Z :=
  match p with
  | VpCall _ alpha beta m x y f => [1; fst alpha; snd alpha; fst beta; snd beta] ++ mat_code m ++ vec_code x ++ vec_code y ++ vfinal_code f
  end.

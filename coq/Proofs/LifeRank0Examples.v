(* Rank 0: the hypotheses of the property theorems are satisfiable by a concrete, non-trivial history; its outcome evaluated
   by vm_compute.  (A buffer of three elements with two references into it, four rank-0 arrays built in four different ways,
   copy / move / element / reference assignment, both swaps, a swap and an assignment through references, a destruction.) *)
From BM Require Import Base.Tactics Model.Life Model.LifeRank0 Proofs.LifeMonad Proofs.LifeInv Proofs.LifeOps Proofs.LifeMain
  Proofs.LifeRank0Inv Proofs.LifeRank0Main Proofs.LifeRank0Final Proofs.LifeRank0Cmp.
Local Open Scope Z_scope.

Definition cfg_ex : config := mkcfg 0 false false false false false false false SoccSame.   (* the tracked element *)

Definition h_ex : list lop0 :=
  [ ZBuf 5 2 [10; 20; 30];
    ZCtorElem 0 1 3;                           (* a(3, alloc 1) *)
    ZCtorCopy 1 0;                             (* b(a) *)
    ZAssignElem 1 7;                           (* b = 7 *)
    ZCtorMove 2 1;                             (* c(std::move(b)) *)
    ZCtorRef 3 0 (mkref0 5 2);                 (* d(array_ref(&buf[2])) *)
    ZSwap 0 2;                                 (* swap(a, c) *)
    ZRefAssignRef (mkref0 5 1) (mkref0 0 0);   (* array_ref(&buf[1]) = a() *)
    ZRefSwap (mkref0 5 0) (mkref0 3 0);        (* swap(array_ref(&buf[0]), d()) *)
    ZAssignRef 1 (mkref0 5 0);                 (* b = array_ref(&buf[0]) *)
    ZSwapMember 1 3;                           (* b.swap(d) *)
    ZAssignMove 0 2;                           (* a = std::move(c) *)
    ZDestroy 2 ].

Ltac dom_step :=
  match goal with
  | |- hist_dom0 _ [] _ => exact Logic.I
  | |- hist_dom0 ?c (?o :: ?h) ?s =>
      let r := eval vm_compute in (run_op0 c o s) in
      change (dom_op0 (s_arrs s) o /\ hist_dom0 c h (snd (run_op0 c o s)));
      replace (run_op0 c o s) with r by (vm_compute; reflexivity); cbn [snd]; split
  end.
Ltac live_ex := split; [split; [unfold NP; cbn; lia|reflexivity]|split; reflexivity].
Ltac ref_ex := eexists; split; [split; [unfold NP; cbn; lia|reflexivity]|vm_compute; reflexivity].
Ltac free_ex := split; [unfold NP; cbn; lia|reflexivity].

Example h_ex_in_domain : hist_dom0 cfg_ex h_ex (st0 None).
Proof.
  unfold h_ex.
  dom_step. { free_ex. }
  dom_step. { free_ex. }
  dom_step. { split; [free_ex|eexists; live_ex]. }
  dom_step. { eexists; live_ex. }
  dom_step. { split; [free_ex|eexists; live_ex]. }
  dom_step. { split; [free_ex|ref_ex]. }
  dom_step. { split; [discriminate|split; eexists; live_ex]. }
  dom_step. { split; ref_ex. }
  dom_step. { split; [ref_ex|split; [ref_ex|left; discriminate]]. }
  dom_step. { split; [eexists; live_ex|ref_ex]. }
  dom_step. { split; [discriminate|split; eexists; live_ex]. }
  dom_step. { split; eexists; live_ex. }
  dom_step. { eexists. split; [unfold NP; cbn; lia|reflexivity]. }
  dom_step.
Qed.

(* what the reference interpreter says the pool is at the end: a = 3 (moved back from c), b = 10, d = 30, the buffer 30 7 30
   -- wait for the machine to agree (C04_rank0_value_semantics), then read it off *)
Example h_ex_values :
  abs_state (snd (run_rank0 cfg_ex h_ex (st0 None))) = run_values0 cfg_ex h_ex (abs_state (st0 None)).
Proof. apply f_value_semantics. exact h_ex_in_domain. Qed.

Example h_ex_pool :
  run_values0 cfg_ex h_ex (abs_state (st0 None)) =
  [Some (X0, [3]); Some (X0, [10]); None; Some (X0, [30]); None; Some ([(0, 3)], [30; 7; 30]); None; None; None].
Proof. vm_compute. reflexivity. Qed.

Example h_ex_good : Good cfg_ex (snd (run_rank0 cfg_ex h_ex (st0 None))).
Proof.
  pose proof (f_history_invariant cfg_ex h_ex h_ex_in_domain) as H.
  destruct (run_rank0 cfg_ex h_ex (st0 None)) as [outs s']. exact (proj1 H).
Qed.

(* comparisons in the final state: d (30) == buf[0] (30), b (10) < d (30), d (30) >= the element 31 *)
Example h_ex_compare :
  let s := snd (run_rank0 cfg_ex h_ex (st0 None)) in
  cmp0 cfg_ex CEq (OpRef (mkref0 3 0)) (OpRef (mkref0 5 0)) s = Ok true s /\
  cmp0 cfg_ex CLt (OpRef (mkref0 1 0)) (OpRef (mkref0 3 0)) s = Ok true s /\
  cmp0 cfg_ex CGe (OpRef (mkref0 3 0)) (OpVal 31) s = Ok false s.
Proof. vm_compute. repeat split; reflexivity. Qed.

(* ---- C10: unequal stateful allocators, every propagation trait set, select_on_container_copy_construction returning a child
   allocator: a (allocator 1), b (allocator 2); c = copy of a gets allocator 1001; a = b re-houses a under allocator 2;
   b = std::move(c) re-houses b under 1001; a.swap(b) exchanges allocator and block; std::swap(a, c) is three moves;
   allocator-extended copy under 7.  No step is illegal: every block is released through the allocator that produced it. ---- *)
Definition cfg_c10 : config := mkcfg 0 false false false true true true false SoccChild.
Definition h_c10 : list lop0 :=
  [ ZCtorElem 0 1 5; ZCtorElem 1 2 7; ZCtorCopy 2 0; ZAssignCopy 0 1; ZAssignMove 1 2; ZSwapMember 0 1; ZSwap 0 2;
    ZCtorCopyAlloc 3 1 7; ZDestroy 2 ].

Example h_c10_in_domain : hist_dom0 cfg_c10 h_c10 (st0 None).
Proof.
  unfold h_c10.
  dom_step. { free_ex. }
  dom_step. { free_ex. }
  dom_step. { split; [free_ex|eexists; live_ex]. }
  dom_step. { split; eexists; live_ex. }
  dom_step. { split; eexists; live_ex. }
  dom_step. { split; [discriminate|split; eexists; live_ex]. }
  dom_step. { split; [discriminate|split; eexists; live_ex]. }
  dom_step. { split; [free_ex|eexists; live_ex]. }
  dom_step. { eexists. split; [unfold NP; cbn; lia|reflexivity]. }
  dom_step.
Qed.

Example h_c10_allocators :
  let s := snd (run_rank0 cfg_c10 h_c10 (st0 None)) in
  fst (run_rank0 cfg_c10 h_c10 (st0 None)) = repeat OutOk 9 /\
  map (fun r => option_map a_alloc (nth r (s_arrs s) None)) [0; 1; 2; 3]%nat = [Some 1001; Some 2; None; Some 7].
Proof. vm_compute. split; reflexivity. Qed.

(* the same history with no trait set (and equal or unequal allocators): no allocator ever changes *)
Definition cfg_c10n : config := mkcfg 0 false false false false false false false SoccSame.
Example h_c10n_allocators :
  let s := snd (run_rank0 cfg_c10n h_c10 (st0 None)) in
  fst (run_rank0 cfg_c10n h_c10 (st0 None)) = repeat OutOk 9 /\
  map (fun r => option_map a_alloc (nth r (s_arrs s) None)) [0; 1; 2; 3]%nat = [Some 1; Some 2; None; Some 7].
Proof. vm_compute. split; reflexivity. Qed.

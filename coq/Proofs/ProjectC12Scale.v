(* C12, part 1: layout_t::scale (the code since /repo 1b46e17: stride, offset and nelems scaled) on well-formed
   layouts with ANY index bases (dim_okg / lay_okg), with the zero-based statements (lay_ok) as corollaries; byte
   addresses of member_cast and reinterpret_array_cast views. *)
From BM Require Import Base.Tactics Model.Layout Model.View Model.Spec Model.Iter Model.Asserts Model.ProjectC12Based Model.ProjectC12
  Proofs.LayoutProofs Proofs.ViewProofs Proofs.ViewProofs2 Proofs.IterProofs Proofs.ElemProofs.
Local Open Scope Z_scope.

(* ---- divisibility ---- *)
Lemma dom_scale_cons num den d l :
  dom_scale num den (d :: l) = (Z.rem (d_stride d * num) den =? 0) && dom_scale num den l.
Proof. reflexivity. Qed.

Lemma dom_scale_divides num den l : den <> 0 -> Z.rem num den = 0 -> dom_scale num den l = true.
Proof.
  intros Hd Hr. induction l as [|d l IH]; [reflexivity|]. rewrite dom_scale_cons, IH, andb_true_r.
  apply Z.eqb_eq. apply Z.rem_divide; [assumption|]. apply Z.divide_mul_r.
  apply Z.rem_divide; assumption.
Qed.

Lemma dom_scale_app num den l1 l2 :
  dom_scale num den (l1 ++ l2) = dom_scale num den l1 && dom_scale num den l2.
Proof. unfold dom_scale. apply forallb_app. Qed.

(* x*num/den is exact when den divides x*num *)
Lemma quot_exact x num den : den <> 0 -> Z.rem (x * num) den = 0 -> Z.quot (x * num) den * den = x * num.
Proof. intros Hd Hr. pose proof (Z.quot_rem' (x * num) den). lia. Qed.

Lemma quot_scale_mul n x num den : den <> 0 -> Z.rem (x * num) den = 0 ->
  Z.quot (n * x * num) den = n * Z.quot (x * num) den.
Proof.
  intros Hd Hr. pose proof (quot_exact x num den Hd Hr) as E.
  set (q := Z.quot (x * num) den) in *. clearbody q.
  replace (n * x * num) with (n * (x * num)) by ring. rewrite <- E.
  replace (n * (q * den)) with (n * q * den) by ring.
  apply Z.quot_mul. assumption.
Qed.

(* ---- the scaled layout: the same function as C20's, and the old code on zero offsets ---- *)
Lemma l_scale_b_is_fixed num den l : l_scale_b num den l = l_scale_fixed num den l.
Proof. reflexivity. Qed.
Lemma dom_scale_b_is_plain num den l : dom_scale_b num den l = asrt_scale_plain num den l.
Proof. reflexivity. Qed.
Lemma dom_scale_is_stride num den l : dom_scale num den l = dom_scale_stride num den l.
Proof. reflexivity. Qed.

Lemma d_scale_b_zero_offset num den d : d_offset d = 0 -> d_scale_b num den d = d_scale num den d.
Proof.
  intro H. unfold d_scale_b, d_scale. rewrite H, Z.mul_0_l.
  replace (Z.quot 0 den) with 0 by (destruct den; reflexivity). reflexivity.
Qed.
Lemma l_scale_b_zero_offsets num den l : dom_scale_off l = true -> l_scale_b num den l = l_scale num den l.
Proof.
  induction l as [|d l IH]; [reflexivity|]. cbn [dom_scale_off forallb]. fold (dom_scale_off l). intro H. bprop.
  cbn [l_scale_b l_scale map]. rewrite d_scale_b_zero_offset by assumption. f_equal. apply IH. assumption.
Qed.
Lemma dom_scale_off_zero_based l sz : lay_ok l sz -> dom_scale_off l = true.
Proof.
  induction 1 as [|d n l sz (Ho & _) _ IH]; [reflexivity|]. cbn [dom_scale_off forallb]. fold (dom_scale_off l).
  rewrite Ho, IH. reflexivity.
Qed.
Lemma l_scale_b_zero_based num den l sz : lay_ok l sz -> l_scale_b num den l = l_scale num den l.
Proof. intro H. apply l_scale_b_zero_offsets. eapply dom_scale_off_zero_based; eassumption. Qed.

Lemma dom_scale_b_split num den l : dom_scale_b num den l = dom_scale num den l && dom_scale_offset num den l.
Proof.
  induction l as [|d l IH]; [reflexivity|]. cbn [dom_scale_b dom_scale dom_scale_offset forallb].
  fold (dom_scale_b num den l) (dom_scale num den l) (dom_scale_offset num den l). rewrite IH.
  destruct (Z.rem (d_stride d * num) den =? 0), (Z.rem (d_offset d * num) den =? 0), (dom_scale num den l); reflexivity.
Qed.

Lemma rem_mul_l f x den : Z.rem x den = 0 -> Z.rem (f * x) den = 0.
Proof.
  intro H. destruct (Z.eq_dec den 0) as [->|Hd].
  - rewrite Z.rem_0_r_ext in * by reflexivity. subst. lia.
  - pose proof (Z.quot_rem' x den) as Q. rewrite H in Q. rewrite Q.
    replace (f * (den * Z.quot x den + 0)) with ((f * Z.quot x den) * den) by lia. apply Z.rem_mul. exact Hd.
Qed.

(* the offset assertion follows from the stride assertion on every well-formed dimension (offset = first * stride) *)
Lemma lay_okg_offset_assert num den l fn : lay_okg l fn -> dom_scale num den l = true -> dom_scale_offset num den l = true.
Proof.
  induction 1 as [|d p l fn Hd _ IH]; [reflexivity|]. rewrite dom_scale_cons. intro H. bprop.
  cbn [dom_scale_offset forallb]. fold (dom_scale_offset num den l). rewrite IH by assumption. rewrite andb_true_r.
  apply Z.eqb_eq. destruct Hd as (Ho & _). rewrite Ho.
  replace (fst p * d_stride d * num) with (fst p * (d_stride d * num)) by lia. apply rem_mul_l. assumption.
Qed.
Lemma lay_okg_dom_scale_b num den l fn : lay_okg l fn -> dom_scale num den l = true -> dom_scale_b num den l = true.
Proof. intros Hg H. rewrite dom_scale_b_split, H, (lay_okg_offset_assert _ _ _ _ Hg H). reflexivity. Qed.

(* ---- one dimension ---- *)
Lemma dim_okg_scale_b d f n num den : 0 < num -> 0 < den -> Z.rem (d_stride d * num) den = 0 ->
  dim_okg d f n -> dim_okg (d_scale_b num den d) f n.
Proof.
  intros Hn Hd Hr (Ho & Hne & H0 & Hs). unfold dim_okg, d_scale_b; cbn [d_stride d_offset d_nelems].
  pose proof (quot_exact (d_stride d) num den ltac:(lia) Hr) as E.
  repeat split; try assumption.
  - rewrite Ho. apply quot_scale_mul; [lia|assumption].
  - rewrite Hne. apply quot_scale_mul; [lia|assumption].
  - intros Hpos. specialize (Hs Hpos).
    set (q := Z.quot (d_stride d * num) den) in *. clearbody q. nia.
Qed.

Lemma dim_ok_scale d n num den : 0 < num -> 0 < den -> Z.rem (d_stride d * num) den = 0 ->
  dim_ok d n -> dim_ok (d_scale_b num den d) n.
Proof. intros Hn Hd Hr H. apply dim_ok_g. apply dim_ok_g in H. apply dim_okg_scale_b; assumption. Qed.

Lemma lay_okg_scale num den l fn : 0 < num -> 0 < den -> dom_scale num den l = true ->
  lay_okg l fn -> lay_okg (l_scale_b num den l) fn.
Proof.
  intros Hn Hd Hdom Hok. revert Hdom. induction Hok as [|d p l fn Hdim _ IH]; intros Hdom; cbn [l_scale_b map].
  - constructor.
  - rewrite dom_scale_cons in Hdom. bprop. constructor; [apply dim_okg_scale_b; assumption|apply IH; assumption].
Qed.

Lemma lay_ok_scale num den l sz : 0 < num -> 0 < den -> dom_scale num den l = true ->
  lay_ok l sz -> lay_ok (l_scale_b num den l) sz.
Proof.
  intros Hn Hd Hdom Hok. revert Hdom. induction Hok as [|d n l sz Hdim _ IH]; intros Hdom; cbn [l_scale_b map].
  - constructor.
  - rewrite dom_scale_cons in Hdom. bprop. constructor; [apply dim_ok_scale; assumption|apply IH; assumption].
Qed.

(* den * (address in the scaled layout) = num * (address in the original layout): ANY index bases, every index tuple *)
Lemma l_addr_scale_g num den l : forall fn idx, den <> 0 -> dom_scale num den l = true -> lay_okg l fn ->
  den * l_addr (l_scale_b num den l) idx = num * l_addr l idx.
Proof.
  induction l as [|d l IH]; intros fn idx Hd Hdom Hok.
  - cbn. lia.
  - rewrite dom_scale_cons in Hdom. bprop. inv Hok. destruct idx as [|i idx]; [cbn; lia|].
    cbn [l_scale_b map l_addr d_scale_b d_stride d_offset].
    specialize (IH _ idx Hd H0 H5). unfold l_scale_b in IH.
    pose proof (quot_exact (d_stride d) num den Hd H) as E.
    destruct H3 as (Ho & _). rewrite Ho.
    rewrite (quot_scale_mul (fst y) (d_stride d) num den Hd H).
    set (q := Z.quot (d_stride d * num) den) in *. clearbody q.
    set (a' := l_addr (map (d_scale_b num den) l) idx) in *. clearbody a'.
    set (a0 := l_addr l idx) in *. clearbody a0.
    replace (den * (i * q - fst y * q + a')) with ((i - fst y) * (q * den) + den * a') by ring.
    rewrite E, IH. ring.
Qed.

Lemma l_addr_scale num den l : forall sz idx, den <> 0 -> dom_scale num den l = true -> lay_ok l sz ->
  den * l_addr (l_scale_b num den l) idx = num * l_addr l idx.
Proof. intros sz idx Hd Hdom Hok. eapply l_addr_scale_g; try eassumption. apply lay_ok_okg. eassumption. Qed.

(* the separate 1-D code of reinterpret_array_cast<U>() const& computes the same triple as scale *)
Lemma l_reinterpret_is_scale num den l : l_reinterpret num den l = l_scale_b num den l.
Proof. destruct l as [|d [|d' l]]; reflexivity. Qed.
Lemma l_reinterpret_zero_based num den l sz : lay_ok l sz -> l_reinterpret num den l = l_scale_b num den l.
Proof. intros _. apply l_reinterpret_is_scale. Qed.

(* ---- the extra trailing dimension ---- *)
Lemma l_reinterpret_n_eq num den n l :
  l_rotate (mkdim 1 0 n :: l_scale_b num den l) = l_scale_b num den l ++ [mkdim 1 0 n].
Proof. apply l_rotate_cons. Qed.

Lemma p_reinterpret_n_lay szU n x :
  lay (p_view (p_reinterpret_n szU n x)) = l_scale_b (p_esz x) szU (lay (p_view x)) ++ [mkdim 1 0 n]
  /\ base (p_view (p_reinterpret_n szU n x)) = 0
  /\ p_org (p_reinterpret_n szU n x) = p_ptr x
  /\ p_esz (p_reinterpret_n szU n x) = szU.
Proof.
  unfold p_reinterpret_n. destruct (lay (p_view x)) as [|d [|d' l]] eqn:E;
    cbn [p_view p_org p_esz p_rebase v_rotated lay base]; rewrite ?l_rotate_cons; auto.
Qed.

Lemma dim_ok_unit n : 0 <= n -> dim_ok (mkdim 1 0 n) n.
Proof. intros H. unfold dim_ok; cbn. repeat split; lia. Qed.

(* ---- addresses through chained brackets = base + l_addr ---- *)
Lemma p_addr_brackets_eq x idx : p_addr_brackets x idx = p_addr x idx.
Proof. unfold p_addr_brackets, p_addr, v_addr. rewrite addr_brackets_eq. reflexivity. Qed.

Lemma p_addr_rebase l ptr esz idx : p_addr (p_rebase l ptr esz) idx = ptr + esz * l_addr l idx.
Proof. unfold p_addr, p_rebase, v_addr; cbn. lia. Qed.

Lemma p_addr_ptr x idx : p_addr x idx = p_ptr x + p_esz x * l_addr (lay (p_view x)) idx.
Proof. unfold p_addr, p_ptr, v_addr. lia. Qed.

(* ---- member_cast ---- *)
Section Casts.
  Variable x : pview.
  Variable sz : list Z.
  Hypothesis Hok : lay_ok (lay (p_view x)) sz.
  Variable szU : Z.
  Hypothesis HszT : 0 < p_esz x.
  Hypothesis HszU : 0 < szU.
  Hypothesis Hdom : dom_scale (p_esz x) szU (lay (p_view x)) = true.

  Lemma member_cast_ok moff : lay_ok (lay (p_view (p_member_cast szU moff x))) sz.
  Proof. unfold p_member_cast, p_rebase; cbn [p_view lay]. apply lay_ok_scale; assumption. Qed.

  Lemma member_cast_addr moff idx :
    p_addr (p_member_cast szU moff x) idx = p_addr x idx + moff.
  Proof.
    unfold p_member_cast. rewrite p_addr_rebase, p_addr_ptr.
    rewrite (l_addr_scale (p_esz x) szU (lay (p_view x)) sz idx ltac:(lia) Hdom Hok). lia.
  Qed.

  Lemma reinterpret_lay : lay (p_view (p_reinterpret szU x)) = l_scale_b (p_esz x) szU (lay (p_view x)).
  Proof. unfold p_reinterpret, p_rebase; cbn [p_view lay]. eapply l_reinterpret_zero_based; eassumption. Qed.

  Lemma reinterpret_ok : lay_ok (lay (p_view (p_reinterpret szU x))) sz.
  Proof. rewrite reinterpret_lay. apply lay_ok_scale; assumption. Qed.

  Lemma reinterpret_addr idx : p_addr (p_reinterpret szU x) idx = p_addr x idx.
  Proof.
    rewrite (p_addr_ptr (p_reinterpret szU x)), reinterpret_lay.
    unfold p_reinterpret, p_rebase, p_ptr at 1; cbn [p_view p_org p_esz base].
    rewrite (l_addr_scale (p_esz x) szU (lay (p_view x)) sz idx ltac:(lia) Hdom Hok), p_addr_ptr. lia.
  Qed.

  Lemma reinterpret_n_ok n : 0 <= n -> lay_ok (lay (p_view (p_reinterpret_n szU n x))) (sz ++ [n]).
  Proof.
    intros Hn. destruct (p_reinterpret_n_lay szU n x) as (-> & _).
    apply Forall2_app; [apply lay_ok_scale; assumption|]. constructor; [apply dim_ok_unit; assumption|constructor].
  Qed.

  Lemma reinterpret_n_addr n idx j : length idx = length sz ->
    p_addr (p_reinterpret_n szU n x) (idx ++ [j]) = p_addr x idx + j * szU.
  Proof.
    intros Hl. destruct (p_reinterpret_n_lay szU n x) as (El & Eb & Eo & Ee).
    rewrite (p_addr_ptr (p_reinterpret_n szU n x)). unfold p_ptr at 1. rewrite El, Eb, Eo, Ee.
    rewrite l_addr_app.
    2:{ unfold l_scale_b. rewrite map_length, (lay_ok_length _ _ Hok). symmetry; assumption. }
    cbn [l_addr d_stride d_offset].
    pose proof (l_addr_scale (p_esz x) szU (lay (p_view x)) sz idx ltac:(lia) Hdom Hok). rewrite p_addr_ptr. lia.
  Qed.
End Casts.

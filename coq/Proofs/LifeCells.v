(* Element-level steps of the lifecycle machine: explicit results of the cell primitives and triples for the
   construction / assignment / destruction loops (adl.hpp:199-465) against the frame relation st_le. *)
From BM Require Import Base.Tactics Model.Life Proofs.LifeBase Proofs.LifeMonad Proofs.LifeInv.
Local Open Scope Z_scope.

Section Cells.
Variable cfg : config.

Notation cinit := (cinit cfg).
Notation cells_ok := (cells_ok cfg).
Notation st_le := (st_le cfg).
Notation cell_le := (cell_le cfg).

Definition with_cells (blk : block) (cs : list cell) : block := mkblock (b_owner blk) (b_size blk) cs (b_live blk).
Definition upd_blk (s : state) (b : nat) (blk : block) : state := set_blocks s (upd_nth (s_blocks s) b blk).

Lemma get_blk_upd_same s b blk : (b < length (s_blocks s))%nat -> get_blk (upd_blk s b blk) b = Some blk.
Proof. intros H. unfold get_blk, upd_blk; cbn. apply nth_upd_same; auto. Qed.
Lemma get_blk_upd_other s b b' blk : b <> b' -> get_blk (upd_blk s b blk) b' = get_blk s b'.
Proof. intros H. unfold get_blk, upd_blk; cbn. apply nth_upd_other; auto. Qed.

(* explicit results *)
Lemma get_block_ok s b blk : get_blk s b = Some blk -> b_live blk = true -> get_block b s = Ok blk s.
Proof. unfold get_blk, get_block. intros -> ->. reflexivity. Qed.

Lemma set_cell_ok s b blk i c : get_blk s b = Some blk -> b_live blk = true ->
  set_cell b i c s = Ok tt (upd_blk s b (with_cells blk (upd_nth (b_cells blk) i c))).
Proof. intros Hb Hl. unfold set_cell, bind. rewrite (get_block_ok _ _ _ Hb Hl). reflexivity. Qed.

Lemma get_cell_ok s b blk i c : get_blk s b = Some blk -> b_live blk = true -> nth_error (b_cells blk) i = Some c ->
  get_cell b i s = Ok c s.
Proof. intros Hb Hl Hc. unfold get_cell, bind. rewrite (get_block_ok _ _ _ Hb Hl), Hc. reflexivity. Qed.

(* changing the cells of one live block is an element-level step *)
Lemma st_le_upd_cells B s b blk cs :
  get_blk s b = Some blk -> b_live blk = true -> length cs = length (b_cells blk) ->
  (In b B \/ Forall2 cell_le (b_cells blk) cs) ->
  st_le B s (upd_blk s b (with_cells blk cs)).
Proof.
  intros Hb Hl Hn Hc. assert (Hlt := get_blk_lt _ _ _ Hb).
  repeat split; auto.
  - cbn. apply upd_nth_length.
  - exists []. reflexivity.
  - intros b' blk' Hb'. destruct (Nat.eq_dec b b') as [<-|Hne].
    + rewrite get_blk_upd_same by auto. assert (blk' = blk) by congruence. subst blk'.
      eexists; split; [reflexivity|]. unfold with_cells; cbn. repeat split; auto.
      * intros Hd. congruence.
      * intros Hnin. destruct Hc as [Hin|Hc]; [contradiction|auto].
    + rewrite get_blk_upd_other by auto. exists blk'. split; auto. repeat split; auto.
      intros _. apply Forall2_cell_le_refl.
Qed.

Lemma Forall2_upd_nth {A} (R : A -> A -> Prop) l i x y :
  (forall a, R a a) -> nth_error l i = Some x -> R x y -> Forall2 R l (upd_nth l i y).
Proof.
  intros Hr. revert i; induction l as [|a l IH]; intros [|i] Hn Hxy; cbn in *; try discriminate.
  - inv Hn. constructor; auto. clear - Hr. induction l; constructor; auto.
  - constructor; auto.
Qed.

(* ---- where element values come from ---- *)
Definition src_ok (s0 : state) (B : list nat) (x : src) : Prop :=
  match x with
  | SVal _ => True
  | SCell b i | SMoveCell b i =>
      ~ In b B /\ exists blk c, get_blk s0 b = Some blk /\ b_live blk = true /\ nth_error (b_cells blk) i = Some c /\ cinit c
  end.

Lemma src_cell_later B s0 s b i :
  st_le B s0 s -> ~ In b B ->
  (exists blk c, get_blk s0 b = Some blk /\ b_live blk = true /\ nth_error (b_cells blk) i = Some c /\ cinit c) ->
  exists blk c, get_blk s b = Some blk /\ b_live blk = true /\ nth_error (b_cells blk) i = Some c /\ cinit c.
Proof.
  intros (_ & _ & _ & H) Hn (blk & c & Hb & Hl & Hc & Hi).
  destruct (H b blk Hb) as (blk' & Hb' & O & S & V & N & D & C). specialize (C Hn).
  assert (exists c', nth_error (b_cells blk') i = Some c' /\ cell_le c c') as (c' & Hc' & Hle).
  { clear - C Hc. revert i Hc. induction C; intros [|i] Hc; cbn in *; try discriminate.
    - inv Hc. eauto. - eauto. }
  exists blk', c'. repeat split; auto. congruence.
Qed.

Lemma read1_ok s b i blk c : get_blk s b = Some blk -> b_live blk = true -> nth_error (b_cells blk) i = Some c -> cinit c ->
  exists v, read1 cfg b i s = Ok v s.
Proof.
  intros Hb Hl Hc Hi. unfold read1, bind. rewrite (get_cell_ok _ _ _ _ _ Hb Hl Hc).
  destruct c; eauto. unfold LifeInv.cinit, cell_init in Hi. rewrite Hi. eauto.
Qed.

Lemma read_src_ok B s0 s x : st_le B s0 s -> src_ok s0 B x -> exists v, read_src cfg x s = Ok v s.
Proof.
  intros L H. destruct x as [v|b i|b i]; cbn in *.
  - eexists; reflexivity.
  - destruct H as [Hn H]. destruct (src_cell_later _ _ _ _ _ L Hn H) as (blk & c & Hb & Hl & Hc & Hi). eapply read1_ok; eauto.
  - destruct H as [Hn H]. destruct (src_cell_later _ _ _ _ _ L Hn H) as (blk & c & Hb & Hl & Hc & Hi). eapply read1_ok; eauto.
Qed.

Lemma mark_moved_le B s b i blk c :
  get_blk s b = Some blk -> b_live blk = true -> nth_error (b_cells blk) i = Some c ->
  exists s', mark_moved cfg b i s = Ok tt s' /\ st_le B s s'.
Proof.
  intros Hb Hl Hc. unfold mark_moved. destruct (c_quiet cfg) eqn:Ht.
  - exists s. split; [reflexivity|apply st_le_refl].
  - unfold bind. rewrite (get_cell_ok _ _ _ _ _ Hb Hl Hc).
    destruct c as [|v|v].
    + exists s. split; [reflexivity|apply st_le_refl].
    + rewrite (set_cell_ok _ _ _ _ _ Hb Hl). eexists; split; [reflexivity|].
      apply st_le_upd_cells; auto. * apply upd_nth_length.
      * right. eapply Forall2_upd_nth; eauto. intros a Ha; exact Ha. intros _. unfold LifeInv.cinit; reflexivity.
    + rewrite (set_cell_ok _ _ _ _ _ Hb Hl). eexists; split; [reflexivity|].
      apply st_le_upd_cells; auto. * apply upd_nth_length.
      * right. eapply Forall2_upd_nth; eauto. intros a Ha; exact Ha. intros _. unfold LifeInv.cinit; reflexivity.
Qed.

Lemma after_src_le B s0 s x : st_le B s0 s -> src_ok s0 B x -> exists s', after_src cfg x s = Ok tt s' /\ st_le B s s'.
Proof.
  intros L H. destruct x as [v|b i|b i]; cbn in *.
  - eexists; split; [reflexivity|]. repeat split; auto. exists []; reflexivity.
    intros b blk Hb. exists blk. split; auto. repeat split; auto. intros _; apply Forall2_cell_le_refl.
  - eexists; split; [reflexivity|]. repeat split; auto. exists []; reflexivity.
    intros b' blk Hb. exists blk. split; auto. repeat split; auto. intros _; apply Forall2_cell_le_refl.
  - destruct H as [Hn H]. destruct (src_cell_later _ _ _ _ _ L Hn H) as (blk & c & Hb & Hl & Hc & Hi).
    eapply mark_moved_le; eauto.
Qed.

(* ---- the shape of a block under construction: the first k cells constructed, the others raw ---- *)
Definition shape (s : state) (b : nat) (k N : nat) : Prop :=
  exists blk, get_blk s b = Some blk /\ b_live blk = true /\ length (b_cells blk) = N /\ (k <= N)%nat
              /\ (forall j c, (j < k)%nat -> nth_error (b_cells blk) j = Some c -> c <> Raw)
              /\ (forall j c, (k <= j)%nat -> nth_error (b_cells blk) j = Some c -> c = Raw).

Lemma nth_upd_nth {A} (l : list A) i j x :
  nth_error (upd_nth l i x) j = if (i =? j)%nat then (if (j <? length l)%nat then Some x else None) else nth_error l j.
Proof.
  revert i j; induction l as [|a l IH]; intros [|i] [|j]; cbn; auto.
  - destruct (i =? j)%nat; reflexivity.
  - rewrite IH. destruct (i =? j)%nat eqn:E; auto.
Qed.

Lemma tick_spec w (P : state -> Prop) :
  (forall s f, P s -> P (set_fault f s)) ->
  (forall s e, P s -> P (emit e s)) ->
  triple P (tick w) (fun _ s' => P s') (fun s' => P s' /\ In (EvThrow w) (s_ledger s')).
Proof.
  intros Hf He s HP. unfold tick. destruct (s_fault s) as [[|[|k]]|]; auto.
  split; [apply He, Hf; auto|]. cbn. auto.
Qed.

Lemma tick_elem_spec w (P : state -> Prop) :
  (forall s f, P s -> P (set_fault f s)) ->
  (forall s e, P s -> P (emit e s)) ->
  triple P (tick_elem cfg w) (fun _ s' => P s') (fun s' => c_quiet cfg = false /\ P s' /\ In (EvThrow w) (s_ledger s')).
Proof.
  intros Hf He. unfold tick_elem. destruct (c_quiet cfg) eqn:Ht.
  - intros s HP. exact HP.
  - eapply triple_conseq; [apply (tick_spec w P Hf He)| | |]; auto.

Qed.

(* predicates that do not look at the fault counter, the counters or the ledger prefix *)
Lemma st_le_set_fault B s0 s f : st_le B s0 s -> st_le B s0 (set_fault f s).
Proof. intros (A & L & G & H). repeat split; auto. Qed.
Lemma st_le_emit B s0 s e : st_le B s0 s -> st_le B s0 (emit e s).
Proof.
  intros (A & L & [l G] & H). repeat split; auto. exists (e :: l). cbn. rewrite G. reflexivity.
Qed.

(* one cell of the block under construction changes *)
Lemma shape_construct s b k N blk v :
  get_blk s b = Some blk -> shape s b k N -> (k < N)%nat ->
  shape (upd_blk s b (with_cells blk (upd_nth (b_cells blk) k (Alive v)))) b (S k) N.
Proof.
  intros Hb (blk' & Hb' & Hl & HN & Hk & Hc & Hr) HkN. assert (blk' = blk) by congruence. subst blk'.
  exists (with_cells blk (upd_nth (b_cells blk) k (Alive v))).
  rewrite get_blk_upd_same by (eapply get_blk_lt; eauto). unfold with_cells; cbn.
  repeat split; auto.
  - rewrite upd_nth_length; auto.
  - intros j c Hj Hn. rewrite nth_upd_nth in Hn. destruct (k =? j)%nat eqn:E.
    + destruct (j <? length (b_cells blk))%nat; inv Hn. discriminate.
    + apply Nat.eqb_neq in E. apply (Hc j c); [lia|exact Hn].
  - intros j c Hj Hn. rewrite nth_upd_nth in Hn. destruct (k =? j)%nat eqn:E.
    + apply Nat.eqb_eq in E. lia.
    + apply (Hr j c); [lia|exact Hn].
Qed.

Lemma shape_destroy s b k N blk :
  get_blk s b = Some blk -> shape s b (S k) N ->
  shape (upd_blk s b (with_cells blk (upd_nth (b_cells blk) k Raw))) b k N.
Proof.
  intros Hb (blk' & Hb' & Hl & HN & Hk & Hc & Hr). assert (blk' = blk) by congruence. subst blk'.
  exists (with_cells blk (upd_nth (b_cells blk) k Raw)).
  rewrite get_blk_upd_same by (eapply get_blk_lt; eauto). unfold with_cells; cbn.
  repeat split; auto.
  - rewrite upd_nth_length; auto.
  - lia.
  - intros j c Hj Hn. rewrite nth_upd_nth in Hn. destruct (k =? j)%nat eqn:E.
    + apply Nat.eqb_eq in E. lia.
    + apply (Hc j c); [lia|exact Hn].
  - intros j c Hj Hn. rewrite nth_upd_nth in Hn. destruct (k =? j)%nat eqn:E.
    + destruct (j <? length (b_cells blk))%nat; inv Hn. reflexivity.
    + apply Nat.eqb_neq in E. apply (Hr j c); [lia|exact Hn].
Qed.

(* a step on other blocks (st_le with b's cells untouched) keeps the shape of b *)
Lemma shape_frame s s' b k N : get_blk s' b = get_blk s b -> shape s b k N -> shape s' b k N.
Proof. intros E (blk & Hb & H). exists blk. rewrite E. auto. Qed.

Lemma nth_error_lt_some {A} (l : list A) j : (j < length l)%nat -> exists c, nth_error l j = Some c.
Proof. intros H. destruct (nth_error l j) eqn:E; eauto. apply nth_error_None in E. lia. Qed.

(* destroy_range b start n: destroys cells start .. start+n-1, last first (alloc_destroy_n) *)
Lemma destroy_range_spec B s0 b start N : In b B -> forall n,
  triple (fun s => st_le B s0 s /\ shape s b (start + n) N)
         (destroy_range b start n)
         (fun _ s' => st_le B s0 s' /\ shape s' b start N)
         (fun _ => False).
Proof.
  intros HB. induction n as [|n IH].
  - intros s [L Sh]. cbn. rewrite Nat.add_0_r in Sh. auto.
  - cbn [destroy_range].
    eapply triple_bind with (Q := fun _ s => st_le B s0 s /\ shape s b (start + n) N); [|intros x; apply IH].
    intros s [L Sh]. pose proof Sh as (blk & Hb & Hl & HN & Hk & Hc & Hr).
    unfold destroy1, bind.
    destruct (nth_error_lt_some (b_cells blk) (start + n)) as [c Hcn]; [lia|].
    rewrite (get_cell_ok _ _ _ _ _ Hb Hl Hcn).
    assert (c <> Raw) by (apply (Hc (start + n)%nat c); [lia|exact Hcn]).
    destruct c as [|v|v]; try congruence.
    + rewrite (set_cell_ok _ _ _ _ _ Hb Hl). split.
      * eapply st_le_trans; [exact L|]. apply st_le_upd_cells; auto. apply upd_nth_length.
      * apply shape_destroy; auto. replace (S (start + n)) with (start + S n)%nat by lia. auto.
    + rewrite (set_cell_ok _ _ _ _ _ Hb Hl). split.
      * eapply st_le_trans; [exact L|]. apply st_le_upd_cells; auto. apply upd_nth_length.
      * apply shape_destroy; auto. replace (S (start + n)) with (start + S n)%nat by lia. auto.
Qed.

(* construct1 on the block under construction *)
Lemma construct1_spec B s0 s b k N v :
  In b B -> st_le B s0 s -> shape s b k N -> (k < N)%nat ->
  exists s', construct1 b k v s = Ok tt s' /\ st_le B s0 s' /\ shape s' b (S k) N.
Proof.
  intros HB L Sh HkN. pose proof Sh as (blk & Hb & Hl & HN & Hk & Hc & Hr).
  destruct (nth_error_lt_some (b_cells blk) k) as [c Hck]; [lia|].
  assert (c = Raw) by (apply (Hr k c); [lia|exact Hck]). subst c.
  unfold construct1, bind. rewrite (get_cell_ok _ _ _ _ _ Hb Hl Hck), (set_cell_ok _ _ _ _ _ Hb Hl).
  eexists; split; [reflexivity|]. split.
  - eapply st_le_trans; [exact L|]. apply st_le_upd_cells; auto. apply upd_nth_length.
  - apply shape_construct; auto.
Qed.

(* construct_loop: alloc_uninitialized_copy_n / _move_n / _fill_n with their rollback *)
Lemma construct_loop_spec w B s0 b start N : In b B -> forall srcs i,
  (start <= i)%nat -> (i + length srcs <= N)%nat ->
  triple (fun s => st_le B s0 s /\ shape s b i N /\ Forall (src_ok s0 B) srcs)
         (construct_loop cfg w b start i srcs)
         (fun _ s' => st_le B s0 s' /\ shape s' b (i + length srcs) N)
         (fun s' => st_le B s0 s' /\ shape s' b start N /\ In (EvThrow w) (s_ledger s')).
Proof.
  intros HB. induction srcs as [|x srcs IH]; intros i Hsi HiN.
  - intros s (L & Sh & _). cbn. rewrite Nat.add_0_r. auto.
  - cbn [construct_loop length] in *.
    eapply triple_bind with (Q := fun _ s => st_le B s0 s /\ shape s b i N /\ Forall (src_ok s0 B) (x :: srcs)).
    { eapply triple_on_throw with (QT' := fun s => c_quiet cfg = false /\ (st_le B s0 s /\ shape s b i N /\ Forall (src_ok s0 B) (x :: srcs))
                                                 /\ In (EvThrow w) (s_ledger s)).
      - apply tick_elem_spec.
        + intros s f (L & Sh & F). split; [apply st_le_set_fault; auto|split; auto].
        + intros s e (L & Sh & F). split; [apply st_le_emit; auto|split; auto].
      - intros s (Ht & (L & Sh & F) & Hin).
        assert (T := destroy_range_spec B s b start N HB (i - start) s).
        replace (start + (i - start))%nat with i in T by lia. specialize (T (conj (st_le_refl cfg B s) Sh)).
        destruct (destroy_range b start (i - start) s) as [[] s'|s'|e]; try contradiction.
        destruct T as [L' S']. split; [eapply st_le_trans; eauto|]. split; auto.
        eapply st_le_ledger; eauto. }
    intros _ s (L & Sh & F). inv F.
    destruct (read_src_ok _ _ _ _ L H1) as [v Hv]. unfold bind at 1. rewrite Hv.
    destruct (construct1_spec B s0 s b i N v HB L Sh) as (s1 & E1 & L1 & S1); [lia|].
    unfold bind at 1. rewrite E1.
    destruct (after_src_le _ _ _ _ L1 H1) as (s2 & E2 & L2).
    unfold bind at 1. rewrite E2.
    assert (S2 : shape s2 b (S i) N).
    { destruct x as [v'|b' i'|b' i']; cbn in E2.
      - inv E2. exact S1.
      - inv E2. exact S1.
      - destruct H1 as [Hn _]. eapply shape_frame; [|exact S1].
        (* mark_moved touches block b' <> b only *)
        unfold mark_moved in E2. destruct (c_quiet cfg); [inv E2; reflexivity|].
        unfold bind in E2. destruct (get_cell b' i' s1) as [c sx|sx|e] eqn:G; try discriminate.
        assert (sx = s1).
        { unfold get_cell, bind, get_block in G. destruct (nth_error (s_blocks s1) b') as [bk|]; try discriminate.
          destruct (b_live bk); try discriminate. destruct (nth_error (b_cells bk) i'); inv G; reflexivity. }
        subst sx.
        assert (b' <> b) by (intro; subst; contradiction).
        destruct c; [inv E2; reflexivity| |];
          unfold set_cell, bind, get_block in E2;
          (destruct (nth_error (s_blocks s1) b') as [bk|] eqn:Eb; try discriminate);
          (destruct (b_live bk); try discriminate); inv E2;
          unfold put_block; apply (get_blk_upd_other s1 b' b); auto. }
    specialize (IH (S i) ltac:(lia) ltac:(lia) s2 (conj (st_le_trans _ _ _ _ _ L1 L2) (conj S2 H2))).
    replace (i + S (length srcs))%nat with (S i + length srcs)%nat by lia. exact IH.
Qed.

End Cells.

(* Values: what the element-level steps of the lifecycle machine do to the VALUES held by the blocks.
   Inversion style: from `m s = Ok x s'` we read off the value lists of the blocks of s'. *)
From BM Require Import Base.Tactics Model.Life Proofs.LifeBase.
Local Open Scope Z_scope.

(* the values a block holds (a raw cell reads as the storage pattern, a moved-from cell keeps its value) and its liveness *)
Definition bvals (s : state) (b : nat) : list Z :=
  match nth_error (s_blocks s) b with Some blk => map cell_val (b_cells blk) | None => [] end.
Definition blive (s : state) (b : nat) : bool :=
  match nth_error (s_blocks s) b with Some blk => b_live blk | None => false end.

(* frame: the blocks that existed in s and are not listed in B hold the same values and are as live in s' *)
Definition bsame (B : list nat) (s s' : state) : Prop :=
  (length (s_blocks s) <= length (s_blocks s'))%nat /\
  forall b, (b < length (s_blocks s))%nat -> ~ In b B -> bvals s' b = bvals s b /\ blive s' b = blive s b.

Lemma bsame_refl B s : bsame B s s.
Proof. split; auto. Qed.

Lemma bsame_trans B1 B2 s1 s2 s3 : bsame B1 s1 s2 -> bsame B2 s2 s3 -> bsame (B1 ++ B2) s1 s3.
Proof.
  intros [L1 H1] [L2 H2]. split; [lia|]. intros b Hb Hn.
  destruct (H1 b Hb) as [V1 A1]; [intro; apply Hn; apply in_or_app; auto|].
  destruct (H2 b ltac:(lia)) as [V2 A2]; [intro; apply Hn; apply in_or_app; auto|].
  split; congruence.
Qed.

Lemma bsame_weaken B B' s s' :
  bsame B s s' -> (forall b, In b B -> (b < length (s_blocks s))%nat -> In b B') -> bsame B' s s'.
Proof. intros [L H] Hi. split; [exact L|]. intros b Hb Hn. apply H; [exact Hb|]. intro Hin. apply Hn. apply Hi; auto. Qed.

Lemma bsame_of_eq B s s' : s_blocks s' = s_blocks s -> bsame B s s'.
Proof. intros E. split; [rewrite E; auto|]. intros b _ _. unfold bvals, blive. rewrite E. auto. Qed.

(* ---- put a list of values at consecutive positions / at given positions ---- *)
Fixpoint put_at (l : list Z) (i : nat) (vs : list Z) : list Z :=
  match vs with [] => l | v :: vs' => put_at (upd_nth l i v) (S i) vs' end.

Lemma put_at_length l : forall vs i, length (put_at l i vs) = length l.
Proof. intros vs; revert l; induction vs; intros l i; cbn; auto. rewrite IHvs, upd_nth_length. auto. Qed.

Lemma upd_nth_firstn_skipn {A} (l : list A) i x : (i < length l)%nat -> upd_nth l i x = firstn i l ++ x :: skipn (S i) l.
Proof. revert i; induction l; intros [|i] H; cbn in *; try lia; auto. f_equal. apply IHl. lia. Qed.

Lemma put_at_all : forall vs l, length vs = length l -> put_at l 0 vs = vs.
Proof.
  assert (G : forall vs pre l, length vs = length l -> put_at (pre ++ l) (length pre) vs = pre ++ vs).
  { induction vs as [|v vs IH]; intros pre l H; destruct l; cbn in *; try discriminate; [rewrite app_nil_r; auto|].
    assert (E : upd_nth (pre ++ z :: l) (length pre) v = (pre ++ [v]) ++ l).
    { clear. induction pre; cbn; auto. f_equal; auto. }
    rewrite E. replace (S (length pre)) with (length (pre ++ [v])) by (rewrite app_length; cbn; lia).
    rewrite IH by lia. rewrite <- app_assoc. reflexivity. }
  intros vs l H. apply (G vs [] l H).
Qed.

Lemma put_list_seq : forall vs l i, put_list l (seq i (length vs)) vs = put_at l i vs.
Proof. induction vs; intros l i; cbn; auto. Qed.

Lemma put_list_length : forall offs l vs, length (put_list l offs vs) = length l.
Proof. induction offs; intros l [|v vs]; cbn; auto. rewrite IHoffs, upd_nth_length. auto. Qed.

(* ---- inversion of the micro-steps ---- *)
Definition same_mem (s s' : state) : Prop := s_blocks s' = s_blocks s /\ s_arrs s' = s_arrs s.

Lemma tick_inv w s s' : tick w s = Ok tt s' -> same_mem s s'.
Proof. unfold tick. destruct (s_fault s) as [[|[|k]]|]; intros H; inv H; split; reflexivity. Qed.
Lemma tick_elem_inv cfg w s s' : tick_elem cfg w s = Ok tt s' -> same_mem s s'.
Proof. unfold tick_elem. destruct (c_quiet cfg); [intros H; inv H; split; auto|apply tick_inv]. Qed.

Lemma map_upd_nth {A B} (f : A -> B) l i x : map f (upd_nth l i x) = upd_nth (map f l) i (f x).
Proof. revert i; induction l; intros [|i]; cbn; auto. f_equal; auto. Qed.

Record cell_step (b i : nat) (v : Z) (s s' : state) : Prop := {
  cs_arrs : s_arrs s' = s_arrs s;
  cs_len : length (s_blocks s') = length (s_blocks s);
  cs_live : forall b', blive s' b' = blive s b';
  cs_other : forall b', b' <> b -> bvals s' b' = bvals s b';
  cs_here : bvals s' b = upd_nth (bvals s b) i v;
  cs_in : (i < length (bvals s b))%nat }.

Lemma set_cell_inv b i c s s' c0 :
  set_cell b i c s = Ok tt s' -> (exists blk, nth_error (s_blocks s) b = Some blk /\ nth_error (b_cells blk) i = Some c0) ->
  cell_step b i (cell_val c) s s'.
Proof.
  intros H (blk & Hb & Hc). unfold set_cell, bind, get_block in H. rewrite Hb in H.
  destruct (b_live blk) eqn:El; [|discriminate]. cbn in H. inv H.
  assert (Hlt : (b < length (s_blocks s))%nat) by (apply nth_error_Some; congruence).
  constructor; cbn.
  - reflexivity.
  - apply upd_nth_length.
  - intros b'. unfold blive; cbn. destruct (Nat.eq_dec b b') as [<-|Hne].
    + rewrite nth_upd_same by auto. rewrite Hb. cbn. auto.
    + rewrite nth_upd_other by auto. reflexivity.
  - intros b' Hne. unfold bvals; cbn. rewrite nth_upd_other by auto. reflexivity.
  - unfold bvals; cbn. rewrite nth_upd_same by auto. rewrite Hb. cbn. apply map_upd_nth.
  - unfold bvals. rewrite Hb, map_length. apply nth_error_Some. congruence.
Qed.

Lemma get_cell_inv b i s c s' : get_cell b i s = Ok c s' ->
  s' = s /\ exists blk, nth_error (s_blocks s) b = Some blk /\ b_live blk = true /\ nth_error (b_cells blk) i = Some c.
Proof.
  unfold get_cell, bind, get_block. destruct (nth_error (s_blocks s) b) as [blk|] eqn:Eb; [|discriminate].
  destruct (b_live blk) eqn:El; [|discriminate]. destruct (nth_error (b_cells blk) i) as [c'|] eqn:Ec; [|discriminate].
  intros H. inv H. split; auto. exists blk. auto.
Qed.

Lemma construct1_inv b i v s s' : construct1 b i v s = Ok tt s' -> cell_step b i v s s'.
Proof.
  unfold construct1. unfold bind at 1. destruct (get_cell b i s) as [c s1|s1|e] eqn:E; try discriminate.
  apply get_cell_inv in E. destruct E as [-> (blk & Hb & Hl & Hc)].
  destruct c; try discriminate. intros H. apply (set_cell_inv b i (Alive v) s s' Raw H). eauto.
Qed.

Lemma assign1_inv cfg b i v s s' : assign1 cfg b i v s = Ok tt s' -> cell_step b i v s s'.
Proof.
  unfold assign1. unfold bind at 1. destruct (get_cell b i s) as [c s1|s1|e] eqn:E; try discriminate.
  apply get_cell_inv in E. destruct E as [-> (blk & Hb & Hl & Hc)].
  destruct c; [destruct (c_tdc cfg); [|discriminate]| |]; intros H;
    eapply (set_cell_inv b i (Alive v) s s' _ H); eauto.
Qed.

Lemma upd_nth_same_val {A} (l : list A) i x : nth_error l i = Some x -> upd_nth l i x = l.
Proof. revert i; induction l; intros [|i] H; cbn in *; try discriminate; [inv H; auto|]. f_equal; auto. Qed.

(* marking a cell moved-from keeps every value *)
Lemma mark_moved_inv cfg b i s s' : mark_moved cfg b i s = Ok tt s' ->
  s_arrs s' = s_arrs s /\ length (s_blocks s') = length (s_blocks s) /\ (forall b', blive s' b' = blive s b') /\ forall b', bvals s' b' = bvals s b'.
Proof.
  unfold mark_moved. destruct (c_quiet cfg); [intros H; inv H; auto|].
  unfold bind at 1. destruct (get_cell b i s) as [c s1|s1|e] eqn:E; try discriminate.
  apply get_cell_inv in E. destruct E as [-> (blk & Hb & Hl & Hc)].
  assert (G : forall v, (c = Alive v \/ c = Moved v) -> set_cell b i (Moved v) s = Ok tt s' ->
              s_arrs s' = s_arrs s /\ length (s_blocks s') = length (s_blocks s) /\ (forall b', blive s' b' = blive s b') /\ forall b', bvals s' b' = bvals s b').
  { intros v Hv H. pose proof (set_cell_inv b i (Moved v) s s' c H ltac:(eauto)) as [A L Lv O Hh _].
    split; auto. split; auto. split; auto. intros b'. destruct (Nat.eq_dec b' b) as [->|Hne]; [|auto].
    rewrite Hh. apply upd_nth_same_val. unfold bvals. rewrite Hb. rewrite nth_error_map, Hc. destruct Hv as [-> | ->]; reflexivity. }
  destruct c; [intros H; inv H; auto| |]; intros H; eapply G; eauto.
Qed.

Lemma destroy1_inv b i s s' : destroy1 b i s = Ok tt s' -> cell_step b i pat s s'.
Proof.
  unfold destroy1. unfold bind at 1. destruct (get_cell b i s) as [c s1|s1|e] eqn:E; try discriminate.
  apply get_cell_inv in E. destruct E as [-> (blk & Hb & Hl & Hc)].
  destruct c; try discriminate; intros H; eapply (set_cell_inv b i Raw s s' _ H); eauto.
Qed.

(* the value an element source yields, read in state s *)
Definition src_val (s : state) (x : src) : Z :=
  match x with SVal v => v | SCell b i | SMoveCell b i => nth i (bvals s b) pat end.
Definition src_blk (x : src) : option nat := match x with SVal _ => None | SCell b _ | SMoveCell b _ => Some b end.

Lemma read1_inv cfg b i s v s' : read1 cfg b i s = Ok v s' -> s' = s /\ v = nth i (bvals s b) pat.
Proof.
  unfold read1. unfold bind at 1. destruct (get_cell b i s) as [c s1|s1|e] eqn:E; try discriminate.
  apply get_cell_inv in E. destruct E as [-> (blk & Hb & Hl & Hc)].
  assert (Hn : nth i (bvals s b) pat = cell_val c).
  { unfold bvals. rewrite Hb. apply nth_error_nth. rewrite nth_error_map, Hc. reflexivity. }
  destruct c; [destruct (c_tdc cfg); [|discriminate]| |]; intros H; inv H; auto.
Qed.

Lemma read_src_inv cfg x s v s' : read_src cfg x s = Ok v s' -> s' = s /\ v = src_val s x.
Proof. destruct x; cbn; [intros H; inv H; auto|apply read1_inv|apply read1_inv]. Qed.

Lemma after_src_inv cfg x s s' : after_src cfg x s = Ok tt s' ->
  s_arrs s' = s_arrs s /\ length (s_blocks s') = length (s_blocks s) /\ (forall b', blive s' b' = blive s b') /\ forall b', bvals s' b' = bvals s b'.
Proof. destruct x; cbn; [intros H; inv H; auto|intros H; inv H; auto|apply mark_moved_inv]. Qed.

(* ---- the loops ---- *)
(* summary of a loop working on block b *)
Record blk_step (b : nat) (s s' : state) (newvals : list Z) : Prop := {
  bs_arrs : s_arrs s' = s_arrs s;
  bs_len : length (s_blocks s') = length (s_blocks s);
  bs_live : forall b', blive s' b' = blive s b';
  bs_other : forall b', b' <> b -> bvals s' b' = bvals s b';
  bs_here : bvals s' b = newvals }.

Lemma blk_step_refl b s : blk_step b s s (bvals s b).
Proof. constructor; auto. Qed.

Lemma src_val_other b s s' x : src_blk x <> Some b -> (forall b', b' <> b -> bvals s' b' = bvals s b') -> src_val s' x = src_val s x.
Proof. intros Hn H. destruct x; cbn in *; auto; rewrite H; auto; congruence. Qed.

Lemma on_throw_ok {A} (m : M A) c s x s' : on_throw m c s = Ok x s' -> m s = Ok x s'.
Proof. unfold on_throw. destruct (m s) as [y s1|s1|e]; auto.
  destruct (c s1) as [[] ?|?|?]; discriminate.
Qed.

Lemma construct_loop_vals cfg w b start : forall srcs i s s',
  Forall (fun x => src_blk x <> Some b) srcs ->
  construct_loop cfg w b start i srcs s = Ok tt s' ->
  blk_step b s s' (put_at (bvals s b) i (map (src_val s) srcs)).
Proof.
  induction srcs as [|x srcs IH]; intros i s s' F H.
  - cbn in H. inv H. apply blk_step_refl.
  - cbn [construct_loop] in H. apply Forall_cons_iff in F. destruct F as [Fx Fs].
    unfold bind at 1 in H. destruct (on_throw (tick_elem cfg w) (destroy_range b start (i - start)) s) as [[] s1|s1|e] eqn:E1; try discriminate.
    apply on_throw_ok in E1. apply tick_elem_inv in E1. destruct E1 as [B1 A1].
    unfold bind at 1 in H. destruct (read_src cfg x s1) as [v s1'|?|?] eqn:E2; try discriminate.
    apply read_src_inv in E2. destruct E2 as [-> Hv].
    unfold bind at 1 in H. destruct (construct1 b i v s1) as [[] s2|?|?] eqn:E3; try discriminate.
    apply construct1_inv in E3. destruct E3 as [A3 L3 Lv3 O3 Hh3 I3].
    unfold bind at 1 in H. destruct (after_src cfg x s2) as [[] s3|?|?] eqn:E4; try discriminate.
    apply after_src_inv in E4. destruct E4 as (A4 & L4 & Lv4 & V4).
    destruct (IH (S i) s3 s' Fs H) as [A5 L5 Lv5 O5 H5].
    assert (Vs1 : forall b', bvals s1 b' = bvals s b') by (intros; unfold bvals; rewrite B1; auto).
    assert (Ls1 : forall b', blive s1 b' = blive s b') by (intros; unfold blive; rewrite B1; auto).
    assert (Hv' : v = src_val s x) by (rewrite Hv; destruct x; cbn; rewrite ?Vs1; auto).
    assert (Hsrc : map (src_val s3) srcs = map (src_val s) srcs).
    { apply map_ext_in. intros y Hy. eapply Forall_forall in Fs; eauto. apply (src_val_other b); auto.
      intros b' Hb'. rewrite V4, O3, Vs1; auto. }
    rewrite V4, Hh3, Vs1, Hsrc in H5.
    constructor.
    + congruence.
    + rewrite L5, L4, L3, B1. auto.
    + intros b'. rewrite Lv5, Lv4, Lv3, Ls1. auto.
    + intros b' Hb'. rewrite O5, V4, O3, Vs1; auto.
    + cbn [map put_at]. rewrite <- Hv'. exact H5.
Qed.

Lemma put_at_app l : forall vs1 vs2 i, put_at l i (vs1 ++ vs2) = put_at (put_at l i vs1) (i + length vs1) vs2.
Proof.
  intros vs1; revert l; induction vs1 as [|v vs1 IH]; intros l vs2 i; cbn.
  - rewrite Nat.add_0_r. auto.
  - rewrite IH. f_equal. lia.
Qed.

Lemma construct_rows_vals cfg w b rowlen : forall fuel srcs i s s',
  (length srcs < fuel)%nat -> Forall (fun x => src_blk x <> Some b) srcs ->
  construct_rows cfg w b i rowlen fuel srcs s = Ok tt s' ->
  blk_step b s s' (put_at (bvals s b) i (map (src_val s) srcs)).
Proof.
  induction fuel as [|fuel IH]; intros srcs i s s' Hf F H; [lia|].
  cbn [construct_rows] in H. destruct srcs as [|x srcs].
  - inv H. cbn. apply blk_step_refl.
  - set (l := x :: srcs) in *.
    set (row := if (rowlen =? 0)%nat then l else firstn rowlen l) in *.
    set (rest := if (rowlen =? 0)%nat then [] else skipn rowlen l) in *.
    assert (Hsplit : l = row ++ rest).
    { unfold row, rest. destruct (rowlen =? 0)%nat; [rewrite app_nil_r; auto|symmetry; apply firstn_skipn]. }
    assert (Hrow : (1 <= length row)%nat).
    { unfold row. destruct (rowlen =? 0)%nat eqn:E; [cbn; lia|]. apply Nat.eqb_neq in E.
      rewrite firstn_length. unfold l; cbn [length]. lia. }
    assert (Hlen : length l = (length row + length rest)%nat) by (rewrite Hsplit at 1; apply app_length).
    rewrite Hsplit in F. apply Forall_app in F. destruct F as [Frow Frest].
    unfold bind at 1 in H. destruct (construct_loop cfg w b i i row s) as [[] s1|?|?] eqn:E1; try discriminate.
    destruct (construct_loop_vals cfg w b i row i s s1 Frow E1) as [A1 L1 Lv1 O1 H1].
    destruct (IH rest (i + length row)%nat s1 s' ltac:(lia) Frest H) as [A2 L2 Lv2 O2 H2].
    assert (Hsrc : map (src_val s1) rest = map (src_val s) rest).
    { apply map_ext_in. intros y Hy. eapply Forall_forall in Frest; eauto. apply (src_val_other b); auto. }
    rewrite H1, Hsrc in H2.
    constructor.
    + congruence.
    + congruence.
    + intros b'. rewrite Lv2, Lv1. auto.
    + intros b' Hb'. rewrite O2, O1; auto.
    + rewrite Hsplit, map_app, put_at_app, map_length. exact H2.
Qed.

Lemma default_construct_vals b : forall n i s s',
  default_construct_n b i n s = Ok tt s' ->
  blk_step b s s' (put_at (bvals s b) i (repeat 0 n)).
Proof.
  induction n as [|n IH]; intros i s s' H.
  - inv H. cbn. apply blk_step_refl.
  - cbn [default_construct_n] in H. unfold bind at 1 in H.
    destruct (construct1 b i 0 s) as [[] s1|?|?] eqn:E1; try discriminate.
    apply construct1_inv in E1. destruct E1 as [A1 L1 Lv1 O1 H1 I1].
    destruct (IH (S i) s1 s' H) as [A2 L2 Lv2 O2 H2]. rewrite H1 in H2.
    constructor.
    + congruence.
    + congruence.
    + intros b'. rewrite Lv2, Lv1; auto.
    + intros b' Hb'. rewrite O2, O1; auto.
    + exact H2.
Qed.

Lemma assign_loop_vals cfg w b : forall offs srcs s s',
  Forall (fun x => src_blk x <> Some b) srcs ->
  assign_loop cfg w b offs srcs s = Ok tt s' ->
  blk_step b s s' (put_list (bvals s b) offs (map (src_val s) srcs)).
Proof.
  induction offs as [|o offs IH]; intros srcs s s' F H.
  - cbn in H. inv H. cbn. apply blk_step_refl.
  - destruct srcs as [|x srcs]; [cbn in H; inv H; cbn; apply blk_step_refl|]. apply Forall_cons_iff in F. destruct F as [Fx Fs].
    cbn [assign_loop] in H.
    unfold bind at 1 in H. destruct (tick_elem cfg w s) as [[] s1|s1|e] eqn:E1; try discriminate.
    apply tick_elem_inv in E1. destruct E1 as [B1 A1].
    unfold bind at 1 in H. destruct (read_src cfg x s1) as [v s1'|?|?] eqn:E2; try discriminate.
    apply read_src_inv in E2. destruct E2 as [-> Hv].
    unfold bind at 1 in H. destruct (assign1 cfg b o v s1) as [[] s2|?|?] eqn:E3; try discriminate.
    apply assign1_inv in E3. destruct E3 as [A3 L3 Lv3 O3 Hh3 I3].
    unfold bind at 1 in H. destruct (after_src cfg x s2) as [[] s3|?|?] eqn:E4; try discriminate.
    apply after_src_inv in E4. destruct E4 as (A4 & L4 & Lv4 & V4).
    destruct (IH srcs s3 s' Fs H) as [A5 L5 Lv5 O5 H5].
    assert (Vs1 : forall b', bvals s1 b' = bvals s b') by (intros; unfold bvals; rewrite B1; auto).
    assert (Ls1 : forall b', blive s1 b' = blive s b') by (intros; unfold blive; rewrite B1; auto).
    assert (Hv' : v = src_val s x) by (rewrite Hv; destruct x; cbn; rewrite ?Vs1; auto).
    assert (Hsrc : map (src_val s3) srcs = map (src_val s) srcs).
    { apply map_ext_in. intros y Hy. eapply Forall_forall in Fs; eauto. apply (src_val_other b); auto.
      intros b' Hb'. rewrite V4, O3, Vs1; auto. }
    rewrite V4, Hh3, Vs1, Hsrc in H5.
    constructor.
    + congruence.
    + rewrite L5, L4, L3, B1. auto.
    + intros b'. rewrite Lv5, Lv4, Lv3, Ls1. auto.
    + intros b' Hb'. rewrite O5, V4, O3, Vs1; auto.
    + cbn [map put_list]. rewrite <- Hv'. exact H5.
Qed.

Lemma destroy_range_vals b start : forall n s s',
  destroy_range b start n s = Ok tt s' ->
  s_arrs s' = s_arrs s /\ length (s_blocks s') = length (s_blocks s) /\ (forall b', blive s' b' = blive s b') /\
  (forall b', b' <> b -> bvals s' b' = bvals s b').
Proof.
  induction n as [|n IH]; intros s s' H.
  - inv H. auto.
  - cbn [destroy_range] in H. unfold bind at 1 in H.
    destruct (destroy1 b (start + n) s) as [[] s1|?|?] eqn:E1; try discriminate.
    apply destroy1_inv in E1. destruct E1 as [A1 L1 Lv1 O1 H1 I1].
    destruct (IH s1 s' H) as (A2 & L2 & Lv2 & O2).
    split; [congruence|]. split; [congruence|]. split.
    + intros b'. rewrite Lv2, Lv1; auto.
    + intros b' Hb'. rewrite O2, O1; auto.
Qed.

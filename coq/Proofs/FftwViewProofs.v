(* C15: the views the property quantifies over ("layouts obtainable by rotations, transpositions and
   sub-blocks" of zero-based arrays) satisfy the structural hypotheses of the C15 theorems:
   they are zero-based and keep the rank of the root. *)
From BM Require Import Base.Tactics Model.Layout Model.View Model.FftwPlan Proofs.LayoutProofs.
Local Open Scope Z_scope.

Definition c15_op (o : op) : Prop :=
  match o with
  | OSliced _ _ | OStrided _ | ORotated | OUnrotated | OTransposed | OReversed => True
  | _ => False
  end.

Lemma Forall_l_unrotate {P : dim -> Prop} l : Forall P l -> Forall P (l_unrotate l).
Proof.
  induction l as [|a r IH]; cbn; intros H; [constructor|]. inv H.
  specialize (IH H3). destruct (l_unrotate r) as [|b r']; [repeat constructor; auto|].
  inv IH. repeat constructor; auto.
Qed.

Lemma length_l_unrotate l : length (l_unrotate l) = length l.
Proof.
  induction l as [|a r IH]; cbn; [reflexivity|].
  destruct (l_unrotate r) as [|b r']; cbn in *; lia.
Qed.

Lemma exec_c15_op_zero_based o v :
  c15_op o -> zero_based (lay v) -> zero_based (lay (exec_op o v)) /\ length (lay (exec_op o v)) = length (lay v).
Proof.
  unfold zero_based. destruct o; cbn; try contradiction; intros _ H.
  - (* sliced *) unfold v_sliced. destruct (lay v) as [|d [|d1 sub]] eqn:E; cbn; rewrite ?E; auto.
    + inv H. split; [repeat constructor; cbn; auto|reflexivity].
    + inv H. split; [constructor; cbn; auto|reflexivity].
  - (* strided *) unfold v_strided. destruct (lay v) as [|d sub] eqn:E; cbn; rewrite ?E; auto.
    inversion H as [|? ? Hd Hs]; subst. split; [constructor; [cbn; rewrite Hd; lia|assumption]|reflexivity].
  - (* rotated *) unfold l_rotate. destruct (lay v) as [|a r]; cbn; auto. inv H.
    rewrite rot_ins_app. split; [apply Forall_app; split; auto|rewrite app_length; cbn; lia].
  - (* unrotated *) split; [apply Forall_l_unrotate; auto|apply length_l_unrotate].
  - (* transposed *) unfold l_transpose. destruct (lay v) as [|a [|b r]]; cbn; auto.
    inv H. inv H3. split; [repeat constructor; auto|reflexivity].
  - (* reversed *) unfold l_reverse. split; [apply Forall_rev; auto|apply rev_length].
Qed.

Lemma run_c15_ops_zero_based ops : forall v v',
  Forall c15_op ops -> zero_based (lay v) -> run_ops ops v = Some v' ->
  zero_based (lay v') /\ length (lay v') = length (lay v).
Proof.
  induction ops as [|o ops IH]; intros v v' Ho Hz Hr; cbn in Hr.
  - inv Hr. auto.
  - inv Ho. unfold apply_op in Hr. destruct (dom_op o v); [|discriminate].
    destruct (exec_c15_op_zero_based o v H1 Hz) as (Hz1 & Hl1).
    destruct (IH _ _ H2 Hz1 Hr) as (Hz2 & Hl2). split; [exact Hz2|congruence].
Qed.

Lemma root_view_zero_based sz : zero_based (lay (root_view (zb sz))) /\ length (lay (root_view (zb sz))) = length sz.
Proof.
  unfold root_view, zero_based. cbn [lay]. induction sz as [|n r IH]; cbn; [split; [constructor|reflexivity]|].
  destruct IH as (IH1 & IH2). fold (zb r). split; [constructor; [cbn; lia|exact IH1]|cbn; rewrite IH2; reflexivity].
Qed.

(* every view reachable from a zero-based root array by sub-blocks (sliced), strides, rotations,
   transpositions and reversals is zero-based and has the rank of its root *)
Theorem C15_reachable_views_proved :
  forall sz ops v, Forall c15_op ops -> run_ops ops (root_view (zb sz)) = Some v ->
    zero_based (lay v) /\ length (lay v) = length sz.
Proof.
  intros sz ops v Ho Hr. destruct (root_view_zero_based sz) as (Hz & Hl).
  destruct (run_c15_ops_zero_based ops _ _ Ho Hz Hr) as (A & B). split; [exact A|congruence].
Qed.

(* ---------- the lazy range form of adaptors/fft.hpp ---------- *)
Lemma v_from_iterators_id count v : iter_pair_okb count v = true -> v_from_iterators count v = v.
Proof.
  unfold iter_pair_okb, v_from_iterators. destruct v as [l b]. cbn.
  destruct l as [|d sub]; [reflexivity|]. intros H. bprop. destruct d as [st off ne]. cbn in *. subst. reflexivity.
Qed.

(* where the iterator-pair constructor reproduces the operands, the lazy form makes exactly the calls of
   dft(which, in, out, dir) -- to which the C15 theorems apply *)
Theorem C15_lazy_range_proved :
  forall which vin vout s,
    iter_pair_okb (l_size (lay vin)) vin = true -> iter_pair_okb (l_size (lay vin)) vout = true ->
    fe_fft_range which vin vout s = fe_dft which vin vout s.
Proof.
  intros which vin vout s Hi Ho. unfold fe_fft_range.
  rewrite (v_from_iterators_id _ _ Hi), (v_from_iterators_id _ _ Ho). reflexivity.
Qed.

(* row-major arrays of every rank are such operands *)
Lemma d_size_root n N off : 0 < n -> 0 < N -> d_size (mkdim N off (n * N)) = n.
Proof.
  intros Hn HN. unfold d_size. cbn [d_nelems d_stride].
  assert (E : (n * N =? 0) = false) by (apply Z.eqb_neq; nia). rewrite E. apply Z.quot_mul. lia.
Qed.

Lemma root_num_elements_pos sz : Forall (fun n => 0 < n) sz ->
  0 < l_num_elements (mk_layout (zb sz)) /\ l_sizes (mk_layout (zb sz)) = sz.
Proof.
  induction 1 as [|n r Hn Hr IH]; cbn [zb map mk_layout l_num_elements l_sizes]; [split; [lia|reflexivity]|].
  fold (zb r). destruct IH as (IH & IHs). set (N := l_num_elements (mk_layout (zb r))) in *.
  assert (E : (N =? 0) = false) by (apply Z.eqb_neq; lia). rewrite E.
  unfold r_size. cbn [fst snd]. rewrite Z.sub_0_r. rewrite d_size_root by lia.
  fold (l_sizes (mk_layout (zb r))). rewrite IHs. split; [nia|reflexivity].
Qed.

Lemma iter_pair_ok_arrays sz b : Forall (fun n => 0 < n) sz ->
  let v := mkview (mk_layout (zb sz)) b in iter_pair_okb (l_size (mk_layout (zb sz))) v = true.
Proof.
  intros H. cbv zeta. destruct H as [|n r Hn Hr]; [reflexivity|].
  pose proof (root_num_elements_pos r Hr) as (HN & _).
  unfold iter_pair_okb. cbn [zb map mk_layout lay l_size]. fold (zb r).
  set (N := l_num_elements (mk_layout (zb r))) in *.
  assert (E : (N =? 0) = false) by (apply Z.eqb_neq; lia). rewrite E.
  unfold r_size. cbn [fst snd]. rewrite Z.sub_0_r. rewrite d_size_root by lia.
  cbn [d_nelems d_stride d_offset]. apply andb_true_intro. split; apply Z.eqb_eq; lia.
Qed.

(* The full statement: for plain row-major arrays of EVERY rank the lazy form makes the calls of
   dft(which, in, out, dir) (false before fix a7e1e64 from rank 3 on). *)
Theorem C15_lazy_range_arrays_proved :
  forall sz which s bi bo, Forall (fun n => 0 < n) sz ->
    let vin := mkview (mk_layout (zb sz)) bi in
    let vout := mkview (mk_layout (zb sz)) bo in
    fe_fft_range which vin vout s = fe_dft which vin vout s.
Proof.
  intros sz which s bi bo H. cbv zeta. apply C15_lazy_range_proved; cbn [lay]; apply iter_pair_ok_arrays; exact H.
Qed.

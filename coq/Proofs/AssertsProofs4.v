(* C20, follow-up 4: the verdict of an indexing call does not depend on the receiver (class, constness, value category)
   nor on the entry point, as far as the entry point goes through an operator[] at all; the unchecked first levels
   (front, back, iterators) leave the later levels guarded; owning copies (same extensions, other strides) abort at the
   same level; elements_at. *)
From BM Require Import Base.Tactics Model.Layout Model.View Model.Spec Model.Iter Model.Rebase Model.Assign Model.Asserts
  Model.AssertsRecv Proofs.LayoutProofs Proofs.IterProofs Proofs.RebaseProofs Proofs.AssertsProofs Proofs.AssertsProofs2.
Local Open Scope Z_scope.

(* ---------------- every overload evaluates the assertion of Asserts.asrt_index ---------------- *)
Lemma ov_asrt_is_index o i v : ov_asrt o i v = asrt_index i v.
Proof.
  destruct o; unfold ov_asrt, asrt_index_const, asrt_at_aux, asrt_index; destruct (lay v) as [|d [|d1 l]]; reflexivity.
Qed.
Lemma g_index_ov_eq c o i v : g_index_ov c o i v = g_index c i v.
Proof. unfold g_index_ov, g_index. rewrite ov_asrt_is_index. reflexivity. Qed.

Lemma g_levels_eq c idx : forall ovs v, g_levels c ovs v idx = g_brackets c v idx.
Proof.
  induction idx as [|i idx IH]; intros ovs v; [destruct ovs; reflexivity|].
  destruct ovs as [|o ovs]; cbn [g_levels g_brackets]; rewrite g_index_ov_eq; destruct (g_index c i v); auto.
Qed.
Lemma g_brackets_r_eq c idx : forall r v, g_brackets_r c r v idx = g_brackets c v idx.
Proof.
  induction idx as [|i idx IH]; intros r v; [reflexivity|].
  cbn [g_brackets_r g_brackets]. rewrite g_index_ov_eq. destruct (g_index c i v); auto.
Qed.
Lemma abort_level_ov_eq idx : forall ovs v, abort_level_ov ovs v idx = abort_level v idx.
Proof.
  induction idx as [|i idx IH]; intros ovs v; [reflexivity|].
  cbn [abort_level_ov abort_level]. rewrite ov_asrt_is_index, IH. reflexivity.
Qed.

(* THE RECEIVER IS IRRELEVANT.  For every receiver kind r (const_subarray, subarray, move_subarray, array_ref, array,
   static_array; lvalue, const lvalue, rvalue, temporary, unary plus), every entry point whose first level goes through
   operator[] (brackets, call syntax, apply, operator[](tuple)), every configuration, view and index tuple: the guarded access
   is the one of Asserts.g_brackets, and the aborting level the one of Asserts.abort_level.  With C20_index_guard: it aborts
   exactly when an index is outside its extension, at that level, whatever the receiver. *)
Theorem C20_index_receiver_irrelevant_proved :
  forall (c : config) (e : entry) (r : recv) (v : view) (idx : list Z),
    first_checked e = true ->
       g_entry c e r v idx = g_brackets c v idx
    /\ abort_level_entry e v idx = abort_level v idx
    /\ g_brackets_r c r v idx = g_brackets c v idx
    /\ (forall ovs, g_levels c ovs v idx = g_brackets c v idx).
Proof.
  intros c e r v idx He. split; [|split; [|split; [apply g_brackets_r_eq|intros; apply g_levels_eq]]].
  - destruct idx as [|i rest]; [destruct e; try discriminate; reflexivity|].
    destruct e; try discriminate; unfold g_entry; cbn [first_checked]; cbn [g_brackets];
      rewrite g_index_ov_eq; destruct (g_index c i v); try reflexivity; apply g_brackets_r_eq.
  - destruct idx as [|i rest]; destruct e; try discriminate; reflexivity.
Qed.

Corollary C20_index_guard_any_receiver_proved :
  forall (e : entry) (r : recv) (v : view) (idx : list Z),
    first_checked e = true -> lok (lay v) -> pos (lay v) -> length idx = length (lay v) ->
       (in_extl (lay v) idx -> g_entry Debug e r v idx = Done (addr_brackets v idx))
    /\ (~ in_extl (lay v) idx -> g_entry Debug e r v idx = Aborted)
    /\ (forall c, c <> Debug -> g_entry c e r v idx = Done (addr_brackets v idx)).
Proof.
  intros e r v idx He Hl Hp Hlen. destruct (C20_index_guard_proved v idx Hl Hp Hlen) as (H1 & H2 & H3).
  split; [|split]; intros; destruct (C20_index_receiver_irrelevant_proved Debug e r v idx He) as (E & _);
    try (rewrite E; auto).
  destruct (C20_index_receiver_irrelevant_proved c e r v idx He) as (E' & _). rewrite E'. auto.
Qed.

(* ---------------- the unchecked first levels: front(), back(), iterator [] and *, end()[-k] ---------------- *)
(* They evaluate no assertion themselves; the levels after them are guarded as ever; and when the index they stand for
   is inside the leading extension (front / back of a non-empty view, begin()[k] with 0 <= k < size()) the whole access
   is the bracket access with that index. *)
Theorem C20_unchecked_first_level_proved :
  forall (c : config) (e : entry) (r : recv) (v : view) (i : Z) (rest : list Z),
    first_checked e = false -> e <> ECursor ->
       g_entry c e r v (i :: rest) = g_brackets c (v_index i v) rest
    /\ abort_level_entry e v (i :: rest) = option_map S (abort_level (v_index i v) rest)
    /\ (asrt_index i v = true ->
           g_entry c e r v (i :: rest) = g_brackets c v (i :: rest)
        /\ abort_level_entry e v (i :: rest) = abort_level v (i :: rest)).
Proof.
  intros c e r v i rest He Hc.
  assert (E1 : g_entry c e r v (i :: rest) = g_brackets c (v_index i v) rest).
  { destruct e; try discriminate; try contradiction; unfold g_entry; cbn [first_checked]; apply g_brackets_r_eq. }
  assert (E2 : abort_level_entry e v (i :: rest) = option_map S (abort_level (v_index i v) rest)).
  { destruct e; try discriminate; try contradiction; reflexivity. }
  split; [exact E1|]. split; [exact E2|]. intros Ha. split.
  - rewrite E1. cbn [g_brackets]. unfold g_index. rewrite Ha. destruct c; reflexivity.
  - rewrite E2. cbn [abort_level]. rewrite Ha. reflexivity.
Qed.

(* the front / back / iterator positions of a non-empty leading dimension ARE inside the extension *)
Lemma asrt_index_in v d l i : lay v = d :: l -> dok d -> fst (d_extension d) <= i < snd (d_extension d) -> asrt_index i v = true.
Proof.
  intros E Hd Hi. unfold asrt_index. rewrite E, (dok_a_ext _ Hd).
  replace (r_contains (d_extension d) i) with true by (symmetry; apply contains_iff; assumption).
  apply orb_true_r.
Qed.
Theorem C20_front_back_iterator_in_range_proved :
  forall (c : config) (e : entry) (r : recv) (v : view) (d : dim) (l : layout) (k : Z) (rest : list Z),
    first_checked e = false -> e <> ECursor -> lay v = d :: l -> dok d -> 0 <= k < d_size d ->
    g_entry c e r v ((fst (d_extension d) + k) :: rest) = g_brackets c v ((fst (d_extension d) + k) :: rest).
Proof.
  intros c e r v d l k rest He Hc E Hd Hk.
  destruct (C20_unchecked_first_level_proved c e r v (fst (d_extension d) + k) rest He Hc) as (_ & _ & H).
  apply H. eapply asrt_index_in; [eassumption|assumption|].
  pose proof (dok_ext_size _ Hd) as Hs. unfold r_size in Hs. lia.
Qed.

(* ---------------- owning copies: same extensions, other strides ---------------- *)
(* multi::array<T, D>(view), +view, static_array(view) hold the elements of the view under a canonical layout with the
   view's extensions.  The aborting level is a function of the extensions alone (well-formed layouts, non-zero strides). *)
Lemma lok_tail d l : lok (d :: l) -> lok l.
Proof. intros H. inv H. assumption. Qed.
Lemma pos_tail d l : pos (d :: l) -> pos l.
Proof. intros H. inv H. assumption. Qed.

Theorem C20_index_guard_extensions_only_proved :
  forall (idx : list Z) (v w : view),
    lok (lay v) -> pos (lay v) -> lok (lay w) -> pos (lay w) ->
    l_extensions (lay v) = l_extensions (lay w) ->
       abort_level v idx = abort_level w idx
    /\ asrt_brackets v idx = asrt_brackets w idx.
Proof.
  induction idx as [|i idx IH]; intros v w Hlv Hpv Hlw Hpw Hx; [split; reflexivity|].
  cbn [abort_level asrt_brackets].
  destruct (lay v) as [|d sub] eqn:Ev; destruct (lay w) as [|d' sub'] eqn:Ew; try discriminate.
  - assert (Ei : asrt_index i v = true) by (unfold asrt_index; rewrite Ev; reflexivity).
    assert (Ei' : asrt_index i w = true) by (unfold asrt_index; rewrite Ew; reflexivity).
    rewrite Ei, Ei'. cbn [andb].
    assert (Lv : lay (v_index i v) = []) by (unfold v_index; rewrite Ev; reflexivity).
    assert (Lw : lay (v_index i w) = []) by (unfold v_index; rewrite Ew; reflexivity).
    assert (N1 : lok []) by constructor. assert (N2 : pos []) by constructor.
    destruct (IH (v_index i v) (v_index i w)) as [A B]; rewrite ?Lv, ?Lw; try assumption; try reflexivity.
    rewrite A, B. split; reflexivity.
  - cbn [l_extensions map] in Hx. injection Hx as Hd Hs.
    pose proof Hlv as Hlv'. pose proof Hlw as Hlw'. inv Hlv'. inv Hlw'. pose proof Hpv as Hpv'. pose proof Hpw as Hpw'. inv Hpv'. inv Hpw'.
    rewrite (asrt_index_is_contains v d sub i Ev) by (assumption || lia).
    rewrite (asrt_index_is_contains w d' sub' i Ew) by (assumption || lia).
    rewrite Hd.
    assert (Lv : lay (v_index i v) = sub) by (unfold v_index; rewrite Ev; reflexivity).
    assert (Lw : lay (v_index i w) = sub') by (unfold v_index; rewrite Ew; reflexivity).
    destruct (IH (v_index i v) (v_index i w)) as [A B]; rewrite ?Lv, ?Lw; try assumption.
    rewrite A, B. split; reflexivity.
Qed.

(* satisfiable and non-trivial: the 2 x 3 block sliced(2,4) x sliced(4,7) of a 4 x 6 array indexed [1,5) x [2,8), which is
   indexed [1,3) x [2,5) with strides 6, 1, and its owning copy (strides 3, 1): index (3, 2) aborts at level 0 on both, (2, 5) at level 1 on both, (2, 4) on neither *)
Example C20_extensions_only_example :
  let v := exec_op OUnrotated (exec_op (OSliced 4 7) (exec_op ORotated (exec_op (OSliced 2 4) (root_view [(1, 5); (2, 8)])))) in
  let w := root_view [(1, 3); (2, 5)] in
     l_extensions (lay v) = l_extensions (lay w) /\ l_strides (lay v) <> l_strides (lay w)
  /\ abort_level v [3; 2] = Some 0%nat /\ abort_level w [3; 2] = Some 0%nat
  /\ abort_level v [2; 5] = Some 1%nat /\ abort_level w [2; 5] = Some 1%nat
  /\ abort_level v [2; 4] = None /\ abort_level w [2; 4] = None
  /\ g_entry Debug EBrackets RArrR w [2; 5] = Aborted /\ g_entry Debug EFront RArrR w [1; 5] = Aborted
  /\ g_entry Debug EItIndex RStaR w [2; 4] = Done 5.
Proof. vm_compute. repeat split; congruence. Qed.

(* ---------------- cursor: no assertion, and inside the extensions the same element ---------------- *)
Lemma addr_brackets_l_addr idx : forall v, length idx = length (lay v) -> addr_brackets v idx = base v + l_addr (lay v) idx.
Proof.
  unfold addr_brackets. induction idx as [|i idx IH]; intros v Hlen; cbn [fold_left].
  - destruct (lay v); [cbn; lia|discriminate].
  - destruct (lay v) as [|d sub] eqn:E; [discriminate|]. cbn in Hlen.
    rewrite IH by (unfold v_index; rewrite E; cbn; lia).
    unfold v_index, hd_dim. rewrite E. cbn [hd tl lay base l_addr]. lia.
Qed.
Lemma fold_add_shift l : forall a, fold_left Z.add l a = a + fold_left Z.add l 0.
Proof. induction l as [|x l IH]; intros a; cbn [fold_left]; [lia|]. rewrite IH, (IH (0 + x)). lia. Qed.
Lemma addr_cursor_l_addr l : lok l -> forall idx b, in_extl l idx ->
  addr_cursor (mkview l b) (vsubz idx (map fst (l_extensions l))) = b + l_addr l idx.
Proof.
  unfold addr_cursor. induction 1 as [|d l Hd Hl IH]; intros idx b Hi; inv Hi; cbn; [lia|].
  pose proof (dok_ext_size _ Hd) as Hs. unfold r_size in Hs. assert (Hp : 0 < d_size d) by lia.
  rewrite (dok_offset _ Hd Hp). rewrite fold_add_shift.
  specialize (IH _ 0 H3). cbn [lay base] in IH. unfold l_extensions, l_strides in *. rewrite IH. ring.
Qed.
Lemma in_extl_length l : forall idx, in_extl l idx -> length idx = length l.
Proof. induction l as [|d l IH]; intros idx H; inv H; cbn; [reflexivity|]. f_equal. apply IH. assumption. Qed.
Theorem C20_cursor_in_range_proved :
  forall (v : view) (idx : list Z), lok (lay v) -> in_extl (lay v) idx ->
    addr_cursor v (vsubz idx (map fst (l_extensions (lay v)))) = addr_brackets v idx
    /\ forall c r, g_entry c ECursor r v idx = Done (addr_brackets v idx).
Proof.
  intros v idx Hl Hi. split; [|reflexivity].
  rewrite addr_brackets_l_addr by (apply in_extl_length; assumption).
  destruct v as [l b]. apply addr_cursor_l_addr; assumption.
Qed.

(* ---------------- elements_at ---------------- *)
Lemma numel_pos_tail d l : lok (d :: l) -> 0 <= l_num_elements l.
Proof. intros H. apply lok_numel_nonneg. eapply lok_tail; eassumption. Qed.

(* beyond the number of elements: stopped by the first assertion, in every value category and rank *)
Theorem C20_elements_at_fire_proved : forall fixed v n, lay v <> [] -> l_num_elements (lay v) <= n ->
  g_elements_at Debug fixed v n = Aborted.
Proof.
  intros fixed v n Hne Hn. unfold g_elements_at. destruct (lay v) as [|d sub] eqn:E; [contradiction|].
  cbn [length asrt_elements_at_all]. rewrite E. unfold asrt_elements_at. rewrite E.
  replace (n <? l_num_elements (d :: sub)) with false by (symmetry; apply Z.ltb_ge; assumption). reflexivity.
Qed.

(* the repaired code: a position inside [0, num_elements()) passes every assertion on the way, for any index bases, and the
   indices it uses are inside the extensions *)
Lemma elements_at_fixed_ok l : lok l -> pos l -> forall b n, 0 <= n < l_num_elements l ->
  asrt_elements_at_all true (mkview l b) n (length l) = true /\ in_extl l (elements_at_idx true l n).
Proof.
  induction 1 as [|d sub Hd Hsub IH]; intros Hp b n Hn; [split; [reflexivity|constructor]|].
  pose proof Hp as Hp'. inv Hp'. cbn [length asrt_elements_at_all lay elements_at_idx].
  cbn [l_num_elements] in Hn. set (s := l_num_elements sub) in *.
  pose proof (lok_numel_nonneg _ Hsub) as Hs0. fold s in Hs0.
  assert (Hs : 0 < s). { destruct (Z.eq_dec s 0) as [E0|]; [rewrite E0, Z.mul_0_r in Hn; lia|lia]. }
  assert (Hsz : 0 < d_size d). { destruct (Z_le_gt_dec (d_size d) 0); [|lia]. assert (d_size d * s <= 0) by nia. lia. }
  pose proof (dok_ext_size _ Hd) as Hes. unfold r_size in Hes.
  assert (Hq : 0 <= Z.quot n s < d_size d).
  { split; [apply Z.quot_pos; lia|]. apply Z.quot_lt_upper_bound; lia. }
  assert (Hr : 0 <= Z.rem n s < s) by (apply Z.rem_bound_pos; lia).
  assert (Hin : fst (d_extension d) <= fst (d_extension d) + Z.quot n s < snd (d_extension d)) by lia.
  assert (Ha : asrt_index (fst (d_extension d) + Z.quot n s) (mkview (d :: sub) b) = true)
    by (eapply asrt_index_in; [reflexivity|assumption|exact Hin]).
  rewrite Ha. unfold asrt_elements_at at 1. cbn [lay l_num_elements]. fold s.
  replace (n <? d_size d * s) with true by (symmetry; apply Z.ltb_lt; lia). cbn [andb].
  unfold v_index at 1. cbn [lay tl base hd_dim hd].
  destruct (IH H2 (b + ((fst (d_extension d) + Z.quot n s) * d_stride d - d_offset d)) (Z.rem n s) Hr) as [A B].
  split; [exact A|]. constructor; [exact Hin|exact B].
Qed.
Theorem C20_elements_at_fixed_silent_proved :
  forall (v : view) (n : Z), lok (lay v) -> pos (lay v) -> 0 <= n < l_num_elements (lay v) ->
       g_elements_at Debug true v n = Done (addr_brackets v (elements_at_idx true (lay v) n))
    /\ in_extl (lay v) (elements_at_idx true (lay v) n)
    /\ forall c, g_elements_at c true v n = g_elements_at Debug true v n.
Proof.
  intros [l b] n Hl Hp Hn. cbn [lay] in *. destruct (elements_at_fixed_ok l Hl Hp b n Hn) as [A B].
  assert (E : g_elements_at Debug true (mkview l b) n = Done (addr_brackets (mkview l b) (elements_at_idx true l n)))
    by (unfold g_elements_at; cbn [lay]; rewrite A; reflexivity).
  split; [exact E|]. split; [exact B|]. intros c. rewrite E. destruct c; [exact E|reflexivity|reflexivity].
Qed.

(* the code as pinned agrees with the repaired one on arrays whose extensions start at 0 ... *)
Theorem C20_elements_at_pinned_zero_based_proved :
  forall (l : layout) (n : Z), Forall (fun d => fst (d_extension d) = 0) l ->
    elements_at_idx false l n = elements_at_idx true l n
    /\ forall b k, asrt_elements_at_all false (mkview l b) n k = asrt_elements_at_all true (mkview l b) n k.
Proof.
  intros l n H. split.
  - revert n. induction H as [|d l Hd _ IH]; intros n; [reflexivity|]. cbn [elements_at_idx]. rewrite Hd, IH. reflexivity.
  - intros b k. revert l H b n. induction k as [|k IH]; intros l H b n; [reflexivity|].
    cbn [asrt_elements_at_all lay]. destruct l as [|d sub]; [reflexivity|]. inv H. rewrite H2.
    unfold v_index. cbn [lay tl base hd_dim hd]. rewrite (IH sub H3). reflexivity.
Qed.
(* ... and not on arrays with index bases: a VALID position is stopped by the inner operator[] assertion *)
Definition C20_elements_at_silent_full : Prop :=
  forall (v : view) (n : Z), lok (lay v) -> pos (lay v) -> 0 <= n < l_num_elements (lay v) ->
    asrt_elements_at_all false v n (length (lay v)) = true.
Theorem C20_elements_at_rebased_refuted_proved : ~ C20_elements_at_silent_full.
Proof.
  intros H. specialize (H (root_view [(2, 7)]) 0).
  assert (Hx : Forall (fun r : range => fst r <= snd r) [(2, 7)]) by (repeat constructor; cbn; lia).
  specialize (H (mk_lok _ Hx) (mk_pos _ Hx) ltac:(vm_compute; split; congruence)). vm_compute in H. discriminate.
Qed.

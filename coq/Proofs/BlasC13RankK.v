(* C13 -- syrk / herk: the decidable criterion rk_implements_b is sound.  For every call record, operand descriptors, sizes
   and strides: if the criterion holds, the xSYRK / xHERK call is legal, every cell of the selected triangle of the view c
   receives alpha * (a.a^T | a.a^H)(i,j) + beta * c(i,j) on the logical contents (real part on the diagonal for herk),
   and every other cell -- the other triangle of c included -- keeps its value. *)
From BM Require Import Base.Tactics Model.BlasC13 Model.BlasC13Ref Model.BlasC13Crit Model.BlasC13L3 Model.BlasC13L3Crit
  Proofs.BlasC13RefProofs.
Local Open Scope Z_scope.

Section Carrier.
  Variable R : Type.
  Variable rzero : R.
  Variables radd rmul : R -> R -> R.
  Variable cj : R -> R.
  Variable re : R -> R.
  Hypothesis rmul_comm : forall x y, rmul x y = rmul y x.
  Hypothesis cj_invol : forall x, cj (cj x) = x.

  Notation rk_ref := (rk_ref R rzero radd rmul cj re).
  Notation rk_cell := (rk_cell R rzero radd rmul cj re).
  Notation rk_math := (rk_math R rzero radd rmul cj re).

  Lemma rk_ref_at herm alpha beta k mem i j :
    0 <= i < r_n k -> 0 <= j < r_n k -> r_n k <= r_ldc k ->
    (if r_uplo k =? ch_U then i <=? j else j <=? i) = true ->
    rk_ref herm alpha beta k mem (r_pc k + i + j * r_ldc k) = rk_cell herm alpha beta k mem i j.
  Proof.
    intros Hi Hj Hld Htri. unfold BlasC13L3Crit.rk_ref. cbv zeta.
    replace (r_pc k + i + j * r_ldc k - r_pc k) with (i + j * r_ldc k) by lia.
    destruct (decode_cell (r_ldc k) i j) as [Ej Ei]; [lia|lia|]. rewrite Ej, Ei.
    assert (0 <= j * r_ldc k) by (apply Z.mul_nonneg_nonneg; lia).
    rewrite Htri.
    replace ((0 <=? i + j * r_ldc k) && (i <? r_n k) && (j <? r_n k) && true) with true by (symmetry; lia).
    reflexivity.
  Qed.

  Lemma rk_ref_other herm alpha beta k mem p :
    1 <= r_ldc k ->
    (forall i j, 0 <= i < r_n k -> 0 <= j < r_n k -> (if r_uplo k =? ch_U then i <=? j else j <=? i) = true ->
                 p <> r_pc k + i + j * r_ldc k) ->
    rk_ref herm alpha beta k mem p = mem p.
  Proof.
    intros Hld H. unfold BlasC13L3Crit.rk_ref. cbv zeta.
    set (d := p - r_pc k).
    destruct ((0 <=? d) && (d mod r_ldc k <? r_n k) && (d / r_ldc k <? r_n k)
              && (if r_uplo k =? ch_U then d mod r_ldc k <=? d / r_ldc k else d / r_ldc k <=? d mod r_ldc k)) eqn:E; [|reflexivity].
    exfalso. apply andb_prop in E. destruct E as [E E4]. apply andb_prop in E. destruct E as [E E3].
    apply andb_prop in E. destruct E as [E1 E2].
    apply Z.leb_le in E1. apply Z.ltb_lt in E2. apply Z.ltb_lt in E3.
    pose proof (Z.mod_pos_bound d (r_ldc k) ltac:(lia)) as Hm.
    pose proof (Z.div_pos d (r_ldc k) E1 ltac:(lia)) as Hd.
    pose proof (Z.div_mod d (r_ldc k) ltac:(lia)) as Hdm.
    apply (H (d mod r_ldc k) (d / r_ldc k)); [lia|lia|exact E4|].
    rewrite (Z.mul_comm (r_ldc k)) in Hdm. unfold d in *. lia.
  Qed.

  Lemma mval_conj_mat' a mem i j : mval R cj (conj_mat a) mem i j = cj (mval R cj a mem i j).
  Proof.
    unfold mval, conj_mat, maddr. cbn [mconj mbase s0 s1].
    destruct (mconj a); cbn [negb cjif]; [rewrite cj_invol|]; reflexivity.
  Qed.

  Definition triangle_cell (upper : bool) (c : mat) (p : Z) : Prop :=
    exists i j, 0 <= i < rows c /\ 0 <= j < rows c /\ in_triangle upper i j = true /\ p = maddr c i j.

  Theorem rk_criterion_sound (herm upper : bool) (alpha beta : R) (a c : mat) (k : rk_call) (mem : Z -> R) :
    rk_implements_b herm upper k a c = true ->
       rk_legal k = true
    /\ (forall i j, 0 <= i < rows c -> 0 <= j < rows c -> in_triangle upper i j = true ->
          rk_ref herm alpha beta k mem (maddr c i j) = rk_math herm alpha beta a c mem i j)
    /\ (forall p, ~ triangle_cell upper c p -> rk_ref herm alpha beta k mem p = mem p).
  Proof.
    intros H. unfold rk_implements_b in H. cbv zeta in H.
    remember (rk_legal k) as L eqn:EL.
    apply andb_prop in H. destruct H as [H Hor]. apply andb_prop in H. destruct H as [H Hcj].
    apply andb_prop in H. destruct H as [H Hk]. apply andb_prop in H. destruct H as [H Hra].
    apply andb_prop in H. destruct H as [H Hcc]. apply andb_prop in H. destruct H as [Hlegal Hn].
    subst L. apply Z.eqb_eq in Hn. apply Z.eqb_eq in Hcc. apply Z.eqb_eq in Hra. apply Z.eqb_eq in Hk.
    apply negb_true_iff in Hcj.
    split; [assumption|].
    assert (Hl := Hlegal). unfold rk_legal in Hl.
    assert (Hldc : Z.max 1 (r_n k) <= r_ldc k) by lia.
    apply orb_prop in Hor. destruct Hor as [Hd|Ht].
    - (* the triangle is written directly *)
      apply andb_prop in Hd. destruct Hd as [Hd Hop]. apply andb_prop in Hd. destruct Hd as [Hu Hc].
      assert (Eaddr : forall i j, 0 <= i < rows c -> 0 <= j < rows c -> maddr c i j = r_pc k + i + j * r_ldc k).
      { intros i j Hi Hj. apply orb_prop in Hc. destruct Hc as [Hc|Hc]; [apply Z.leb_le in Hc; lia|].
        apply andb_prop in Hc. destruct Hc as [Hp Ha]. apply Z.eqb_eq in Hp.
        pose proof (agree_spec _ _ _ _ _ _ Ha i j Hi Hj). unfold maddr. lia. }
      assert (Etri : forall i j, 0 <= i < rows c -> 0 <= j < rows c ->
                                 in_triangle upper i j = (if r_uplo k =? ch_U then i <=? j else j <=? i)).
      { intros i j Hi Hj. unfold in_triangle. apply orb_prop in Hu. destruct Hu as [Hu|Hu].
        - apply Z.leb_le in Hu. assert (i = 0) by lia. assert (j = 0) by lia. subst i j.
          destruct upper, (r_uplo k =? ch_U); reflexivity.
        - apply eqb_prop in Hu. rewrite Hu. reflexivity. }
      split.
      + intros i j Hi Hj Htri. rewrite (Eaddr i j Hi Hj). rewrite (Etri i j Hi Hj) in Htri.
        rewrite rk_ref_at by (try assumption; lia).
        unfold BlasC13L3Crit.rk_cell, BlasC13L3Crit.rk_math. cbv zeta.
        assert (Ev : forall x y : R, x = y -> (if herm && (i =? j) then re x else x) = (if herm && (i =? j) then re y else y))
          by (intros x y ->; reflexivity).
        apply Ev. f_equal.
        * f_equal. rewrite Hk. apply (zsum_ext R rzero radd rmul cj). intros l Hlk.
          rewrite !(op_is_spec R rzero radd rmul cj _ _ _ _ _ _ Hop) by lia. reflexivity.
        * f_equal. unfold mval. rewrite Hcj. cbn [cjif]. rewrite (Eaddr i j Hi Hj). reflexivity.
      + intros p Hp. apply rk_ref_other; [lia|].
        intros i j Hi Hj Htri E. apply Hp. exists i, j. rewrite Etri by lia.
        split; [lia|]. split; [lia|]. split; [exact Htri|]. rewrite Eaddr by lia. exact E.
    - (* the transposed output: the mirror triangle of the transposed / conjugated product *)
      apply andb_prop in Ht. destruct Ht as [Ht Hop]. apply andb_prop in Ht. destruct Ht as [Hu Hc].
      assert (Eaddr : forall i j, 0 <= i < rows c -> 0 <= j < rows c -> maddr c i j = r_pc k + j + i * r_ldc k).
      { intros i j Hi Hj. apply orb_prop in Hc. destruct Hc as [Hc|Hc]; [apply Z.leb_le in Hc; lia|].
        apply andb_prop in Hc. destruct Hc as [Hp Ha]. apply Z.eqb_eq in Hp.
        pose proof (agree_spec _ _ _ _ _ _ Ha i j Hi Hj). unfold maddr. lia. }
      assert (Etri : forall i j, 0 <= i < rows c -> 0 <= j < rows c ->
                                 in_triangle upper i j = (if r_uplo k =? ch_U then j <=? i else i <=? j)).
      { intros i j Hi Hj. unfold in_triangle. apply orb_prop in Hu. destruct Hu as [Hu|Hu].
        - apply Z.leb_le in Hu. assert (i = 0) by lia. assert (j = 0) by lia. subst i j.
          destruct upper, (r_uplo k =? ch_U); reflexivity.
        - apply eqb_prop in Hu. rewrite Hu. destruct upper; reflexivity. }
      split.
      + intros i j Hi Hj Htri. rewrite (Eaddr i j Hi Hj). rewrite (Etri i j Hi Hj) in Htri.
        rewrite rk_ref_at by (try assumption; lia).
        unfold BlasC13L3Crit.rk_cell, BlasC13L3Crit.rk_math. cbv zeta.
        rewrite (Z.eqb_sym j i).
        assert (Ev : forall x y : R, x = y -> (if herm && (i =? j) then re x else x) = (if herm && (i =? j) then re y else y))
          by (intros x y ->; reflexivity).
        apply Ev. f_equal.
        * f_equal. rewrite Hk. apply (zsum_ext R rzero radd rmul cj). intros l Hlk.
          rewrite !(op_is_spec R rzero radd rmul cj _ _ _ _ _ _ Hop) by lia.
          destruct herm; cbn [cjif].
          -- rewrite !mval_conj_mat', cj_invol. apply rmul_comm.
          -- apply rmul_comm.
        * f_equal. unfold mval. rewrite Hcj. cbn [cjif]. rewrite (Eaddr i j Hi Hj). reflexivity.
      + intros p Hp. apply rk_ref_other; [lia|].
        intros i j Hi Hj Htri E. apply Hp. exists j, i. rewrite Etri by lia.
        split; [lia|]. split; [lia|]. split; [exact Htri|]. rewrite Eaddr by lia. exact E.
  Qed.
End Carrier.

Lemma rk_instances :
  (exists k, herk_dispatch true (mk_mat 1000000 1 3 3 2 false) (mk_mat 3000000 1 3 3 3 false) = L3Call k
             /\ rk_implements_b true true k (mk_mat 1000000 1 3 3 2 false) (mk_mat 3000000 1 3 3 3 false) = true)
  /\ (exists k, herk_dispatch false (mk_mat 1000000 2 1 3 2 false) (mk_mat 3000000 4 1 3 3 false) = L3Call k
              /\ rk_implements_b true false k (mk_mat 1000000 2 1 3 2 false) (mk_mat 3000000 4 1 3 3 false) = true).
Proof. split; eexists; split; reflexivity. Qed.

(* C17 -- lemmas about Model/CodecArray.v: the array round trip for every prior state. *)
From BM Require Import Base.Tactics Model.CodecArray.
Local Open Scope Z_scope.

(* ---------- ranges and extension tuples ---------- *)
Definition cr_wf (r : crange) : Prop := fst r <= snd r.
Definition cx_wf (x : list crange) : Prop := Forall cr_wf x.
(* the form in which an array reports its extensions *)
Definition cx_normal (x : list crange) : Prop := cx_collapse x = x.

Lemma cx_num_nonneg x : cx_wf x -> 0 <= cx_num x.
Proof.
  induction 1 as [|r s Hr Hs IH]; cbn [cx_num]; [lia|].
  unfold cr_wf, cr_size in *. nia.
Qed.

Lemma cx_normal_tail r s : cx_normal (r :: s) -> cx_normal s.
Proof. unfold cx_normal. cbn [cx_collapse]. intros H. injection H as _ H. exact H. Qed.

Lemma cx_normal_head r s :
  cx_normal (r :: s) -> cr_size r * cx_num s = 0 -> r = (0, 0).
Proof.
  unfold cx_normal. cbn [cx_collapse]. intros H Hz. injection H as H _.
  rewrite Hz in H. cbn in H. congruence.
Qed.

Lemma cx_num_collapse x : cx_num (cx_collapse x) = cx_num x.
Proof.
  induction x as [|r s IH]; [reflexivity|].
  cbn [cx_collapse cx_num]. rewrite IH.
  destruct (cr_size r * cx_num s =? 0) eqn:E; bprop; [|reflexivity].
  rewrite E. unfold cr_size. cbn. lia.
Qed.

Lemma cx_collapse_idem x : cx_normal (cx_collapse x).
Proof.
  unfold cx_normal. induction x as [|r s IH]; [reflexivity|].
  cbn [cx_collapse]. rewrite IH, cx_num_collapse.
  destruct (cr_size r * cx_num s =? 0) eqn:E.
  - replace (cr_size (0,0) * cx_num s) with 0 by (unfold cr_size; cbn; lia). reflexivity.
  - rewrite E. reflexivity.
Qed.

Lemma cx_collapse_wf x : cx_wf x -> cx_wf (cx_collapse x).
Proof.
  induction 1 as [|r s Hr Hs IH]; cbn [cx_collapse]; constructor; auto.
  destruct (_ =? 0); auto. unfold cr_wf. cbn. lia.
Qed.

Lemma cx_collapse_length x : length (cx_collapse x) = length x.
Proof. induction x; cbn [cx_collapse length]; congruence. Qed.

Lemma cr_eq_refl r : cr_eq r r = true.
Proof. unfold cr_eq. rewrite !Z.eqb_refl. cbn. apply orb_true_r. Qed.

Lemma cx_eq_refl x : cx_eq x x = true.
Proof. induction x; cbn [cx_eq]; [reflexivity|]. rewrite cr_eq_refl, IHx. reflexivity. Qed.

Lemma cx_eq_length a b : cx_eq a b = true -> length a = length b.
Proof.
  revert b. induction a as [|ra a IH]; intros [|rb b] H; cbn [cx_eq] in H; try discriminate; [reflexivity|].
  bprop. cbn [length]. f_equal. auto.
Qed.

(* on reported extensions the library's == ("all empty ranges are equal") is Leibniz equality *)
Lemma cx_eq_normal a b :
  cx_normal a -> cx_normal b -> cx_eq a b = true -> a = b.
Proof.
  revert b. induction a as [|ra a IH]; intros [|rb b] Ha Hb H; cbn [cx_eq] in H; try discriminate; [reflexivity|].
  apply andb_prop in H. destruct H as [Hr Hx].
  assert (a = b) by (eapply IH; eauto using cx_normal_tail). subst b.
  f_equal. unfold cr_eq, cr_empty in Hr. apply orb_prop in Hr. destruct Hr as [Hr|Hr]; bprop.
  - rewrite (cx_normal_head _ _ Ha) by (unfold cr_size; nia).
    rewrite (cx_normal_head _ _ Hb) by (unfold cr_size; nia). reflexivity.
  - destruct ra, rb. cbn in *. congruence.
Qed.

Lemma cx_normal_repeat0 d : cx_normal (repeat (0, 0) d).
Proof.
  unfold cx_normal. induction d; cbn [repeat cx_collapse]; [reflexivity|].
  rewrite IHd. replace (cr_size (0,0)) with 0 by reflexivity. cbn. reflexivity.
Qed.

Lemma cx_num_repeat0 d : (0 < d)%nat -> cx_num (repeat (0, 0) d) = 0.
Proof. destruct d; [lia|]. intros _. cbn [repeat cx_num]. unfold cr_size. cbn. lia. Qed.

(* ---------- enumeration of index tuples ---------- *)
Lemma zseq_length s n : length (zseq s n) = n.
Proof. revert s. induction n; intros; cbn [zseq length]; auto. Qed.

Lemma flat_map_length_const {A B} (f : A -> list B) (l : list A) m :
  (forall a, length (f a) = m) -> length (flat_map f l) = (length l * m)%nat.
Proof.
  intros H. induction l; cbn [flat_map length]; [reflexivity|].
  rewrite app_length, H, IHl. lia.
Qed.

Lemma cx_indices_length x : cx_wf x -> length (cx_indices x) = Z.to_nat (cx_num x).
Proof.
  induction 1 as [|r s Hr Hs IH]; [reflexivity|].
  cbn [cx_indices cx_num].
  rewrite flat_map_length_const with (m := Z.to_nat (cx_num s)).
  - rewrite zseq_length. rewrite Z2Nat.inj_mul; [reflexivity| |].
    + unfold cr_wf, cr_size in *. lia.
    + apply cx_num_nonneg; assumption.
  - intros. rewrite map_length. assumption.
Qed.

(* ---------- arrays ---------- *)
Section ArrProofs.
  Variable value : Type.
  Variable dflt : value.
  Variable okv : value -> Prop.           (* the values the element codec is specified for *)
  Hypothesis okv_dflt : okv dflt.

  (* an owning array as the library maintains it: reported extensions, one cell per element *)
  Definition wf_arr (a : carr value) : Prop :=
    cx_wf (ca_exts a) /\ cx_normal (ca_exts a)
    /\ length (ca_elems a) = Z.to_nat (ca_num a) /\ Forall okv (ca_elems a).

  Lemma wf_make x : cx_wf x -> wf_arr (ca_make dflt x).
  Proof.
    intros H. unfold wf_arr, ca_make, ca_num. cbn [ca_exts ca_elems].
    repeat split.
    - apply cx_collapse_wf; assumption.
    - apply cx_collapse_idem.
    - rewrite repeat_length, cx_num_collapse. reflexivity.
    - apply Forall_forall. intros v Hv. apply repeat_spec in Hv. subst. assumption.
  Qed.

  Lemma wf_clear a : (0 < ca_rank a)%nat -> wf_arr (ca_clear a).
  Proof.
    intros H. unfold wf_arr, ca_clear, ca_num. cbn [ca_exts ca_elems].
    repeat split.
    - apply Forall_forall. intros r Hr. apply repeat_spec in Hr. subst. unfold cr_wf. cbn. lia.
    - apply cx_normal_repeat0.
    - rewrite cx_num_repeat0 by assumption. reflexivity.
    - constructor.
  Qed.

  (* C06 in the form C17 needs: the rvalue reextent gives an array of the requested (reported)
     extents, whatever the array was *)
  Lemma wf_reextent_rv x a :
    cx_wf x -> wf_arr a -> wf_arr (ca_reextent_rv dflt x a).
  Proof.
    intros Hx Ha. unfold ca_reextent_rv. destruct (cx_eq x (ca_exts a)); [assumption|].
    apply wf_make. assumption.
  Qed.

  Lemma reextent_rv_exts x a :
    cx_normal x -> cx_normal (ca_exts a) -> ca_exts (ca_reextent_rv dflt x a) = x.
  Proof.
    intros Hx Ha. unfold ca_reextent_rv. destruct (cx_eq x (ca_exts a)) eqn:E.
    - symmetry. apply cx_eq_normal; assumption.
    - cbn [ca_make ca_exts]. assumption.
  Qed.

  (* what loading does to the receiving array before any element is read: whatever it was, it
     now has the archived extensions and one valid cell per element *)
  Lemma load_resize_spec p x :
    wf_arr p -> cx_wf x -> cx_normal x ->
    wf_arr (load_resize dflt p x) /\ ca_exts (load_resize dflt p x) = x.
  Proof.
    intros Hp Hx Hn. unfold load_resize.
    destruct (cx_eq (ca_exts p) x) eqn:E; cbn [negb].
    - split; [assumption|]. destruct Hp as (_ & Hpn & _). apply cx_eq_normal; assumption.
    - split; [apply wf_reextent_rv; assumption|].
      apply reextent_rv_exts; [assumption|]. destruct Hp as (_ & Hpn & _). assumption.
  Qed.

  (* ---------- the archive ---------- *)
  Variable token : Type.
  Variable enc_z : Z -> list token.
  Variable dec_z : list token -> option (Z * list token).
  Variable enc : value -> list token.
  Variable dec : value -> list token -> option (value * list token).
  (* archive primitives round-trip an index ... *)
  Hypothesis dec_enc_z : forall i r, dec_z (enc_z i ++ r) = Some (i, r).
  (* ... and an element, whatever element it is read into *)
  Hypothesis dec_enc : forall p v r, okv p -> okv v -> dec p (enc v ++ r) = Some (v, r).

  Lemma dec_enc_range r rest : dec_range dec_z (enc_range enc_z r ++ rest) = Some (r, rest).
  Proof.
    unfold dec_range, enc_range. rewrite <- app_assoc, dec_enc_z, dec_enc_z.
    destruct r; reflexivity.
  Qed.

  Lemma dec_enc_exts x rest :
    dec_exts dec_z (length x) (enc_exts enc_z x ++ rest) = Some (x, rest).
  Proof.
    induction x as [|r s IH]; [reflexivity|].
    cbn [length dec_exts enc_exts flat_map]. fold (enc_exts enc_z s).
    rewrite <- app_assoc, dec_enc_range, IH. reflexivity.
  Qed.

  Lemma dec_enc_elems prior vs rest :
    length prior = length vs -> Forall okv prior -> Forall okv vs ->
    dec_elems dec prior (enc_elems enc vs ++ rest) = Some (vs, rest).
  Proof.
    revert vs. induction prior as [|p ps IH]; intros [|v vs] Hl Hp Hv; cbn [length] in Hl; try lia.
    - reflexivity.
    - inv Hp. inv Hv. cbn [dec_elems enc_elems flat_map]. fold (enc_elems enc vs).
      rewrite <- app_assoc, dec_enc by assumption. rewrite IH by (auto; lia). reflexivity.
  Qed.

  (* C17, first clause: for every prior state of the receiving array *)
  Lemma roundtrip_array a prior rest :
    wf_arr a -> wf_arr prior -> ca_rank a = ca_rank prior ->
    load_array dflt dec_z dec prior (save_array enc_z enc a ++ rest) = Some (a, rest).
  Proof.
    intros Ha Hp Hr. pose proof Ha as (Hax & Han & Hal & Hav).
    unfold load_array, save_array. rewrite <- Hr. unfold ca_rank at 1.
    rewrite <- app_assoc, dec_enc_exts.
    destruct (load_resize_spec prior (ca_exts a)) as ((_ & _ & Hl1 & Hv1) & He1); auto.
    set (p1 := load_resize dflt prior (ca_exts a)) in *.
    assert (Hn : ca_num p1 = ca_num a) by (unfold ca_num; rewrite He1; reflexivity).
    rewrite (firstn_all2 (n := Z.to_nat (ca_num p1))) by lia.
    rewrite (firstn_all2 (n := Z.to_nat (ca_num a))) by lia.
    rewrite skipn_all2 by lia.
    rewrite dec_enc_elems; auto; [|lia].
    rewrite app_nil_r, He1. destruct a; reflexivity.
  Qed.

  (* the statement in the shape DESIGN.md 5/C17 gives it *)
  Lemma roundtrip_array_req a prior rest :
    wf_arr a -> wf_arr prior -> ca_rank a = ca_rank prior ->
    exists a', load_array dflt dec_z dec prior (save_array enc_z enc a ++ rest) = Some (a', rest)
            /\ cx_eq (ca_exts a') (ca_exts a) = true
            /\ ca_elems a' = ca_elems a
            /\ wf_arr a'.
  Proof.
    intros. exists a. split; [apply roundtrip_array; assumption|].
    split; [apply cx_eq_refl|]. split; [reflexivity|assumption].
  Qed.

End ArrProofs.

Arguments wf_arr {value}.

(* what the archive contains: the D ranges, then exactly the elements in flat order *)
Lemma save_array_tokens (value : Type) (okv : value -> Prop) (token : Type)
      (enc_z : Z -> list token) (enc : value -> list token) (a : carr value) :
  wf_arr okv a ->
  save_array enc_z enc a
  = flat_map (fun r => enc_z (fst r) ++ enc_z (snd r)) (ca_exts a) ++ flat_map enc (ca_elems a).
Proof.
  intros (_ & _ & Hl & _). unfold save_array, enc_exts, enc_elems, enc_range.
  rewrite firstn_all2 by lia. reflexivity.
Qed.

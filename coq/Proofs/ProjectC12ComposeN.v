(* C12, part 2b: reinterpret_array_cast<U>(n) (which appends a dimension) commutes with every view
   operation that acts on the leading dimensions (all of C01's except rotated/unrotated/reversed, which
   move the appended dimension). *)
From BM Require Import Base.Tactics Model.Layout Model.View Model.Spec Model.ProjectC12
  Proofs.LayoutProofs Proofs.ViewProofs Proofs.ViewProofs2 Proofs.ProjectC12Scale Proofs.ProjectC12Compose.
Local Open Scope Z_scope.

Definition head_op (o : op) : Prop :=
  match o with ORotated | OUnrotated | OReversed | OReindexed _ | OBlocked _ _ | OReindexedL _ => False | _ => True end.

(* ---- what dom_op looks at, when trailing dimensions are inserted after the ones the operation uses ---- *)
Lemma lay_ok_head_obs v v' p pre rest rest' :
  lay_ok (lay v) (p :: pre ++ rest) -> lay_ok (lay v') (p :: pre ++ rest') ->
  v_extension v = v_extension v' /\ v_size v = v_size v' /\ (1 <= Z.of_nat (v_rank v)) /\ (1 <= Z.of_nat (v_rank v')).
Proof.
  intros H H'. unfold v_extension, v_size, v_rank.
  destruct (lay v) as [|d l]; [inv H|]. destruct (lay v') as [|d' l']; [inv H'|].
  inv H. inv H'. cbn [l_extension l_size length].
  repeat match goal with Hd : dim_ok _ _ |- _ => rewrite !(dim_ok_extension _ _ Hd), !(dim_ok_size _ _ Hd); clear Hd end.
  repeat split; lia.
Qed.

Lemma dom_paren_extend args : forall v v' pre mid suf, (length args <= length pre)%nat ->
  lay_ok (lay v) (pre ++ suf) -> lay_ok (lay v') (pre ++ mid ++ suf) ->
  dom_paren args v = true -> dom_paren args v' = true.
Proof.
  induction args as [|[i|a b|] rest IH]; intros v v' pre mid suf Hl Hok Hok' Hd; cbn [dom_paren] in *; [reflexivity| | |];
    (destruct pre as [|p pre]; [cbn in Hl; lia|]); cbn [length] in Hl;
    change ((p :: pre) ++ suf) with (p :: pre ++ suf) in Hok;
    change ((p :: pre) ++ mid ++ suf) with (p :: pre ++ (mid ++ suf)) in Hok';
    destruct (lay_ok_head_obs _ _ _ _ _ _ Hok Hok') as (Ee & Es & Hr & Hr'); bprop.
  - assert (Hd1 : dom_op (OIndex i) v = true) by (cbn [dom_op]; bsolve).
    assert (Hd1' : dom_op (OIndex i) v' = true) by (cbn [dom_op]; rewrite <- Ee; bsolve).
    rewrite <- Ee, H1. replace (1 <=? Z.of_nat (v_rank v')) with true by (symmetry; bsolve). cbn [andb].
    eapply (IH (v_index i v) _ pre mid suf); [lia| | |assumption].
    + exact (proj1 (step_index v _ Hok i Hd1)).
    + exact (proj1 (step_index v' _ Hok' i Hd1')).
  - assert (Hd1 : dom_op (OSliced a b) v = true) by (cbn [dom_op]; bsolve).
    assert (Hd1' : dom_op (OSliced a b) v' = true) by (cbn [dom_op]; rewrite <- Ee; bsolve).
    rewrite <- Ee, H1. replace (1 <=? Z.of_nat (v_rank v')) with true by (symmetry; bsolve). cbn [andb].
    pose proof (proj1 (step_rotated _ _ (proj1 (step_sliced v _ Hok a b Hd1)))) as S1.
    pose proof (proj1 (step_rotated _ _ (proj1 (step_sliced v' _ Hok' a b Hd1')))) as S1'.
    cbn [spec_sz t_rot] in S1, S1'. rewrite <- app_assoc in S1. rewrite <- !app_assoc in S1'.
    eapply (IH (v_rotated (v_sliced a b v)) _ pre mid (suf ++ [b - a])); [lia|exact S1|exact S1'|assumption].
  - destruct (lay v) as [|d l] eqn:E; [inv Hok|].
    pose proof (all_range_ok _ _ _ _ _ E Hok) as Ea.
    rewrite <- (all_range_same v v' Ee). rewrite Ea in *. cbn [fst snd] in *.
    replace (1 <=? Z.of_nat (v_rank v')) with true by (symmetry; bsolve). cbn [andb].
    assert (Hn : 0 <= p).
    { inv Hok. match goal with H : dim_ok _ _ |- _ => destruct H as (_&_&?&_) end. lia. }
    destruct (v_extension_ok _ _ _ _ _ E Hok) as [He _].
    assert (Hd1 : dom_op (OSliced 0 p) v = true).
    { cbn [dom_op]. rewrite He. unfold in_slice; cbn [fst snd]. bsolve. }
    assert (Hd1' : dom_op (OSliced 0 p) v' = true).
    { cbn [dom_op]. rewrite <- Ee, He. unfold in_slice; cbn [fst snd]. bsolve. }
    rewrite <- E in Hok.
    pose proof (proj1 (step_rotated _ _ (proj1 (step_sliced v _ Hok 0 p Hd1)))) as S1.
    pose proof (proj1 (step_rotated _ _ (proj1 (step_sliced v' _ Hok' 0 p Hd1')))) as S1'.
    cbn [spec_sz t_rot] in S1, S1'. rewrite <- app_assoc in S1. rewrite <- !app_assoc in S1'.
    eapply (IH (v_rotated (v_sliced 0 p v)) _ pre mid (suf ++ [p - 0])); [lia|exact S1|exact S1'|assumption].
Qed.

Lemma dom_op_extend o v v' sz extra : head_op o -> c01_op o ->
  lay_ok (lay v) sz -> lay_ok (lay v') (sz ++ extra) ->
  (o = OFlatted -> v_is_flattable v' = true) ->
  dom_op o v = true -> dom_op o v' = true.
Proof.
  intros Hh Hc Hok Hok' Hfl Hd.
  assert (Hrk : (v_rank v <= v_rank v')%nat).
  { unfold v_rank. rewrite (lay_ok_length _ _ Hok), (lay_ok_length _ _ Hok'), app_length. lia. }
  destruct sz as [|p sz].
  - (* rank 0: only the empty call syntax is in its domain *)
    assert (Hr0 : v_rank v = 0%nat) by (unfold v_rank; rewrite (lay_ok_length _ _ Hok); reflexivity).
    destruct o; cbn [dom_op] in Hd; rewrite ?Hr0 in Hd; cbn in Hd; try discriminate; try contradiction.
    bprop. destruct args; [|cbn in H; lia]. cbn [dom_op dom_paren length]. bsolve.
  - change ((p :: sz) ++ extra) with (p :: sz ++ extra) in Hok'.
    pose proof Hok as Hok0. rewrite <- (app_nil_r sz) in Hok0.
    destruct (lay_ok_head_obs _ _ _ _ _ _ Hok0 Hok') as (Ee & Es & Hr & Hr').
    destruct o; cbn [dom_op] in *; try contradiction; rewrite <- ?Ee, <- ?Es; bprop; bsolve.
    + apply Hfl; reflexivity.
    + eapply (dom_paren_extend args v v' (p :: sz) extra []).
      * unfold v_rank in H. rewrite (lay_ok_length _ _ Hok) in H. lia.
      * rewrite app_nil_r. exact Hok.
      * rewrite app_nil_r. exact Hok'.
      * assumption.
Qed.

(* ---- the documented index maps do not look at trailing dimensions ---- *)
Lemma spec_paren_sz_app args : forall sz extra, (length args <= length sz)%nat ->
  spec_paren_sz args (sz ++ extra) = spec_paren_sz args sz ++ extra.
Proof.
  induction args as [|[i|a b|] rest IH]; intros sz extra Hl; cbn [spec_paren_sz]; [reflexivity| | |];
    (destruct sz as [|n sz]; [cbn in Hl; lia|]); cbn [app length] in *; rewrite IH by lia; reflexivity.
Qed.

Lemma spec_paren_map_app args : forall idx extra, (cnt_keep args <= length idx)%nat ->
  spec_paren_map args (idx ++ extra) = spec_paren_map args idx ++ extra.
Proof.
  induction args as [|[i|a b|] rest IH]; intros idx extra Hl; cbn [spec_paren_map cnt_keep] in *; [reflexivity| | |].
  - rewrite IH by assumption. reflexivity.
  - destruct idx as [|k idx]; [cbn in Hl; lia|]. cbn [app hdz hd tl length] in *. rewrite IH by lia. reflexivity.
  - destruct idx as [|k idx]; [cbn in Hl; lia|]. cbn [app hdz hd tl length] in *. rewrite IH by lia. reflexivity.
Qed.

Lemma spec_sz_app o v sz extra : head_op o -> lay_ok (lay v) sz -> dom_op o v = true ->
  spec_sz o (sz ++ extra) = spec_sz o sz ++ extra.
Proof.
  intros Hh Hok Hd. pose proof (lay_ok_length _ _ Hok) as Hlen.
  destruct o; cbn [head_op] in Hh; try contradiction; cbn [dom_op] in Hd; unfold v_rank in Hd; rewrite Hlen in Hd; bprop;
    try (destruct sz as [|n0 sz]; [cbn in *; lia|]; cbn [spec_sz app]; reflexivity);
    try (destruct sz as [|n0 [|n1 sz]]; cbn [length] in *; try lia; cbn [spec_sz app t_transpose]; reflexivity).
  cbn [spec_sz]. apply spec_paren_sz_app. lia.
Qed.

Lemma spec_map_app o v sz idx esz extra : head_op o -> lay_ok (lay v) sz -> dom_op o v = true ->
  length idx = length (spec_sz o sz) ->
  spec_map o (sz ++ esz) (idx ++ extra) = spec_map o sz idx ++ extra.
Proof.
  intros Hh Hok Hd Hli. pose proof (lay_ok_length _ _ Hok) as Hlen.
  destruct o; cbn [head_op] in Hh; try contradiction; cbn [dom_op] in Hd; unfold v_rank in Hd; rewrite Hlen in Hd; bprop.
  - reflexivity.
  - destruct sz as [|n0 sz]; [cbn in *; lia|]. destruct idx; [discriminate|]. reflexivity.
  - destruct sz as [|n0 sz]; [cbn in *; lia|]. destruct idx; [discriminate|]. reflexivity.
  - destruct sz as [|n0 sz]; [cbn in *; lia|]. destruct idx; [discriminate|]. reflexivity.
  - destruct sz as [|n0 sz]; [cbn in *; lia|]. destruct idx; [discriminate|]. reflexivity.
  - reflexivity.
  - destruct sz as [|n0 [|n1 sz]]; cbn [length] in *; try lia. destruct idx as [|i0 [|i1 idx]]; try discriminate. reflexivity.
  - destruct sz as [|n0 [|n1 sz]]; cbn [length] in *; try lia. destruct idx as [|i0 idx]; try discriminate. reflexivity.
  - destruct sz as [|n0 sz]; [cbn in *; lia|]. destruct idx as [|i0 [|i1 idx]]; try discriminate. reflexivity.
  - destruct sz as [|n0 sz]; [cbn in *; lia|]. destruct idx as [|i0 [|i1 idx]]; try discriminate. reflexivity.
  - destruct sz as [|n0 sz]; [cbn in *; lia|]. destruct idx as [|i0 [|i1 idx]]; try discriminate. reflexivity.
  - destruct sz as [|n0 [|n1 sz]]; cbn [length] in *; try lia. destruct idx as [|i0 idx]; try discriminate. reflexivity.
  - cbn [spec_map]. apply spec_paren_map_app. rewrite Hli. cbn [spec_sz]. apply spec_paren_sz_length. lia.
Qed.

Lemma is_flattable_app l e b : (2 <= length l)%nat ->
  v_is_flattable (mkview (l ++ [e]) b) = v_is_flattable (mkview l b).
Proof. destruct l as [|d0 [|d1 l]]; cbn [length]; try lia. reflexivity. Qed.

Section ComposeN.
  Variable x : pview.
  Variable sz : list Z.
  Variable o : op.
  Variables szU n : Z.
  Hypothesis Hok : lay_ok (lay (p_view x)) sz.
  Hypothesis Hc : c01_op o.
  Hypothesis Hh : head_op o.
  Hypothesis Hd : p_dom_op o x = true.
  Hypothesis HszT : 0 < p_esz x.
  Hypothesis HszU : 0 < szU.
  Hypothesis Hn : 0 <= n.
  Hypothesis Hdom : dom_scale (p_esz x) szU (lay (p_view x)) = true.
  Hypothesis Hdom' : dom_scale (p_esz x) szU (lay (exec_op o (p_view x))) = true.

  Let cx := p_reinterpret_n szU n x.

  Lemma composeN_ok0 : lay_ok (lay (p_view cx)) (sz ++ [n]).
  Proof. apply reinterpret_n_ok; assumption. Qed.

  Lemma composeN_dom : p_dom_op o cx = true.
  Proof.
    unfold p_dom_op in *.
    eapply (dom_op_extend o (p_view x) (p_view cx) sz [n]); try assumption; [exact composeN_ok0|].
    intros ->. cbn [dom_op] in Hd. bprop.
    destruct (p_reinterpret_n_lay szU n x) as (El & Eb & _). fold cx in El, Eb.
    destruct (p_view cx) as [l' b'] eqn:Ecx. cbn [lay base] in El, Eb. subst l'.
    rewrite is_flattable_app.
    2:{ unfold ProjectC12Based.l_scale_b. rewrite map_length. unfold v_rank in H. lia. }
    destruct (p_view x) as [l b] eqn:E. cbn [lay] in *.
    eapply is_flattable_scale; eassumption.
  Qed.

  Lemma composeN_ok1 : lay_ok (lay (p_view (p_exec_op o cx))) (spec_sz o sz ++ [n]).
  Proof.
    cbn [p_exec_op p_view]. rewrite <- (spec_sz_app o (p_view x) sz [n] Hh Hok Hd).
    exact (proj1 (step_op _ _ o Hc composeN_ok0 composeN_dom)).
  Qed.

  Lemma composeN_ok2 : lay_ok (lay (p_view (p_reinterpret_n szU n (p_exec_op o x)))) (spec_sz o sz ++ [n]).
  Proof.
    apply reinterpret_n_ok; cbn [p_exec_op p_view p_esz]; try assumption.
    exact (proj1 (step_op _ sz o Hc Hok Hd)).
  Qed.

  Lemma composeN_addr idx j : valid_idx (spec_sz o sz) idx -> 0 <= j < n ->
    p_addr (p_exec_op o cx) (idx ++ [j]) = p_addr (p_reinterpret_n szU n (p_exec_op o x)) (idx ++ [j]).
  Proof.
    intros Hv Hj.
    pose proof (step_op _ sz o Hc Hok Hd) as [Hok2 S2].
    pose proof (step_op _ _ o Hc composeN_ok0 composeN_dom) as [_ S1].
    assert (Hv' : valid_idx (spec_sz o (sz ++ [n])) (idx ++ [j])).
    { rewrite (spec_sz_app o (p_view x) sz [n] Hh Hok Hd). apply Forall2_app; [exact Hv|]. constructor; [lia|constructor]. }
    destruct (S1 _ Hv') as [_ E1]. destruct (S2 idx Hv) as [Hv0 E2].
    rewrite (spec_map_app o (p_view x) sz idx [n] [j] Hh Hok Hd (valid_idx_length _ _ Hv)) in E1.
    rewrite p_addr_exec_op, E1.
    change (p_org cx + p_esz cx * v_addr (p_view cx) (spec_map o sz idx ++ [j]))
      with (p_addr cx (spec_map o sz idx ++ [j])).
    unfold cx. rewrite (reinterpret_n_addr x sz Hok szU HszU Hdom n _ j (valid_idx_length _ _ Hv0)).
    rewrite (reinterpret_n_addr (p_exec_op o x) (spec_sz o sz)); cbn [p_exec_op p_view p_esz]; try assumption.
    2:{ apply valid_idx_length; exact Hv. }
    rewrite p_addr_exec_op, E2. reflexivity.
  Qed.
End ComposeN.

Theorem compose_reinterpret_n x sz o szU n :
  lay_ok (lay (p_view x)) sz -> c01_op o -> head_op o -> p_dom_op o x = true ->
  dom_reinterpret_n (p_esz x) szU n = true ->
     p_dom_op o (p_reinterpret_n szU n x) = true
  /\ lay_ok (lay (p_view (p_exec_op o (p_reinterpret_n szU n x)))) (spec_sz o sz ++ [n])
  /\ lay_ok (lay (p_view (p_reinterpret_n szU n (p_exec_op o x)))) (spec_sz o sz ++ [n])
  /\ forall idx j, valid_idx (spec_sz o sz) idx -> 0 <= j < n ->
       p_addr_brackets (p_exec_op o (p_reinterpret_n szU n x)) (idx ++ [j])
       = p_addr_brackets (p_reinterpret_n szU n (p_exec_op o x)) (idx ++ [j]).
Proof.
  intros Hok Hc Hh Hd Hdn. unfold dom_reinterpret_n in Hdn. bprop.
  assert (Hrem : Z.rem (p_esz x) szU = 0).
  { match goal with H : p_esz x = _ |- _ => rewrite H end. rewrite Z.mul_comm. apply Z.rem_mul. lia. }
  assert (D1 : dom_scale (p_esz x) szU (lay (p_view x)) = true) by (apply dom_scale_divides; [lia|assumption]).
  assert (D2 : dom_scale (p_esz x) szU (lay (exec_op o (p_view x))) = true) by (apply dom_scale_divides; [lia|assumption]).
  split; [eapply composeN_dom; eassumption|].
  split; [eapply composeN_ok1; eassumption|].
  split; [eapply composeN_ok2; eassumption|].
  intros idx j Hv Hj. rewrite !p_addr_brackets_eq. eapply composeN_addr; eassumption.
Qed.

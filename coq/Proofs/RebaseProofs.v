(* C19: every view operation on a re-based view is the same operation, with shifted index arguments,
   on its zero-based twin (norm): same base, strides, sizes; and the element at index idx of the
   re-based view is the element at idx - firsts of the twin. *)
From BM Require Import Base.Tactics Model.Layout Model.View Model.Spec Model.Iter Model.Rebase
  Proofs.LayoutProofs Proofs.ViewProofs Proofs.ViewProofs2 Proofs.IterProofs.
Local Open Scope Z_scope.

Ltac bands := repeat match goal with H : andb _ _ = true |- _ => apply andb_prop in H; destruct H end.

Lemma Some_inj {A} (x y : A) : Some x = Some y -> x = y.
Proof. intros H; injection H; auto. Qed.

Definition dok (d : dim) : Prop := exists f n, dim_okg d f n.
Definition lok (l : layout) : Prop := Forall dok l.

Lemma size_norm d : d_size (norm_d d) = d_size d.
Proof. reflexivity. Qed.
Lemma dok_norm d : dok d -> dim_okg (norm_d d) 0 (d_size d).
Proof.
  intros (f & n & H). rewrite (dim_okg_size _ _ _ H). destruct H as (Ho & Hn & H0 & Hs).
  unfold dim_okg, norm_d; cbn. repeat split; try lia; assumption.
Qed.
Lemma ext_norm d : dok d -> d_extension (norm_d d) = (0, d_size d).
Proof.
  intros H. rewrite (dim_okg_extension _ _ _ (dok_norm _ H)). unfold ext_of.
  destruct (d_size d =? 0) eqn:E; bprop; [rewrite E|]; reflexivity.
Qed.
(* the first valid index and the offset of a non-empty dimension *)
Lemma dok_offset d : dok d -> 0 < d_size d -> d_offset d = fst (d_extension d) * d_stride d.
Proof.
  intros (f & n & H) Hn. rewrite (dim_okg_extension _ _ _ H). rewrite (dim_okg_size _ _ _ H) in Hn.
  unfold ext_of. replace (n =? 0) with false by (symmetry; apply Z.eqb_neq; lia). cbn. apply H.
Qed.
Lemma dok_ext_size d : dok d -> r_size (d_extension d) = d_size d.
Proof.
  intros (f & n & H). rewrite (dim_okg_extension _ _ _ H), (dim_okg_size _ _ _ H). unfold ext_of, r_size.
  destruct (n =? 0) eqn:E; bprop; cbn; lia.
Qed.
Lemma contains_pos d i : dok d -> r_contains (d_extension d) i = true -> 0 < d_size d.
Proof. intros H Hc. rewrite <- (dok_ext_size _ H). unfold r_contains, r_size in *. bprop. lia. Qed.

Lemma lok_perm_rot a r : lok (a :: r) -> lok (r ++ [a]).
Proof. intros H. inv H. apply Forall_app. split; [assumption|constructor; [assumption|constructor]]. Qed.

Lemma norm_rotated v : norm (v_rotated v) = v_rotated (norm v).
Proof.
  destruct v as [l b]. unfold norm, v_rotated; cbn. f_equal. destruct l as [|a r]; [reflexivity|].
  cbn [l_rotate map]. rewrite !rot_ins_app, map_app. reflexivity.
Qed.
Lemma l_unrotate_spec l : l_unrotate l = t_unrot l.
Proof.
  destruct l as [|a r] using rev_ind; [reflexivity|]. rewrite l_unrotate_snoc, t_unrot_snoc. reflexivity.
Qed.
Lemma norm_unrotated v : norm (v_unrotated v) = v_unrotated (norm v).
Proof.
  destruct v as [l b]. unfold norm, v_unrotated; cbn. f_equal. rewrite !l_unrotate_spec.
  destruct l as [|a r] using rev_ind; [reflexivity|]. rewrite map_app. cbn [map]. rewrite !t_unrot_snoc. reflexivity.
Qed.
Lemma lok_rotated v : lok (lay v) -> lok (lay (v_rotated v)).
Proof. destruct v as [[|a r] b]; cbn; [auto|]. rewrite rot_ins_app. apply lok_perm_rot. Qed.
Lemma lok_unrotated v : lok (lay v) -> lok (lay (v_unrotated v)).
Proof.
  destruct v as [l b]; cbn. rewrite l_unrotate_spec. destruct l as [|a r _] using rev_ind; [auto|].
  rewrite t_unrot_snoc. intros H. apply Forall_app in H as [H1 H2]. inv H2. constructor; assumption.
Qed.

(* ---- head-dimension facts ---- *)
Section Head.
  Variables (d : dim) (sub : layout) (b : Z).
  Hypothesis Hd : dok d.
  Let v := mkview (d :: sub) b.

  Lemma vsize_norm : v_size (norm v) = v_size v. Proof. reflexivity. Qed.
  Lemma vext_norm : v_extension (norm v) = (0, d_size d).
  Proof. unfold v, norm, v_extension; cbn. apply ext_norm; assumption. Qed.
  Lemma vfirst_off : 0 < d_size d -> d_offset d = v_first v * d_stride d.
  Proof. intros H. unfold v_first, v, v_extension; cbn. apply dok_offset; assumption. Qed.
  Lemma vext_size : r_size (v_extension v) = d_size d.
  Proof. unfold v, v_extension; cbn. apply dok_ext_size; assumption. Qed.
End Head.

(* slicing an EMPTY re-based dimension moves the base pointer by minus its offset; the resulting view has no
   element, so this is unobservable, but the syntactic statement below needs it excluded *)
Definition slice_safe (v : view) : bool :=
  match lay v with [] => true | d :: _ => (0 <? d_size d) || (d_offset d =? 0) end.

Lemma in_slice_shift e a b f : in_slice e a b = true -> fst e = f ->
  in_slice (0, r_size e) (a - f) (b - f) = true.
Proof. unfold in_slice, r_size. intros H <-. bprop. cbn. bsolve. Qed.

(* sliced keeps a well-formed head when a <= b *)
Lemma dok_slice d a b : dok d -> a <= b -> dok (d_slice d a b).
Proof.
  intros (f & n & H) Hab. pose proof (dim_okg_size _ _ _ H) as Hsz. destruct H as (Ho & Hn & H0 & Hs).
  unfold dok, d_slice, dim_okg; cbn.
  destruct (d_nelems d =? 0) eqn:E; bprop.
  - exists f, 0. repeat split; try lia; try assumption.
  - assert (n <> 0) by (intro; subst; lia). assert (0 < d_stride d) by lia.
    rewrite Hsz, Hn, (Z.mul_comm n), Z.quot_mul by lia.
    exists f, (b - a). repeat split; try lia; try assumption.
Qed.
Lemma dok_mk s o n f : o = f * s -> 0 <= n -> (0 < n -> 0 < s) -> dok (mkdim s o (n * s)).
Proof. intros. exists f, n. unfold dim_okg; cbn. repeat split; assumption. Qed.

Definition tw (v : view) (o : op) : Prop :=
  run_ops (twin_op v o) (norm v) = Some (norm (exec_op o v)) /\ lok (lay (exec_op o v)).

Ltac run1 := cbn [run_ops twin_op app]; unfold apply_op.

Lemma rank_norm v : v_rank (norm v) = v_rank v.
Proof. unfold v_rank, norm; cbn. apply map_length. Qed.

Lemma tw_index v i : lok (lay v) -> dom_op (OIndex i) v = true -> tw v (OIndex i).
Proof.
  destruct v as [[|d sub] b]; intros Hl Hd; cbn in Hd; [discriminate|]. inv Hl. bprop.
  pose proof (contains_pos _ _ H1 H0) as Hpos.
  split; [|cbn; assumption]. run1.
  assert (Hdom : dom_op (OIndex (i - v_first (mkview (d :: sub) b))) (norm (mkview (d :: sub) b)) = true).
  { cbn [dom_op]. rewrite rank_norm, vext_norm by assumption. unfold v_first, v_extension; cbn [lay l_extension].
    unfold r_contains in *. bprop. pose proof (dok_ext_size _ H1) as Hs. unfold r_size in Hs.
    cbn [fst snd] in *. bsolve. }
  rewrite Hdom. cbn [exec_op]. f_equal. unfold v_index, norm, hd_dim; cbn.
  rewrite (vfirst_off d sub b H1 Hpos). f_equal. lia.
Qed.

(* the common core of sliced / blocked / paren ranges *)
Lemma sliced_norm v a b : lok (lay v) -> (1 <=? Z.of_nat (v_rank v)) = true ->
  in_slice (v_extension v) a b = true -> slice_safe v = true ->
     in_slice (v_extension (norm v)) (a - v_first v) (b - v_first v) = true
  /\ norm (v_sliced a b v) = v_sliced (a - v_first v) (b - v_first v) (norm v)
  /\ lok (lay (v_sliced a b v)).
Proof.
  destruct v as [[|d sub] bs]; intros Hl Hr Hin Hsafe; [cbn in Hr; discriminate|]. inv Hl.
  rewrite vext_norm by assumption. rewrite <- (vext_size d sub bs H1).
  split; [apply in_slice_shift; [assumption|reflexivity]|].
  assert (Hab : a <= b) by (unfold in_slice in Hin; bprop; lia).
  assert (Hoff : d_offset d = v_first (mkview (d :: sub) bs) * d_stride d).
  { unfold slice_safe in Hsafe; cbn in Hsafe. bprop. destruct Hsafe as [Hp|Hz]; bprop.
    - apply vfirst_off; assumption.
    - (* offset 0 and an empty dimension: first index is 0 *)
      destruct (Z_lt_le_dec 0 (d_size d)); [apply vfirst_off; assumption|].
      destruct H1 as (f & n & H). pose proof (dim_okg_size _ _ _ H) as Hs.
      unfold v_first, v_extension; cbn. rewrite (dim_okg_extension _ _ _ H). unfold ext_of.
      destruct H as (_ & _ & H0 & _). replace (n =? 0) with true by (symmetry; apply Z.eqb_eq; lia). cbn. lia. }
  set (f := v_first (mkview (d :: sub) bs)) in *.
  destruct sub as [|d1 sub'].
  - split.
    + unfold v_sliced, norm; cbn. f_equal; [|lia]. unfold d_slice, norm_d; cbn.
      f_equal. f_equal. destruct (d_nelems d =? 0); [reflexivity|]. f_equal. lia.
    + cbn. constructor; [apply dok_slice; assumption|constructor].
  - split.
    + unfold v_sliced, norm; cbn. f_equal; [|lia]. f_equal. unfold norm_d; cbn. f_equal. lia.
    + cbn. constructor; [|assumption].
      destruct H1 as (f0 & n & (Ho & Hn & H0 & Hs)).
      destruct (Z.eq_dec a b) as [->|Hne].
      * exists f0, 0. unfold dim_okg; cbn. repeat split; try lia; try assumption.
      * (* a < b inside the extension: the dimension is non-empty, stride > 0 *)
        assert (Hpos : 0 < n).
        { pose proof (dim_okg_extension d f0 n (conj Ho (conj Hn (conj H0 Hs)))) as He.
          unfold v_extension in Hin; cbn in Hin. rewrite He in Hin. unfold in_slice, ext_of in Hin.
          destruct (n =? 0) eqn:E; bprop; cbn in *; lia. }
        exists f0, (b - a). unfold dim_okg; cbn. repeat split; try lia; try assumption; intros _; apply Hs; exact Hpos.
Qed.

Lemma tw_sliced v a b : lok (lay v) -> slice_safe v = true -> dom_op (OSliced a b) v = true -> tw v (OSliced a b).
Proof.
  intros Hl Hs Hd. cbn [dom_op] in Hd. bands.
  destruct (sliced_norm v a b Hl H H0 Hs) as (Hin & Hn & Hok).
  split; [|exact Hok]. run1. cbn [dom_op]. rewrite rank_norm, H, Hin. cbn [andb exec_op]. f_equal. symmetry. exact Hn.
Qed.

Lemma norm_reindexed v i : norm (v_reindexed i v) = norm v.
Proof. destruct v as [[|d sub] b]; reflexivity. Qed.
Lemma lok_reindexed v i : lok (lay v) -> lok (lay (v_reindexed i v)).
Proof.
  destruct v as [[|d sub] b]; cbn; [auto|]. intros H. inv H. constructor; [|assumption].
  destruct H2 as (f & n & (Ho & Hn & H0 & Hs)). exists i, n. unfold dim_okg, d_reindex; cbn. repeat split; assumption.
Qed.

Lemma tw_blocked v a b : lok (lay v) -> slice_safe v = true -> dom_op (OBlocked a b) v = true -> tw v (OBlocked a b).
Proof.
  intros Hl Hs Hd. cbn [dom_op] in Hd. bands.
  destruct (sliced_norm v a b Hl H H0 Hs) as (Hin & Hn & Hok).
  split; [|cbn [exec_op]; unfold v_blocked; apply lok_reindexed; exact Hok]. run1. cbn [dom_op].
  rewrite rank_norm, H, Hin. cbn [andb exec_op]. f_equal. unfold v_blocked. rewrite norm_reindexed. symmetry. exact Hn.
Qed.

Lemma tw_reindexed v i : lok (lay v) -> tw v (OReindexed i).
Proof. intros Hl. split; [run1; cbn [run_ops exec_op]; rewrite norm_reindexed; reflexivity|apply lok_reindexed; assumption]. Qed.

(* operations whose domain and arithmetic never read an offset *)
Lemma flattable_norm v : v_is_flattable (norm v) = v_is_flattable v.
Proof. destruct v as [[|d [|d1 sub]] b]; reflexivity. Qed.

Lemma norm_strided v s : norm (v_strided s v) = v_strided s (norm v).
Proof. destruct v as [[|d sub] b]; reflexivity. Qed.
Lemma lok_strided v s : lok (lay v) -> 1 <= s -> Z.rem (v_size v) s = 0 -> lok (lay (v_strided s v)).
Proof.
  destruct v as [[|d sub] b]; cbn; [auto|]. intros H Hs Hr. inv H. constructor; [|assumption].
  destruct H2 as (f & n & H). unfold v_size in Hr; cbn in Hr. rewrite (dim_okg_size _ _ _ H) in Hr.
  destruct H as (Ho & Hn & H0 & Hst).
  exactq n s q. exists f, q. unfold dim_okg; cbn. repeat split; try nia. rewrite Hn, Hq. ring.
Qed.

Lemma tw_strided v s : lok (lay v) -> dom_op (OStrided s) v = true -> tw v (OStrided s).
Proof.
  intros Hl Hd. cbn [dom_op] in Hd.
  apply andb_prop in Hd as [Hd Hr]. apply andb_prop in Hd as [HD Hs]. split.
  - run1. cbn [dom_op]. rewrite rank_norm. destruct v as [[|d sub] b]; [cbn in HD; discriminate|].
    rewrite vsize_norm. rewrite HD, Hs, Hr. cbn [andb exec_op]. rewrite norm_strided. reflexivity.
  - cbn [exec_op]. bprop. apply lok_strided; assumption.
Qed.


Lemma size_sliced v a b : lok (lay v) -> (1 <=? Z.of_nat (v_rank v)) = true ->
  in_slice (v_extension v) a b = true -> v_size (v_sliced a b v) = b - a.
Proof.
  destruct v as [[|d sub] bs]; intros Hl Hr Hin; [cbn in Hr; discriminate|]. inv Hl.
  destruct H1 as (f & n & Hd). pose proof (dim_okg_size _ _ _ Hd) as Hsz.
  pose proof (dim_okg_extension _ _ _ Hd) as He. destruct Hd as (Ho & Hn & H0 & Hs).
  unfold v_extension in Hin; cbn in Hin. rewrite He in Hin. unfold in_slice, ext_of in Hin.
  assert (Hcase : (n = 0 /\ a = 0 /\ b = 0) \/ (0 < n /\ a <= b)).
  { destruct (n =? 0) eqn:E; bprop; cbn in *; [left|right]; lia. }
  unfold v_size. destruct sub as [|d1 sub'].
  - unfold v_sliced; cbn [lay l_size]. unfold d_slice. rewrite Hsz. unfold d_size; cbn [d_nelems d_stride].
    destruct Hcase as [(-> & -> & ->)|(Hp & Hab)].
    + replace (d_nelems d) with 0 by lia. reflexivity.
    + assert (0 < d_stride d) by lia.
      replace (d_nelems d =? 0) with false by (symmetry; apply Z.eqb_neq; nia).
      rewrite Hn. rewrite (Z.mul_comm n), (Z.quot_mul (d_stride d)) by lia.
      destruct (d_stride d * (b - a) =? 0) eqn:E; bprop; [nia|].
      rewrite Z.mul_comm, Z.quot_mul by lia. reflexivity.
  - unfold v_sliced; cbn [lay l_size]. unfold d_size; cbn [d_nelems d_stride].
    destruct Hcase as [(-> & -> & ->)|(Hp & Hab)].
    + replace (d_stride d * (0 - 0)) with 0 by lia. reflexivity.
    + assert (0 < d_stride d) by lia.
      destruct (d_stride d * (b - a) =? 0) eqn:E; bprop; [nia|].
      rewrite Z.mul_comm, Z.quot_mul by lia. reflexivity.
Qed.

Lemma tw_slicedS v a b s : lok (lay v) -> slice_safe v = true -> dom_op (OSlicedS a b s) v = true -> tw v (OSlicedS a b s).
Proof.
  intros Hl Hsafe Hd. cbn [dom_op] in Hd.
  apply andb_prop in Hd as [Hd Hr]. apply andb_prop in Hd as [Hd Hs]. apply andb_prop in Hd as [HD Hin].
  destruct (sliced_norm v a b Hl HD Hin Hsafe) as (Hin' & Hn & Hok).
  split.
  - run1. cbn [dom_op]. rewrite rank_norm, HD, Hin', Hs.
    replace (b - v_first v - (a - v_first v)) with (b - a) by lia. rewrite Hr.
    cbn [andb exec_op]. rewrite norm_strided, Hn. reflexivity.
  - cbn [exec_op]. bprop. apply lok_strided; [assumption|lia|].
    rewrite size_sliced; [assumption|assumption|apply Z.leb_le; assumption|assumption].
Qed.

(* ---- operations that never read an offset ---- *)
Lemma dok_drop d k : dok d -> 0 <= k <= d_size d -> dok (d_drop d k).
Proof.
  intros (f & n & H) Hk. rewrite (dim_okg_size _ _ _ H) in Hk. unfold d_drop. rewrite (dim_okg_size _ _ _ H).
  destruct H as (Ho & Hn & H0 & Hs). exists f, (n - k). unfold dim_okg; cbn. repeat split; try lia.
Qed.
Lemma dok_take d k : dok d -> 0 <= k <= d_size d -> dok (d_take d k).
Proof.
  intros (f & n & H) Hk. rewrite (dim_okg_size _ _ _ H) in Hk. destruct H as (Ho & Hn & H0 & Hs).
  exists f, k. unfold dim_okg, d_take; cbn. repeat split; try lia.
Qed.

Lemma tw_dropped v k : lok (lay v) -> dom_op (ODropped k) v = true -> tw v (ODropped k).
Proof.
  destruct v as [[|d sub] b]; intros Hl Hd; cbn [dom_op] in Hd; [cbn in Hd; discriminate|]. inv Hl.
  split.
  - run1. cbn [dom_op]. rewrite rank_norm, vsize_norm, Hd. reflexivity.
  - cbn. bprop. constructor; [apply dok_drop; [assumption|unfold v_size in *; cbn in *; lia]|assumption].
Qed.
Lemma tw_taked v k : lok (lay v) -> dom_op (OTaked k) v = true -> tw v (OTaked k).
Proof.
  destruct v as [[|d sub] b]; intros Hl Hd; cbn [dom_op] in Hd; [cbn in Hd; discriminate|]. inv Hl.
  split.
  - run1. cbn [dom_op]. rewrite rank_norm, vsize_norm, Hd. reflexivity.
  - cbn. bprop. constructor; [apply dok_take; [assumption|unfold v_size in *; cbn in *; lia]|assumption].
Qed.

Lemma tw_rotated v : lok (lay v) -> dom_op ORotated v = true -> tw v ORotated.
Proof.
  intros Hl Hd. split; [|apply lok_rotated; assumption]. run1. cbn [dom_op] in *. rewrite rank_norm, Hd.
  cbn [exec_op]. rewrite norm_rotated. reflexivity.
Qed.
Lemma tw_unrotated v : lok (lay v) -> dom_op OUnrotated v = true -> tw v OUnrotated.
Proof.
  intros Hl Hd. split; [|apply lok_unrotated; assumption]. run1. cbn [dom_op] in *. rewrite rank_norm, Hd.
  cbn [exec_op]. rewrite norm_unrotated. reflexivity.
Qed.
Lemma tw_transposed v : lok (lay v) -> dom_op OTransposed v = true -> tw v OTransposed.
Proof.
  intros Hl Hd. split.
  - run1. cbn [dom_op] in *. rewrite rank_norm, Hd. cbn [exec_op]. destruct v as [[|a [|b r]] bs]; reflexivity.
  - destruct v as [[|a [|b r]] bs]; cbn; try assumption. inv Hl. inv H2. repeat constructor; assumption.
Qed.
Lemma tw_reversed v : lok (lay v) -> dom_op OReversed v = true -> tw v OReversed.
Proof.
  intros Hl Hd. split.
  - run1. cbn [dom_op] in *. rewrite rank_norm, Hd. cbn [exec_op]. destruct v as [l bs].
    unfold norm, v_reversed, l_reverse; cbn. rewrite map_rev. reflexivity.
  - cbn. unfold l_reverse. apply Forall_rev. assumption.
Qed.

Lemma tw_partitioned v k : lok (lay v) -> dom_op (OPartitioned k) v = true -> tw v (OPartitioned k).
Proof.
  destruct v as [[|d sub] b]; intros Hl Hd; cbn [dom_op] in Hd; [cbn in Hd; discriminate|]. inv Hl.
  split.
  - run1. cbn [dom_op]. rewrite rank_norm, vsize_norm, Hd. reflexivity.
  - cbn. bprop. destruct H1 as (f & n & Hk). unfold v_size in *; cbn in *. rewrite (dim_okg_size _ _ _ Hk) in *.
    destruct Hk as (Ho & Hn & Hn0 & Hs). exactq n k q. assert (0 < d_stride d) by lia.
    assert (Eq : Z.quot (d_nelems d) k = q * d_stride d).
    { rewrite Hn, Hq. replace (q * k * d_stride d) with (q * d_stride d * k) by ring. apply Z.quot_mul. lia. }
    rewrite Eq. constructor; [|constructor; [|assumption]].
    + exists 0, k. unfold dim_okg; cbn [d_offset d_stride d_nelems]. repeat split; try nia.
    + exists f, q. unfold dim_okg; cbn [d_offset d_stride d_nelems]. repeat split; try nia.
Qed.
Lemma tw_chunked v c : lok (lay v) -> dom_op (OChunked c) v = true -> tw v (OChunked c).
Proof.
  intros Hl Hd. pose proof Hd as Hd'. cbn [dom_op] in Hd.
  destruct v as [[|d sub] b]; [cbn in Hd; discriminate|]. bprop.
  assert (Hp : dom_op (OPartitioned (Z.quot (v_size (mkview (d :: sub) b)) c)) (mkview (d :: sub) b) = true).
  { cbn [dom_op]. set (n := v_size (mkview (d :: sub) b)) in *. exactq n c q.
    assert (0 < q) by nia. bsolve. rewrite Hq. replace (q * c) with (c * q) by ring. apply Z.rem_mul. lia. }
  destruct (tw_partitioned _ _ Hl Hp) as [Hrun Hok]. split; [|exact Hok].
  run1. rewrite <- (vsize_norm d sub b) in Hrun at 1. cbn [run_ops twin_op app] in Hrun. unfold apply_op in Hrun.
  cbn [dom_op]. rewrite rank_norm, vsize_norm.
  replace (1 <=? Z.of_nat (v_rank (mkview (d :: sub) b))) with true by (symmetry; apply Z.leb_le; lia).
  replace (1 <=? c) with true by (symmetry; apply Z.leb_le; lia).
  replace (0 <? v_size (mkview (d :: sub) b)) with true by (symmetry; apply Z.ltb_lt; lia).
  replace (Z.rem (v_size (mkview (d :: sub) b)) c =? 0) with true by (symmetry; apply Z.eqb_eq; lia).
  reflexivity.
Qed.
Lemma tw_halved v : lok (lay v) -> dom_op OHalved v = true -> tw v OHalved.
Proof.
  destruct v as [[|d sub] b]; intros Hl Hd; cbn [dom_op] in Hd; [cbn in Hd; discriminate|]. inv Hl.
  split.
  - run1. cbn [dom_op]. rewrite rank_norm, vsize_norm, Hd. reflexivity.
  - cbn. bprop. destruct H1 as (f & n & Hk). unfold v_size in *; cbn in *. rewrite (dim_okg_size _ _ _ Hk) in *.
    destruct Hk as (Ho & Hn & Hn0 & Hs). exactq n 2 q. assert (0 < d_stride d) by lia.
    assert (Eq : Z.quot (d_nelems d) 2 = q * d_stride d).
    { rewrite Hn, Hq. replace (q * 2 * d_stride d) with (q * d_stride d * 2) by ring. apply Z.quot_mul. lia. }
    rewrite Eq. constructor; [|constructor; [|assumption]].
    + exists 0, 2. unfold dim_okg; cbn [d_offset d_stride d_nelems]. repeat split; try nia.
    + unfold d_take. exists f, q. unfold dim_okg; cbn [d_offset d_stride d_nelems]. repeat split; try nia.
Qed.
Lemma tw_flatted v : lok (lay v) -> dom_op OFlatted v = true -> tw v OFlatted.
Proof.
  intros Hl Hd. cbn [dom_op] in Hd. apply andb_prop in Hd as [HD Hf].
  split.
  - run1. cbn [dom_op]. rewrite rank_norm, flattable_norm, HD, Hf. cbn [andb exec_op].
    destruct v as [[|d [|d1 sub]] b]; reflexivity.
  - destruct v as [[|d [|d1 sub]] b]; cbn; try assumption. inv Hl. inv H2. constructor; [|assumption].
    destruct H1 as (f0 & n0 & Hk0). destruct H3 as (f1 & n1 & Hk1).
    rewrite (dim_okg_size _ _ _ Hk0). destruct Hk0 as (_ & _ & H00 & _). destruct Hk1 as (Ho & Hn & H0 & Hs).
    exists f1, (n1 * n0). unfold dim_okg; cbn [d_offset d_stride d_nelems]. repeat split; try nia.
Qed.

(* ---- call syntax ---- *)
Fixpoint paren_safe (args : list parg) (v : view) : bool :=
  match args with
  | [] => true
  | PIdx i :: rest => paren_safe rest (v_index i v)
  | PRange a b :: rest => slice_safe v && paren_safe rest (v_rotated (v_sliced a b v))
  | PAll :: rest => let e := all_range v in slice_safe v && paren_safe rest (v_rotated (v_sliced (fst e) (snd e) v))
  end.

Lemma all_range_g v : lok (lay v) -> (1 <=? Z.of_nat (v_rank v)) = true ->
  all_range v = v_extension v /\ in_slice (v_extension v) (fst (v_extension v)) (snd (v_extension v)) = true.
Proof.
  destruct v as [[|d sub] b]; intros Hl Hr; [cbn in Hr; discriminate|]. inv Hl.
  destruct H1 as (f & n & H). unfold all_range, v_extension; cbn [lay l_extension].
  rewrite (dim_okg_extension _ _ _ H). destruct H as (_ & _ & H0 & _). unfold ext_of.
  destruct (n =? 0) eqn:E; bprop; unfold r_inter, r_size, in_slice; cbn [fst snd].
  - split; [reflexivity|]. reflexivity.
  - rewrite !Z.max_id, !Z.min_id. rewrite Z.min_l by lia. split; [f_equal; lia|bsolve].
Qed.
Lemma all_range_norm v : lok (lay v) -> (1 <=? Z.of_nat (v_rank v)) = true ->
  all_range (norm v) = (0, r_size (v_extension v)).
Proof.
  destruct v as [[|d sub] b]; intros Hl Hr; [cbn in Hr; discriminate|]. inv Hl.
  unfold all_range. rewrite vext_norm by assumption. rewrite (vext_size d sub b H1).
  destruct H1 as (f & n & H). rewrite (dim_okg_size _ _ _ H). destruct H as (_ & _ & H0 & _).
  unfold r_inter, r_size; cbn [fst snd]. rewrite !Z.max_id, !Z.min_id. rewrite Z.min_l by lia. f_equal. lia.
Qed.

Lemma index_norm v i : lok (lay v) -> (1 <=? Z.of_nat (v_rank v)) = true -> r_contains (v_extension v) i = true ->
     r_contains (v_extension (norm v)) (i - v_first v) = true
  /\ norm (v_index i v) = v_index (i - v_first v) (norm v)
  /\ lok (lay (v_index i v)).
Proof.
  intros Hl Hr Hc.
  assert (Hd : dom_op (OIndex i) v = true) by (cbn [dom_op]; rewrite Hr, Hc; reflexivity).
  destruct (tw_index v i Hl Hd) as [Hrun Hok]. cbn [exec_op] in Hok. split; [|split; [|exact Hok]].
  - cbn [run_ops twin_op app] in Hrun. unfold apply_op in Hrun.
    destruct (dom_op (OIndex (i - v_first v)) (norm v)) eqn:E; [|discriminate]. cbn [dom_op] in E.
    apply andb_prop in E as [_ E]. exact E.
  - cbn [run_ops twin_op app] in Hrun. unfold apply_op in Hrun.
    destruct (dom_op (OIndex (i - v_first v)) (norm v)); [|discriminate]. cbn [exec_op] in Hrun. apply Some_inj in Hrun. symmetry. exact Hrun.
Qed.

Lemma rank_rotated v : v_rank (v_rotated v) = v_rank v.
Proof. destruct v as [[|a r] b]; unfold v_rank; cbn; [reflexivity|]. rewrite rot_ins_app, app_length. cbn. lia. Qed.

Lemma paren_norm args : forall v, lok (lay v) -> dom_paren args v = true -> paren_safe args v = true ->
     dom_paren (twin_paren args v) (norm v) = true
  /\ norm (v_paren args v) = v_paren (twin_paren args v) (norm v)
  /\ lok (lay (v_paren args v)).
Proof.
  induction args as [|[i|a b|] rest IH]; intros v Hl Hd Hs; cbn [dom_paren paren_safe twin_paren v_paren] in *.
  - repeat split; assumption.
  - apply andb_prop in Hd as [Hd Hrest]. apply andb_prop in Hd as [Hr Hc].
    destruct (index_norm v i Hl Hr Hc) as (Hc' & Hn & Hok).
    destruct (IH _ Hok Hrest Hs) as (Hd' & Hn' & Hok').
    rewrite rank_norm, Hr, Hc'. cbn [andb]. rewrite <- Hn. repeat split; assumption.
  - apply andb_prop in Hd as [Hd Hrest]. apply andb_prop in Hd as [Hr Hin]. apply andb_prop in Hs as [Hs Hsr].
    destruct (sliced_norm v a b Hl Hr Hin Hs) as (Hin' & Hn & Hok).
    pose proof (lok_rotated _ Hok) as Hokr.
    destruct (IH _ Hokr Hrest Hsr) as (Hd' & Hn' & Hok').
    rewrite rank_norm, Hr, Hin'. cbn [andb]. rewrite <- Hn, <- norm_rotated.
    split; [exact Hd'|]. split; [rewrite norm_unrotated, Hn'; reflexivity|apply lok_unrotated; exact Hok'].
  - apply andb_prop in Hd as [Hr Hrest]. apply andb_prop in Hs as [Hs Hsr].
    destruct (all_range_g v Hl Hr) as [Ea Hin]. rewrite Ea in *.
    destruct (sliced_norm v _ _ Hl Hr Hin Hs) as (Hin' & Hn & Hok).
    pose proof (lok_rotated _ Hok) as Hokr.
    destruct (IH _ Hokr Hrest Hsr) as (Hd' & Hn' & Hok').
    rewrite rank_norm, Hr. cbn [andb]. rewrite (all_range_norm v Hl Hr). cbn [fst snd].
    replace (fst (v_extension v) - v_first v) with 0 in Hn by (unfold v_first; lia).
    replace (snd (v_extension v) - v_first v) with (r_size (v_extension v)) in Hn by (unfold v_first, r_size; lia).
    rewrite <- Hn, <- norm_rotated.
    split; [exact Hd'|]. split; [rewrite norm_unrotated, Hn'; reflexivity|apply lok_unrotated; exact Hok'].
Qed.

Lemma tw_paren v args : lok (lay v) -> paren_safe args v = true -> dom_op (OParen args) v = true -> tw v (OParen args).
Proof.
  intros Hl Hs Hd. cbn [dom_op] in Hd. apply andb_prop in Hd as [Hlen Hd].
  destruct (paren_norm args v Hl Hd Hs) as (Hd' & Hn & Hok).
  split; [|exact Hok]. run1. cbn [dom_op]. rewrite rank_norm.
  assert (El : length (twin_paren args v) = length args).
  { clear. revert v. induction args as [|[i|a b|] rest IH]; intros v; cbn; [reflexivity|..]; f_equal; apply IH. }
  rewrite El, Hlen, Hd'. cbn [andb exec_op]. rewrite Hn. reflexivity.
Qed.

(* ---- diagonal: only where the first two offsets are 0 (array_ref.hpp:1380 takes the block from index 0) ---- *)
Definition diag_safe (v : view) : bool :=
  match lay v with d0 :: d1 :: _ => (d_offset d0 =? 0) && (d_offset d1 =? 0) | _ => true end.

Lemma tw_diagonal v : lok (lay v) -> diag_safe v = true -> dom_op ODiagonal v = true -> tw v ODiagonal.
Proof.
  intros Hl Hs Hd. cbn [dom_op] in Hd.
  destruct v as [[|d0 [|d1 sub]] b]; try (cbn in Hd; discriminate).
  unfold diag_safe in Hs; cbn [lay] in Hs. apply andb_prop in Hs as [H0 H1]. bprop.
  inversion Hl as [|? ? Hd0 Hl']; subst. inversion Hl' as [|? ? Hd1 Hl'']; subst.
  assert (En : norm (mkview (d0 :: d1 :: sub) b) = mkview (d0 :: d1 :: map norm_d sub) b).
  { unfold norm; cbn. f_equal. f_equal; [|f_equal]; destruct d0, d1; cbn in *; subst; reflexivity. }
  assert (Ed : forall l, v_diagonal (mkview (d0 :: d1 :: l) b) =
     mkview (mkdim (d_stride d1 + d_stride d0) (d_offset d1)
                   (d_stride d1 * (Z.min (d_size d0) (d_size d1) - 0) + d_stride d0 * (Z.min (d_size d0) (d_size d1) - 0)) :: l) b).
  { intros l. unfold v_diagonal. cbn [lay]. rewrite diag_paren_lay. reflexivity. }
  split.
  - run1. cbn [dom_op]. rewrite rank_norm. replace (2 <=? Z.of_nat (v_rank (mkview (d0 :: d1 :: sub) b))) with true
      by (symmetry; apply Z.leb_le; assumption).
    cbn [exec_op]. f_equal. rewrite En, !Ed. unfold norm; cbn [lay base map]. f_equal. f_equal.
    unfold norm_d; cbn [d_stride d_offset d_nelems]. f_equal. lia.
  - cbn [exec_op]. rewrite Ed. cbn [lay]. constructor; [|assumption].
    destruct Hd0 as (f0 & n0 & K0). destruct Hd1 as (f1 & n1 & K1).
    rewrite (dim_okg_size _ _ _ K0), (dim_okg_size _ _ _ K1).
    destruct K0 as (_ & _ & P0 & S0). destruct K1 as (_ & _ & P1 & S1).
    exists 0, (Z.min n0 n1). unfold dim_okg; cbn [d_offset d_stride d_nelems].
    repeat split; try lia.
Qed.

Lemma l_unrot_rot_map (f : dim -> dim) l : l_unrotate (l_rotate (map f l)) = map f l.
Proof. apply l_unrotate_rotate. Qed.

Lemma norm_reindexedL is : forall v, lok (lay v) -> norm (v_reindexedL is v) = norm v /\ lok (lay (v_reindexedL is v)).
Proof.
  induction is as [|i rest IH]; intros v Hl; [split; [reflexivity|assumption]|].
  destruct rest as [|j rest'].
  - cbn [v_reindexedL]. split; [apply norm_reindexed|apply lok_reindexed; assumption].
  - change (v_reindexedL (i :: j :: rest') v) with (v_unrotated (v_reindexedL (j :: rest') (v_rotated (v_reindexed i v)))).
    pose proof (lok_rotated _ (lok_reindexed v i Hl)) as Hr.
    destruct (IH _ Hr) as [En Hk]. split; [|apply lok_unrotated; exact Hk].
    rewrite norm_unrotated, En, norm_rotated, norm_reindexed.
    destruct v as [l b]. unfold norm, v_unrotated, v_rotated; cbn [lay base]. f_equal. apply l_unrotate_rotate.
Qed.

Lemma tw_reindexedL v is : lok (lay v) -> tw v (OReindexedL is).
Proof.
  intros Hl. destruct (norm_reindexedL is v Hl) as [En Hk]. split; [|exact Hk].
  cbn [twin_op run_ops exec_op]. rewrite En. reflexivity.
Qed.

(* ---- every operation; whole programs ---- *)
Definition c19_safe (o : op) (v : view) : bool :=
  match o with
  | OSliced _ _ | OSlicedS _ _ _ | OBlocked _ _ => slice_safe v
  | OParen args => paren_safe args v
  | ODiagonal => diag_safe v
  | _ => true
  end.

Lemma tw_op v o : lok (lay v) -> c19_safe o v = true -> dom_op o v = true -> tw v o.
Proof.
  intros Hl Hs Hd. destruct o; cbn [c19_safe] in Hs.
  - apply tw_index; assumption.
  - apply tw_sliced; assumption.
  - apply tw_slicedS; assumption.
  - apply tw_strided; assumption.
  - apply tw_dropped; assumption.
  - apply tw_taked; assumption.
  - apply tw_rotated; assumption.
  - apply tw_unrotated; assumption.
  - apply tw_transposed; assumption.
  - apply tw_reversed; assumption.
  - apply tw_diagonal; assumption.
  - apply tw_partitioned; assumption.
  - apply tw_chunked; assumption.
  - apply tw_halved; assumption.
  - apply tw_flatted; assumption.
  - apply tw_paren; assumption.
  - apply tw_reindexed; assumption.
  - apply tw_blocked; assumption.
  - apply tw_reindexedL; assumption.
Qed.

Fixpoint run_safe (ops : list op) (v : view) : bool :=
  match ops with [] => true | o :: rest => c19_safe o v && run_safe rest (exec_op o v) end.

Lemma run_ops_app a : forall b v, run_ops (a ++ b) v = match run_ops a v with Some v' => run_ops b v' | None => None end.
Proof.
  induction a as [|o a IH]; intros b v; cbn [app run_ops]; [reflexivity|].
  destruct (apply_op o v); [apply IH|reflexivity].
Qed.

Lemma rebase_run ops : forall v w, lok (lay v) -> run_safe ops v = true -> run_ops ops v = Some w ->
  run_ops (twin_ops ops v) (norm v) = Some (norm w) /\ lok (lay w).
Proof.
  induction ops as [|o ops IH]; intros v w Hl Hs Hrun; cbn [run_ops twin_ops run_safe] in *.
  - apply Some_inj in Hrun. subst. split; [reflexivity|assumption].
  - apply andb_prop in Hs as [Hs Hsr]. unfold apply_op in Hrun. destruct (dom_op o v) eqn:Hd; [|discriminate].
    destruct (tw_op v o Hl Hs Hd) as [Ht Hok]. rewrite run_ops_app, Ht. apply IH; assumption.
Qed.

Lemma twin_c01 v o : Forall c01_op (twin_op v o).
Proof. destruct o; cbn; repeat constructor. Qed.
Lemma twin_ops_c01 ops : forall v, Forall c01_op (twin_ops ops v).
Proof. induction ops as [|o ops IH]; intros v; cbn; [constructor|]. apply Forall_app. split; [apply twin_c01|apply IH]. Qed.

(* ---- addresses ---- *)
Definition in_extl (l : layout) (idx : list Z) : Prop :=
  Forall2 (fun d i => fst (d_extension d) <= i < snd (d_extension d)) l idx.

Lemma addr_norm l : lok l -> forall idx, in_extl l idx ->
  l_addr l idx = l_addr (map norm_d l) (vsubz idx (map fst (l_extensions l)))
  /\ valid_idx (l_sizes l) (vsubz idx (map fst (l_extensions l))).
Proof.
  induction 1 as [|d l Hd Hl IH]; intros idx Hi; inv Hi; cbn; [split; [reflexivity|constructor]|].
  destruct (IH _ H3) as [E V]. pose proof (dok_ext_size _ Hd) as Hs. unfold r_size in Hs.
  assert (Hp : 0 < d_size d) by lia. rewrite (dok_offset _ Hd Hp). split.
  - unfold l_extensions in *. rewrite E. ring.
  - unfold l_extensions, l_sizes in *. constructor; [lia|exact V].
Qed.

(* ---- the root ---- *)
Lemma numel_norm l : l_num_elements (map norm_d l) = l_num_elements l.
Proof. induction l as [|d l IH]; cbn; [reflexivity|]. rewrite IH. reflexivity. Qed.

Lemma mk_norm exts : map norm_d (mk_layout exts) = mk_layout (zb (map r_size exts)).
Proof.
  induction exts as [|r exts IH]; [reflexivity|]. cbn [mk_layout map zb]. fold (zb (map r_size exts)).
  rewrite <- IH, numel_norm. unfold norm_d at 1; cbn [d_stride d_offset d_nelems fst]. f_equal. f_equal.
  unfold r_size; cbn. lia.
Qed.

Lemma mk_lok exts : Forall (fun r => fst r <= snd r) exts -> lok (mk_layout exts).
Proof.
  induction 1 as [|r exts Hr _ IH]; [constructor|]. cbn [mk_layout]. constructor; [|exact IH].
  set (n := l_num_elements (mk_layout exts)).
  assert (Hn : 0 <= n).
  { unfold n. clear -IH. induction IH as [|d l (f & m & K) _ IHl]; cbn; [lia|].
    rewrite (dim_okg_size _ _ _ K). destruct K as (_ & _ & ? & _). nia. }
  destruct (n =? 0) eqn:E; bprop.
  - exists (fst r), 0. unfold dim_okg; cbn. repeat split; try lia; try (rewrite E; lia).
  - exists (fst r), (r_size r). unfold dim_okg, r_size; cbn. repeat split; try lia.
Qed.

Theorem C19_rebase_transparent_proved :
  forall (exts : list range) (ops : list op) (w : view),
    Forall (fun r => fst r <= snd r) exts ->
    run_safe ops (root_view exts) = true ->
    run_ops ops (root_view exts) = Some w ->
    let sz := map r_size exts in
    let tops := twin_ops ops (root_view exts) in
    let w0 := norm w in
       run_ops tops (root_view (zb sz)) = Some w0 /\ Forall c01_op tops
    /\ l_sizes (lay w0) = l_sizes (lay w) /\ l_strides (lay w0) = l_strides (lay w)
    /\ l_num_elements (lay w0) = l_num_elements (lay w) /\ base w0 = base w
    /\ forall idx, in_extl (lay w) idx ->
         v_addr w idx = v_addr w0 (vsubz idx (firsts_of w)) /\ valid_idx (l_sizes (lay w0)) (vsubz idx (firsts_of w)).
Proof.
  intros exts ops w Hx Hs Hrun sz tops w0.
  destruct (rebase_run ops (root_view exts) w (mk_lok _ Hx) Hs Hrun) as [Ht Hok].
  assert (Er : norm (root_view exts) = root_view (zb sz)).
  { unfold norm, root_view; cbn [lay base]. rewrite mk_norm. reflexivity. }
  rewrite Er in Ht. split; [exact Ht|]. split; [apply twin_ops_c01|].
  unfold w0, norm; cbn [lay base].
  assert (Esz : l_sizes (map norm_d (lay w)) = l_sizes (lay w)) by (unfold l_sizes; rewrite map_map; reflexivity).
  split; [exact Esz|].
  split; [unfold l_strides; rewrite map_map; reflexivity|].
  split; [apply numel_norm|]. split; [reflexivity|].
  intros idx Hi. destruct (addr_norm _ Hok idx Hi) as [E V]. unfold v_addr, firsts_of; cbn [lay base].
  rewrite Esz. split; [rewrite E; reflexivity|exact V].
Qed.

(* non-vacuity, and the one excluded operation *)
Example C19_example :
  exists w, run_ops [ORotated; OSliced 3 5; OReindexed (-2); OStrided 2; OParen [PIdx (-2); PRange 2 4]]
                    (root_view [(2, 5); (3, 7)]) = Some w
    /\ run_safe [ORotated; OSliced 3 5; OReindexed (-2); OStrided 2; OParen [PIdx (-2); PRange 2 4]]
                    (root_view [(2, 5); (3, 7)]) = true
    /\ l_extensions (lay w) = [(2, 4)] /\ v_addr w [3] = 4.
Proof. eexists. vm_compute. repeat split. Qed.

(* diagonal() on a view whose index bases are not 0: the element at the first valid index pair is NOT the
   first diagonal element of the twin (known finding KF-C19-diagonal-rebased) *)
Definition C19_diagonal_transparent : Prop :=
  forall exts w, Forall (fun r => fst r <= snd r) exts -> run_ops [ODiagonal] (root_view exts) = Some w ->
    forall w0, run_ops [ODiagonal] (root_view (zb (map r_size exts))) = Some w0 ->
      l_offsets (lay w) = map (fun d => fst (d_extension d) * d_stride d) (lay w)   (* well-formed index base *)
      /\ base w = base w0.
Theorem C19_diagonal_refuted_proved : ~ C19_diagonal_transparent.
Proof.
  intros H. specialize (H [(1, 4); (2, 5)] (v_diagonal (root_view [(1, 4); (2, 5)]))).
  assert (Hx : Forall (fun r : range => fst r <= snd r) [(1, 4); (2, 5)]) by (repeat constructor; cbn; lia).
  specialize (H Hx eq_refl _ eq_refl). destruct H as [H _]. vm_compute in H. discriminate.
Qed.

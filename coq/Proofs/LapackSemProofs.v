(* Semantic lemmas: what the adaptor computes in the view's own (row-major, C++) reading, given the
   column-major contracts of the LAPACK routines (Model/LapackSem.v).  All of them are index
   renamings justified by the structural lemmas of LapackProofs.v. *)
From BM Require Import Base.Tactics Model.Lapack Model.LapackSem Proofs.LapackProofs.
Local Open Scope Z_scope.

Section SemProofs.
  Variable V : Type.
  Variable vzero : V.
  Variable vadd vmul : V -> V -> V.

  Notation mem := (mem V).
  Notation vsumZ := (vsumZ V vzero vadd).
  Notation colmat := (colmat V).
  Notation vmat := (vmat V).
  Notation vvec := (vvec V).
  Notation run := (run V).

  Lemma vsum_ext : forall k f g, (forall l, 0 <= l < Z.of_nat k -> f l = g l) ->
    vsum V vzero vadd k f = vsum V vzero vadd k g.
  Proof.
    induction k as [|k IH]; intros f g H; [reflexivity|].
    cbn [vsum]. rewrite (IH f g) by (intros; apply H; lia). rewrite H by lia. reflexivity.
  Qed.

  Lemma vsumZ_ext : forall k f g, (forall l, 0 <= l < k -> f l = g l) -> vsumZ k f = vsumZ k g.
  Proof. intros k f g H. unfold LapackSem.vsumZ. apply vsum_ext. intros l Hl. apply H. lia. Qed.

  (* ---------------------------------------------------------------------------------------- *)
  (* potrf                                                                                      *)
  (* ---------------------------------------------------------------------------------------- *)
  Section PotrfSem.
    Variable potrf_f : fchar -> Z -> Z -> Z -> mem -> mem * Z.
    Hypothesis Hcontract : potrf_contract V vzero vadd vmul potrf_f.

    Lemma potrf_sem : forall uplo v m, potrf_dom v = true ->
      let (m', r) := potrf_run V potrf_f uplo v m in
      let k := m_n0 r in
         0 <= k <= m_n0 v
      /\ (exists info, 0 <= info <= m_n0 v /\ r = potrf_ret v info /\ k = potrf_order (m_n0 v) info)
      /\ (forall p, ~ in_mattri uplo v p -> m' p = m p)
      /\ (forall a b, 0 <= a < k -> 0 <= b < k ->
            symv V uplo (vmat m v) a b
            = vsumZ k (fun l => vmul (facv V vzero uplo (vmat m' v) a l) (facv V vzero uplo (vmat m' v) b l))).
    Proof.
      intros uplo v m Hdom. unfold potrf_run.
      destruct (potrf_call_legal uplo v Hdom) as [Hlegal Hn].
      pose proof (potrf_matrix_seen uplo v Hdom) as Hseen. cbv zeta in Hseen.
      pose proof (potrf_triangle uplo v Hdom) as Htri. cbv zeta in Htri.
      pose proof (potrf_flag uplo v Hdom) as Hflag. cbv zeta in Hflag.
      pose proof (potrf_footprint uplo v Hdom) as Hfoot. cbv zeta in Hfoot.
      set (c := potrf_call_of uplo v) in *.
      assert (Hc : c = mkpc (pc_uplo c) (pc_n c) (pc_a c) (pc_lda c)) by (destruct c; reflexivity).
      rewrite Hc in Hlegal.
      specialize (Hcontract (pc_uplo c) (pc_n c) (pc_a c) (pc_lda c) m Hlegal).
      destruct (potrf_f (pc_uplo c) (pc_n c) (pc_a c) (pc_lda c) m) as [m' info].
      cbv zeta in Hcontract. destruct Hcontract as (Hinfo & Hframe & Hfac).
      rewrite Hn in *.
      rewrite (potrf_ret_rows v Hdom info).
      assert (Hk : 0 <= potrf_order (m_n0 v) info <= m_n0 v).
      { unfold potrf_order. destruct (info =? 0) eqn:E; bprop; lia. }
      split; [exact Hk|]. split; [exists info; auto|]. split.
      - intros p Hp. apply Hframe. intros Hin. apply Hp. apply Hfoot. exact Hin.
      - intros a b Ha Hb. specialize (Hfac a b Ha Hb).
        assert (Hsym : symf V (pc_uplo c) (colmat m (pc_a c) (pc_lda c)) a b = symv V uplo (vmat m v) a b).
        { unfold symf, symv, LapackSem.colmat, LapackSem.vmat. rewrite Htri, !Hseen.
          destruct (potrf_colbranch v); [reflexivity|].
          destruct uplo; cbn [vtri];
            destruct (a <=? b) eqn:E1; destruct (b <=? a) eqn:E2; bprop; try reflexivity; try lia;
            replace b with a by lia; reflexivity. }
        assert (Hfacv : forall i l, facf V vzero (pc_uplo c) (colmat m' (pc_a c) (pc_lda c)) i l
                                   = facv V vzero uplo (vmat m' v) i l).
        { intros i l. unfold facf, facv, LapackSem.colmat, LapackSem.vmat. rewrite Hflag, !Hseen.
          destruct (potrf_colbranch v); destruct uplo; reflexivity. }
        rewrite <- Hsym, Hfac. apply vsumZ_ext. intros l Hl. rewrite !Hfacv. reflexivity.
    Qed.
  End PotrfSem.

  (* ---------------------------------------------------------------------------------------- *)
  (* geqrf: the TRANSPOSE of the view's matrix is factorized, transp(aa) = Q * R, i.e. in the   *)
  (* view's reading aa = R^T Q^T = (lower triangle of the result) * Q^T                         *)
  (* ---------------------------------------------------------------------------------------- *)
  Section GeqrfSem.
    Variable geqrf_f : Z -> Z -> Z -> Z -> Z -> mem -> mem -> mem * mem * Z.
    Variable qdec : Z -> Z -> (Z -> Z -> V) -> (Z -> V) -> Z -> Z -> V.
    Hypothesis Hext : qdec_ext V qdec.
    Hypothesis Hcontract : geqrf_contract V vzero vadd vmul geqrf_f qdec.

    Lemma geqrf_sem : forall aa tau mA mT, geqrf_dom aa tau = true ->
      let '(mA', mT', r) := geqrf_run V geqrf_f aa tau mA mT in
      let rows := m_n0 aa in let cols := m_n1 aa in
         r = aa
      /\ (forall p, ~ in_mat aa p -> mA' p = mA p)
      /\ (forall p, ~ in_vec tau p -> mT' p = mT p)
      /\ (forall a b, 0 <= a < rows -> 0 <= b < cols ->
            vmat mA aa a b
            = vsumZ (Z.min cols rows)
                (fun l => vmul (qdec cols rows (transp V (vmat mA' aa)) (vvec mT' tau) b l)
                               (upper_of V vzero (transp V (vmat mA' aa)) l a))).
    Proof.
      intros aa tau mA mT Hdom. unfold geqrf_run.
      destruct (geqrf_dom_facts aa tau Hdom) as (Ht & Hn0 & Hn1 & Hs1 & Hld & Hts).
      pose proof (geqrf_footprint_a aa tau Hdom WAlloc 0) as Hfa. cbv zeta in Hfa.
      pose proof (geqrf_footprint_tau aa tau Hdom WAlloc 0) as Hft. cbv zeta in Hft.
      assert (Hseen : forall i j, m_base aa + i + j * m_s0 aa = maddr aa j i).
      { intros. unfold maddr. rewrite Hs1. ring. }
      cbn [geqrf_mk gq_m gq_n gq_a gq_lda gq_tau m_rotated m_n0] in *.
      specialize (Hcontract (m_n1 aa) (m_n0 aa) (m_base aa) (m_s0 aa) (vc_base tau) mA mT Hn1 Hn0 Hld).
      destruct (geqrf_f (m_n1 aa) (m_n0 aa) (m_base aa) (m_s0 aa) (vc_base tau) mA mT) as [[mA' mT'] info].
      destruct Hcontract as (_ & HfA & HfT & Hfac).
      cbv zeta. split; [reflexivity|]. split; [|split].
      - intros p Hp. apply HfA. intros Hin. apply Hp. apply Hfa. exact Hin.
      - intros p Hp. apply HfT. intros Hin. apply Hp. apply Hft. exact Hin.
      - intros a b Ha Hb. specialize (Hfac b a Hb Ha).
        unfold LapackSem.colmat in Hfac at 1. rewrite Hseen in Hfac.
        unfold LapackSem.vmat at 1. rewrite Hfac. apply vsumZ_ext. intros l Hl.
        f_equal.
        + apply Hext.
          * intros i j Hi Hj. unfold LapackSem.colmat, transp, LapackSem.vmat. rewrite Hseen. reflexivity.
          * intros l' Hl'. unfold LapackSem.run, LapackSem.vvec, vaddr. rewrite Hts. f_equal. ring.
        + unfold upper_of, LapackSem.colmat, transp, LapackSem.vmat. rewrite Hseen. reflexivity.
    Qed.
  End GeqrfSem.

  (* ---------------------------------------------------------------------------------------- *)
  (* gesvd: AA = UU * diag(ss) * VV in the views' own reading                                   *)
  (* ---------------------------------------------------------------------------------------- *)
  Section GesvdSem.
    Variable vle : V -> V -> Prop.
    Variable gesvd_f : Z -> Z -> Z -> Z -> Z -> Z -> Z -> Z -> Z -> mem -> mem -> mem -> mem -> mem * mem * mem * mem * Z.
    Hypothesis vmul_comm : forall x y, vmul x y = vmul y x.
    Hypothesis vmul_assoc : forall x y z, vmul x (vmul y z) = vmul (vmul x y) z.
    Hypothesis Hcontract : gesvd_contract V vzero vadd vmul vle gesvd_f.

    Lemma mul3_swap : forall x s y, vmul x (vmul s y) = vmul y (vmul s x).
    Proof.
      intros x s y.
      rewrite (vmul_comm x (vmul s y)). rewrite <- (vmul_assoc s y x).
      rewrite (vmul_comm y (vmul s x)). rewrite <- (vmul_assoc s x y).
      rewrite (vmul_comm y x). reflexivity.
    Qed.

    Lemma gesvd_sem : forall aa uu ss vv mA mU mS mV, gesvd_dom aa uu ss vv = true ->
      let '(mA', mU', mS', mV') := gesvd_run V gesvd_f aa uu ss vv mA mU mS mV in
      let r := m_n0 aa in let c := m_n1 aa in
         (forall p, ~ in_mat aa p -> mA' p = mA p)
      /\ (forall p, ~ in_mat uu p -> mU' p = mU p)
      /\ (forall p, ~ in_vec ss p -> mS' p = mS p)
      /\ (forall p, ~ in_mat vv p -> mV' p = mV p)
      /\ (forall l, 0 <= l < Z.min r c -> vle vzero (vvec mS' ss l))
      /\ (forall l, 0 <= l -> l + 1 < Z.min r c -> vle (vvec mS' ss (l + 1)) (vvec mS' ss l))
      /\ (forall a b, 0 <= a < r -> 0 <= b < c ->
            vmat mA aa a b
            = vsumZ (Z.min r c) (fun l => vmul (vmat mU' uu a l) (vmul (vvec mS' ss l) (vmat mV' vv l b)))).
    Proof.
      intros aa uu ss vv mA mU mS mV Hdom. unfold gesvd_run.
      destruct (gesvd_dom_facts aa uu vv ss Hdom)
        as (Hu0 & Hu1 & Hv0 & Hv1 & Hsn & Hss & Ha1 & Hus & Hvs & Hr & Hc & Hla & Hlu & Hlv).
      pose proof (gesvd_footprints aa uu vv ss Hdom WAlloc 0) as Hfoot. cbv zeta in Hfoot.
      destruct (gesvd_matrices_seen aa uu vv ss Hdom WAlloc 0) as (_ & _ & HsA & HsU & HsVT & HsS).
      cbn [gesvd_mk gs_m gs_n gs_a gs_lda gs_s gs_u gs_ldu gs_vt gs_ldvt] in *.
      rewrite Hu0, Hv0 in *.
      assert (L1 : Z.max 1 (m_n1 aa) <= m_s0 vv) by lia.
      assert (L2 : Z.max 1 (m_n0 aa) <= m_s0 uu) by lia.
      specialize (Hcontract (m_n1 aa) (m_n0 aa) (m_base aa) (m_s0 aa) (vc_base ss) (m_base vv) (m_s0 vv)
                            (m_base uu) (m_s0 uu) mA mS mV mU Hc Hr Hla L1 L2).
      destruct (gesvd_f (m_n1 aa) (m_n0 aa) (m_base aa) (m_s0 aa) (vc_base ss) (m_base vv) (m_s0 vv)
                        (m_base uu) (m_s0 uu) mA mS mV mU) as [[[[mA' mS'] mUf'] mVTf'] info].
      destruct Hcontract as (_ & HfA & HfS & HfU & HfVT & Hpos & Hord & Hfac).
      cbv zeta.
      assert (Hmin : Z.min (m_n1 aa) (m_n0 aa) = Z.min (m_n0 aa) (m_n1 aa)) by lia.
      rewrite Hmin in *.
      assert (HS : forall l, run mS' (vc_base ss) l = vvec mS' ss l).
      { intros l. unfold LapackSem.run, LapackSem.vvec. rewrite HsS. reflexivity. }
      split; [|split; [|split; [|split; [|split; [|split]]]]].
      - intros p Hp. apply HfA. intros Hin. apply Hp. apply (proj1 (Hfoot p)). exact Hin.
      - intros p Hp. apply HfVT. intros Hin. apply Hp. apply (proj1 (proj2 (proj2 (Hfoot p)))). exact Hin.
      - intros p Hp. apply HfS. intros Hin. apply Hp. apply (proj2 (proj2 (proj2 (Hfoot p)))). exact Hin.
      - intros p Hp. apply HfU. intros Hin. apply Hp. apply (proj1 (proj2 (Hfoot p))). exact Hin.
      - intros l Hl. rewrite <- HS. apply Hpos. exact Hl.
      - intros l Hl0 Hl1. rewrite <- !HS. apply Hord; assumption.
      - intros a b Ha Hb. specialize (Hfac b a Hb Ha).
        unfold LapackSem.colmat in Hfac at 1. rewrite HsA in Hfac.
        unfold LapackSem.vmat at 1. rewrite Hfac. apply vsumZ_ext. intros l Hl.
        rewrite HS. unfold LapackSem.colmat, LapackSem.vmat. rewrite HsU, HsVT.
        apply mul3_swap.
    Qed.
  End GesvdSem.

  (* ---------------------------------------------------------------------------------------- *)
  (* syev                                                                                       *)
  (* ---------------------------------------------------------------------------------------- *)
  Section SyevSem.
    Variable vle : V -> V -> Prop.
    Variable syev_f : fchar -> Z -> Z -> Z -> Z -> mem -> mem -> mem * mem * Z.
    Hypothesis Hcontract : syev_contract V vzero vadd vmul vle syev_f.

    Lemma syev_sem : forall uplo a w work mA mW, syev_dom a w work = true -> 0 < m_n0 a ->
      match syev_run V syev_f uplo a w work mA mW with
      | None => False
      | Some (mA', mW', r) =>
          let n := m_n0 a in
             (exists info, 0 <= info <= n /\ r = m_block a (n - info) (n - info))
          /\ (forall p, ~ in_mat a p -> mA' p = mA p)
          /\ (forall p, ~ in_vec w p -> mW' p = mW p)
          /\ (m_n0 r = n ->
                (forall l, 0 <= l -> l + 1 < n -> vle (vvec mW' w l) (vvec mW' w (l + 1)))
             /\ (forall i j, 0 <= i < n -> 0 <= j < n ->
                   symv V uplo (vmat mA a) i j
                   = vsumZ n (fun l => vmul (eigvec V a (vmat mA' a) i l)
                                            (vmul (vvec mW' w l) (eigvec V a (vmat mA' a) j l)))))
      end.
    Proof.
      intros uplo a w work mA mW Hdom Hpos. unfold syev_run.
      destruct (syev_call_legal uplo a w work Hdom) as [_ Hstep].
      destruct (syev_dom_facts a w work Hdom) as (Hw & Hwn & Hws & Hks & Hn & Hsq & Hor).
      destruct (syev_step_of uplo a w work) as [|c|] eqn:Hc; [lia| |contradiction].
      destruct Hstep as (Hlegal & Hcn & _).
      pose proof (syev_matrix_seen uplo a w work Hdom c Hc) as Hseen.
      pose proof (syev_triangle uplo a w work Hdom c Hc) as Htri.
      pose proof (syev_footprint uplo a w work Hdom c Hc) as Hfoot.
      assert (Hcw : sy_w c = vc_base w).
      { rewrite syev_step_spec in Hc by exact Hdom. destruct (m_n0 a =? 0); [discriminate|].
        destruct (m_s1 a =? 1); inv Hc; reflexivity. }
      unfold syev_legal in Hlegal.
      assert (Hlda : Z.max 1 (sy_n c) <= sy_lda c) by lia.
      assert (Hn' : 0 <= sy_n c) by lia.
      specialize (Hcontract (sy_uplo c) (sy_n c) (sy_a c) (sy_lda c) (sy_w c) mA mW Hn' Hlda).
      destruct (syev_f (sy_uplo c) (sy_n c) (sy_a c) (sy_lda c) (sy_w c) mA mW) as [[mA' mW'] info].
      destruct Hcontract as (Hinfo & HfA & HfW & Hok).
      replace (info <? 0) with false by (symmetry; apply Z.ltb_ge; lia).
      rewrite Hcn in *. cbv zeta.
      assert (HW : forall l, run mW' (sy_w c) l = vvec mW' w l).
      { intros l. unfold LapackSem.run, LapackSem.vvec, vaddr. rewrite Hcw, Hws. f_equal. ring. }
      split; [|split; [|split]].
      - exists info. split; [exact Hinfo|]. unfold syev_ret.
        replace (m_n0 a =? 0) with false by (symmetry; apply Z.eqb_neq; lia). reflexivity.
      - intros p Hp. apply HfA. intros Hin. apply Hp. apply (proj1 (Hfoot p)). exact Hin.
      - intros p Hp. apply HfW. intros Hin. apply Hp. apply (proj1 (proj2 (Hfoot p))). exact Hin.
      - intros Hfull.
        assert (Hi0 : info = 0).
        { unfold syev_ret in Hfull. replace (m_n0 a =? 0) with false in Hfull by (symmetry; apply Z.eqb_neq; lia).
          cbn [m_block m_n0] in Hfull. lia. }
        destruct (Hok Hi0) as [Hord Hrec]. split.
        + intros l Hl0 Hl1. rewrite <- !HW. apply Hord; assumption.
        + intros i j Hi Hj. specialize (Hrec i j Hi Hj).
          assert (Hsym : symf V (sy_uplo c) (colmat mA (sy_a c) (sy_lda c)) i j = symv V uplo (vmat mA a) i j).
          { unfold symf, symv, LapackSem.colmat, LapackSem.vmat. rewrite Htri, !Hseen.
            destruct (syev_rowbranch a); [|reflexivity].
            destruct uplo; cbn [vtri];
              destruct (i <=? j) eqn:E1; destruct (j <=? i) eqn:E2; bprop; try reflexivity; try lia;
              replace j with i by lia; reflexivity. }
          rewrite <- Hsym, Hrec. apply vsumZ_ext. intros l Hl.
          rewrite HW. unfold eigvec, LapackSem.colmat, LapackSem.vmat. rewrite !Hseen.
          destruct (syev_rowbranch a); reflexivity.
    Qed.
  End SyevSem.
End SemProofs.

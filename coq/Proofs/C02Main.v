(* C02 assembled: the iterator laws hold for every view reachable as in C01 (zero-based roots, any
   sequence of in-domain view operations), and dereferencing designates the element C01 prescribes. *)
From BM Require Import Base.Tactics Model.Layout Model.View Model.Spec Model.Iter
  Proofs.LayoutProofs Proofs.ViewProofs Proofs.ViewProofs2 Proofs.IterProofs Proofs.ElemProofs.
Local Open Scope Z_scope.

(* an empty leading dimension: begin() == end() *)
Lemma it_empty v d l f : lay v = d :: l -> dim_okg d f 0 -> it_begin v = it_end v.
Proof.
  intros Hl (_ & Hn & _). unfold it_begin, it_end, hd_dim. rewrite Hl. cbn. rewrite Hn. f_equal. lia.
Qed.

Lemma in_ext_zb sz idx : in_ext (zb sz) idx <-> valid_idx sz idx.
Proof.
  unfold in_ext, valid_idx, zb. revert idx. induction sz as [|n sz IH]; intros idx; split; intros H; inv H;
    constructor; cbn in *; try lia; apply IH; assumption.
Qed.

Theorem C02_reachable_proved :
  forall (sz : list Z) (ops : list op) (v : view),
    Forall (fun n => 0 <= n) sz -> Forall c01_op ops ->
    run_ops ops (root_view (zb sz)) = Some v ->
    let a := run_spec ops (root_spec sz) in
    (* leading-dimension iterators *)
    (forall n r, asz a = n :: r ->
       (n = 0 -> it_begin v = it_end v) /\
       (0 < n -> exists d l, lay v = d :: l /\ dim_okg d 0 n /\ d_stride d <> 0 /\
          forall p, 0 <= p < n ->
            it_deref (it_add (it_begin v) p) = v_index p v /\
            forall idx, valid_idx r idx ->
              v_addr (it_deref (it_add (it_begin v) p)) idx = rowmajor (collapse sz) (amap a (p :: idx))))
    (* flat element range *)
    /\ (Forall (fun n => 0 < n) (asz a) ->
          lay_okg (lay v) (map (fun n => (0, n)) (asz a))
       /\ er_size v = prod (asz a)
       /\ l_extensions (lay v) = zb (asz a)
       /\ forall tr, trace_ok (er_size v) 0 tr = true ->
            let p := run_pos tr 0 in
            p < er_size v ->
            valid_idx (asz a) (canon v p) /\
            e_deref (run_e tr (er_begin v)) = rowmajor (collapse sz) (amap a (canon v p))).
Proof.
  intros sz ops v Hsz Hops Hrun a.
  pose proof (represents_run _ ops _ _ _ Hops (represents_root sz Hsz) Hrun) as [Hok Ha]. fold a in Hok, Ha.
  split.
  - intros n r E. rewrite E in Hok. destruct (lay v) as [|d l] eqn:El; [inv Hok|].
    inversion Hok as [|? ? ? ? H1 Hrest]; subst; clear Hok.
    split.
    + intros ->. eapply it_empty; [exact El|apply dim_ok_g; assumption].
    + intros Hn. exists d, l. pose proof H1 as H1'. apply dim_ok_g in H1'.
      assert (Hs : d_stride d <> 0) by (destruct H1 as (_ & _ & _ & Hs); specialize (Hs Hn); lia).
      split; [reflexivity|]. split; [assumption|]. split; [assumption|]. intros p Hp. split.
      * rewrite (it_deref_index v d l 0 n El H1' p). reflexivity.
      * intros idx Hidx. rewrite (it_deref_index v d l 0 n El H1' p). replace (0 + p) with p by lia.
        assert (Hv : valid_idx (n :: r) (p :: idx)) by (constructor; [lia|assumption]).
        rewrite E in Ha. destruct (Ha _ Hv) as [_ <-].
        unfold v_addr, v_index, hd_dim. rewrite El. cbn. lia.
  - intros Hpos. pose proof (lay_ok_okg _ _ Hok) as Hg.
    assert (Hp : Forall (fun p : Z * Z => 0 < snd p) (map (fun n => (0, n)) (asz a))).
    { rewrite Forall_map. exact Hpos. }
    split; [exact Hg|]. split; [apply lay_ok_num_elements; assumption|].
    split; [apply lay_ok_extensions; assumption|].
    intros tr Htr p HpN.
    pose proof (C02_elements_iterator_laws_proved v _ Hg Hp tr Htr) as
      (_ & Hpp & _ & _ & _ & _ & _ & Hd & _ & _ & _ & _ & Hc & _).
    fold p in Hpp, Hd. specialize (Hd HpN). destruct (Hc p ltac:(lia)) as [Hin _].
    rewrite (lay_ok_extensions _ _ Hok) in Hin. fold (zb (asz a)) in Hin. apply in_ext_zb in Hin.
    split; [exact Hin|]. rewrite Hd. destruct (Ha _ Hin) as [_ E]. exact E.
Qed.

(* non-vacuity: a transposed 3x4 block; flat position 5 of elements() is index (1,2) = root (2,1) *)
Example C02_example :
  exists v, run_ops [OTransposed] (root_view (zb [3; 4])) = Some v
    /\ trace_ok (er_size v) 0 [IAdd 7; ISub 3; IInc; IInc; IDec] = true
    /\ e_deref (run_e [IAdd 7; ISub 3; IInc; IInc; IDec] (er_begin v)) = rowmajor [3; 4] [2; 1]
    /\ it_diff (it_end v) (it_begin v) = 4.
Proof. eexists. vm_compute. repeat split. Qed.

(* Lemmas about Model/MpiTypes.v: integer ranges, flat_map bookkeeping, pack/unpack. *)
From BM Require Import Base.Tactics Model.MpiTypes.
From Coq Require Import FinFun.
Local Open Scope Z_scope.

(* ---- zseq ---- *)
Lemma in_zseq n i : In i (zseq n) <-> 0 <= i < n.
Proof.
  unfold zseq. rewrite in_map_iff. split.
  - intros (k & <- & Hk). apply in_seq in Hk. lia.
  - intros H. exists (Z.to_nat i). split; [lia|]. apply in_seq. lia.
Qed.

Lemma zseq_length n : length (zseq n) = Z.to_nat n.
Proof. unfold zseq. rewrite map_length, seq_length. reflexivity. Qed.

Lemma NoDup_zseq n : NoDup (zseq n).
Proof.
  unfold zseq. apply Injective_map_NoDup; [|apply seq_NoDup].
  intros a b H. lia.
Qed.

Lemma nth_zseq n k d : (k < Z.to_nat n)%nat -> nth k (zseq n) d = Z.of_nat k.
Proof.
  intros H. unfold zseq.
  rewrite (nth_indep _ d (Z.of_nat 0)) by (rewrite map_length, seq_length; assumption).
  rewrite map_nth, seq_nth by assumption. reflexivity.
Qed.

Lemma seq_shift_add a : forall len s, seq (a + s) len = map (Nat.add a) (seq s len).
Proof.
  induction len as [|len IH]; intros s; cbn [seq map]; [reflexivity|].
  f_equal. rewrite <- IH. f_equal. lia.
Qed.

Lemma zseq_add a b : 0 <= a -> 0 <= b -> zseq (a + b) = zseq a ++ map (Z.add a) (zseq b).
Proof.
  intros Ha Hb. unfold zseq. rewrite Z2Nat.inj_add by lia. rewrite seq_app, map_app. f_equal.
  replace (0 + Z.to_nat a)%nat with (Z.to_nat a + 0)%nat by lia.
  rewrite seq_shift_add, !map_map. apply map_ext. intros k. lia.
Qed.

Lemma zseq_1 : zseq 1 = [0].
Proof. reflexivity. Qed.

Lemma zseq_S n : 0 <= n -> zseq (n + 1) = zseq n ++ [n].
Proof. intros H. rewrite zseq_add by lia. rewrite zseq_1. cbn [map]. do 2 f_equal. lia. Qed.

Lemma zseq_mul P n : 0 <= P -> 0 <= n ->
  zseq (n * P) = flat_map (fun i => map (fun j => i * P + j) (zseq P)) (zseq n).
Proof.
  intros HP Hn. pattern n. apply natlike_ind; [reflexivity| |assumption].
  intros x Hx IH. unfold Z.succ. rewrite zseq_S by lia. rewrite flat_map_app. cbn [flat_map].
  rewrite app_nil_r. replace ((x + 1) * P) with (x * P + P) by lia.
  rewrite zseq_add by nia. rewrite IH. reflexivity.
Qed.

(* ---- flat_map ---- *)
Lemma flat_map_ext_in' {A B} (f g : A -> list B) l :
  (forall a, In a l -> f a = g a) -> flat_map f l = flat_map g l.
Proof.
  induction l as [|a l IH]; intros H; cbn [flat_map]; [reflexivity|].
  rewrite H by (left; reflexivity). rewrite IH; [reflexivity|].
  intros b Hb. apply H. right. assumption.
Qed.

Lemma map_flat_map {A B C} (h : B -> C) (f : A -> list B) l :
  map h (flat_map f l) = flat_map (fun a => map h (f a)) l.
Proof. induction l as [|a l IH]; cbn [flat_map map]; [reflexivity|]. rewrite map_app, IH. reflexivity. Qed.

Lemma flat_map_singleton {A B} (f : A -> B) l : flat_map (fun a => [f a]) l = map f l.
Proof. induction l as [|a l IH]; cbn [flat_map map app]; [reflexivity|]. rewrite IH. reflexivity. Qed.

Lemma flat_map_length_const {A B} (f : A -> list B) l n :
  (forall a, In a l -> length (f a) = n) -> length (flat_map f l) = (length l * n)%nat.
Proof.
  induction l as [|a l IH]; intros H; cbn [flat_map length]; [reflexivity|].
  rewrite app_length, H by (left; reflexivity). rewrite IH by (intros; apply H; right; assumption). lia.
Qed.

Lemma NoDup_app_intro {A} (l l' : list A) :
  NoDup l -> NoDup l' -> (forall x, In x l -> ~ In x l') -> NoDup (l ++ l').
Proof.
  induction 1 as [|a l Ha Hl IH]; intros Hl' Hd; cbn [app]; [assumption|]. constructor.
  - intros Hin. apply in_app_or in Hin as [Hin|Hin]; [contradiction|].
    apply (Hd a); [left; reflexivity|assumption].
  - apply IH; [assumption|]. intros x Hx. apply Hd. right. assumption.
Qed.

Lemma NoDup_flat_map {A B} (f : A -> list B) l :
  NoDup l -> (forall a, In a l -> NoDup (f a)) ->
  (forall a b x, In a l -> In b l -> In x (f a) -> In x (f b) -> a = b) ->
  NoDup (flat_map f l).
Proof.
  induction 1 as [|a l Hna Hnd IH]; intros Hf Hd; cbn [flat_map]; [constructor|].
  apply NoDup_app_intro.
  - apply Hf. left. reflexivity.
  - apply IH.
    + intros b Hb. apply Hf. right. assumption.
    + intros b c x Hb Hc. apply Hd; right; assumption.
  - intros x Hx Hin. apply in_flat_map in Hin as (b & Hb & Hxb).
    assert (a = b) by (apply (Hd a b x); [left; reflexivity|right; assumption|assumption|assumption]).
    subst. contradiction.
Qed.

(* ---- bounds of the types mpi.hpp builds ---- *)
Lemma dt_extent_resized t lb e : dt_extent (Resized t lb e) = e.
Proof. unfold dt_extent, dt_ub, dt_lb. cbn [dt_bounds fst snd]. lia. Qed.

Lemma dt_lb_resized t lb e : dt_lb (Resized t lb e) = lb.
Proof. reflexivity. Qed.

Lemma hv_map_blocklen1 c s ex tm :
  hv_map c 1 s ex tm = flat_map (fun i => map (Z.add (i * s)) tm) (zseq c).
Proof.
  unfold hv_map. apply flat_map_ext. intros i. rewrite zseq_1. cbn [flat_map]. rewrite app_nil_r.
  apply map_ext. intros a. lia.
Qed.

(* ---- pack / unpack ---- *)
Lemma pack_length {V} (m : Z -> V) buf offs : length (pack m buf offs) = length offs.
Proof. unfold pack. apply map_length. Qed.

Lemma unpack_frame {V} offs : forall (m : Z -> V) buf vals a,
  (forall o, In o offs -> a <> buf + o) -> unpack m buf offs vals a = m a.
Proof.
  induction offs as [|o offs IH]; intros m buf [|x vals] a H; cbn [unpack]; try reflexivity.
  rewrite IH by (intros o' Ho'; apply H; right; assumption).
  unfold upd. destruct (a =? buf + o) eqn:E; [|reflexivity].
  bprop. exfalso. apply (H o); [left; reflexivity|assumption].
Qed.

Lemma unpack_nth {V} offs : forall (m : Z -> V) buf vals k d dv,
  NoDup offs -> length vals = length offs -> (k < length offs)%nat ->
  unpack m buf offs vals (buf + nth k offs d) = nth k vals dv.
Proof.
  induction offs as [|o offs IH]; intros m buf [|x vals] k d dv Hnd Hlen Hk;
    cbn [length] in Hlen, Hk; try lia.
  inv Hnd. destruct k as [|k]; cbn [nth unpack].
  - rewrite unpack_frame.
    + unfold upd. rewrite Z.eqb_refl. reflexivity.
    + intros o' Hin E. assert (o' = o) by lia. subst. contradiction.
  - apply IH; [assumption|lia|lia].
Qed.

(* packing through one list of displacements and unpacking through another of the same length moves
   the k-th entry to the k-th entry and leaves everything that is not an entry untouched *)
Lemma pack_unpack_nth {V} (msrc mdst : Z -> V) bv bw offv offw k :
  NoDup offw -> length offv = length offw -> (k < length offw)%nat ->
  unpack mdst bw offw (pack msrc bv offv) (bw + nth k offw 0) = msrc (bv + nth k offv 0).
Proof.
  intros Hnd Hlen Hk.
  rewrite (unpack_nth offw mdst bw _ k 0 (msrc (bv + 0))) by (try rewrite pack_length; assumption).
  unfold pack. rewrite (map_nth (fun o => msrc (bv + o))). reflexivity.
Qed.

(* Rank 0: the theorems of Proofs/LifeRank0*.v for EVERY configuration (the premise 1 <= c_rank cfg inherited from the lemmas
   of the rank >= 1 machine is discharged through rk1 cfg, Proofs/LifeRank0Cfg.v), and the refutation of the C05 clause about
   element_moved() at rank 0. *)
From BM Require Import Base.Tactics Model.Life Model.LifeRank0 Proofs.LifeBase Proofs.LifeMonad Proofs.LifeInv Proofs.LifeOps
  Proofs.LifeMain Proofs.LifeRank0Cfg Proofs.LifeRank0Inv Proofs.LifeRank0Main Proofs.LifeRank0Val Proofs.LifeRank0Sq
  Proofs.LifeRank0Sem Proofs.LifeRank0Cmp Proofs.LifeRank0Copies.
Local Open Scope Z_scope.

Lemma vstep0_rk1 cfg o P : vstep0 (rk1 cfg) o P = vstep0 cfg o P.
Proof. destruct o; reflexivity. Qed.

Lemma run_values0_rk1 cfg h : forall P, run_values0 (rk1 cfg) h P = run_values0 cfg h P.
Proof. induction h as [|o h IH]; intros P; cbn [run_values0 fold_left]; auto. Qed.

Lemma hist_dom0_rk1 cfg h : forall s, hist_dom0 cfg h s -> hist_dom0 (rk1 cfg) h s.
Proof. induction h as [|o h IH]; intros s; cbn; auto. intros [D R]. split; auto. rewrite run_op0_rk1. apply IH. exact R. Qed.

Lemma step0_to_rk1 cfg o s r : step0 cfg o s = r -> step0 (rk1 cfg) o s = r.
Proof. intros <-. apply step0_rk1. Qed.

Section Final.
Variable cfg : config.
Notation R := (rk1_rank cfg).

Theorem f_history_invariant h : hist_dom0 cfg h (st0 None) ->
  let '(outs, s') := run_rank0 cfg h (st0 None) in Good cfg s' /\ Forall (fun o => o = OutOk) outs.
Proof.
  intros D. pose proof (rank0_safe_nofault (rk1 cfg) R h (hist_dom0_rk1 cfg h _ D)) as H.
  rewrite run_rank0_rk1 in H. destruct (run_rank0 cfg h (st0 None)) as [outs s']. destruct H as [G F]. split; auto.
  apply Good_rk1; auto.
Qed.

Theorem f_history_invariant_fault h k : hist_dom0 cfg h (st0 (Some k)) ->
  let '(outs, s') := run_rank0 cfg h (st0 (Some k)) in
  (forall w, In (EvThrow w) (s_ledger s') -> ok_site w) -> Good cfg s' /\ Forall not_err outs.
Proof.
  intros D. pose proof (rank0_safe_fault (rk1 cfg) R h k (hist_dom0_rk1 cfg h _ D)) as H.
  rewrite run_rank0_rk1 in H. destruct (run_rank0 cfg h (st0 (Some k))) as [outs s']. intros Hs. destruct (H Hs) as [G F].
  split; auto. apply Good_rk1; auto.
Qed.

Theorem f_one_cell s r a : Good cfg s -> get_slot s r = Some a -> is0 a ->
  exists b blk c, a_base a = PBlk b /\ get_blk s b = Some blk /\ b_live blk = true /\ b_size blk = 1
                  /\ b_cells blk = [c] /\ cell_init cfg c = true /\ alloc_eq cfg (b_owner blk) (a_alloc a) = true.
Proof. intros G. apply (rank0_one_cell (rk1 cfg) R). apply Good_rk1; auto. Qed.

Theorem f_storage_disjoint s r r' a a' b : Good cfg s -> get_slot s r = Some a -> get_slot s r' = Some a' ->
  is0 a -> is0 a' -> a_base a = PBlk b -> a_base a' = PBlk b -> r = r'.
Proof. intros G. apply (rank0_storage_disjoint (rk1 cfg) R). apply Good_rk1; auto. Qed.

Theorem f_value_semantics h : hist_dom0 cfg h (st0 None) ->
  abs_state (snd (run_rank0 cfg h (st0 None))) = run_values0 cfg h (abs_state (st0 None)).
Proof.
  intros D. pose proof (rank0_value_semantics (rk1 cfg) R h (hist_dom0_rk1 cfg h _ D)) as H.
  rewrite run_rank0_rk1, run_values0_rk1 in H. exact H.
Qed.

Theorem f_operation_refines o s s' : Good cfg s -> dom_op0 (s_arrs s) o -> step0 cfg o s = Ok tt s' ->
  abs_state s' = vstep0 cfg o (abs_state s).
Proof.
  intros G D H. rewrite <- vstep0_rk1. apply (step0_abs (rk1 cfg) R); auto; try (apply Good_rk1; auto); try (apply step0_to_rk1; auto).
Qed.

Theorem f_operation_keeps_invariant o s s' : Good cfg s -> dom_op0 (s_arrs s) o -> step0 cfg o s = Ok tt s' -> Good cfg s'.
Proof.
  intros G D H. apply Good_rk1. apply (step0_good (rk1 cfg) R o s s'); auto; try (apply Good_rk1; auto); try (apply step0_to_rk1; auto).
Qed.

Theorem f_copy_independent r t v s s1 s2 : Good cfg s ->
  dom_op0 (s_arrs s) (ZCtorCopy r t) -> step0 cfg (ZCtorCopy r t) s = Ok tt s1 ->
  dom_op0 (s_arrs s1) (ZWrite r v) -> step0 cfg (ZWrite r v) s1 = Ok tt s2 ->
  vget (abs_state s2) t = vget (abs_state s) t /\ vget (abs_state s2) r = (X0, [v]).
Proof.
  intros G D1 H1 D2 H2. apply (copy_then_write_copy0 (rk1 cfg) R r t v s s1 s2); auto; try (apply step0_to_rk1; auto).
  apply Good_rk1; auto.
Qed.

Theorem f_copy_independent_of_source r t v s s1 s2 : Good cfg s ->
  dom_op0 (s_arrs s) (ZCtorCopy r t) -> step0 cfg (ZCtorCopy r t) s = Ok tt s1 ->
  dom_op0 (s_arrs s1) (ZWrite t v) -> step0 cfg (ZWrite t v) s1 = Ok tt s2 ->
  vget (abs_state s2) r = vget (abs_state s) t.
Proof.
  intros G D1 H1 D2 H2. apply (copy_then_write_source0 (rk1 cfg) R r t v s s1 s2); auto; try (apply step0_to_rk1; auto).
  apply Good_rk1; auto.
Qed.

Theorem f_copy_assign_value r t s s' : Good cfg s -> dom_op0 (s_arrs s) (ZAssignCopy r t) -> step0 cfg (ZAssignCopy r t) s = Ok tt s' ->
  vget (abs_state s') r = vget (abs_state s) t /\ forall q, q <> r -> nth_error (abs_state s') q = nth_error (abs_state s) q.
Proof.
  intros G D H. apply (assign_copy_value0 (rk1 cfg) R); auto; try (apply Good_rk1; auto); try (apply step0_to_rk1; auto).
Qed.

Theorem f_move_ctor_transfers r t s s' : Good cfg s -> dom_op0 (s_arrs s) (ZCtorMove r t) ->
  step0 cfg (ZCtorMove r t) (reset_counts s) = Ok tt s' ->
  vget (abs_state s') r = vget (abs_state s) t /\ s_copies s' = 0 /\ Good cfg s' /\
  (forall q, q <> r -> nth_error (abs_state s') q = nth_error (abs_state s) q) /\ exists at_, live0 (s_arrs s') t at_.
Proof.
  intros G D H. destruct (move_ctor_transfers0 (rk1 cfg) R r t s s') as (A & B & C & E & F); auto.
  - apply Good_rk1; auto. - apply step0_to_rk1; auto.
  - split; [exact A|]. split; [exact B|]. split; [apply Good_rk1; exact C|]. split; [exact E|exact F].
Qed.

Theorem f_move_assign_transfers r t s s' : Good cfg s -> dom_op0 (s_arrs s) (ZAssignMove r t) ->
  step0 cfg (ZAssignMove r t) (reset_counts s) = Ok tt s' ->
  vget (abs_state s') r = vget (abs_state s) t /\ s_copies s' = 0 /\ Good cfg s' /\
  (forall q, q <> r -> nth_error (abs_state s') q = nth_error (abs_state s) q) /\
  (c_pocma cfg = false -> length (s_blocks s') = length (s_blocks s)).
Proof.
  intros G D H. destruct (move_assign_transfers0 (rk1 cfg) R r t s s') as (A & B & C & E & F); auto.
  - apply Good_rk1; auto. - apply step0_to_rk1; auto.
  - split; [exact A|]. split; [exact B|]. split; [apply Good_rk1; exact C|]. split; [exact E|exact F].
Qed.

Theorem f_swap_exchanges o r t s s' : (o = ZSwap r t \/ o = ZSwapMember r t) -> Good cfg s -> dom_op0 (s_arrs s) o ->
  step0 cfg o (reset_counts s) = Ok tt s' ->
  vget (abs_state s') r = vget (abs_state s) t /\ vget (abs_state s') t = vget (abs_state s) r /\ s_copies s' = 0 /\
  forall q, q <> r -> q <> t -> nth_error (abs_state s') q = nth_error (abs_state s) q.
Proof.
  intros Ho G D H. apply (swap_exchanges0 (rk1 cfg) R o r t s s'); auto; try (apply Good_rk1; auto); try (apply step0_to_rk1; auto).
Qed.

Theorem f_self_copy_assign_noop r s s' : step0 cfg (ZAssignCopy r r) s = Ok tt s' -> s' = s.
Proof. apply self_copy_assign_noop0. Qed.

Theorem f_self_move_assign_noop r s s' : step0 cfg (ZAssignMove r r) s = Ok tt s' -> s' = s.
Proof. apply self_move_assign_noop0. Qed.

Theorem f_assign_elem_exact r v s s' : Good cfg s -> dom_op0 (s_arrs s) (ZAssignElem r v) -> step0 cfg (ZAssignElem r v) s = Ok tt s' ->
  vget (abs_state s') r = (X0, [v]) /\ forall q, q <> r -> nth_error (abs_state s') q = nth_error (abs_state s) q.
Proof.
  intros G D H. apply (assign_elem_exact0 (rk1 cfg) R); auto; try (apply Good_rk1; auto); try (apply step0_to_rk1; auto).
Qed.

Theorem f_assign_ref_exact r q s s' : Good cfg s -> dom_op0 (s_arrs s) (ZAssignRef r q) -> step0 cfg (ZAssignRef r q) s = Ok tt s' ->
  vget (abs_state s') r = (X0, [rval (abs_state s) q]) /\ forall t, t <> r -> nth_error (abs_state s') t = nth_error (abs_state s) t.
Proof.
  intros G D H. apply (assign_ref_exact0 (rk1 cfg) R); auto; try (apply Good_rk1; auto); try (apply step0_to_rk1; auto).
Qed.

Theorem f_ref_assign_exact o q v s s' : Good cfg s -> dom_op0 (s_arrs s) o -> step0 cfg o s = Ok tt s' ->
  (exists p, (o = ZRefAssignRef q p \/ o = ZRefAssignMoved q p) /\ v = rval (abs_state s) p) \/ o = ZRefAssignElem q v \/ o = ZRefWrite q v ->
  rval (abs_state s') q = v /\
  (forall t k, (t <> rf_slot q \/ k <> rf_idx q) -> rval (abs_state s') (mkref0 t k) = rval (abs_state s) (mkref0 t k)) /\
  (forall t, fst (vget (abs_state s') t) = fst (vget (abs_state s) t)) /\ mem_same s s'.
Proof.
  intros G D H Ho. apply (ref_assign_exact0 (rk1 cfg) R o q v s s'); auto; try (apply Good_rk1; auto); try (apply step0_to_rk1; auto).
Qed.

Theorem f_ref_swap_exact q p s s' : Good cfg s -> dom_op0 (s_arrs s) (ZRefSwap q p) -> step0 cfg (ZRefSwap q p) s = Ok tt s' ->
  abs_state s' = vput (vput (abs_state s) q (rval (abs_state s) p)) p (rval (abs_state s) q) /\ mem_same s s'.
Proof.
  intros G D H. split.
  - exact (f_operation_refines _ _ _ G D H).
  - eapply through_refs_keep; eauto. exact Logic.I.
Qed.

Theorem f_through_refs_keep o s s' : through_refs o -> step0 cfg o s = Ok tt s' -> mem_same s s'.
Proof. apply through_refs_keep. Qed.

Theorem f_moving_no_copy o s : moving o ->
  match step0 cfg o s with Ok _ s' | Threw s' => s_copies s' = s_copies s | Err _ => True end.
Proof. intros H. apply (moving_ncp cfg o H s). Qed.

Theorem f_compare o l r s : Good cfg s -> operand_dom (s_arrs s) l -> operand_dom (s_arrs s) r ->
  cmp0 cfg o l r s = Ok (rel0 o (oval (abs_state s) l) (oval (abs_state s) r)) s.
Proof.
  intros G Dl Dr. rewrite <- (cmp0_rk1 cfg o l r s). apply (cmp0_spec (rk1 cfg) R); auto. apply Good_rk1; auto.
Qed.

End Final.

(* ------------------------------------------------------------------------------------------ *)
(* C05 at rank 0, the clause about moved views: false of the code                              *)
(* ------------------------------------------------------------------------------------------ *)
(* "Moving from a view (element_moved, moved sub-views) moves from exactly the viewed elements": after q = p.element_moved()
   (and array(p.element_moved()), array = p.element_moved()) the element p designates is left moved-from, for every element
   type that has a moved-from state. *)
Definition C05_rank0_moved_full : Prop :=
  forall cfg h q p, c_quiet cfg = false -> hist_dom0 cfg (h ++ [ZRefAssignMoved q p]) (st0 None) ->
    is_moved (ref_cell_state (snd (run_rank0 cfg (h ++ [ZRefAssignMoved q p]) (st0 None))) p) = true.

Definition cfg_tracked : config := mkcfg 0 false false false false false false false SoccSame.
(* E buf[2] = {1, 2}; array_ref<E, 0> q(&buf[0], {}), p(&buf[1], {}); q = p.element_moved();  buf[1] is copied from *)
Definition h_moved : list lop0 := [ZBuf 0 0 [1; 2]].

Theorem moved_refuted : ~ C05_rank0_moved_full.
Proof.
  intros H. specialize (H cfg_tracked h_moved (mkref0 0 0) (mkref0 0 1) eq_refl).
  assert (D : hist_dom0 cfg_tracked (h_moved ++ [ZRefAssignMoved (mkref0 0 0) (mkref0 0 1)]) (st0 None)).
  { cbn [h_moved app hist_dom0]. split; [split; [unfold NP; lia|reflexivity]|]. split; auto.
    vm_compute run_op0. cbn [snd s_arrs].
    split; eexists; (split; [split; [unfold NP; cbn; lia|reflexivity]|vm_compute; reflexivity]). }
  specialize (H D). vm_compute in H. discriminate.
Qed.

(* the same history with what the property asks for (SMoveCell instead of SCell) does leave the source moved-from: the
   witness is about the transcribed code path, not about the machine *)
Example moved_would_hold :
  let s := snd (run_rank0 cfg_tracked h_moved (st0 None)) in
  match (c <- ref_cell (mkref0 0 0) ;; d <- ref_cell (mkref0 0 1) ;;
         assign_loop cfg_tracked SAssignElem (fst c) [snd c] [SMoveCell (fst d) (snd d)]) s with
  | Ok _ s' => is_moved (ref_cell_state s' (mkref0 0 1)) = true
  | _ => False
  end.
Proof. vm_compute. reflexivity. Qed.

(* ---- C09 at dimensionality 0: the full statement (every injection point, no exclusion) is false of the faithful model ---- *)
Definition C09_rank0_full : Prop :=
  forall cfg h k, hist_dom0 cfg h (st0 (Some k)) ->
    let '(outs, s') := run_rank0 cfg h (st0 (Some k)) in Good cfg s' /\ Forall not_err outs.

(* array<E, 0, A> a(E{7}, A{1}): events: the allocation, the element copy; the copy throws: the block allocated in the
   mem-initializer belongs to no array object and is never released *)
Definition h_ctor0 : list lop0 := [ZCtorElem 0 1 7].

Theorem ctor_leak_refuted0 : ~ C09_rank0_full.
Proof.
  intros H. specialize (H cfg_tracked h_ctor0 2%nat).
  assert (D : hist_dom0 cfg_tracked h_ctor0 (st0 (Some 2%nat))).
  { cbn. split; auto. split; [unfold NP; lia|reflexivity]. }
  specialize (H D). remember (run_rank0 cfg_tracked h_ctor0 (st0 (Some 2%nat))) as R eqn:E. vm_compute in E. subst R.
  destruct H as [(I & _) _].
  destruct (inv_noleak _ _ _ I 0%nat _ eq_refl eq_refl) as [[]|[r (a & Ha & _)]].
  unfold get_slot in Ha; cbn in Ha.
  do 9 (destruct r as [|r]; [discriminate|]). destruct r; discriminate.
Qed.

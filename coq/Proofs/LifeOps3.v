(* The assignment operators and the remaining constructors of array.hpp preserve the ownership invariant. *)
From BM Require Import Base.Tactics Model.Life Proofs.LifeBase Proofs.LifeMonad Proofs.LifeInv Proofs.LifeCells
  Proofs.LifeSteps Proofs.LifeCombi Proofs.LifeOps Proofs.LifeOps2.
Local Open Scope Z_scope.

Section Ops3.
Variable cfg : config.
Hypothesis rank_pos : (1 <= c_rank cfg)%nat.

Notation Inv := (Inv cfg).
Notation Good := (Good cfg).
Notation GoodT := (GoodT cfg).
Notation op_ok := (op_ok cfg).

Lemma tmp_ne_user r : (r < NP)%nat -> r <> TMP1 /\ r <> TMP2 /\ r <> TMP3.
Proof. unfold NP, TMP1, TMP2, TMP3. lia. Qed.

Lemma GoodT_left s A : Inv [] s -> s_arrs s = A -> wf_slots A -> GoodT s.
Proof. intros I <- W. left. auto. Qed.

(* ---- operator=(array&&) ---- *)
Lemma ok_AssignMove r t : op_ok (OAssignMove r t).
Proof.
  intros A W T ((ar & Dr) & (at_ & Dt)). cbn [step].
  eapply triple_bind; [apply (get_arr_ok cfg [] A r ar); apply Dr|]. intros _x.
  apply triple_assume with (P := fun s => Inv [] s /\ s_arrs s = A). intros _.
  apply triple_pure with (F := length A = NSLOTS). { intros s [I HA]. eapply len_A; eauto. } intros Hlen.
  destruct (tmp_ne_user r (proj1 Dr)) as (N1 & _). destruct (tmp_ne_user t (proj1 Dt)) as (N2 & _).
  eapply triple_conseq; [apply (move_assign_ok cfg rank_pos A TMP1 r t ar at_ Hlen W (proj2 Dr) (proj2 Dt) (proj1 T))| | |]; auto.
  - intros _ s (I & A' & HA & Hse & Hwf & _). eapply (Good_intro cfg); eauto.
    + eapply wf_slots_same; eauto. intros q a Hq Hn. apply (Hwf q a); [destruct Hq as [<-|[<-|[]]]; auto|exact Hn].
    + eapply tmps_free_same; eauto. intros q [<-|[<-|[]]]; [apply Dr|apply Dt].
  - intros s [[I HA]|B]; [eapply GoodT_left; eauto|right; auto].
Qed.

(* ---- build a default-allocator temporary in TMP2, move-assign it into r, destroy the temporary ---- *)
Lemma via_tmp2_ok A r ar x rowlen srcs :
  wf_slots A -> tmps_free A -> live A r ar ->
  Forall (src_in A) srcs -> (0 < bnumel x -> length srcs = Z.to_nat (bnumel x)) ->
  triple (fun s => Inv [] s /\ s_arrs s = A)
         (p <- p_build cfg default_alloc (bnumel x) rowlen srcs ;;
          install TMP2 default_alloc p x ;;; move_assign cfg TMP1 r TMP2 ;;; p_dtor cfg TMP2)
         (fun _ s' => Good s') GoodT.
Proof.
  intros W T Dr F Hl.
  apply triple_pure with (F := length A = NSLOTS). { intros s [I HA]. eapply len_A; eauto. } intros Hlen.
  destruct T as (T1 & T2 & T3). destruct (tmp_ne_user r (proj1 Dr)) as (N1 & N2 & N3).
  assert (L2 : (TMP2 < length A)%nat) by (eapply nth_lt; eauto).
  eapply triple_bind.
  { eapply triple_conseq; [apply (p_build_spec cfg rank_pos [] default_alloc (bnumel x) rowlen srcs A F Hl)| | |]; auto.
    - intros p s H. exact H.
    - intros s [HA [[I Th]|Th]]; [eapply GoodT_left; eauto|right; left; auto]. }
  intros p.
  set (tarr := with_bx default_alloc p x).
  set (A1 := upd_nth A TMP2 (Some tarr)).
  eapply triple_bind with (Q := fun _ s => Inv [] s /\ s_arrs s = A1).
  { apply triple_nothrow. eapply triple_conseq; [apply (install_spec cfg [] TMP2 default_alloc x A p)| | |]; auto.
    - unfold NSLOTS, TMP2. lia.
    - unfold slotA. rewrite T2. exact I. }
  intros _.
  assert (W1 : wf_slots A1) by (apply wf_slots_upd; auto; intros a E; inv E; apply (wf_with_bx cfg); auto).
  assert (H1r : nth_error A1 r = Some (Some ar)).
  { unfold A1. rewrite nth_upd by auto. destruct (Nat.eqb_spec TMP2 r); [congruence|apply Dr]. }
  assert (H1t : nth_error A1 TMP2 = Some (Some tarr)) by (unfold A1; rewrite nth_upd by auto; rewrite Nat.eqb_refl; auto).
  assert (H11 : nth_error A1 TMP1 = Some None).
  { unfold A1. rewrite nth_upd by auto. destruct (Nat.eqb_spec TMP2 TMP1) as [E|]; [discriminate E|auto]. }
  assert (Hlen1 : length A1 = NSLOTS) by (unfold A1; rewrite upd_nth_length; auto).
  eapply triple_bind.
  { eapply triple_conseq; [apply (move_assign_ok cfg rank_pos A1 TMP1 r TMP2 ar tarr Hlen1 W1 H1r H1t H11)| | |]; auto.
    - discriminate.
    - intros u s H. exact H.
    - intros s [[I HA]|B]; [eapply GoodT_left; eauto|right; auto]. }
  intros u.
  eapply triple_pre with (P' := fun s => exists A2, (same_except A1 A2 [r; TMP2] /\
                  (forall q a, (q = r \/ q = TMP2) -> nth_error A2 q = Some (Some a) -> wf_arr a) /\
                  (exists a, nth_error A2 TMP2 = Some (Some a))) /\ (Inv [] s /\ s_arrs s = A2)).
  2:{ intros s (I & A2 & HA & Hse & Hwf & _ & Ht). exists A2. auto. }
  apply triple_exists. intros A2. apply triple_assume. intros (Hse & Hwf & (a2 & H2t)).
  apply triple_nothrow. eapply triple_post; [apply (dtor_ok cfg rank_pos [] A2 TMP2 a2 H2t)|].
  intros _ s [I HA]. destruct Hse as [Hl2 Hse].
  assert (W2 : wf_slots A2).
  { eapply wf_slots_same; [exact W1|split; eauto|]. intros q a Hq Hn. apply (Hwf q a); [destruct Hq as [<-|[<-|[]]]; auto|exact Hn]. }
  eapply (Good_intro cfg); eauto.
  - apply wf_slots_upd; auto. intros a E; discriminate.
  - unfold tmps_free. rewrite !nth_upd by (rewrite Hl2, Hlen1; unfold NSLOTS, TMP2; lia).
    destruct (Nat.eqb_spec TMP2 TMP1) as [E|_]; [discriminate E|]. rewrite Nat.eqb_refl.
    destruct (Nat.eqb_spec TMP2 TMP3) as [E|_]; [discriminate E|].
    rewrite !Hse.
    + unfold A1. rewrite !nth_upd by auto. destruct (Nat.eqb_spec TMP2 TMP1) as [E|_]; [discriminate E|].
      destruct (Nat.eqb_spec TMP2 TMP3) as [E|_]; [discriminate E|]. auto.
    + intros [E|[E|[]]]; [apply N3; auto|discriminate E].
    + intros [E|[E|[]]]; [apply N1; auto|discriminate E].
Qed.

(* ---- the three assignments that go through a default-allocator temporary when the extensions differ ---- *)
Lemma vsrc_src_in_ex A r t at_ v : r <> t -> nth_error A t = Some (Some at_) -> vsrc_dom at_ v -> Forall (src_in_ex A r) (vsrc_cells at_ v).
Proof.
  intros Hne Ht [Ho _]. unfold vsrc_cells. destruct (a_base at_) as [|b] eqn:Eb; [constructor|].
  apply Forall_forall. intros x Hx. apply in_map_iff in Hx. destruct Hx as (o & <- & Hin).
  cbn. exists t, at_. repeat split; auto. eapply Forall_forall in Ho; eauto.
Qed.

Lemma vals_src_in_ex A r vals : Forall (src_in_ex A r) (map SVal vals).
Proof. apply Forall_forall. intros x Hx. apply in_map_iff in Hx. destruct Hx as (v & <- & _). exact I. Qed.
Lemma repeat_src_in_ex A r v n : Forall (src_in_ex A r) (repeat (SVal v) n).
Proof. apply Forall_forall. intros x Hx. apply repeat_spec in Hx. subst. exact I. Qed.

Lemma src_in_ex_upd A r o x : (r < length A)%nat -> src_in_ex A r x -> src_in_ex (upd_nth A r o) r x.
Proof.
  intros Hl H. destruct x as [v|b i|b i]; cbn in *; auto.
  - destruct H as (r' & a & Hne & H1 & H2 & H3). exists r', a. split; auto. split; auto.
    rewrite nth_upd by auto. destruct (Nat.eqb_spec r r'); [congruence|auto].
  - destruct H as (r' & a & Hne & H1 & H2 & H3). exists r', a. split; auto. split; auto.
    rewrite nth_upd by auto. destruct (Nat.eqb_spec r r'); [congruence|auto].
Qed.

(* element assignment in place, possibly after a reshape to the same element count *)
Lemma assign_in_place_ok A r ar srcs :
  wf_slots A -> tmps_free A -> live A r ar -> Forall (src_in_ex A r) srcs ->
  triple (fun s => Inv [] s /\ s_arrs s = A) (assign_all cfg ar srcs) (fun _ s' => Good s') GoodT.
Proof.
  intros W T Dr F.
  eapply triple_conseq; [apply (assign_all_spec cfg rank_pos [] A r ar ar srcs (proj2 Dr) eq_refl eq_refl F)| | |]; auto.
  - intros _ s [I HA]. eapply (Good_intro cfg); eauto.
  - intros s (I & HA & _). eapply GoodT_left; eauto.
Qed.

Lemma reshape_assign_ok A r ar x srcs :
  wf_slots A -> tmps_free A -> live A r ar -> nel ar = bnumel x -> Forall (src_in_ex A r) srcs ->
  triple (fun s => Inv [] s /\ s_arrs s = A)
         (set_arr r (with_bx (a_alloc ar) (a_base ar) x) ;;; assign_all cfg (with_bx (a_alloc ar) (a_base ar) x) srcs)
         (fun _ s' => Good s') GoodT.
Proof.
  intros W T Dr Hn F.
  set (ar' := with_bx (a_alloc ar) (a_base ar) x). set (A1 := upd_nth A r (Some ar')).
  apply triple_pure with (F := length A = NSLOTS). { intros s [I HA]. eapply len_A; eauto. } intros Hlen.
  assert (Lr : (r < length A)%nat) by (eapply nth_lt; apply Dr).
  eapply triple_bind with (Q := fun _ s => Inv [] s /\ s_arrs s = A1).
  { intros s [I HA]. rewrite set_arr_eq. split; [|cbn; rewrite HA; reflexivity].
    eapply Inv_retag with (ar := ar); auto.
    - unfold get_slot. rewrite HA. destruct Dr as [_ ->]. reflexivity.
    - unfold ar'. rewrite nel_with_bx. auto.
    - apply alloc_eq_refl. }
  intros _.
  assert (H1r : nth_error A1 r = Some (Some ar')) by (unfold A1; rewrite nth_upd by auto; rewrite Nat.eqb_refl; auto).
  assert (F1 : Forall (src_in_ex A1 r) srcs).
  { eapply Forall_impl; [|exact F]. intros y Hy. apply src_in_ex_upd; auto. }
  assert (W1 : wf_slots A1) by (apply wf_slots_upd; auto; intros a E; inv E; apply (wf_with_bx cfg); auto).
  eapply triple_conseq; [apply (assign_all_spec cfg rank_pos [] A1 r ar' ar' srcs H1r eq_refl eq_refl F1)| | |]; auto.
  - intros _ s [I HA]. eapply (Good_intro cfg); eauto. eapply tmps_free_upd; eauto. apply Dr.
  - intros s (I & HA & _). eapply GoodT_left; eauto.
Qed.

Lemma ok_AssignView r t v mut : op_ok (OAssignView r t v mut).
Proof.
  intros A W T (Hne & (ar & Dr) & (at_ & Dt & Dv)). cbn [step].
  eapply bind_get_arr; [apply Dr|]. eapply bind_get_arr; [apply Dt|].
  destruct (bx_eq (arr_bx ar) (vs_exts v)).
  - apply (assign_in_place_ok A r ar); auto. eapply vsrc_src_in_ex; eauto. apply Dt.
  - destruct (mut && (nel ar =? bnumel (vs_exts v))) eqn:E.
    + apply andb_prop in E. destruct E as [_ E]. bprop.
      apply reshape_assign_ok; auto. eapply vsrc_src_in_ex; eauto. apply Dt.
    + apply triple_pure with (F := 0 < bnumel (vs_exts v) -> length (vsrc_cells at_ v) = Z.to_nat (bnumel (vs_exts v))).
      { intros s [I HA]. eapply vsrc_length; eauto. apply Dt. }
      intros Hl. eapply via_tmp2_ok; eauto. eapply vsrc_src_in; eauto. apply Dt.
Qed.

Lemma ok_ViewAssign r t vr vt : op_ok (OViewAssign r t vr vt).
Proof.
  intros A W T (Hne & (ar & Dr & Dvr) & (at_ & Dt & Dvt) & Hx). cbn [step].
  eapply bind_get_arr; [apply Dr|]. eapply bind_get_arr; [apply Dt|].
  eapply triple_conseq; [apply (assign_offs_spec cfg rank_pos [] A r ar (vs_offs vr) (vsrc_cells at_ vt) (proj2 Dr))| | |]; auto.
  - eapply vsrc_src_in_ex; eauto. apply Dt.
  - destruct Dvr as [Fo _]. eapply Forall_impl; [|exact Fo]. intros o Ho. unfold nnel. cbn in Ho. lia.
  - intros _ s [I HA]. eapply (Good_intro cfg); eauto.
  - intros s (I & HA & _). eapply GoodT_left; eauto.
Qed.

Lemma ok_AssignRange r w : op_ok (OAssignRange r w).
Proof.
  intros A W T ((ar & Dr) & Dw). cbn [step]. eapply bind_get_arr; [apply Dr|].
  destruct (same_shape_rows ar w).
  - apply (assign_in_place_ok A r ar); auto. apply vals_src_in_ex.
  - eapply via_tmp2_ok; eauto. + apply map_SVal_src_in. + intros Hp. rewrite map_length. apply Dw; auto.
Qed.

Lemma bnumel_norm x : bnumel (norm_bx x) = bnumel x.
Proof.
  unfold bnumel, norm_bx. rewrite (bx_sizes_combine cfg); auto.
  - unfold mk_sizes. apply numel_collapse.
  - unfold mk_firsts, mk_sizes. rewrite map_length, combine_length. unfold bx_firsts, bx_sizes.
    rewrite collapse_length, !map_length. lia.
Qed.

Lemma ok_AssignConv r x vals : op_ok (OAssignConv r x vals).
Proof.
  intros A W T ((ar & Dr) & Dl). cbn [step]. eapply bind_get_arr; [apply Dr|].
  destruct (bx_eq (arr_bx ar) (norm_bx x)).
  - apply (assign_in_place_ok A r ar); auto. apply vals_src_in_ex.
  - destruct (nel ar =? bnumel x) eqn:E; bprop.
    + apply reshape_assign_ok; auto. * rewrite bnumel_norm. auto. * apply vals_src_in_ex.
    + eapply via_tmp2_ok; eauto. * apply map_SVal_src_in. * intros Hp. rewrite map_length. apply Dl; auto.
Qed.

(* ---- build the new value in TMP1 with the final allocator, release the old one, adopt ---- *)
Lemma adopt_tmp1_ok A r er tarr :
  length A = NSLOTS -> wf_slots A -> (r < NP)%nat ->
  nth_error A r = Some (Some er) -> nel er <= 0 -> nth_error A TMP1 = Some (Some tarr) ->
  alloc_eq cfg (a_alloc tarr) (a_alloc er) = true ->
  nth_error A TMP2 = Some None -> nth_error A TMP3 = Some None ->
  triple (fun s => Inv [] s /\ s_arrs s = A) (p_adopt cfg r TMP1 ;;; p_dtor cfg TMP1) (fun _ s' => Good s') GoodT.
Proof.
  intros Hlen W Hr Hnr Hz Hnt Hal H2 H3.
  destruct (tmp_ne_user r Hr) as (N1 & N2 & N3).
  assert (Lr : (r < length A)%nat) by (eapply nth_lt; eauto).
  assert (L1 : (TMP1 < length A)%nat) by (eapply nth_lt; eauto).
  set (rnew := mkarr (a_alloc er) (a_base tarr) (a_exts tarr) (a_first tarr)).
  set (A1 := upd_nth (upd_nth A r (Some rnew)) TMP1 (Some (empty_arr cfg (a_alloc tarr) PNull))).
  apply triple_nothrow.
  eapply triple_bind with (Q := fun _ s => Inv [] s /\ s_arrs s = A1).
  { apply (adopt_ok cfg rank_pos [] A r TMP1 er tarr); auto. }
  intros _.
  assert (H11 : nth_error A1 TMP1 = Some (Some (empty_arr cfg (a_alloc tarr) PNull))).
  { unfold A1. rewrite nth_upd by (rewrite upd_nth_length; auto). rewrite Nat.eqb_refl. auto. }
  eapply triple_post; [apply (dtor_ok cfg rank_pos [] A1 TMP1 _ H11)|].
  intros _ s [I HA]. eapply (Good_intro cfg); eauto.
  - apply wf_slots_upd; [|intros a E; discriminate]. unfold A1.
    apply wf_slots_upd; [apply wf_slots_upd; auto|].
    + intros a E; inv E. apply (W TMP1 tarr Hnt).
    + intros a E; inv E. apply wf_empty.
  - assert (LA1 : length A1 = length A) by (unfold A1; rewrite !upd_nth_length; auto).
    unfold tmps_free. rewrite !nth_upd by lia. rewrite Nat.eqb_refl.
    destruct (Nat.eqb_spec TMP1 TMP2) as [E|_]; [discriminate E|]. destruct (Nat.eqb_spec TMP1 TMP3) as [E|_]; [discriminate E|].
    unfold A1. rewrite !nth_upd by (rewrite ?upd_nth_length; auto).
    destruct (Nat.eqb_spec TMP1 TMP2) as [E|_]; [discriminate E|]. destruct (Nat.eqb_spec TMP1 TMP3) as [E|_]; [discriminate E|].
    destruct (Nat.eqb_spec r TMP2); [congruence|]. destruct (Nat.eqb_spec r TMP3); [congruence|]. auto.
Qed.

Lemma ok_AssignFill r x v : op_ok (OAssignFill r x v).
Proof.
  intros A W T (ar & Dr). cbn [step]. eapply bind_get_arr; [apply Dr|].
  destruct (bx_eq (arr_bx ar) x).
  - apply (assign_in_place_ok A r ar); auto. apply repeat_src_in_ex.
  - apply triple_pure with (F := length A = NSLOTS). { intros s [I HA]. eapply len_A; eauto. } intros Hlen.
    destruct T as (T1 & T2 & T3). destruct (tmp_ne_user r (proj1 Dr)) as (N1 & N2 & N3).
    assert (L1 : (TMP1 < length A)%nat) by (eapply nth_lt; eauto).
    assert (Lr : (r < length A)%nat) by (eapply nth_lt; apply Dr).
    eapply triple_bind.
    { eapply triple_conseq; [apply (p_build_spec cfg rank_pos [] (a_alloc ar) (bnumel x) 0 (repeat (SVal v) (Z.to_nat (bnumel x))) A)| | |]; auto.
      - apply repeat_src_in.
      - intros _. apply repeat_length.
      - intros p s H. exact H.
      - intros s [HA [[I Th]|Th]]; [eapply GoodT_left; eauto|right; left; auto]. }
    intros p. set (tarr := with_bx (a_alloc ar) p x). set (A1 := upd_nth A TMP1 (Some tarr)).
    eapply triple_bind with (Q := fun _ s => Inv [] s /\ s_arrs s = A1).
    { apply triple_nothrow. eapply triple_conseq; [apply (install_spec cfg [] TMP1 (a_alloc ar) x A p)| | |]; auto.
      - unfold NSLOTS, TMP1. lia.
      - unfold slotA. rewrite T1. exact I. }
    intros _.
    assert (H1r : nth_error A1 r = Some (Some ar)).
    { unfold A1. rewrite nth_upd by auto. destruct (Nat.eqb_spec TMP1 r); [congruence|apply Dr]. }
    set (er := empty_arr cfg (a_alloc ar) (a_base ar)). set (A2 := upd_nth A1 r (Some er)).
    eapply triple_bind with (Q := fun _ s => Inv [] s /\ s_arrs s = A2).
    { apply triple_nothrow. apply (clear_ok cfg rank_pos [] A1 r ar H1r). }
    intros _.
    assert (LA1 : length A1 = length A) by (unfold A1; apply upd_nth_length).
    apply (adopt_tmp1_ok A2 r er tarr).
    + unfold A2. rewrite upd_nth_length. lia.
    + unfold A2, A1. apply wf_slots_upd; [apply wf_slots_upd; auto|].
      * intros a E; inv E. apply (wf_with_bx cfg); auto.
      * intros a E; inv E. apply wf_empty.
    + apply Dr.
    + unfold A2. rewrite nth_upd by lia. rewrite Nat.eqb_refl. auto.
    + unfold er. rewrite nel_empty; auto. lia.
    + unfold A2. rewrite nth_upd by lia. destruct (Nat.eqb_spec r TMP1); [congruence|].
      unfold A1. rewrite nth_upd by auto. rewrite Nat.eqb_refl. auto.
    + apply alloc_eq_refl.
    + unfold A2. rewrite nth_upd by lia. destruct (Nat.eqb_spec r TMP2); [congruence|].
      unfold A1. rewrite nth_upd by auto. destruct (Nat.eqb_spec TMP1 TMP2) as [E|_]; [discriminate E|auto].
    + unfold A2. rewrite nth_upd by lia. destruct (Nat.eqb_spec r TMP3); [congruence|].
      unfold A1. rewrite nth_upd by auto. destruct (Nat.eqb_spec TMP1 TMP3) as [E|_]; [discriminate E|auto].
Qed.

Lemma cells_src_in_ex A r t at_ : r <> t -> nth_error A t = Some (Some at_) -> Forall (src_in_ex A r) (cells_of SCell at_).
Proof.
  intros Hne Ht. unfold cells_of. destruct (a_base at_) as [|b] eqn:Eb; [constructor|].
  apply Forall_forall. intros x Hx. apply in_map_iff in Hx. destruct Hx as (i & <- & Hi). apply in_seq in Hi.
  cbn. exists t, at_. repeat split; auto. unfold nnel in Hi. lia.
Qed.

Lemma ok_AssignCopy r t : op_ok (OAssignCopy r t).
Proof.
  intros A W T ((ar & Dr) & (at_ & Dt)). cbn [step].
  destruct (Nat.eqb_spec r t) as [->|Hne].
  { eapply triple_bind; [apply (get_arr_ok cfg [] A t ar); apply Dr|]. intros x s (_ & I & HA). cbn. eapply (Good_intro cfg); eauto. }
  eapply bind_get_arr; [apply Dr|]. eapply bind_get_arr; [apply Dt|].
  apply triple_pure with (F := length A = NSLOTS). { intros s [I HA]. eapply len_A; eauto. } intros Hlen.
  destruct T as (T1 & T2 & T3). destruct (tmp_ne_user r (proj1 Dr)) as (N1 & N2 & N3).
  assert (L1 : (TMP1 < length A)%nat) by (eapply nth_lt; eauto).
  assert (Lr : (r < length A)%nat) by (eapply nth_lt; apply Dr).
  assert (Wt : wf_arr at_) by (apply (W t at_); apply Dt).
  destruct (bx_eq (arr_bx ar) (arr_bx at_) && (negb (c_pocca cfg) || alloc_eq cfg (a_alloc ar) (a_alloc at_))) eqn:Ek.
  - (* the storage is kept *)
    apply andb_prop in Ek. destruct Ek as [_ Ek].
    destruct (c_pocca cfg) eqn:Ep.
    + cbn in Ek. set (ar' := mkarr (a_alloc at_) (a_base ar) (a_exts ar) (a_first ar)). set (A1 := upd_nth A r (Some ar')).
      eapply triple_bind with (Q := fun _ s => Inv [] s /\ s_arrs s = A1).
      { unfold p_set_alloc. eapply bind_get_arr; [apply Dr|]. intros s [I HA]. rewrite set_arr_eq.
        split; [|cbn; rewrite HA; reflexivity]. eapply Inv_retag with (ar := ar); auto.
        unfold get_slot. rewrite HA. destruct Dr as [_ ->]. reflexivity. }
      intros _.
      assert (H1r : nth_error A1 r = Some (Some ar')) by (unfold A1; rewrite nth_upd by auto; rewrite Nat.eqb_refl; auto).
      assert (F1 : Forall (src_in_ex A1 r) (cells_of SCell at_)).
      { eapply Forall_impl; [|apply (cells_src_in_ex A r t at_ Hne (proj2 Dt))]. intros y Hy. apply src_in_ex_upd; auto. }
      assert (W1 : wf_slots A1) by (apply wf_slots_upd; auto; intros a E; inv E; apply (W r ar); apply Dr).
      eapply triple_conseq; [apply (assign_all_spec cfg rank_pos [] A1 r ar' ar (cells_of SCell at_) H1r eq_refl eq_refl F1)| | |]; auto.
      * intros _ s [I HA]. eapply (Good_intro cfg); eauto. eapply tmps_free_upd; eauto. apply Dr. repeat split; auto.
      * intros s (I & HA & _). eapply GoodT_left; eauto.
    + eapply triple_bind with (Q := fun _ s => Inv [] s /\ s_arrs s = A). { intros s H. exact H. }
      intros _. apply (assign_in_place_ok A r ar); auto; [repeat split; auto|]. apply (cells_src_in_ex A r t at_ Hne (proj2 Dt)).
  - (* the new value is built first *)
    clear Ek. set (a' := if c_pocca cfg then a_alloc at_ else a_alloc ar).
    rewrite <- (bnumel_arr_bx cfg rank_pos _ Wt).
    apply triple_pure with (F := 0 < nel at_ -> length (cells_of SCell at_) = Z.to_nat (nel at_)).
    { intros s [I HA] Hp. eapply cells_of_length; eauto. apply Dt. }
    intros Hcl.
    eapply triple_bind.
    { eapply triple_conseq; [apply (p_build_spec cfg rank_pos [] a' (bnumel (arr_bx at_)) 0 (cells_of SCell at_) A)| | |]; auto.
      - eapply cells_of_src_in; eauto. apply Dt.
      - rewrite (bnumel_arr_bx cfg rank_pos _ Wt). exact Hcl.
      - intros p s H. exact H.
      - intros s [HA [[I Th]|Th]]; [eapply GoodT_left; eauto|right; left; auto]. }
    intros p. set (tarr := with_bx a' p (arr_bx at_)). set (A1 := upd_nth A TMP1 (Some tarr)).
    eapply triple_bind with (Q := fun _ s => Inv [] s /\ s_arrs s = A1).
    { apply triple_nothrow. eapply triple_conseq; [apply (install_spec cfg [] TMP1 a' (arr_bx at_) A p)| | |]; auto.
      - unfold NSLOTS, TMP1. lia.
      - unfold slotA. rewrite T1. exact I. }
    intros _.
    assert (H1r : nth_error A1 r = Some (Some ar)).
    { unfold A1. rewrite nth_upd by auto. destruct (Nat.eqb_spec TMP1 r); [congruence|apply Dr]. }
    set (er := empty_arr cfg (a_alloc ar) (a_base ar)). set (A2 := upd_nth A1 r (Some er)).
    eapply triple_bind with (Q := fun _ s => Inv [] s /\ s_arrs s = A2).
    { apply triple_nothrow. apply (clear_ok cfg rank_pos [] A1 r ar H1r). }
    intros _.
    assert (LA1 : length A1 = length A) by (unfold A1; apply upd_nth_length).
    assert (LA2 : length A2 = length A) by (unfold A2; rewrite upd_nth_length; auto).
    assert (H2r : nth_error A2 r = Some (Some er)) by (unfold A2; rewrite nth_upd by lia; rewrite Nat.eqb_refl; auto).
    set (er' := if c_pocca cfg then mkarr (a_alloc at_) (a_base er) (a_exts er) (a_first er) else er).
    set (A3 := if c_pocca cfg then upd_nth A2 r (Some er') else A2).
    eapply triple_bind with (Q := fun _ s => Inv [] s /\ s_arrs s = A3).
    { unfold A3, er'. destruct (c_pocca cfg).
      - unfold p_set_alloc. eapply bind_get_arr; [exact H2r|]. intros s [I HA]. rewrite set_arr_eq.
        split; [|cbn; rewrite HA; reflexivity]. apply Inv_set_nonowning; auto.
        + rewrite <- Hlen. exact Lr.
        + unfold get_slot. rewrite HA, H2r. unfold nonowning, er. rewrite nel_empty; auto. lia.
        + unfold nonowning, nel; cbn. apply Z.eq_le_incl. apply (numel_zeros cfg); auto.
      - intros s H. exact H. }
    intros _.
    assert (Hlook : forall q, q <> r -> nth_error A3 q = nth_error A1 q).
    { intros q Hq. unfold A3. destruct (c_pocca cfg).
      - rewrite nth_upd by lia. destruct (Nat.eqb_spec r q); [congruence|]. unfold A2. rewrite nth_upd by lia.
        destruct (Nat.eqb_spec r q); [congruence|auto].
      - unfold A2. rewrite nth_upd by lia. destruct (Nat.eqb_spec r q); [congruence|auto]. }
    assert (H3r : nth_error A3 r = Some (Some er')).
    { unfold A3, er'. destruct (c_pocca cfg); [rewrite nth_upd by lia; rewrite Nat.eqb_refl; auto|exact H2r]. }
    apply (adopt_tmp1_ok A3 r er' tarr).
    + unfold A3. destruct (c_pocca cfg); [rewrite upd_nth_length|]; lia.
    + assert (W2 : wf_slots A2).
      { unfold A2, A1. apply wf_slots_upd; [apply wf_slots_upd; auto|].
        * intros a E; inv E. apply (wf_with_bx cfg); auto.
        * intros a E; inv E. apply wf_empty. }
      unfold A3, er'. destruct (c_pocca cfg); auto. apply wf_slots_upd; auto. intros a E; inv E. reflexivity.
    + apply Dr.
    + exact H3r.
    + unfold er'. destruct (c_pocca cfg); unfold nel; cbn; apply Z.eq_le_incl; apply (numel_zeros cfg); auto.
    + rewrite Hlook by auto. unfold A1. rewrite nth_upd by auto. rewrite Nat.eqb_refl. auto.
    + unfold tarr, er', a'. destruct (c_pocca cfg); cbn; apply alloc_eq_refl.
    + rewrite Hlook by auto. unfold A1. rewrite nth_upd by auto. destruct (Nat.eqb_spec TMP1 TMP2) as [E|_]; [discriminate E|auto].
    + rewrite Hlook by auto. unfold A1. rewrite nth_upd by auto. destruct (Nat.eqb_spec TMP1 TMP3) as [E|_]; [discriminate E|auto].
Qed.

End Ops3.

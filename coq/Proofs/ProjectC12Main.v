(* C12: the statements proved, assembled from ProjectC12Scale / Compose / Convert and the C01 invariant. *)
From BM Require Import Base.Tactics Model.Layout Model.View Model.Spec Model.ProjectC12
  Proofs.LayoutProofs Proofs.ViewProofs Proofs.ViewProofs2 Proofs.C01Main
  Proofs.ProjectC12Scale Proofs.ProjectC12Compose Proofs.ProjectC12ComposeN Proofs.ProjectC12Convert.
Local Open Scope Z_scope.

(* every view reachable from a zero-based root by the view algebra of C01 *)
Definition reachable (sz : list Z) (ops : list op) (v : view) : Prop :=
  Forall (fun n => 0 <= n) sz /\ Forall c01_op ops /\ run_ops ops (root_view (zb sz)) = Some v.

Lemma reachable_represents sz ops v : reachable sz ops v ->
  represents (collapse sz) v (run_spec ops (root_spec sz)).
Proof. intros (Hsz & Hops & Hrun). exact (represents_run _ ops _ _ _ Hops (represents_root sz Hsz) Hrun). Qed.

Lemma dom_member_scale szT szU moff l : dom_member szT szU moff = true ->
  0 < szU /\ 0 < szT /\ Z.rem szT szU = 0 /\ 0 <= moff /\ moff + szU <= szT /\ dom_scale szT szU l = true.
Proof.
  unfold dom_member. intros H. bprop. repeat split; try assumption. apply dom_scale_divides; [lia|assumption].
Qed.

Lemma dom_scale_same szT l : szT <> 0 -> dom_scale szT szT l = true.
Proof. intros H. apply dom_scale_divides; [assumption|apply Z.rem_same; assumption]. Qed.

(* ---------------------------------------------------------------------------------------------- *)
(* member_cast *)
Theorem C12_member_cast_addr_proved :
  forall (x : pview) (sz : list Z) (szU moff : Z),
    lay_ok (lay (p_view x)) sz ->                    (* any rank, extents, strides: the C01 invariant *)
    0 < p_esz x -> 0 < szU ->
    dom_scale (p_esz x) szU (lay (p_view x)) = true -> (* layout.hpp:986; implied by sizeof(T) % sizeof(U) == 0 *)
    let m := p_member_cast szU moff x in
       lay_ok (lay (p_view m)) sz                      (* the invariant is preserved: casts can be chained *)
    /\ shape_agrees (p_view m) sz
    /\ p_esz m = szU
    /\ forall idx, p_addr_brackets m idx = p_addr_brackets x idx + moff.
Proof.
  intros x sz szU moff Hok HT HU Hdom m.
  pose proof (member_cast_ok x sz Hok szU HT HU Hdom moff) as Hm.
  split; [exact Hm|]. split; [apply shape_agrees_of_ok; exact Hm|]. split; [reflexivity|].
  intros idx. rewrite !p_addr_brackets_eq. apply (member_cast_addr x sz Hok szU HU Hdom).
Qed.

Theorem C12_member_cast_from_root_proved :
  forall (sz : list Z) (ops : list op) (v : view) (szT szU moff : Z),
    reachable sz ops v -> dom_member szT szU moff = true ->
    let a := run_spec ops (root_spec sz) in
    let m := p_member_cast szU moff (p_embed szT v) in
       shape_agrees (p_view m) (asz a)
    /\ forall idx, valid_idx (asz a) idx ->
         let k := rowmajor (collapse sz) (amap a idx) in     (* position of the source element in the root *)
            p_addr_brackets m idx = szT * addr_brackets v idx + moff
         /\ p_addr_brackets m idx = szT * k + moff
         /\ 0 <= k < prod sz
         /\ szT * k <= p_addr_brackets m idx /\ p_addr_brackets m idx + szU <= szT * (k + 1).
Proof.
  intros sz ops v szT szU moff Hr Hd a m.
  destruct (reachable_represents _ _ _ Hr) as [Hok Ha]. fold a in Hok, Ha.
  destruct (dom_member_scale szT szU moff (lay v) Hd) as (HU & HT & Hrem & Hm0 & Hm1 & Hdom).
  destruct (C12_member_cast_addr_proved (p_embed szT v) (asz a) szU moff Hok HT HU Hdom) as (_ & Hsh & _ & Hadr).
  split; [exact Hsh|]. intros idx Hv k.
  destruct (Ha idx Hv) as [Hvr Er]. pose proof (rowmajor_bounds _ _ Hvr) as Hb. rewrite prod_collapse in Hb.
  fold m in Hadr. rewrite Hadr. unfold p_addr_brackets at 1 2 3 4. cbn [p_embed p_org p_esz p_view].
  rewrite addr_brackets_eq. unfold v_addr in Er. rewrite Er. fold k. fold k in Hb.
  repeat split; try lia.
Qed.

(* ---------------------------------------------------------------------------------------------- *)
(* reinterpret_array_cast<U>() *)
Theorem C12_reinterpret_addr_proved :
  forall (x : pview) (sz : list Z) (szU : Z),
    lay_ok (lay (p_view x)) sz -> 0 < p_esz x -> 0 < szU ->
    dom_scale (p_esz x) szU (lay (p_view x)) = true ->
    let m := p_reinterpret szU x in
       lay_ok (lay (p_view m)) sz
    /\ shape_agrees (p_view m) sz
    /\ p_esz m = szU
    /\ forall idx, p_addr_brackets m idx = p_addr_brackets x idx.
Proof.
  intros x sz szU Hok HT HU Hdom m.
  pose proof (reinterpret_ok x sz Hok szU HT HU Hdom) as Hm.
  split; [exact Hm|]. split; [apply shape_agrees_of_ok; exact Hm|]. split; [reflexivity|].
  intros idx. rewrite !p_addr_brackets_eq. apply (reinterpret_addr x sz Hok szU HU Hdom).
Qed.

Theorem C12_reinterpret_same_size_proved :
  forall (sz : list Z) (ops : list op) (v : view) (szT : Z),
    reachable sz ops v -> 0 < szT ->
    let a := run_spec ops (root_spec sz) in
    let m := p_reinterpret szT (p_embed szT v) in
       shape_agrees (p_view m) (asz a)
    /\ forall idx, valid_idx (asz a) idx ->
            p_addr_brackets m idx = szT * addr_brackets v idx
         /\ p_addr_brackets m idx = szT * rowmajor (collapse sz) (amap a idx).
Proof.
  intros sz ops v szT Hr HT a m.
  destruct (reachable_represents _ _ _ Hr) as [Hok Ha]. fold a in Hok, Ha.
  destruct (C12_reinterpret_addr_proved (p_embed szT v) (asz a) szT Hok HT HT
              (dom_scale_same szT (lay v) ltac:(lia))) as (_ & Hsh & _ & Hadr).
  split; [exact Hsh|]. intros idx Hv. destruct (Ha idx Hv) as [_ Er].
  fold m in Hadr. rewrite Hadr. unfold p_addr_brackets. cbn [p_embed p_org p_esz p_view].
  rewrite addr_brackets_eq. unfold v_addr in Er. rewrite Er. split; lia.
Qed.

(* ---------------------------------------------------------------------------------------------- *)
(* reinterpret_array_cast<U>(n) *)
Theorem C12_reinterpret_extra_dim_proved :
  forall (x : pview) (sz : list Z) (szU n : Z),
    lay_ok (lay (p_view x)) sz -> 0 < p_esz x -> 0 < szU -> 0 <= n ->
    dom_scale (p_esz x) szU (lay (p_view x)) = true ->
    let m := p_reinterpret_n szU n x in
       lay_ok (lay (p_view m)) (sz ++ [n])
    /\ l_extensions (lay (p_view m)) = l_extensions (lay (p_view x)) ++ [(0, n)]
    /\ shape_agrees (p_view m) (sz ++ [n])
    /\ p_esz m = szU
    /\ forall idx j, length idx = length sz ->
            p_addr_brackets m (idx ++ [j]) = p_addr_brackets x idx + j * szU
         /\ (0 <= j < n -> p_esz x = szU * n ->
               p_addr_brackets x idx <= p_addr_brackets m (idx ++ [j])
            /\ p_addr_brackets m (idx ++ [j]) + szU <= p_addr_brackets x idx + p_esz x).
Proof.
  intros x sz szU n Hok HT HU Hn Hdom m. subst m.
  pose proof (reinterpret_n_ok x sz Hok szU HT HU Hdom n Hn) as Hm.
  split; [exact Hm|]. split.
  { rewrite (lay_ok_extensions _ _ Hm), (lay_ok_extensions _ _ Hok), map_app. reflexivity. }
  split; [apply shape_agrees_of_ok; exact Hm|]. split.
  { destruct (p_reinterpret_n_lay szU n x) as (_ & _ & _ & E). exact E. }
  intros idx j Hl. rewrite !p_addr_brackets_eq.
  pose proof (reinterpret_n_addr x sz Hok szU HU Hdom n idx j Hl) as E.
  split; [exact E|]. intros Hj HTn. rewrite E. nia.
Qed.

Theorem C12_reinterpret_extra_dim_from_root_proved :
  forall (sz : list Z) (ops : list op) (v : view) (szT szU n : Z),
    reachable sz ops v -> dom_reinterpret_n szT szU n = true ->
    let a := run_spec ops (root_spec sz) in
    let m := p_reinterpret_n szU n (p_embed szT v) in
       l_extensions (lay (p_view m)) = zb (asz a ++ [n])
    /\ shape_agrees (p_view m) (asz a ++ [n])
    /\ forall idx j, valid_idx (asz a) idx -> 0 <= j < n ->
         let k := rowmajor (collapse sz) (amap a idx) in
            p_addr_brackets m (idx ++ [j]) = szT * k + j * szU
         /\ 0 <= k < prod sz
         /\ szT * k <= p_addr_brackets m (idx ++ [j]) /\ p_addr_brackets m (idx ++ [j]) + szU <= szT * (k + 1).
Proof.
  intros sz ops v szT szU n Hr Hd a m.
  destruct (reachable_represents _ _ _ Hr) as [Hok Ha]. fold a in Hok, Ha.
  unfold dom_reinterpret_n in Hd. bprop.
  assert (Hrem : Z.rem szT szU = 0) by (subst szT; rewrite Z.mul_comm; apply Z.rem_mul; lia).
  assert (Hdom : dom_scale szT szU (lay v) = true) by (apply dom_scale_divides; [lia|assumption]).
  destruct (C12_reinterpret_extra_dim_proved (p_embed szT v) (asz a) szU n Hok ltac:(assumption) ltac:(assumption)
              ltac:(assumption) Hdom) as (Hm & _ & Hsh & _ & Hadr).
  fold m in Hm, Hsh, Hadr.
  split; [exact (lay_ok_extensions _ _ Hm)|]. split; [exact Hsh|].
  intros idx j Hv Hj k. destruct (Ha idx Hv) as [Hvr Er].
  pose proof (rowmajor_bounds _ _ Hvr) as Hb. rewrite prod_collapse in Hb. fold k in Hb.
  destruct (Hadr idx j (valid_idx_length _ _ Hv)) as [E _]. rewrite E.
  unfold p_addr_brackets. cbn [p_embed p_org p_esz p_view].
  rewrite addr_brackets_eq. unfold v_addr in Er. rewrite Er. fold k.
  repeat split; try lia; nia.
Qed.

(* ---------------------------------------------------------------------------------------------- *)
(* element_transformed *)
Section TransformedMain.
  Context {A B C : Type}.
  Variable f : A -> B.

  Theorem C12_transformed_proved :
    forall (sz : list Z) (ops : list op) (v : view),
      reachable sz ops v ->
      let a := run_spec ops (root_spec sz) in
      let t := v_element_transformed v in
         shape_agrees t (asz a)                                  (* the source's extents *)
      /\ l_extensions (lay t) = l_extensions (lay v)
      /\ forall (s : Z -> A) idx, valid_idx (asz a) idx ->          (* s: the storage at the time of access *)
              t_read f s v idx = f (v_read s v idx)
           /\ t_read f s v idx = f (s (rowmajor (collapse sz) (amap a idx))).
  Proof.
    intros sz ops v Hr a t.
    destruct (reachable_represents _ _ _ Hr) as [Hok Ha]. fold a in Hok, Ha.
    unfold t. rewrite (transformed_same_view v).
    split; [apply shape_agrees_of_ok; exact Hok|]. split; [reflexivity|].
    intros s idx Hv. destruct (Ha idx Hv) as [_ Er].
    split; [apply t_read_lazy|]. rewrite t_read_lazy. unfold v_read. rewrite addr_brackets_eq.
    unfold v_addr in Er. rewrite Er. reflexivity.
  Qed.

  (* writes go through a reference-returning projection (f = get, put = its setter) *)
  Variable put : B -> A -> A.
  Hypothesis get_put : forall x a, f (put x a) = x.
  Variable g : A -> C.
  Hypothesis g_put : forall x a, g (put x a) = g a.

  Theorem C12_transformed_write_through_proved :
    forall (s : Z -> A) (v : view) (idx : list Z) (x : B),
      let s' := t_write put s v idx x in
         t_read f s' v idx = x                                     (* read back through the projection *)
      /\ f (v_read s' v idx) = x                                    (* the source element holds it *)
      /\ g (v_read s' v idx) = g (v_read s v idx)                   (* the rest of that element is untouched *)
      /\ (forall k, k <> addr_brackets v idx -> s' k = s k)         (* and so is every other element *)
      /\ (forall idx', addr_brackets v idx' <> addr_brackets v idx ->
            v_read s' v idx' = v_read s v idx' /\ t_read f s' v idx' = t_read f s v idx').
  Proof.
    intros s v idx x s'. split; [apply (t_write_read f put get_put)|].
    destruct (t_write_source f put get_put g g_put s v idx x) as [E1 E2].
    split; [exact E1|]. split; [exact E2|]. split; [intros k Hk; apply t_write_frame; exact Hk|].
    intros idx' Hne. split; [apply t_write_other; exact Hne|].
    rewrite !t_read_lazy. f_equal. apply t_write_other. exact Hne.
  Qed.
End TransformedMain.

(* ---------------------------------------------------------------------------------------------- *)
(* casts that only change the pointer type *)
Theorem C12_cast_identity_proved :
  forall v : view,
       v_static_array_cast v = v /\ v_const_array_cast v = v /\ v_as_const v = v
    /\ (forall idx, addr_brackets (v_static_array_cast v) idx = addr_brackets v idx
                 /\ addr_brackets (v_const_array_cast v) idx = addr_brackets v idx
                 /\ addr_brackets (v_as_const v) idx = addr_brackets v idx)
    /\ l_extensions (lay (v_static_array_cast v)) = l_extensions (lay v)
    /\ l_extensions (lay (v_const_array_cast v)) = l_extensions (lay v)
    /\ l_extensions (lay (v_as_const v)) = l_extensions (lay v).
Proof.
  intros v. destruct (cast_identity v) as (E1 & E2 & E3 & _). rewrite E1, E2, E3. repeat split.
Qed.

(* ---------------------------------------------------------------------------------------------- *)
(* composition with the view algebra *)
Theorem C12_compose_proved :
  forall (x : pview) (sz : list Z) (o : op) (p : proj),
    lay_ok (lay (p_view x)) sz -> c01_op o -> p_dom_op o x = true -> proj_admissible p x ->
       p_dom_op o (p_exec_proj p x) = true
    /\ lay_ok (lay (p_view (p_exec_op o (p_exec_proj p x)))) (spec_sz o sz)
    /\ lay_ok (lay (p_view (p_exec_proj p (p_exec_op o x)))) (spec_sz o sz)
    /\ p_esz (p_exec_op o (p_exec_proj p x)) = p_esz (p_exec_proj p (p_exec_op o x))
    /\ forall idx, valid_idx (spec_sz o sz) idx ->
         p_addr_brackets (p_exec_op o (p_exec_proj p x)) idx = p_addr_brackets (p_exec_proj p (p_exec_op o x)) idx.
Proof. exact compose_proj. Qed.

(* reinterpret_array_cast<U>(n) appends a dimension: it commutes with every operation on the leading ones *)
Theorem C12_compose_extra_dim_proved :
  forall (x : pview) (sz : list Z) (o : op) (szU n : Z),
    lay_ok (lay (p_view x)) sz -> c01_op o -> head_op o -> p_dom_op o x = true ->
    dom_reinterpret_n (p_esz x) szU n = true ->
       p_dom_op o (p_reinterpret_n szU n x) = true
    /\ lay_ok (lay (p_view (p_exec_op o (p_reinterpret_n szU n x)))) (spec_sz o sz ++ [n])
    /\ lay_ok (lay (p_view (p_reinterpret_n szU n (p_exec_op o x)))) (spec_sz o sz ++ [n])
    /\ forall idx j, valid_idx (spec_sz o sz) idx -> 0 <= j < n ->
         p_addr_brackets (p_exec_op o (p_reinterpret_n szU n x)) (idx ++ [j])
         = p_addr_brackets (p_reinterpret_n szU n (p_exec_op o x)) (idx ++ [j]).
Proof. exact compose_reinterpret_n. Qed.

(* a projected view is again a well-formed zero-based view, so the whole of C01 applies to it: any further
   sequence of view operations acts on it by the documented index maps *)
Theorem C12_compose_ops_proved :
  forall (x : pview) (sz : list Z) (ops : list op) (y : pview),
    lay_ok (lay (p_view x)) sz -> Forall c01_op ops -> p_run_ops ops x = Some y ->
    let a := run_spec ops (mkaview sz (fun i => i)) in
       shape_agrees (p_view y) (asz a)
    /\ p_esz y = p_esz x
    /\ forall idx, valid_idx (asz a) idx ->
         valid_idx sz (amap a idx) /\ p_addr_brackets y idx = p_addr_brackets x (amap a idx).
Proof.
  intros x sz ops. revert x sz. induction ops as [|o ops IH]; intros x sz y Hok Hc Hrun a.
  - cbn in Hrun. inv Hrun. split; [apply shape_agrees_of_ok; exact Hok|]. split; [reflexivity|].
    intros idx Hv. split; [exact Hv|reflexivity].
  - inv Hc. cbn [p_run_ops] in Hrun. unfold p_apply_op in Hrun.
    destruct (p_dom_op o x) eqn:Hd; [|discriminate].
    destruct (step_op _ sz o H1 Hok Hd) as [Hok' S].
    specialize (IH (p_exec_op o x) (spec_sz o sz) y Hok' H2 Hrun).
    cbn zeta in IH. destruct IH as (Hsh & He & Hadr).
    (* run_spec over the tail, started from the step's spec *)
    assert (Ea : forall b, run_spec ops b = mkaview (asz (run_spec ops (mkaview (asz b) (fun i => i))))
                                                 (fun i => amap b (amap (run_spec ops (mkaview (asz b) (fun i => i))) i))).
    { clear. induction ops as [|o' ops IH]; intros b; cbn [run_spec]; [destruct b; reflexivity|].
      rewrite (IH (spec_op o' b)). rewrite (IH (spec_op o' (mkaview (asz b) (fun i => i)))). cbn [spec_op asz amap].
      reflexivity. }
    unfold a. cbn [run_spec]. rewrite (Ea (spec_op o (mkaview sz (fun i => i)))). cbn [spec_op asz amap].
    split; [exact Hsh|]. split; [exact He|]. intros idx Hv. destruct (Hadr idx Hv) as [Hv1 E1].
    destruct (S _ Hv1) as [Hv0 E0]. split; [exact Hv0|].
    rewrite E1. rewrite !p_addr_brackets_eq. rewrite p_addr_exec_op, E0. reflexivity.
Qed.

(* ---------------------------------------------------------------------------------------------- *)
(* arrays constructed from a projection / from a view of a convertible element type *)
Theorem C12_convert_construct_proved :
  forall (A B : Type) (conv : A -> B) (rd : Z -> A) (sz : list Z) (ops : list op) (v : view),
    reachable sz ops v ->
    let a := run_spec ops (root_spec sz) in
    exists c, convert_construct conv rd (lay v) = Some c     (* the flat iterator never divides by zero *)
      /\ l_extensions (c_lay c) = zb (collapse (asz a))       (* extents a constructed array reports *)
      /\ l_sizes (c_lay c) = collapse (asz a)
      /\ (prod (asz a) <> 0 -> collapse (asz a) = asz a)      (* = the source's unless the source has no elements *)
      /\ length (c_data c) = Z.to_nat (prod (asz a))
      /\ forall idx, valid_idx (collapse (asz a)) idx ->
           c_at c idx = Some (conv (rd (l_addr (lay v) idx))).  (* element idx = conv (source element idx) *)
Proof.
  intros A B conv rd sz ops v Hr a.
  destruct (reachable_represents _ _ _ Hr) as [Hok _]. fold a in Hok.
  destruct (convert_construct_defined conv rd (lay v) (asz a) Hok) as [c Hc].
  exists c. split; [exact Hc|].
  destruct (convert_construct_spec conv rd (lay v) (asz a) c Hok Hc) as (Hl & He & Hid & Hlen & Hat).
  split; [exact He|]. split; [exact (lay_ok_sizes _ _ Hl)|]. split; [exact Hid|]. split; [exact Hlen|exact Hat].
Qed.

(* the same for a projected view: rd reads the object at byte p_ptr + p_esz * k *)
Theorem C12_convert_construct_pview_proved :
  forall (A B : Type) (conv : A -> B) (rdb : Z -> A) (x : pview) (sz : list Z),
    lay_ok (lay (p_view x)) sz ->
    exists c, convert_construct conv (fun k => rdb (p_ptr x + p_esz x * k)) (lay (p_view x)) = Some c
      /\ l_sizes (c_lay c) = collapse sz
      /\ forall idx, valid_idx (collapse sz) idx -> c_at c idx = Some (conv (rdb (p_addr_brackets x idx))).
Proof.
  intros A B conv rdb x sz Hok.
  destruct (convert_construct_defined conv (fun k => rdb (p_ptr x + p_esz x * k)) _ sz Hok) as [c Hc].
  exists c. split; [exact Hc|].
  destruct (convert_construct_spec conv _ _ sz c Hok Hc) as (Hl & _ & _ & _ & Hat).
  split; [exact (lay_ok_sizes _ _ Hl)|]. intros idx Hv. rewrite (Hat idx Hv).
  rewrite p_addr_brackets_eq, p_addr_ptr. reflexivity.
Qed.

(* ---------------------------------------------------------------------------------------------- *)
(* the hypotheses are satisfiable: a 3x4 array of 16-byte structs {int a; int b; double c;}, rotated and sliced *)
Example C12_example_member :
  exists v, run_ops [ORotated; OSliced 1 3] (root_view (zb [3; 4])) = Some v
    /\ dom_member 16 4 4 = true
    /\ l_sizes (lay (p_view (p_member_cast 4 4 (p_embed 16 v)))) = [2; 3]
    /\ l_strides (lay (p_view (p_member_cast 4 4 (p_embed 16 v)))) = [4; 16]
    /\ p_addr_brackets (p_member_cast 4 4 (p_embed 16 v)) [1; 2] = 16 * 10 + 4.
Proof. eexists. vm_compute. repeat split. Qed.

Example C12_example_reinterpret_n :
  exists v, run_ops [ORotated; OSliced 1 3] (root_view (zb [3; 4])) = Some v
    /\ dom_reinterpret_n 16 4 4 = true
    /\ l_sizes (lay (p_view (p_reinterpret_n 4 4 (p_embed 16 v)))) = [2; 3; 4]
    /\ p_addr_brackets (p_reinterpret_n 4 4 (p_embed 16 v)) [1; 2; 1] = 16 * 10 + 4.
Proof. eexists. vm_compute. repeat split. Qed.

(* the shape on which the snapshot's flat iterator divided by zero: 2x3 array, sliced(1,1).rotated(), sizes 3x0 *)
Example C12_example_convert_inner_zero :
  exists v c, run_ops [OSliced 1 1; ORotated] (root_view (zb [2; 3])) = Some v
    /\ l_sizes (lay v) = [3; 0]
    /\ convert_construct (fun k : Z => k) (fun k => base v + k) (lay v) = Some c
    /\ l_sizes (c_lay c) = [0; 0] /\ c_data c = [].
Proof. eexists. eexists. vm_compute. repeat split. Qed.

Example C12_example_convert :
  exists v c, run_ops [ORotated; OSliced 1 3] (root_view (zb [3; 4])) = Some v
    /\ convert_construct (fun k => 2 * k) (fun k => base v + k) (lay v) = Some c
    /\ l_sizes (c_lay c) = [2; 3]
    /\ c_data c = [2; 10; 18; 4; 12; 20]
    /\ c_at c [1; 2] = Some 20.
Proof. eexists. eexists. vm_compute. repeat split. Qed.

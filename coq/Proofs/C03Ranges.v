(* C03 for the two ranges the property names: begin()/end() and elements() of a view, with the frame stated on the
   view's own footprint (Assign.footprint: the cells elements() visits), and for every view obtained from a
   row-major array by the operations the property lists. *)
From BM Require Import Base.Tactics Model.Layout Model.View Model.Spec Model.Iter Model.Assign Model.Compare Model.C03Prog
  Proofs.LayoutProofs Proofs.ViewProofs Proofs.ViewProofs2 Proofs.IterProofs Proofs.ElemProofs Proofs.AssignProofs Proofs.C05Main
  Proofs.CompareProofs Proofs.C07Main Proofs.C02Main Proofs.C03Flat Proofs.C03Prims Proofs.C03Main.
Local Open Scope Z_scope.

Lemma In_footprint v a : In a (footprint v) <-> exists k, 0 <= k < er_size v /\ a = e_addr v k.
Proof.
  unfold footprint. rewrite in_map_iff. split.
  - intros (k & E & Hk). apply In_iota in Hk. exists k. split; [lia|congruence].
  - intros (k & Hk & ->). exists k. split; [reflexivity|]. apply In_iota. lia.
Qed.

(* the cells of row p are the cells p*N .. p*N+N-1 of the view, in order *)
Lemma row_cell_flat v n sz p k : lay_ok (lay v) (n :: sz) -> 0 <= p < n -> 0 <= k < prod sz ->
  e_addr (rows_of v p) k = e_addr v (p * prod sz + k).
Proof.
  intros Hok Hp Hk. destruct (lay v) as [|d l] eqn:El; [inv Hok|].
  rewrite (row_cell v d l n sz p k El Hok Hk).
  assert (HK : 0 <= p * prod sz + k < prod (n :: sz)) by (change (prod (n :: sz)) with (n * prod sz); nia).
  assert (Hok' : lay_ok (lay v) (n :: sz)) by (rewrite El; exact Hok).
  destruct (canon_valid v (n :: sz) _ Hok' HK) as (-> & _ & _). f_equal.
  change (zb (n :: sz)) with ((0, n) :: zb sz). rewrite FL_cons, numel_zb_prod. cbn [fst].
  destruct (qr_unique p k (prod sz) ltac:(lia) ltac:(lia)) as [-> ->]. f_equal. lia.
Qed.

Lemma rows_outside v n sz a : lay_ok (lay v) (n :: sz) ->
  outside_rows (rows_of v) n sz a <-> ~ In a (footprint v).
Proof.
  intros Hok. rewrite In_footprint, (er_size_ok _ _ Hok). change (prod (n :: sz)) with (n * prod sz).
  pose proof (lay_ok_nonneg _ _ Hok) as Hnn. inversion Hnn as [|? ? Hn0 Hsz]; subst. pose proof (prod_nonneg _ Hsz) as HN.
  unfold outside_rows. split.
  - intros Ho (K & HK & ->).
    assert (0 < prod sz) by nia.
    destruct (qr_decomp K (prod sz) ltac:(lia) ltac:(lia)) as (E & Hr & Hq).
    apply (Ho (Z.quot K (prod sz)) (Z.rem K (prod sz))); [nia|lia|].
    rewrite (row_cell_flat v n sz) by (try assumption; try lia; nia). f_equal. lia.
  - intros Hn p k Hp Hk E. apply Hn. exists (p * prod sz + k). split; [nia|].
    rewrite E. apply (row_cell_flat v n sz); assumption.
Qed.

Lemma elems_outside_fp v sz a : lay_ok (lay v) sz -> outside_rows (elems_of v) (prod sz) [] a <-> ~ In a (footprint v).
Proof.
  intros Hok. rewrite (elems_outside v sz a Hok), In_footprint, (er_size_ok _ _ Hok). split.
  - intros H (k & Hk & ->). apply (H k Hk). reflexivity.
  - intros H k Hk ->. apply H. exists k. split; [assumption|reflexivity].
Qed.

(* the values of the elements() range are the elements of the view's value, in canonical order *)
Lemma abs_elems v sz m : lay_ok (lay v) sz ->
  abs_rows (elems_of v) (prod sz) m = map Leaf (flat_t (v_tree v (vals m))).
Proof.
  intros Hok. unfold abs_rows. fold (rd0 v m). rewrite (flat_rd _ _ _ Hok), map_map. apply map_ext. intros k.
  unfold elems_of, rd, rd0, v_tree. cbn. reflexivity.
Qed.
(* the values of the begin()/end() range are the children of the view's value *)
Lemma abs_begin_end v n sz m : lay_ok (lay v) (n :: sz) -> collapse sz = sz -> v_tree v (vals m) = Node (abs_rows (rows_of v) n m).
Proof.
  intros Hok Hcol. destruct (lay v) as [|d l] eqn:El; [inv Hok|]. inversion Hok as [|? ? ? ? Hd Hl]; subst.
  unfold v_tree, abs_rows. rewrite El. cbn [abs_l]. rewrite (dim_ok_extension _ _ Hd), (dim_ok_size _ _ Hd), iotaz_iota. cbn [fst].
  f_equal. apply map_ext. intros p.
  assert (Hrow : lay_ok (lay (rows_of v p)) sz) by (rewrite (rows_of_eq v d l n El Hd); unfold v_index; rewrite El; exact Hl).
  rewrite (rd_rd0 _ sz _ Hrow Hcol).
  rewrite (rows_of_eq v d l n El Hd). unfold rd0, v_tree, v_index, hd_dim. rewrite El. cbn.
  f_equal.
Qed.

Theorem C03_begin_end_proved :
  forall (v : view) (n : Z) (sz : list Z),
    lay_ok (lay v) (n :: sz) -> inj_view v (n :: sz) -> collapse sz = sz ->
  forall (A : Type) (pr : prog A), prog_ok n sz pr ->
  forall (m : mem),
    let rv := run_on_view (rows_of v) pr m in
    let rl := run_on_values (length sz) pr (abs_rows (rows_of v) n m) in
       snd rv = snd rl
    /\ abs_rows (rows_of v) n (fst rv) = fst rl
    /\ v_tree v (vals (fst rv)) = Node (fst rl)
    /\ (forall a, ~ In a (footprint v) -> fst rv a = m a).
Proof.
  intros v n sz Hok Hi Hcol A pr Hpr m rv rl.
  destruct (C03_representation_independence_proved (rows_of v) n sz (view_rows_ok v n sz Hok Hi Hcol) A pr Hpr m) as (H1 & H2 & H3).
  fold rv rl in H1, H2, H3. split; [exact H1|]. split; [exact H2|]. split.
  - rewrite (abs_begin_end v n sz (fst rv) Hok Hcol), H2. reflexivity.
  - intros a Ha. apply H3. apply (rows_outside v n sz a Hok). exact Ha.
Qed.

Theorem C03_elements_proved :
  forall (v : view) (sz : list Z),
    lay_ok (lay v) sz -> inj_view v sz ->
  forall (A : Type) (pr : prog A), prog_ok (prod sz) [] pr ->
  forall (m : mem),
    let rv := run_on_view (elems_of v) pr m in
    let rl := run_on_values 0 pr (map Leaf (flat_t (v_tree v (vals m)))) in
       snd rv = snd rl
    /\ map Leaf (flat_t (v_tree v (vals (fst rv)))) = fst rl
    /\ (forall a, ~ In a (footprint v) -> fst rv a = m a).
Proof.
  intros v sz Hok Hi A pr Hpr m rv rl.
  destruct (C03_representation_independence_proved (elems_of v) (prod sz) [] (elems_rows_ok v sz Hok Hi) A pr Hpr m) as (H1 & H2 & H3).
  cbn [length] in H1, H2. rewrite (abs_elems v sz m Hok) in H1, H2. rewrite (abs_elems v sz _ Hok) in H2.
  fold rv rl in H1, H2, H3. split; [exact H1|]. split; [exact H2|].
  intros a Ha. apply H3. apply (elems_outside_fp v sz a Hok). exact Ha.
Qed.

(* rows, columns (transposed / rotated), sub-blocks, strided views of a row-major array of any rank and extents *)
Theorem C03_reachable_proved :
  forall (rsz : list Z) (ops : list op) (v : view),
    Forall (fun k => 0 <= k) rsz -> Forall c03_op ops -> run_ops ops (root_view (zb rsz)) = Some v ->
    let a := run_spec ops (root_spec rsz) in
    (* begin()/end() *)
    (forall n sz, asz a = n :: sz -> collapse sz = sz -> rows_ok (rows_of v) n sz /\
       forall (A : Type) (pr : prog A), prog_ok n sz pr -> forall m,
         let rv := run_on_view (rows_of v) pr m in
         let rl := run_on_values (length sz) pr (abs_rows (rows_of v) n m) in
         snd rv = snd rl /\ v_tree v (vals (fst rv)) = Node (fst rl) /\ (forall x, ~ In x (footprint v) -> fst rv x = m x))
    (* elements() *)
    /\ (rows_ok (elems_of v) (prod (asz a)) [] /\
        forall (A : Type) (pr : prog A), prog_ok (prod (asz a)) [] pr -> forall m,
         let rv := run_on_view (elems_of v) pr m in
         let rl := run_on_values 0 pr (map Leaf (flat_t (v_tree v (vals m)))) in
         snd rv = snd rl /\ map Leaf (flat_t (v_tree v (vals (fst rv)))) = fst rl /\ (forall x, ~ In x (footprint v) -> fst rv x = m x))
    (* the footprint stays inside the root array *)
    /\ (forall x, In x (footprint v) -> 0 <= x < prod rsz).
Proof.
  intros rsz ops v Hsz Hops Hrun a.
  destruct (C03_reachable_injective_proved rsz ops v Hsz Hops Hrun) as [Hok Hi]. fold a in Hok, Hi.
  split; [|split].
  - intros n sz E Hcol. rewrite E in Hok, Hi. split; [apply view_rows_ok; assumption|].
    intros A pr Hpr m. destruct (C03_begin_end_proved v n sz Hok Hi Hcol A pr Hpr m) as (H1 & _ & H3 & H4).
    cbn zeta. split; [exact H1|]. split; [exact H3|exact H4].
  - split; [apply elems_rows_ok; assumption|]. intros A pr Hpr m. apply (C03_elements_proved v (asz a) Hok Hi A pr Hpr m).
  - intros x Hx. apply In_footprint in Hx as (k & Hk & ->). rewrite (er_size_ok _ _ Hok) in Hk.
    destruct (canon_valid v (asz a) k Hok Hk) as (-> & V & _).
    assert (Hc1 : Forall c01_op ops) by (eapply Forall_impl; [|exact Hops]; apply c03_c01).
    destruct (represents_run _ ops _ _ _ Hc1 (represents_root rsz Hsz) Hrun) as [_ Ha]. fold a in Ha.
    destruct (Ha _ V) as [V' ->]. pose proof (rowmajor_bounds _ _ V') as B. rewrite prod_collapse in B. exact B.
Qed.

(* two-range algorithms: two views over disjoint storage, same row shape *)
Theorem C03_two_ranges_proved :
  forall (va vb : view) (na nb : Z) (sz : list Z),
    lay_ok (lay va) (na :: sz) -> inj_view va (na :: sz) -> lay_ok (lay vb) (nb :: sz) -> inj_view vb (nb :: sz) ->
    collapse sz = sz -> (forall x, In x (footprint va) -> ~ In x (footprint vb)) ->
  forall (A : Type) (pr : prog A), prog_ok (na + nb) sz pr ->
  forall (m : mem),
    let row := cat_rows (rows_of va) na (rows_of vb) in
    let rv := run_on_view row pr m in
    let rl := run_on_values (length sz) pr (abs_rows (rows_of va) na m ++ abs_rows (rows_of vb) nb m) in
       snd rv = snd rl
    /\ abs_rows (rows_of va) na (fst rv) ++ abs_rows (rows_of vb) nb (fst rv) = fst rl
    /\ (forall x, ~ In x (footprint va) -> ~ In x (footprint vb) -> fst rv x = m x).
Proof.
  intros va vb na nb sz Hoka Hia Hokb Hib Hcol Hdisj A pr Hpr m row rv rl.
  pose proof (lay_ok_nonneg _ _ Hoka) as Hna. inversion Hna as [|? ? Hna0 _]; subst.
  pose proof (lay_ok_nonneg _ _ Hokb) as Hnb. inversion Hnb as [|? ? Hnb0 _]; subst.
  assert (HR : rows_ok row (na + nb) sz).
  { apply cat_rows_ok; try assumption; try (apply view_rows_ok; assumption).
    intros p q j k Hp Hq Hj Hk E. apply (Hdisj (e_addr (rows_of va p) j)).
    - rewrite (row_cell_flat va na sz p j Hoka Hp Hj). apply In_footprint. exists (p * prod sz + j).
      rewrite (er_size_ok _ _ Hoka). change (prod (na :: sz)) with (na * prod sz). split; [nia|reflexivity].
    - rewrite E, (row_cell_flat vb nb sz q k Hokb Hq Hk). apply In_footprint. exists (q * prod sz + k).
      rewrite (er_size_ok _ _ Hokb). change (prod (nb :: sz)) with (nb * prod sz). split; [nia|reflexivity]. }
  assert (Habs : forall m0, abs_rows row (na + nb) m0 = abs_rows (rows_of va) na m0 ++ abs_rows (rows_of vb) nb m0).
  { intros m0. unfold abs_rows. rewrite Z2Nat.inj_add by lia. rewrite iota_add, map_app, map_map. f_equal.
    - apply map_iota_ext. intros k Hk. unfold row, cat_rows. replace (k <? na) with true by (symmetry; apply Z.ltb_lt; lia). reflexivity.
    - apply map_iota_ext. intros k Hk. unfold row, cat_rows. rewrite Z2Nat.id by lia.
      replace (na + k <? na) with false by (symmetry; apply Z.ltb_ge; lia). do 2 f_equal. lia. }
  destruct (C03_representation_independence_proved row (na + nb) sz HR A pr Hpr m) as (H1 & H2 & H3).
  rewrite !Habs in *. fold rv rl in H1, H2, H3. split; [exact H1|]. split; [exact H2|].
  intros x Hxa Hxb. apply H3. intros p k Hp Hk E. unfold row, cat_rows in E. destruct (p <? na) eqn:Ep; bprop.
  - apply Hxa. rewrite E. apply (proj2 (rows_outside va na sz _ Hoka)) in Hxa. exfalso. apply (Hxa p k); [lia|assumption|exact E].
  - apply (proj2 (rows_outside vb nb sz _ Hokb)) in Hxb. apply (Hxb (p - na) k); [lia|assumption|exact E].
Qed.

(* non-vacuity: the 4 columns of a 3x4 row-major block at address 10 (a transposed view), sorted by the
   insertion-sort program; storage cell a initially holds (7*a) mod 5 *)
Example C03_example :
  let v := mkview (l_transpose (mk_layout (zb [3; 4]))) 10 in
  let m0 : mem := fun a => mkcell (Z.rem (7 * a) 5) false in
  let rv := run_on_view (rows_of v) (p_sort 4) m0 in
  let rl := run_on_values 1 (p_sort 4) (abs_rows (rows_of v) 4 m0) in
     abs_rows (rows_of v) 4 m0 = [Node [Leaf 0; Leaf 3; Leaf 1]; Node [Leaf 2; Leaf 0; Leaf 3]; Node [Leaf 4; Leaf 2; Leaf 0]; Node [Leaf 1; Leaf 4; Leaf 2]]
  /\ fst rl = [Node [Leaf 0; Leaf 3; Leaf 1]; Node [Leaf 1; Leaf 4; Leaf 2]; Node [Leaf 2; Leaf 0; Leaf 3]; Node [Leaf 4; Leaf 2; Leaf 0]]
  /\ abs_rows (rows_of v) 4 (fst rv) = fst rl
  /\ map (fun a => c_val (fst rv a)) [9; 22] = [3; 4].
Proof. vm_compute. repeat split. Qed.

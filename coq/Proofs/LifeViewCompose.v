(* Composition of the view algebra (C01) with the lifecycle model (C04/C05/C06/C08): the view sources the
   lifecycle operations take (OCtorView, OAssignView, OViewAssign: a `vsrc` = extensions of the view + offsets of
   its elements in canonical order inside the block of the viewed array) are, in the correspondence driver
   (ocaml/life_driver.ml view_src), computed from Model/View.v as `view_vsrc v` below.  Here it is proved that
   for EVERY view reachable from the root of a (zero-based) live array the record meets the domain the lifecycle
   theorems quantify over (Proofs/LifeOps.v vsrc_dom, Proofs/LifeVal4.v val_dom): every offset lies inside the
   array's block, the list has exactly the announced number of elements, the extensions have the rank of the view,
   and -- what a destination of OViewAssign needs in order to be written exactly -- distinct positions are
   distinct cells.  So the hypotheses of the lifecycle theorems about views are not extra assumptions: they follow
   from C01's theorems. *)
From BM Require Import Base.Tactics Model.Layout Model.View Model.Spec Model.Iter Model.Assign Model.Life Model.LifeView
  Proofs.LayoutProofs Proofs.ViewProofs Proofs.ViewProofs2 Proofs.IterProofs Proofs.ElemProofs Proofs.C01Main
  Proofs.AssignProofs Proofs.InjProofs Proofs.PtrBoundsProofs Proofs.C05Main Proofs.LifeOps.
Local Open Scope Z_scope.

(* view_vsrc (Model/LifeView.v): what ocaml/life_driver.ml view_src builds from a view -- the extracted function itself *)

Lemma iota_length n : length (iota n) = n.
Proof. induction n as [|n IH]; cbn; [reflexivity|]. rewrite app_length, IH. cbn. lia. Qed.

Lemma iota_in n k : In k (iota n) <-> 0 <= k < Z.of_nat n.
Proof.
  induction n as [|n IH]; cbn [iota].
  - cbn. lia.
  - rewrite in_app_iff, IH. cbn. lia.
Qed.

Lemma iota_nodup n : NoDup (iota n).
Proof.
  induction n as [|n IH]; cbn [iota]; [constructor|].
  apply (NoDup_Add (Add_app (Z.of_nat n) (iota n) [])). rewrite app_nil_r.
  split; [exact IH|]. intros Hk. apply iota_in in Hk. lia.
Qed.

Lemma bnumel_of_extensions (x : list range) :
  bnumel (map (fun r : range => (fst r, snd r - fst r)) x) = x_num_elements x.
Proof.
  unfold bnumel, bx_sizes. rewrite map_map. cbn [snd].
  induction x as [|r x IH]; cbn; [reflexivity|]. unfold numel in IH. rewrite IH. reflexivity.
Qed.

Lemma NoDup_map_inj_on {A B} (f : A -> B) (l : list A) :
  (forall a b, In a l -> In b l -> f a = f b -> a = b) -> NoDup l -> NoDup (map f l).
Proof.
  induction l as [|a l IH]; intros Hf Hn; cbn; [constructor|].
  inversion Hn as [|? ? Hnot Hn']; subst. constructor.
  - intros Hin. apply in_map_iff in Hin. destruct Hin as (b & Eb & Hb).
    assert (b = a) by (apply Hf; [right; exact Hb|left; reflexivity|exact Eb]). subst. contradiction.
  - apply IH; [|exact Hn']. intros x y Hx Hy. apply Hf; right; assumption.
Qed.

Theorem view_source_composes_proved :
  forall (sz : list Z) (ops : list op) (v : view) (as_ : arr),
    Forall (fun n => 0 <= n) sz -> Forall c01_op ops -> run_ops ops (root_view (zb sz)) = Some v ->
    Life.nel as_ = prod sz ->
    let a := run_spec ops (root_spec sz) in
    let s := view_vsrc v in
       vsrc_dom as_ s
    /\ length (vs_offs s) = Z.to_nat (bnumel (vs_exts s))
    /\ length (vs_exts s) = length (asz a)
    /\ bnumel (vs_exts s) = prod (asz a)
    /\ (forall k, 0 <= k < er_size v -> nth (Z.to_nat k) (vs_offs s) O = Z.to_nat (e_addr v k))
    /\ (Forall (fun n => 0 < n) (asz a) -> NoDup (vs_offs s)).
Proof.
  intros sz ops v as_ Hsz Hops Hrun Hnel a s.
  pose proof (represents_run _ ops _ _ _ Hops (represents_root sz Hsz) Hrun) as [Hok Ha]. fold a in Hok, Ha.
  destruct (deref_in_bounds_proved sz ops v Hsz Hops Hrun) as (_ & _ & _ & Hb & _ & _).
  destruct (reachable_injective_proved sz ops v Hsz Hops Hrun) as [_ Hinj]. fold a in Hinj.
  assert (Hnum : bnumel (vs_exts s) = er_size v).
  { unfold s, view_vsrc. cbn [vs_exts]. rewrite bnumel_of_extensions. unfold er_size.
    rewrite (lay_ok_extensions _ _ Hok), (lay_ok_num_elements _ _ Hok).
    clear. induction (asz a) as [|n r IH]; cbn; [reflexivity|]. unfold prod in IH. rewrite IH. unfold r_size. cbn. lia. }
  assert (Hlen : length (vs_offs s) = Z.to_nat (bnumel (vs_exts s))).
  { rewrite Hnum. unfold s, view_vsrc. cbn [vs_offs]. rewrite map_length, iota_length. reflexivity. }
  split; [|split; [exact Hlen|split; [|split; [|split]]]].
  - split; [|intros _; exact Hlen].
    unfold s, view_vsrc. cbn [vs_offs]. rewrite Forall_map. apply Forall_forall. intros k Hk.
    apply iota_in in Hk. assert (Hk' : 0 <= k < er_size v) by lia.
    specialize (Hb k Hk'). unfold inb in Hb. rewrite Hnel. rewrite Z2Nat.id by lia. lia.
  - unfold s, view_vsrc. cbn [vs_exts]. rewrite map_length. unfold l_extensions. rewrite map_length.
    apply (lay_ok_length _ _ Hok).
  - rewrite Hnum. unfold er_size. apply lay_ok_num_elements. exact Hok.
  - intros k Hk. unfold s, view_vsrc. cbn [vs_offs].
    assert (G : forall n j, (j < n)%nat -> nth j (iota n) 0 = Z.of_nat j).
    { induction n as [|n IH]; intros j Hj; [lia|]. cbn [iota].
      destruct (Nat.eq_dec j n) as [->|Hne].
      - rewrite app_nth2; rewrite iota_length; [|lia]. rewrite Nat.sub_diag. reflexivity.
      - rewrite app_nth1 by (rewrite iota_length; lia). apply IH. lia. }
    rewrite (nth_indep _ O (Z.to_nat (e_addr v 0))) by (rewrite map_length, iota_length; lia).
    rewrite (map_nth (fun k => Z.to_nat (e_addr v k)) (iota (Z.to_nat (er_size v))) 0 (Z.to_nat k)).
    rewrite G by lia. rewrite Z2Nat.id by lia. reflexivity.
  - intros Hpos. specialize (Hinj Hpos). unfold s, view_vsrc. cbn [vs_offs].
    apply NoDup_map_inj_on; [|apply iota_nodup].
    intros j k Hj Hk E. apply iota_in in Hj. apply iota_in in Hk. unfold C05Main.nel in Hinj.
    apply Hinj; try assumption.
    pose proof (Hb j ltac:(lia)) as Bj. pose proof (Hb k ltac:(lia)) as Bk. unfold inb in Bj, Bk.
    apply Z2Nat.inj; lia.
Qed.

(* non-vacuity: column 1 of the rows [1,3) of a 3x4 array -- offsets 5 and 9 of a 12-element block *)
Example view_source_example :
  exists v, run_ops [OSliced 1 3; ORotated; OIndex 1] (root_view (zb [3; 4])) = Some v
    /\ view_vsrc v = mkvsrc [(0, 2)] [5%nat; 9%nat].
Proof. eexists. split; reflexivity. Qed.

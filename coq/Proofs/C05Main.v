(* C05 assembled: assignment, fill, swap, move and list-assignment through views. *)
From BM Require Import Base.Tactics Model.Layout Model.View Model.Spec Model.Iter Model.Assign Model.Rebase
  Proofs.LayoutProofs Proofs.IterProofs Proofs.ElemProofs Proofs.AssignProofs.
Local Open Scope Z_scope.

Definition nel (v : view) : nat := Z.to_nat (er_size v).

Theorem C05_assign_exact_proved :
  forall (conv : Z -> Z) (dst src : view) (m : mem),
    er_size dst = er_size src ->
    inj_upto (e_addr dst) (nel dst) ->                         (* distinct index tuples designate distinct elements *)
    disj_upto (e_addr dst) (e_addr src) (nel dst) ->           (* disjoint elements *)
    let m' := assign_view conv dst src m in
       (forall k, 0 <= k < er_size dst ->
          m' (e_addr dst k) = mkcell (conv (c_val (m (e_addr src k)))) false)
    /\ (forall p, outside (e_addr dst) (nel dst) p -> m' p = m p).
Proof.
  intros conv dst src m Hn Hi Hd m'. unfold m', assign_view.
  destruct (l_num_elements (lay dst) =? 0) eqn:E; bprop.
  - split; [intros k Hk; unfold er_size in Hk; lia|reflexivity].
  - rewrite loop_loopn, <- Hn. fold (nel dst).
    destruct (copy_spec (e_addr dst) (e_addr src) conv (nel dst) m Hi Hd) as [Hw Hf].
    split; [intros k Hk; apply Hw; unfold nel; lia|exact Hf].
Qed.

Theorem C05_move_exact_proved :
  forall (dst src : view) (m : mem),
    er_size dst = er_size src ->
    inj_upto (e_addr dst) (nel dst) -> inj_upto (e_addr src) (nel dst) ->
    disj_upto (e_addr dst) (e_addr src) (nel dst) ->
    let m' := move_view dst src m in
       (forall k, 0 <= k < er_size dst ->
          m' (e_addr dst k) = mkcell (c_val (m (e_addr src k))) false
       /\ m' (e_addr src k) = mkcell (c_val (m (e_addr src k))) true)       (* exactly the viewed cells are moved from *)
    /\ (forall p, outside (e_addr dst) (nel dst) p -> outside (e_addr src) (nel dst) p -> m' p = m p).
Proof.
  intros dst src m Hn Hi Hs Hd m'. unfold m', move_view.
  destruct (l_num_elements (lay dst) =? 0) eqn:E; bprop.
  - split; [intros k Hk; unfold er_size in Hk; lia|reflexivity].
  - rewrite loop_loopn, <- Hn. fold (nel dst).
    destruct (move_spec (e_addr dst) (e_addr src) (fun z => z) (nel dst) m Hi Hs Hd) as [Hw Hf].
    split; [intros k Hk; apply Hw; unfold nel; lia|exact Hf].
Qed.

Theorem C05_fill_proved :
  forall (x : Z) (dst : view) (m : mem),
    let m' := fill_view x dst m in
       (forall k, 0 <= k < er_size dst -> m' (e_addr dst k) = mkcell x false)
    /\ (forall p, outside (e_addr dst) (nel dst) p -> m' p = m p).
Proof.
  intros x dst m m'. unfold m', fill_view. rewrite loop_loopn. fold (nel dst).
  destruct (fill_spec (e_addr dst) (fun z => z) (fun z => z) x (nel dst) m) as [Hw Hf].
  split; [intros k Hk; apply Hw; unfold nel; lia|exact Hf].
Qed.

Theorem C05_swap_proved :
  forall (a b : view) (m : mem),
    inj_upto (e_addr a) (nel a) -> inj_upto (e_addr b) (nel a) -> disj_upto (e_addr a) (e_addr b) (nel a) ->
    let m' := swap_views a b m in
       (forall k, 0 <= k < er_size a -> m' (e_addr a k) = m (e_addr b k) /\ m' (e_addr b k) = m (e_addr a k))
    /\ (forall p, outside (e_addr a) (nel a) p -> outside (e_addr b) (nel a) p -> m' p = m p).
Proof.
  intros a b m Hi Hs Hd m'. unfold m', swap_views. rewrite loop_loopn. fold (nel a).
  destruct (swap_spec (e_addr a) (e_addr b) (fun z => z) (nel a) m Hi Hs Hd) as [Hw Hf].
  split; [intros k Hk; apply Hw; unfold nel; lia|exact Hf].
Qed.

Theorem C05_assign_vals_proved :
  forall (vals : list Z) (dst : view) (m : mem),
    inj_upto (e_addr dst) (nel dst) ->
    let m' := assign_vals vals dst m in
       (forall k, 0 <= k < er_size dst -> m' (e_addr dst k) = mkcell (nth (Z.to_nat k) vals 0) false)
    /\ (forall p, outside (e_addr dst) (nel dst) p -> m' p = m p).
Proof.
  intros vals dst m Hi m'. unfold m', assign_vals. rewrite loop_loopn. fold (nel dst).
  destruct (put_spec (e_addr dst) (fun z => z) (fun z => z) vals (nel dst) m Hi) as [Hw Hf].
  split; [intros k Hk; apply Hw; unfold nel; lia|exact Hf].
Qed.

(* "corresponding source value in logical index order": position k of two views of equal sizes is the same
   index tuple relative to each view's first indices *)
Lemma numel_zb X : x_num_elements (zb (map r_size X)) = x_num_elements X.
Proof. unfold zb. induction X as [|r X IH]; [reflexivity|]. cbn [map x_num_elements]. rewrite IH. unfold r_size; cbn [fst snd]. lia. Qed.

Lemma FL_shift X : forall k, vsubz (x_from_linear X k) (firsts X) = x_from_linear (zb (map r_size X)) k.
Proof.
  induction X as [|r X IH]; intros k; [reflexivity|]. cbn [map zb firsts]. fold (zb (map r_size X)). fold (firsts X).
  rewrite !FL_cons. cbn [vsubz fst]. rewrite numel_zb, IH. f_equal. lia.
Qed.

Theorem C05_logical_order_proved :
  forall (dst src : view) fd fs,
    lay_okg (lay dst) fd -> lay_okg (lay src) fs ->
    Forall (fun p => 0 < snd p) fd -> map snd fd = map snd fs ->          (* equal, non-empty sizes *)
    forall k,
       e_addr dst k = v_addr dst (canon dst k) /\ e_addr src k = v_addr src (canon src k)
    /\ vsubz (canon dst k) (firsts_of dst) = vsubz (canon src k) (firsts_of src).
Proof.
  intros dst src fd fs Hd Hs Hp Hsz k.
  assert (Hp' : Forall (fun p => 0 < snd p) fs).
  { rewrite Forall_forall in *. intros p Hin. apply (in_map snd) in Hin. rewrite <- Hsz in Hin.
    apply in_map_iff in Hin as (q & Eq & Hq). rewrite <- Eq. apply Hp. exact Hq. }
  split; [apply er_at_canon|]. split; [apply er_at_canon|].
  unfold canon, firsts_of. fold (firsts (l_extensions (lay dst))). fold (firsts (l_extensions (lay src))).
  rewrite !FL_shift. f_equal. f_equal.
  rewrite (lay_okg_ext _ _ Hd Hp), (lay_okg_ext _ _ Hs Hp'). rewrite !map_map. unfold r_size; cbn [fst snd].
  transitivity (map snd fd); [|rewrite Hsz]; apply map_ext; intros; lia.
Qed.

Example C05_example :
  let dst := mkview (l_transpose (mk_layout (zb [2; 3]))) 0 in         (* 3x2 transposed view of a 2x3 block at 0 *)
  let src := mkview (mk_layout (zb [3; 2])) 100 in
  let m0 : mem := fun p => mkcell p false in
  let m' := assign_view (fun x => x) dst src m0 in
  map (fun p => c_val (m' p)) [0; 1; 2; 3; 4; 5; 6; 99; 100] = [100; 102; 104; 101; 103; 105; 6; 99; 100].
Proof. vm_compute. reflexivity. Qed.

(* C02, first half: array_iterator is "base plus multiples of a stride"; all random-access laws are
   arithmetic on that representation.  Stated for views with ANY index base (dim_okg), so C19 reuses it. *)
From BM Require Import Base.Tactics Model.Layout Model.View Model.Spec Model.Iter Proofs.LayoutProofs.
Local Open Scope Z_scope.

(* A dimension with n valid indices starting at f. *)
Definition dim_okg (d : dim) (f n : Z) : Prop :=
  d_offset d = f * d_stride d /\ d_nelems d = n * d_stride d /\ 0 <= n /\ (0 < n -> 0 < d_stride d).

Lemma dim_ok_g d n : dim_ok d n <-> dim_okg d 0 n.
Proof. unfold dim_ok, dim_okg. intuition lia. Qed.

Lemma dim_okg_size d f n : dim_okg d f n -> d_size d = n.
Proof.
  unfold dim_okg, d_size. intros (Ho & Hn & H0 & Hs).
  destruct (d_nelems d =? 0) eqn:E; bprop.
  - destruct (Z.eq_dec n 0) as [->|Hne]; [reflexivity|]. assert (0 < d_stride d) by lia. nia.
  - assert (n <> 0) by (intro; subst; lia). assert (0 < d_stride d) by lia.
    rewrite Hn. apply Z.quot_mul. lia.
Qed.

Definition ext_of (f n : Z) : range := if n =? 0 then (0, 0) else (f, f + n).

Lemma dim_okg_extension d f n : dim_okg d f n -> d_extension d = ext_of f n.
Proof.
  intros H. pose proof (dim_okg_size _ _ _ H) as Hsz. unfold d_size in Hsz.
  destruct H as (Ho & Hn & H0 & Hs). unfold d_extension, ext_of. revert Hsz.
  destruct (d_nelems d =? 0) eqn:E; intros Hsz.
  - subst n. reflexivity.
  - bprop. assert (n <> 0) by (intro; subst; lia). assert (0 < d_stride d) by lia.
    replace (n =? 0) with false by (symmetry; apply Z.eqb_neq; assumption).
    rewrite Ho, Hn. replace (f * d_stride d + n * d_stride d) with ((f + n) * d_stride d) by lia.
    rewrite !Z.quot_mul by lia. reflexivity.
Qed.

Lemma ait_eq a b : ibase a = ibase b -> istride a = istride b -> isub a = isub b -> a = b.
Proof. destruct a, b; cbn; intros; subst; reflexivity. Qed.

Section ArrayIterator.
  Variable v : view.
  Variables (d : dim) (l : layout) (f n : Z).
  Hypothesis Hlay : lay v = d :: l.
  Hypothesis Hd : dim_okg d f n.
  Hypothesis Hs : d_stride d <> 0.      (* implied by dim_okg when n > 0; the code asserts it *)

  Let b := it_begin v.
  Let e := it_end v.
  Let s := d_stride d.

  Lemma itb : b = mkait (base v) s l.
  Proof. unfold b, it_begin, hd_dim. rewrite Hlay. reflexivity. Qed.
  Lemma ite : e = mkait (base v + n * s) s l.
  Proof. unfold e, it_end, hd_dim. rewrite Hlay. cbn. destruct Hd as (_ & -> & _). reflexivity. Qed.
  Lemma it_add_b p : it_add b p = mkait (base v + s * p) s l.
  Proof. rewrite itb. reflexivity. Qed.

  Lemma it_size : it_diff e b = n.
  Proof. rewrite itb, ite. unfold it_diff; cbn. replace (base v + n * s - base v) with (n * s) by lia.
    apply Z.quot_mul. exact Hs. Qed.
  Lemma it_end_is_add : it_add b n = e.
  Proof. rewrite it_add_b, ite. f_equal. lia. Qed.
  Lemma it_add_0 : it_add b 0 = b.
  Proof. rewrite it_add_b, itb. f_equal. lia. Qed.
  Lemma it_add_add p k : it_add (it_add b p) k = it_add b (p + k).
  Proof. rewrite !it_add_b. unfold it_add; cbn. f_equal. lia. Qed.
  Lemma it_inc_is_add p : it_inc (it_add b p) = it_add b (p + 1).
  Proof. rewrite !it_add_b. unfold it_inc; cbn. f_equal. lia. Qed.
  Lemma it_dec_is_add p : it_dec (it_add b p) = it_add b (p - 1).
  Proof. rewrite !it_add_b. unfold it_dec; cbn. f_equal. lia. Qed.
  Lemma it_sub_is_add p k : it_sub (it_add b p) k = it_add b (p - k).
  Proof. rewrite !it_add_b. unfold it_sub; cbn. f_equal. lia. Qed.
  Lemma it_inc_dec p : it_dec (it_inc (it_add b p)) = it_add b p /\ it_inc (it_dec (it_add b p)) = it_add b p.
  Proof. rewrite it_inc_is_add, it_dec_is_add, it_dec_is_add, it_inc_is_add. split; f_equal; lia. Qed.
  Lemma it_diff_add p q : it_diff (it_add b q) (it_add b p) = q - p.
  Proof. rewrite !it_add_b. unfold it_diff; cbn.
    replace (base v + s * q - (base v + s * p)) with ((q - p) * s) by lia. apply Z.quot_mul. exact Hs. Qed.
  Lemma it_lt_add p q : it_lt (it_add b p) (it_add b q) = (p <? q).
  Proof. unfold it_lt. rewrite it_diff_add. destruct (p <? q) eqn:E; bprop; [apply Z.ltb_lt|apply Z.ltb_ge]; lia. Qed.
  Lemma it_eq_add p q : it_eq (it_add b p) (it_add b q) = (p =? q).
  Proof. rewrite !it_add_b. unfold it_eq; cbn. destruct (p =? q) eqn:E; bprop.
    - subst. apply Z.eqb_refl.
    - apply Z.eqb_neq. intro H. apply E. assert (s * (p - q) = 0) by lia. fold s in Hs. nia. Qed.
  Lemma it_index_add p k : it_index (it_add b p) k = it_deref (it_add b (p + k)).
  Proof. unfold it_index. rewrite it_add_add. reflexivity. Qed.
  (* *(begin()+p) is the same sub-view as indexing with the p-th valid index *)
  Lemma it_deref_index p : it_deref (it_add b p) = v_index (f + p) v.
  Proof. rewrite it_add_b. unfold it_deref, v_index, hd_dim; cbn. rewrite Hlay; cbn.
    destruct Hd as (Ho & _). rewrite Ho. f_equal. fold s. lia. Qed.

  (* any arithmetic that stays inside [begin, end] denotes the integer position it computes *)
  Lemma run_a_pos tr : forall p, run_a tr (it_add b p) = it_add b (run_pos tr p).
  Proof.
    induction tr as [|o tr IH]; intros p; cbn [run_a run_pos fold_left]; [reflexivity|].
    fold (run_a tr (a_step o (it_add b p))). fold (run_pos tr (pos_after o p)).
    replace (a_step o (it_add b p)) with (it_add b (pos_after o p)); [apply IH|].
    destruct o; cbn [a_step pos_after]; symmetry.
    - apply it_inc_is_add. - apply it_dec_is_add. - apply it_add_add. - apply it_sub_is_add.
  Qed.
End ArrayIterator.

Theorem C02_array_iterator_laws_proved :
  forall (v : view) (d : dim) (l : layout) (f n : Z),
    lay v = d :: l -> dim_okg d f n -> d_stride d <> 0 ->
    let b := it_begin v in let e := it_end v in
       it_diff e b = n /\ it_add b n = e /\ it_add b 0 = b
    /\ (forall p, it_dec (it_inc (it_add b p)) = it_add b p /\ it_inc (it_dec (it_add b p)) = it_add b p)
    /\ (forall p k,
             it_add (it_add b p) k = it_add b (p + k)
          /\ it_sub (it_add (it_add b p) k) k = it_add b p
          /\ it_diff (it_add (it_add b p) k) (it_add b p) = k
          /\ it_lt (it_add b p) (it_add b (p + k)) = (0 <? k)
          /\ it_eq (it_add b p) (it_add b (p + k)) = (k =? 0)
          /\ it_index (it_add b p) k = it_deref (it_add b (p + k)))
    /\ (forall p, 0 <= p < n -> it_deref (it_add b p) = v_index (f + p) v)
    /\ (forall tr, run_a tr b = it_add b (run_pos tr 0)).
Proof.
  intros v d l f n Hlay Hd Hs b e.
  split; [eapply it_size; eassumption|].
  split; [eapply it_end_is_add; eassumption|].
  split; [eapply it_add_0; eassumption|].
  split; [intros p; eapply it_inc_dec; eassumption|].
  split.
  { intros p k. split; [eapply it_add_add; eassumption|].
    split. { unfold b. erewrite it_add_add by eassumption. erewrite it_sub_is_add by eassumption. f_equal. lia. }
    split. { unfold b. erewrite it_add_add by eassumption. erewrite it_diff_add by eassumption. lia. }
    split. { unfold b. erewrite it_lt_add by eassumption. destruct (0 <? k) eqn:E; bprop; [apply Z.ltb_lt|apply Z.ltb_ge]; lia. }
    split. { unfold b. erewrite it_eq_add by eassumption. destruct (k =? 0) eqn:E; bprop; [apply Z.eqb_eq|apply Z.eqb_neq]; lia. }
    eapply it_index_add; eassumption. }
  split; [intros p _; eapply it_deref_index; eassumption|].
  intros tr. unfold b. erewrite <- (it_add_0 v) at 1 by eassumption. eapply run_a_pos; eassumption.
Qed.

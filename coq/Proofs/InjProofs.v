(* Distinct valid index tuples of a view reachable as in C01 designate distinct elements: every documented
   index map is injective on valid tuples, row-major position is injective, hence so is the composition.
   This discharges the injectivity hypothesis of C05 for all such views. *)
From BM Require Import Base.Tactics Model.Layout Model.View Model.Spec Model.Iter Model.Assign
  Proofs.LayoutProofs Proofs.ViewProofs Proofs.ViewProofs2 Proofs.IterProofs Proofs.ElemProofs Proofs.AssignProofs Proofs.C05Main Proofs.C02Main.
Local Open Scope Z_scope.

Definition inj_on (sz : list Z) (f : list Z -> list Z) : Prop :=
  forall i j, valid_idx sz i -> valid_idx sz j -> f i = f j -> i = j.

Lemma rowmajor_inj sz : forall i j, valid_idx sz i -> valid_idx sz j -> rowmajor sz i = rowmajor sz j -> i = j.
Proof.
  induction sz as [|n sz IH]; intros i j Hi Hj E; inv Hi; inv Hj; [reflexivity|].
  cbn [rowmajor] in E. fold (prod sz) in E.
  pose proof (rowmajor_bounds _ _ H3) as B1. pose proof (rowmajor_bounds _ _ H5) as B2.
  assert (y = y0) by nia. subst. f_equal. apply IH; try assumption. lia.
Qed.

Lemma t_rot_inj {A} (l1 l2 : list A) : length l1 = length l2 -> t_rot l1 = t_rot l2 -> l1 = l2.
Proof.
  destruct l1 as [|a r1], l2 as [|b r2]; cbn; intros Hl E; try discriminate; [reflexivity|].
  apply app_inj_tail_iff in E as [-> ->]. reflexivity.
Qed.
Lemma t_unrot_inj {A} (l1 l2 : list A) : t_unrot l1 = t_unrot l2 -> length l1 = length l2 -> l1 = l2.
Proof.
  destruct l1 as [|a r1 _] using rev_ind; destruct l2 as [|b r2 _] using rev_ind; intros E Hl; try reflexivity.
  - rewrite app_length in Hl. cbn in Hl. lia.
  - rewrite app_length in Hl. cbn in Hl. lia.
  - rewrite !t_unrot_snoc in E. inv E. reflexivity.
Qed.
Lemma t_transpose_inj {A} (l1 l2 : list A) : length l1 = length l2 -> t_transpose l1 = t_transpose l2 -> l1 = l2.
Proof.
  destruct l1 as [|a [|b r]], l2 as [|c [|d s]]; cbn; intros Hl E; try discriminate; try assumption; try reflexivity.
  inv E. reflexivity.
Qed.

Lemma valid_len sz i j : valid_idx sz i -> valid_idx sz j -> length i = length j.
Proof. intros Hi Hj. rewrite (valid_idx_length _ _ Hi), (valid_idx_length _ _ Hj). reflexivity. Qed.

Lemma paren_inj args : forall sz, inj_on (spec_paren_sz args sz) (spec_paren_map args).
Proof.
  induction args as [|[k|a b|] rest IH]; intros sz i j Hi Hj E; cbn [spec_paren_sz spec_paren_map] in *.
  - exact E.
  - destruct sz as [|n sz]; [inv Hi; inv Hj; reflexivity|]. inv E. eapply IH; eassumption.
  - destruct sz as [|n sz]; [inv Hi; inv Hj; reflexivity|]. inv Hi. inv Hj. cbn [hdz hd tl] in E. inv E.
    f_equal; [lia|]. eapply IH; eassumption.
  - destruct sz as [|n sz]; [inv Hi; inv Hj; reflexivity|]. inv Hi. inv Hj. cbn [hdz hd tl] in E. inv E.
    f_equal. eapply IH; eassumption.
Qed.

Lemma euclid_inj q p1 r1 p2 r2 : 0 <= r1 < q -> 0 <= r2 < q -> p1 * q + r1 = p2 * q + r2 -> p1 = p2 /\ r1 = r2.
Proof. intros H1 H2 E. assert (p1 = p2) by nia. subst. split; [reflexivity|lia]. Qed.

Lemma valid_cons2 a b sz i : valid_idx (a :: b :: sz) i ->
  exists p r t, i = p :: r :: t /\ 0 <= p < a /\ 0 <= r < b /\ valid_idx sz t.
Proof. intros H. inversion H as [|? ? ? ? Hp H']; subst. inversion H' as [|? ? ? ? Hr H'']; subst. eauto 8. Qed.

Ltac nosz := exfalso; match goal with Hok : lay_ok _ _, Hd : _ = true |- _ => unfold v_rank in Hd; rewrite (lay_ok_length _ _ Hok) in Hd; cbn in Hd; discriminate end.

Lemma spec_map_inj v sz o : c01_op o -> lay_ok (lay v) sz -> dom_op o v = true ->
  inj_on (spec_sz o sz) (spec_map o sz).
Proof.
  intros Hc Hok Hd i j Hi Hj E.
  pose proof (valid_len _ _ _ Hi Hj) as Hlen.
  destruct o; try contradiction; cbn [dom_op] in Hd; cbn [spec_sz spec_map] in *.
  - (* index *) inv E. reflexivity.
  - (* sliced *) destruct sz as [|n' sz]; [nosz|]. inv Hi. inv Hj. cbn [hdz hd tl] in E. inv E. f_equal. lia.
  - (* slicedS *) destruct sz as [|n' sz]; [nosz|]. inv Hi. inv Hj. cbn [hdz hd tl] in E. inv E. bprop.
    f_equal. nia.
  - (* strided *) destruct sz as [|n' sz]; [nosz|]. inv Hi. inv Hj. cbn [hdz hd tl] in E. inv E. bprop.
    f_equal. nia.
  - (* dropped *) destruct sz as [|n' sz]; [nosz|]. inv Hi. inv Hj. cbn [hdz hd tl] in E. inv E. f_equal. lia.
  - (* taked *) exact E.
  - (* rotated *) apply t_unrot_inj; assumption.
  - (* unrotated *) apply t_rot_inj; assumption.
  - (* transposed *) apply t_transpose_inj; assumption.
  - (* reversed *) apply (f_equal (@rev Z)) in E. rewrite !rev_involutive in E. exact E.
  - (* diagonal *) inv E. reflexivity.
  - (* partitioned *) destruct sz as [|m sz]; [nosz|].
    destruct (valid_cons2 _ _ _ _ Hi) as (p1 & r1 & t1 & -> & Hp1 & Hr1 & _).
    destruct (valid_cons2 _ _ _ _ Hj) as (p2 & r2 & t2 & -> & Hp2 & Hr2 & _).
    cbn [hdz hd tl] in E. inv E. destruct (euclid_inj (Z.quot m n) p1 r1 p2 r2) as [-> ->]; try lia. reflexivity.
  - (* chunked *) destruct sz as [|m sz]; [nosz|].
    destruct (valid_cons2 _ _ _ _ Hi) as (p1 & r1 & t1 & -> & Hp1 & Hr1 & _).
    destruct (valid_cons2 _ _ _ _ Hj) as (p2 & r2 & t2 & -> & Hp2 & Hr2 & _).
    cbn [hdz hd tl] in E. inv E. destruct (euclid_inj c p1 r1 p2 r2) as [-> ->]; try lia. reflexivity.
  - (* halved *) destruct sz as [|m sz]; [nosz|].
    destruct (valid_cons2 _ _ _ _ Hi) as (p1 & r1 & t1 & -> & Hp1 & Hr1 & _).
    destruct (valid_cons2 _ _ _ _ Hj) as (p2 & r2 & t2 & -> & Hp2 & Hr2 & _).
    cbn [hdz hd tl] in E. inv E. destruct (euclid_inj (Z.quot m 2) p1 r1 p2 r2) as [-> ->]; try lia. reflexivity.
  - (* flatted *) destruct sz as [|n0 [|n1 sz]]; try nosz.
    inv Hi. inv Hj. cbn [hdz hd tl] in E. inv E. f_equal.
    destruct (Z.eq_dec n1 0) as [->|Hn]; [nia|].
    pose proof (Z.quot_rem' y n1). pose proof (Z.quot_rem' y0 n1). congruence.
  - (* paren *) eapply paren_inj; eassumption.
Qed.

(* composition along a program *)
Lemma amap_inj rsz ops : forall v a w, Forall c01_op ops -> represents rsz v a -> inj_on (asz a) (amap a) ->
  run_ops ops v = Some w -> inj_on (asz (run_spec ops a)) (amap (run_spec ops a)).
Proof.
  induction ops as [|o ops IH]; intros v a w Hc Hr Hinj Hrun; cbn [run_ops run_spec] in *; [exact Hinj|].
  inv Hc. unfold apply_op in Hrun. destruct (dom_op o v) eqn:Hd; [|discriminate].
  apply (IH (exec_op o v) (spec_op o a) w); try assumption; [apply represents_step; assumption|].
  destruct Hr as [Hok Ha]. destruct (step_op v (asz a) o H1 Hok Hd) as [Hok' Hs].
  intros i j Hi Hj E. cbn [spec_op asz amap] in *.
  apply (spec_map_inj v (asz a) o H1 Hok Hd); try assumption.
  apply Hinj; [apply Hs; assumption|apply Hs; assumption|exact E].
Qed.

Theorem reachable_injective_proved :
  forall (sz : list Z) (ops : list op) (v : view),
    Forall (fun n => 0 <= n) sz -> Forall c01_op ops -> run_ops ops (root_view (zb sz)) = Some v ->
    let a := run_spec ops (root_spec sz) in
    (forall i j, valid_idx (asz a) i -> valid_idx (asz a) j -> v_addr v i = v_addr v j -> i = j)
    /\ (Forall (fun n => 0 < n) (asz a) -> inj_upto (e_addr v) (nel v)).
Proof.
  intros sz ops v Hsz Hops Hrun a.
  pose proof (represents_run _ ops _ _ _ Hops (represents_root sz Hsz) Hrun) as Hr. fold a in Hr.
  assert (Hinj : inj_on (asz a) (amap a)).
  { apply (amap_inj (collapse sz) ops (root_view (zb sz)) (root_spec sz) v); try assumption.
    - apply represents_root; assumption.
    - intros i j _ _ E. exact E. }
  assert (Haddr : forall i j, valid_idx (asz a) i -> valid_idx (asz a) j -> v_addr v i = v_addr v j -> i = j).
  { destruct Hr as [Hok Ha]. intros i j Hi Hj E. destruct (Ha i Hi) as [Vi Ei]. destruct (Ha j Hj) as [Vj Ej].
    apply Hinj; try assumption. apply (rowmajor_inj (collapse sz)); try assumption. congruence. }
  split; [exact Haddr|].
  intros Hpos j k Hj Hk E. destruct Hr as [Hok Ha].
  pose proof (lay_ok_okg _ _ Hok) as Hg.
  assert (Hp : Forall (fun p : Z * Z => 0 < snd p) (map (fun n => (0, n)) (asz a))) by (rewrite Forall_map; exact Hpos).
  pose proof (lay_okg_xpos _ _ Hg Hp) as HX. pose proof (lay_okg_numel _ _ Hg Hp) as HN.
  unfold nel, er_size in Hj, Hk. rewrite HN in Hj, Hk.
  assert (Hn0 : 0 <= x_num_elements (l_extensions (lay v))) by (pose proof (numel_pos _ HX); lia).
  rewrite Z2Nat.id in Hj, Hk by assumption.
  unfold e_addr in E. rewrite !er_at_canon in E.
  pose proof (FL_in _ HX j Hj) as Ij. pose proof (FL_in _ HX k Hk) as Ik.
  rewrite (lay_ok_extensions _ _ Hok) in Ij, Ik. fold (zb (asz a)) in Ij, Ik.
  assert (Vj : valid_idx (asz a) (canon v j)) by (apply in_ext_zb; unfold canon; rewrite (lay_ok_extensions _ _ Hok); exact Ij).
  assert (Vk : valid_idx (asz a) (canon v k)) by (apply in_ext_zb; unfold canon; rewrite (lay_ok_extensions _ _ Hok); exact Ik).
  pose proof (Haddr _ _ Vj Vk E) as Ec. unfold canon in Ec.
  rewrite <- (TL_FL _ HX j Hj), <- (TL_FL _ HX k Hk), Ec. reflexivity.
Qed.

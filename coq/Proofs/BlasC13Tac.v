(* C13 -- tactics for boolean goals built from Z comparisons (the criterion unfolded at a concrete call site) *)
From BM Require Import Base.Tactics.
Local Open Scope Z_scope.

Ltac c13_hprop H :=
  rewrite ?andb_true_iff, ?andb_false_iff, ?orb_true_iff, ?orb_false_iff, ?negb_true_iff, ?negb_false_iff,
          ?Z.eqb_eq, ?Z.eqb_neq, ?Z.leb_le, ?Z.leb_gt, ?Z.ltb_lt, ?Z.ltb_ge in H.

Ltac c13_bgoal :=
  lazymatch goal with
  | |- true = true => reflexivity
  | |- negb false = true => reflexivity
  | |- andb _ _ = true => apply andb_true_intro; split; c13_bgoal
  | |- orb _ _ = true =>
      first [ apply orb_true_iff; first [left; solve [c13_bgoal] | right; solve [c13_bgoal]]
            | solve [repeat (progress rewrite ?orb_true_iff, ?andb_true_iff, ?negb_true_iff, ?Z.leb_le, ?Z.ltb_lt, ?Z.eqb_eq, ?Z.eqb_neq); lia] ]
  | |- (_ <=? _) = true => apply Z.leb_le; lia
  | |- (_ <? _) = true => apply Z.ltb_lt; lia
  | |- (_ =? _) = true => apply Z.eqb_eq; lia
  | |- negb (_ =? _) = true => apply negb_true_iff; apply Z.eqb_neq; lia
  | |- _ => fail
  end.

(* Rank 0: element-level steps on cells that are already constructed.  Every assignment, move-out and element swap of the
   rank-0 entry points touches one or two constructed cells and nothing else; such programs keep the frame relation
   st_le [] (no block is "under construction"), hence the ownership invariant, whatever blocks the cells live in (the same
   block, as for two references into one buffer, included). *)
From BM Require Import Base.Tactics Model.Life Model.LifeRank0 Proofs.LifeBase Proofs.LifeMonad Proofs.LifeInv Proofs.LifeCells
  Proofs.LifeSteps Proofs.LifeCombi.
Local Open Scope Z_scope.

Section R0Cells.
Variable cfg : config.

Notation cinit := (cinit cfg).
Notation st_le := (st_le cfg).
Notation Inv := (Inv cfg).

(* cell i of block b is a constructed cell of a live block *)
Definition cell_ok (s : state) (b i : nat) : Prop :=
  exists blk c, get_blk s b = Some blk /\ b_live blk = true /\ nth_error (b_cells blk) i = Some c /\ cinit c.

Lemma cell_ok_later s0 s b i : st_le [] s0 s -> cell_ok s0 b i -> cell_ok s b i.
Proof. intros L H. eapply src_cell_later; eauto. Qed.

Definition keep (s0 : state) (s : state) : Prop := st_le [] s0 s.

Lemma keep_tick s0 w :
  triple (keep s0) (tick_elem cfg w) (fun _ s' => keep s0 s') (fun s' => keep s0 s' /\ thrown w s').
Proof.
  assert (Tk : triple (keep s0) (tick_elem cfg w) (fun _ s' => keep s0 s')
                      (fun s' => c_quiet cfg = false /\ keep s0 s' /\ In (EvThrow w) (s_ledger s'))).
  { apply (tick_elem_spec cfg w (keep s0)).
    - intros s f H. apply st_le_set_fault; auto.
    - intros s e H. apply st_le_emit; auto. }
  eapply triple_conseq; [exact Tk| | |]; auto.
  intros s (_ & H & T). split; auto.
Qed.

Lemma keep_read s0 b i QT : cell_ok s0 b i ->
  triple (keep s0) (read1 cfg b i) (fun _ s' => keep s0 s') QT.
Proof.
  intros H s L. destruct (cell_ok_later _ _ _ _ L H) as (blk & c & Hb & Hl & Hc & Hi).
  destruct (read1_ok cfg s b i blk c Hb Hl Hc Hi) as [v E]. rewrite E. exact L.
Qed.

Lemma assign1_at s b i v blk c :
  get_blk s b = Some blk -> b_live blk = true -> nth_error (b_cells blk) i = Some c -> cinit c ->
  assign1 cfg b i v s = Ok tt (upd_blk s b (with_cells blk (upd_nth (b_cells blk) i (Alive v)))).
Proof.
  intros Hb Hl Hc Hi. unfold assign1, bind. rewrite (get_cell_ok _ _ _ _ _ Hb Hl Hc).
  destruct c; try apply (set_cell_ok _ _ _ _ _ Hb Hl).
  unfold LifeInv.cinit, cell_init in Hi. rewrite Hi. apply (set_cell_ok _ _ _ _ _ Hb Hl).
Qed.

Lemma keep_assign s0 b i v QT : cell_ok s0 b i ->
  triple (keep s0) (assign1 cfg b i v) (fun _ s' => keep s0 s') QT.
Proof.
  intros H s L. destruct (cell_ok_later _ _ _ _ L H) as (blk & c & Hb & Hl & Hc & Hi).
  rewrite (assign1_at s b i v blk c Hb Hl Hc Hi).
  eapply st_le_trans; [exact L|]. apply st_le_upd_cells; auto.
  - apply upd_nth_length.
  - right. eapply Forall2_upd_nth; eauto. + intros a Ha; exact Ha. + intros _. reflexivity.
Qed.

Lemma keep_mark s0 b i QT : cell_ok s0 b i ->
  triple (keep s0) (mark_moved cfg b i) (fun _ s' => keep s0 s') QT.
Proof.
  intros H s L. destruct (cell_ok_later _ _ _ _ L H) as (blk & c & Hb & Hl & Hc & Hi).
  destruct (mark_moved_le cfg [] s b i blk c Hb Hl Hc) as (s' & E & L'). rewrite E.
  eapply st_le_trans; eauto.
Qed.

Definition src_cell_ok (s0 : state) (x : src) : Prop :=
  match x with SVal _ => True | SCell b i | SMoveCell b i => cell_ok s0 b i end.

Lemma keep_read_src s0 x QT : src_cell_ok s0 x ->
  triple (keep s0) (read_src cfg x) (fun _ s' => keep s0 s') QT.
Proof.
  destruct x as [v|b i|b i]; cbn; intros H.
  - intros s L. exact L.
  - apply keep_read; auto.
  - apply keep_read; auto.
Qed.

Lemma keep_after_src s0 x QT : src_cell_ok s0 x ->
  triple (keep s0) (after_src cfg x) (fun _ s' => keep s0 s') QT.
Proof.
  destruct x as [v|b i|b i]; cbn; intros H.
  - intros s L. exact L.
  - intros s L. unfold keep in *. cbn. destruct L as (EA & Ln & G & Hb). repeat split; auto.
  - apply keep_mark; auto.
Qed.

(* one element assignment: what adl_copy_n / adl_move / std::fill_n of ONE element do *)
Lemma keep_assign_one s0 w b i x : cell_ok s0 b i -> src_cell_ok s0 x ->
  triple (keep s0) (assign_loop cfg w b [i] [x]) (fun _ s' => keep s0 s') (fun s' => keep s0 s' /\ thrown w s').
Proof.
  intros Hc Hx. cbn [assign_loop].
  eapply triple_bind; [apply keep_tick|]. intros ?.
  eapply triple_bind; [apply keep_read_src; auto|]. intros v.
  eapply triple_bind; [apply keep_assign; auto|]. intros ?.
  eapply triple_bind; [apply keep_after_src; auto|]. intros ?.
  intros s L. exact L.
Qed.

Lemma keep_swap_cells s0 b i b' i' : cell_ok s0 b i -> cell_ok s0 b' i' ->
  triple (keep s0) (swap_cells cfg b i b' i') (fun _ s' => keep s0 s') (fun s' => keep s0 s' /\ thrown SAssignElem s').
Proof.
  intros H H'. unfold swap_cells.
  eapply triple_bind; [apply keep_tick|]. intros ?.
  eapply triple_bind; [apply keep_read; auto|]. intros v.
  eapply triple_bind; [apply keep_mark; auto|]. intros ?.
  eapply triple_bind; [apply keep_tick|]. intros ?.
  eapply triple_bind; [apply keep_read; auto|]. intros w.
  eapply triple_bind; [apply keep_assign; auto|]. intros ?.
  eapply triple_bind; [apply keep_mark; auto|]. intros ?.
  eapply triple_bind; [apply keep_tick|]. intros ?.
  apply keep_assign; auto.
Qed.

(* a program that only keeps the frame keeps the invariant and the array objects *)
Lemma keep_Inv X s0 s : Inv X s0 -> keep s0 s -> Inv X s /\ s_arrs s = s_arrs s0.
Proof.
  intros I L. split.
  - eapply Inv_st_le; [exact I|exact L|]. intros b [].
  - destruct L as (A & _). exact A.
Qed.

Lemma keep_triple {T} X A (m : M T) w :
  (forall s0, Inv X s0 -> s_arrs s0 = A ->
     triple (keep s0) m (fun _ s' => keep s0 s') (fun s' => keep s0 s' /\ thrown w s')) ->
  triple (fun s => Inv X s /\ s_arrs s = A) m
         (fun _ s' => Inv X s' /\ s_arrs s' = A) (fun s' => Inv X s' /\ s_arrs s' = A /\ thrown w s').
Proof.
  intros H s [I HA]. specialize (H s I HA s (st_le_refl cfg [] s)).
  destruct (m s) as [x s'|s'|e]; auto.
  - destruct (keep_Inv X s s' I H). split; auto. congruence.
  - destruct H as [L T']. destruct (keep_Inv X s s' I L). split; auto. split; auto. congruence.
Qed.

(* the cells of the array objects of a state satisfying the invariant *)
Lemma arr_cell_ok X s r a i : Inv X s -> get_slot s r = Some a -> Z.of_nat i < nel a ->
  exists b, a_base a = PBlk b /\ cell_ok s b i.
Proof.
  intros I Hs Hi. assert (Hp : 0 < nel a) by lia.
  destruct (inv_arr _ _ _ I r a Hs Hp) as (b & blk & Hb & Hblk & Hlv & Hsz & _ & Hok).
  destruct (inv_blk _ _ _ I b blk Hblk) as [[_ Hlen] _].
  exists b. split; auto.
  destruct (nth_error_lt_some (b_cells blk) i) as [c Hc]; [rewrite Hlen, Hsz; lia|].
  exists blk, c. repeat split; auto. eapply Forall_forall; [exact Hok|]. eapply nth_error_In; eauto.
Qed.

End R0Cells.

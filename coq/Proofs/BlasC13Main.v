(* C13 -- the statements Properties_C13.v exports, assembled from the criterion (sound) and the site lemmas. *)
From BM Require Import Base.Tactics Model.BlasC13 Model.BlasC13Gen Model.BlasC13Ref Model.BlasC13Crit Model.BlasC13Spec
  Proofs.BlasC13RefProofs Proofs.BlasC13Gemm Proofs.BlasC13GemmSites Proofs.BlasC13Gemv Proofs.BlasC13GenEq Proofs.BlasC13Refuted.
Local Open Scope Z_scope.

Section Carrier.
  Variable R : Type.
  Variable rzero : R.
  Variables radd rmul : R -> R -> R.
  Variable cj : R -> R.
  Hypothesis rmul_comm : forall x y, rmul x y = rmul y x.

  Lemma gemm_certified (alpha beta : R) (a b c : mat) (k : gemm_call) (mem : Z -> R) :
    shapes_conform a b c -> gemm_implements_b k a b c = true ->
    gemm_correct_at R rzero radd rmul cj alpha beta a b c k mem.
  Proof. intros S H. exact (gemm_criterion_sound R rzero radd rmul cj rmul_comm alpha beta a b c k mem S H). Qed.

  (* the dispatch REGENERATED from the source text, at every site that has a named condition *)
  Lemma gemm_partial (alpha beta : R) (a b c : mat) (k : gemm_call) (mem : Z -> R) :
    wf_mat a -> wf_mat b -> wf_mat c -> shapes_conform a b c -> mconj c = false ->
    (match mconj a, mconj b with
     | false, false => gemm_nn_gen a b c | false, true => gemm_nj_gen a b c
     | true, false => gemm_jn_gen a b c | true, true => gemm_jj_gen a b c end) = OCall k ->
    gemm_site_cond k a b c = true ->
    gemm_correct_at R rzero radd rmul cj alpha beta a b c k mem.
  Proof.
    intros Wa Wb Wc S Cc D C. apply gemm_certified; [assumption|].
    rewrite gemm_nn_gen_eq, gemm_nj_gen_eq, gemm_jn_gen_eq, gemm_jj_gen_eq in D.
    apply gemm_site_conditions; assumption.
  Qed.

  Lemma gemm_general (alpha beta : R) (a b c : mat) (k : gemm_call) (mem : Z -> R) :
    wf_mat a -> wf_mat b -> wf_mat c -> shapes_conform a b c -> mconj c = false ->
    2 <= rows a -> 2 <= cols a -> 2 <= cols b ->
    (match mconj a, mconj b with
     | false, false => gemm_nn_gen a b c | false, true => gemm_nj_gen a b c
     | true, false => gemm_jn_gen a b c | true, true => gemm_jj_gen a b c end) = OCall k ->
    gemm_general_position_defect k a b = false ->
    gemm_correct_at R rzero radd rmul cj alpha beta a b c k mem.
  Proof.
    intros Wa Wb Wc S Cc M2 K2 N2 D C. apply gemm_certified; [assumption|].
    rewrite gemm_nn_gen_eq, gemm_nj_gen_eq, gemm_jn_gen_eq, gemm_jj_gen_eq in D.
    apply gemm_general_position; assumption.
  Qed.

  Lemma gemv_partial (alpha beta : R) (m : mat) (x y : vec) (k : gemv_call) (mem : Z -> R) :
    wf_mat m -> wf_vec x -> wf_vec y -> gemv_shapes m x y -> vconj x = false -> vconj y = false ->
    gemv_gen m x y = VCall k ->
    gemv_site_cond k m = true ->
    gemv_correct_at R rzero radd rmul cj alpha beta m x y k mem.
  Proof.
    intros Wm Wx Wy S Cx Cy D C. apply gemv_criterion_sound; [assumption|].
    rewrite gemv_gen_eq in D. apply gemv_site_conditions; assumption.
  Qed.
End Carrier.

(* the hypotheses are satisfiable by a non-trivial instance: a padded 2x3 block times the transpose of a padded 4x3 block
   into a padded 2x4 block (site 115, 'T','N'), and a complex A.B^H (site 203) *)
Example gemm_partial_instance :
  let a := mk_mat 1000008 7 1 2 3 false in
  let b := mk_mat 2000005 1 6 3 4 false in
  let c := mk_mat 3000006 5 1 2 4 false in
  wf_mat a /\ wf_mat b /\ wf_mat c /\ shapes_conform a b c
  /\ exists k, gemm_nn_gen a b c = OCall k /\ g_site k = 115 /\ gemm_site_cond k a b c = true.
Proof.
  cbv zeta. repeat split; try (apply wf_matb_spec; reflexivity).
  eexists. split; [reflexivity|]. split; reflexivity.
Qed.

Example gemm_partial_instance_conj :
  let a := mk_mat 1000006 5 1 2 3 false in
  let b := mk_mat 2000008 1 6 3 2 true in
  let c := mk_mat 3000000 2 1 2 2 false in
  wf_mat a /\ wf_mat b /\ wf_mat c /\ shapes_conform a b c
  /\ exists k, gemm_nj_gen a b c = OCall k /\ g_site k = 203 /\ gemm_site_cond k a b c = true.
Proof.
  cbv zeta. repeat split; try (apply wf_matb_spec; reflexivity).
  eexists. split; [reflexivity|]. split; reflexivity.
Qed.

Lemma dispatch_regenerated :
  gemm_nn_gen = gemm_nn /\ gemm_nj_gen = gemm_nj /\ gemm_jn_gen = gemm_jn /\ gemm_jj_gen = gemm_jj /\ gemv_gen = gemv_n
  /\ gemm_nn_asserts_gen = gemm_asserts /\ gemm_nj_asserts_gen = gemm_asserts /\ gemm_jn_asserts_gen = gemm_asserts
  /\ gemm_jj_asserts_gen = gemm_asserts /\ gemv_asserts_gen = gemv_asserts.
Proof. repeat split; reflexivity. Qed.

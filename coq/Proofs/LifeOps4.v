(* Initializer-list constructor, allocator-extended move constructor, reextent (three overloads). *)
From BM Require Import Base.Tactics Model.Life Proofs.LifeBase Proofs.LifeMonad Proofs.LifeInv Proofs.LifeCells
  Proofs.LifeSteps Proofs.LifeCombi Proofs.LifeOps Proofs.LifeOps2 Proofs.LifeOps3 Proofs.LifeOffsets.
Local Open Scope Z_scope.

Section Ops4.
Variable cfg : config.
Hypothesis rank_pos : (1 <= c_rank cfg)%nat.

Notation Inv := (Inv cfg).
Notation Good := (Good cfg).
Notation GoodT := (GoodT cfg).
Notation op_ok := (op_ok cfg).

Lemma ok_CtorIl r w : op_ok (OCtorIl r w).
Proof.
  intros A W T [D Dw]. cbn [step]. apply bind_slot_free; [apply D|].
  destruct (rw_k w =? 0).
  { (* the empty list: a default-constructed array *)
    intros s [I HA]. rewrite set_arr_eq. eapply (Good_intro cfg) with (A := upd_nth A r (Some (empty_arr cfg default_alloc PNull))).
    - apply Inv_set_nonowning; auto. + eapply free_lt; eauto.
      + rewrite (get_slot_A _ _ _ HA), (free_slot _ _ D). exact Logic.I.
      + unfold nonowning. rewrite nel_empty; auto. lia.
    - cbn. rewrite HA. reflexivity.
    - apply wf_slots_upd; auto. intros a' E; inv E. apply wf_empty.
    - eapply tmps_free_upd; eauto. apply D. }
  apply triple_pure with (F := length A = NSLOTS). { intros s [I HA]. eapply len_A; eauto. } intros Hlen.
  pose proof T as (T1 & T2 & T3).
  assert (N : r <> TMP1 /\ r <> TMP2 /\ r <> TMP3) by (destruct D as [H _]; unfold NP, TMP1, TMP2, TMP3 in *; lia).
  destruct N as (N1 & N2 & N3).
  assert (L3 : (TMP3 < length A)%nat) by (eapply nth_lt; eauto).
  assert (Lr : (r < length A)%nat) by (eapply nth_lt; apply D).
  (* the temporary array<T,D> with std::allocator *)
  eapply triple_bind.
  { eapply triple_conseq; [apply (p_build_spec cfg rank_pos [] std_alloc (bnumel (rows_exts w)) (rows_rowlen w) (map SVal (rw_vals w)) A)| | |]; auto.
    - apply map_SVal_src_in.
    - intros Hp. rewrite map_length. apply Dw; auto.
    - intros p s H. exact H.
    - intros s [HA [[I Th]|Th]]; [eapply GoodT_left; eauto|right; left; auto]. }
  intros p. set (tarr := with_bx std_alloc p (rows_exts w)). set (A1 := upd_nth A TMP3 (Some tarr)).
  eapply triple_bind with (Q := fun _ s => Inv [] s /\ s_arrs s = A1).
  { apply triple_nothrow. eapply triple_conseq; [apply (install_spec cfg [] TMP3 std_alloc (rows_exts w) A p)| | |]; auto.
    unfold slotA. rewrite T3. exact I. }
  intros _.
  assert (W1 : wf_slots A1) by (apply wf_slots_upd; auto; intros a E; inv E; apply (wf_with_bx cfg); auto).
  assert (H13 : nth_error A1 TMP3 = Some (Some tarr)) by (unfold A1; rewrite nth_upd by auto; rewrite Nat.eqb_refl; auto).
  assert (H1r : nth_error A1 r = Some None).
  { unfold A1. rewrite nth_upd by auto. destruct (Nat.eqb_spec TMP3 r); [congruence|apply D]. }
  assert (LA1 : length A1 = length A) by (unfold A1; apply upd_nth_length).
  (* the array itself, from the elements of the temporary *)
  unfold ctor_from_tmp_moved.
  eapply triple_bind with (Q := fun _ s => Inv [] s /\ exists q, s_arrs s = upd_nth A1 r (Some (with_bx default_alloc q (arr_bx tarr)))).
  { eapply bind_get_arr; [exact H13|].
    assert (Wt : wf_arr tarr) by (apply (wf_with_bx cfg); auto).
    rewrite <- (bnumel_arr_bx cfg rank_pos _ Wt).
    apply triple_pure with (F := 0 < nel tarr -> length (cells_of SMoveCell tarr) = Z.to_nat (nel tarr)).
    { intros s [I HA] Hp. eapply cells_of_length; eauto. }
    intros Hcl.
    eapply triple_conseq; [apply (build_install_spec cfg rank_pos [] r default_alloc (arr_bx tarr) 0 (cells_of SMoveCell tarr) A1)| | |]; auto.
    - eapply free_lt; eauto.
    - unfold slotA. rewrite H1r. exact I.
    - eapply cells_of_src_in; eauto.
    - rewrite (bnumel_arr_bx cfg rank_pos _ Wt). exact Hcl.
    - intros s [HA [[I Th]|Th]]; [eapply GoodT_left; eauto|right; left; auto]. }
  intros _.
  eapply triple_pre with (P' := fun s => exists q, Inv [] s /\ s_arrs s = upd_nth A1 r (Some (with_bx default_alloc q (arr_bx tarr)))).
  2:{ intros s (I & q & HA). exists q. auto. }
  apply triple_exists. intros q. set (A2 := upd_nth A1 r (Some (with_bx default_alloc q (arr_bx tarr)))).
  assert (H23 : nth_error A2 TMP3 = Some (Some tarr)).
  { unfold A2. rewrite nth_upd by lia. destruct (Nat.eqb_spec r TMP3); [congruence|exact H13]. }
  apply triple_nothrow. eapply triple_post; [apply (dtor_ok cfg rank_pos [] A2 TMP3 tarr H23)|].
  intros _ s [I HA]. eapply (Good_intro cfg); eauto.
  - apply wf_slots_upd; [|intros a E; discriminate]. unfold A2. apply wf_slots_upd; auto. intros a E; inv E. apply (wf_with_bx cfg); auto.
  - assert (LA2 : length A2 = length A) by (unfold A2; rewrite upd_nth_length; auto).
    unfold tmps_free. rewrite !nth_upd by lia. rewrite Nat.eqb_refl.
    destruct (Nat.eqb_spec TMP3 TMP1) as [E|_]; [discriminate E|]. destruct (Nat.eqb_spec TMP3 TMP2) as [E|_]; [discriminate E|].
    unfold A2. rewrite !nth_upd by lia. destruct (Nat.eqb_spec r TMP1); [congruence|]. destruct (Nat.eqb_spec r TMP2); [congruence|].
    unfold A1. rewrite !nth_upd by auto.
    destruct (Nat.eqb_spec TMP3 TMP1) as [E|_]; [discriminate E|]. destruct (Nat.eqb_spec TMP3 TMP2) as [E|_]; [discriminate E|]. auto.
Qed.

Lemma ok_CtorMoveAlloc r t a : op_ok (OCtorMoveAlloc r t a).
Proof.
  intros A W T [D (at_ & Dt)]. cbn [step]. apply bind_slot_free; [apply D|]. eapply bind_get_arr; [apply Dt|].
  assert (Hne : r <> t) by (eapply free_live_ne; eauto).
  assert (Wt : wf_arr at_) by (apply (W t at_); apply Dt).
  destruct (alloc_eq cfg a (a_alloc at_)) eqn:Eal.
  - (* equal allocators: the block is adopted *)
    intros s [I HA]. unfold bind. rewrite !set_arr_eq.
    eapply (Good_intro cfg) with (A := upd_nth (upd_nth A r (Some (mkarr a (a_base at_) (a_exts at_) (a_first at_)))) t
                                         (Some (empty_arr cfg (a_alloc at_) PNull))).
    + apply Inv_move; auto.
      * unfold get_slot. rewrite HA. destruct Dt as [_ ->]. reflexivity.
      * eapply free_lt; eauto.
      * rewrite (get_slot_A _ _ _ HA), (free_slot _ _ D). exact Logic.I.
      * rewrite alloc_eq_sym. exact Eal.
      * unfold nonowning. rewrite nel_empty; auto. lia.
    + cbn. rewrite HA. reflexivity.
    + apply wf_slots_upd; [apply wf_slots_upd; auto|].
      * intros a' E; inv E. exact Wt.
      * intros a' E; inv E. apply wf_empty.
    + eapply tmps_free_upd; eauto; [apply Dt|]. eapply tmps_free_upd; eauto; apply D.
  - (* unequal allocators: the elements are moved, the source is cleared *)
    apply triple_pure with (F := length A = NSLOTS). { intros s [I HA]. eapply len_A; eauto. } intros Hlen.
    assert (Lr : (r < length A)%nat) by (eapply nth_lt; apply D).
    assert (Lt : (t < length A)%nat) by (eapply nth_lt; apply Dt).
    rewrite <- (bnumel_arr_bx cfg rank_pos _ Wt).
    apply triple_pure with (F := 0 < nel at_ -> length (cells_of SMoveCell at_) = Z.to_nat (nel at_)).
    { intros s [I HA] Hp. eapply cells_of_length; eauto. apply Dt. }
    intros Hcl.
    eapply triple_bind.
    { eapply triple_conseq; [apply (p_build_spec cfg rank_pos [] a (bnumel (arr_bx at_)) 0 (cells_of SMoveCell at_) A)| | |]; auto.
      - eapply cells_of_src_in; eauto. apply Dt.
      - rewrite (bnumel_arr_bx cfg rank_pos _ Wt). exact Hcl.
      - intros p s H. exact H.
      - intros s [HA [[I Th]|Th]]; [eapply GoodT_left; eauto|right; left; auto]. }
    intros p.
    set (A1 := upd_nth A t (Some (empty_arr cfg (a_alloc at_) (a_base at_)))).
    assert (H1r : nonowning (slotA A1 r)).
    { unfold slotA, A1. rewrite nth_upd by auto. destruct (Nat.eqb_spec t r); [congruence|]. destruct D as [_ ->]. exact I. }
    assert (Hfin : forall s, Inv [] s -> s_arrs s = upd_nth A1 r (Some (with_bx a p (arr_bx at_))) -> Good s).
    { intros s I HA. eapply (Good_intro cfg); eauto.
      - apply wf_slots_upd; [apply wf_slots_upd; auto|].
        + intros a' E; inv E. apply wf_empty.
        + intros a' E; inv E. apply (wf_with_bx cfg); auto.
      - eapply tmps_free_upd; eauto; [apply D|]. eapply tmps_free_upd; eauto; apply Dt. }
    destruct p as [|b].
    + (* nothing to move *)
      eapply triple_bind with (Q := fun _ s => s_arrs s = A1 /\ (bnumel (arr_bx at_) <= 0 /\ Inv [] s)).
      { apply triple_pure with (F := bnumel (arr_bx at_) <= 0). { intros s [_ [Hn _]]. exact Hn. } intros Hn.
        apply triple_nothrow. eapply triple_conseq; [apply (clear_ok cfg rank_pos [] A t at_ (proj2 Dt))| | |].
        - intros s [HA [_ I]]. auto.
        - intros _ s [I HA]. auto.
        - auto. }
      intros _. apply triple_nothrow.
      eapply triple_post; [apply (install_spec cfg [] r a (arr_bx at_) A1 PNull)|]; auto.
      * eapply free_lt; eauto.
      * intros _ s [I HA]. apply Hfin; auto.
    + eapply triple_bind with (Q := fun _ s => s_arrs s = A1 /\ (0 < bnumel (arr_bx at_) /\ Inv [b] s /\ built cfg s b a (bnumel (arr_bx at_)))).
      { apply triple_pure with (F := 0 < bnumel (arr_bx at_)). { intros s [_ [Hn _]]. exact Hn. } intros Hn.
        apply triple_nothrow.
        eapply triple_conseq; [apply (p_clear_spec cfg rank_pos [b] t at_ A [(b, a, bnumel (arr_bx at_))])| | |].
        - intros b' a' n' [E|[]]. inv E. left; auto.
        - intros s [HA (_ & I & Bt)]. split; auto. split; auto. split.
          + unfold get_slot. rewrite HA. destruct Dt as [_ ->]. reflexivity.
          + intros b' a' n' [E|[]]. inv E. exact Bt.
        - intros _ s (I & HA & HB). split; auto. split; auto. split; auto. apply HB. left; auto.
        - auto. }
      intros _. apply triple_nothrow.
      eapply triple_post; [apply (install_spec cfg [] r a (arr_bx at_) A1 (PBlk b))|]; auto.
      * eapply free_lt; eauto.
      * intros _ s [I HA]. apply Hfin; auto.
Qed.

(* ---- reextent(x) & and reextent(x, v) & ---- *)
Lemma norm_bx_length x : length (norm_bx x) = length x.
Proof.
  unfold norm_bx, mk_firsts, mk_sizes. rewrite combine_length, map_length, combine_length.
  unfold bx_firsts, bx_sizes. rewrite collapse_length, !map_length. lia.
Qed.

Lemma ok_Reextent r x fillv : op_ok (OReextent r x fillv).
Proof.
  intros A W T (ar & Dr & Dlen). cbn [step]. eapply bind_get_arr; [apply Dr|].
  destruct (bx_eq x (arr_bx ar)).
  { intros s [I HA]. cbn. eapply (Good_intro cfg); eauto. }
  assert (War : wf_arr ar) by (apply (W r ar); apply Dr).
  assert (Hfin : forall s p, Inv [] s -> s_arrs s = upd_nth A r (Some (with_bx (a_alloc ar) p x)) -> Good s).
  { intros s p I HA. eapply (Good_intro cfg); eauto.
    - apply wf_slots_upd; auto. intros a' E; inv E. apply (wf_with_bx cfg); auto.
    - eapply tmps_free_upd; eauto. apply Dr. }
  set (N := Z.to_nat (bnumel x)). set (nx := norm_bx x). set (is := bx_inter (arr_bx ar) nx).
  eapply triple_bind.
  { eapply triple_conseq; [apply (alloc_spec cfg rank_pos [] (a_alloc ar) (bnumel x) A)| | |].
    - auto. - intros p s H; exact H.
    - intros s (I & HA & Th). eapply GoodT_left; eauto. }
  intros [|b].
  - (* the new extensions are empty *)
    apply triple_nothrow.
    eapply triple_bind with (Q := fun _ s => s_arrs s = A /\ bnumel x <= 0 /\ Inv [] s). { intros s H. exact H. }
    intros _.
    eapply triple_bind with (Q := fun _ s' => s_arrs s' = A /\ bnumel x <= 0 /\ forall o', nonowning o' -> Inv [] (set_slot s' r o')).
    { apply triple_pure with (F := bnumel x <= 0). { intros s (_ & Hn & _). exact Hn. } intros Hn.
      eapply triple_conseq; [apply (release_spec cfg rank_pos [] r ar A [])| | |].
      - intros ? ? ? [].
      - intros s (HA & _ & I). split; auto. split; auto. split; [unfold get_slot; rewrite HA; destruct Dr as [_ ->]; reflexivity|intros ? ? ? []].
      - intros _ s (HA & _ & Hi). auto.
      - auto. }
    intros _ s (HA & Hn & Hi). rewrite set_arr_eq. apply (Hfin _ PNull).
    + apply Hi. unfold nonowning. rewrite nel_with_bx. exact Hn.
    + cbn. rewrite HA. reflexivity.
  - (* a new block: fill / value-construct it, transfer the common elements, release the old block, adopt *)
    set (al := a_alloc ar).
    assert (Hn_eq : numel (bx_sizes nx) = bnumel x) by (apply (bnumel_norm cfg rank_pos)).
    (* what an element-level step on the new block preserves *)
    assert (Hkeep : forall sa sb, s_arrs sa = A -> Inv [b] sa -> built cfg sa b al (bnumel x) ->
               st_le cfg [b] sa sb -> allinit cfg sb b N ->
               s_arrs sb = A /\ Inv [b] sb /\ built cfg sb b al (bnumel x) /\ allinit cfg sb b N).
    { intros sa sb HA Ia (blka & Hba & _ & Hoa & Hsa & _) L Ai. split; [destruct L as (E & _); congruence|]. split.
      - eapply Inv_st_le; [exact Ia|exact L|]. intros b' [<-|[]]. left; left; auto.
      - split; auto. destruct Ai as (blk2 & Hb2 & Hl2 & _ & Hok2).
        destruct L as (_ & _ & _ & HL). destruct (HL b blka Hba) as (blk2' & Hb2' & O & Sz & _).
        assert (blk2' = blk2) by congruence. subst blk2'. exists blk2. repeat split; auto; congruence. }
    assert (Hfull : forall s2, shape s2 b N N -> allinit cfg s2 b N).
    { intros s2 Sh2. destruct (shape_full_ok cfg _ _ _ Sh2) as (blk2 & H1 & H2 & H3 & H4). exists blk2. auto. }
    (* construction of the new block *)
    eapply triple_bind with (Q := fun _ s => 0 < bnumel x /\ s_arrs s = A /\ Inv [b] s /\ built cfg s b al (bnumel x) /\ allinit cfg s b N).
    { eapply triple_bind with (Q := fun _ s => 0 < bnumel x /\ s_arrs s = A /\ Inv [b] s /\ built cfg s b al (bnumel x) /\ allinit cfg s b N).
      - (* fill or value construction *)
        intros s1 (HA & Hn & I1 & Sh & blk1 & Hb1 & Ho1 & Hs1).
        assert (Hafter : forall s2, st_le cfg [b] s1 s2 -> allinit cfg s2 b N ->
                  0 < bnumel x /\ s_arrs s2 = A /\ Inv [b] s2 /\ built cfg s2 b al (bnumel x) /\ allinit cfg s2 b N).
        { intros s2 L Ai. split; auto. split; [destruct L as (E & _); congruence|]. split.
          - eapply Inv_st_le; [exact I1|exact L|]. intros b' [<-|[]]. left; left; auto.
          - split; auto. destruct Ai as (blk2 & Hb2 & Hl2 & _ & Hok2).
            destruct L as (_ & _ & _ & HL). destruct (HL b blk1 Hb1) as (blk2' & Hb2' & O & Sz & _).
            assert (blk2' = blk2) by congruence. subst blk2'. exists blk2. repeat split; auto; congruence. }
        destruct fillv as [v|].
        + assert (Fv : Forall (src_ok cfg s1 [b]) (repeat (SVal v) N)).
          { apply Forall_forall. intros y Hy. apply repeat_spec in Hy. subst. exact I. }
          assert (Tr := construct_loop_spec' cfg SReextElem [b] s1 b 0 N (repeat (SVal v) N) 0 (or_introl eq_refl) Fv
                          (le_n 0) ltac:(rewrite repeat_length; lia) s1 (conj (st_le_refl cfg [b] s1) Sh)).
          fold N. destruct (construct_loop cfg SReextElem b 0 0 (repeat (SVal v) N) s1) as [[] s2|s2|e]; try contradiction.
          * destruct Tr as [L Sh2]. rewrite repeat_length in Sh2. apply Hafter; auto.
          * destruct Tr as [_ Th]. right. right. left. exact Th.
        + destruct (c_tdc cfg) eqn:Ht.
          * cbn. apply Hafter; [apply st_le_refl|]. destruct Sh as (blk & Hb & Hl & HN & _). exists blk. repeat split; auto.
            apply trivial_cells_ok; auto.
          * unfold value_construct_n. fold N.
            assert (Tr := default_construct_n_spec cfg rank_pos [b] s1 b N (or_introl eq_refl) N 0 ltac:(lia) s1 (conj (st_le_refl cfg [b] s1) Sh)).
            destruct (default_construct_n b 0 N s1) as [[] s2|s2|e]; try contradiction.
            destruct Tr as [L Sh2]. apply Hafter; auto.
      - (* transfer of the common elements *)
        intros _. fold nx. fold is.
        destruct (Z.leb_spec (bnumel is) 0) as [Hz|Hp]; [intros s H; exact H|].
        assert (Hla : length (arr_bx ar) = length nx).
        { unfold nx. rewrite norm_bx_length. unfold arr_bx. rewrite combine_length. rewrite War. lia. }
        destruct (inter_pos _ _ Hla Hp) as [Hpa _].
        rewrite (bnumel_arr_bx cfg rank_pos _ War) in Hpa.
        destruct (combine_sizes (a_first ar) (a_exts ar) War) as [Es Ef].
        intros s2 (Hn & HA & I2 & Bt & Ai).
        assert (Hs : get_slot s2 r = Some ar) by (unfold get_slot; rewrite HA; destruct Dr as [_ ->]; reflexivity).
        destruct (inv_arr _ _ _ I2 r ar Hs Hpa) as (bo & blko & Hbo & _).
        unfold bind at 1. unfold base_blk. rewrite Hbo. cbn [ret].
        assert (Fo : Forall (fun o => (o < N)%nat) (map Z.to_nat (block_offsets (bx_sizes nx) (bx_firsts nx) is))).
        { apply Forall_forall. intros o Ho. apply in_map_iff in Ho. destruct Ho as (z & <- & Hz).
          pose proof (block_offsets_bound _ _ _ (inter_inside_r _ _ Hla)) as Hb. eapply Forall_forall in Hb; [|exact Hz].
          rewrite Hn_eq in Hb. unfold N. lia. }
        assert (Fok : Forall (src_ok cfg s2 [b]) (map (fun o => SCell bo (Z.to_nat o)) (block_offsets (a_exts ar) (a_first ar) is))).
        { apply Forall_forall. intros y Hy. apply in_map_iff in Hy. destruct Hy as (z & <- & Hz).
          pose proof (block_offsets_bound _ _ _ (inter_inside_l _ _ Hla)) as Hb. unfold arr_bx in Hb. rewrite Es, Ef in Hb.
          eapply Forall_forall in Hb; [|exact Hz].
          apply (src_in_ok cfg rank_pos [b] [b] s2 A); auto.
          cbn. exists r, ar. split; [apply Dr|]. split; auto. unfold nel. lia. }
        assert (Tr := assign_loop_spec cfg rank_pos SReextElem [b] s2 b N (or_introl eq_refl) _ _ Fok Fo s2 (conj (st_le_refl cfg [b] s2) Ai)).
        match goal with |- match ?m with _ => _ end => destruct m as [[] s3|s3|e] end; try contradiction.
        * destruct Tr as [L Ai3]. split; auto. apply (Hkeep s2 s3); auto.
        * destruct Tr as (_ & _ & Th). right. right. left. exact Th. }
    (* release the old block, adopt the new one *)
    intros _. apply triple_nothrow.
    eapply triple_bind with (Q := fun _ s' => 0 < bnumel x /\ s_arrs s' = A /\ built cfg s' b al (bnumel x)
                                              /\ forall o', nonowning o' -> Inv [b] (set_slot s' r o')).
    { apply triple_pure with (F := 0 < bnumel x). { intros s (Hn & _). exact Hn. } intros Hn.
      eapply triple_conseq; [apply (release_spec cfg rank_pos [b] r ar A [(b, al, bnumel x)])| | |].
      - intros b' a' n' [E|[]]. inv E. left; auto.
      - intros s (_ & HA & I & Bt & _). split; auto. split; auto. split.
        + unfold get_slot. rewrite HA. destruct Dr as [_ ->]. reflexivity.
        + intros b' a' n' [E|[]]. inv E. exact Bt.
      - intros _ s (HA & HB & Hi). split; auto. split; auto. split; auto. apply HB. left; auto.
      - auto. }
    intros _ s (Hn & HA & (blk & Hb & Hl & Ho & Hs & Hok) & Hi). rewrite set_arr_eq. apply (Hfin _ (PBlk b)).
    + unfold al in *. rewrite <- (set_slot_twice s r None (Some (with_bx (a_alloc ar) (PBlk b) x))).
      eapply Inv_own with (b := b) (blk := blk); auto.
      * apply Hi. exact I.
      * eapply live_lt; eauto.
      * assert (Lr : (r < length (s_arrs s))%nat) by (rewrite HA; eapply nth_lt; apply Dr).
        rewrite get_slot_set_slot by auto. rewrite Nat.eqb_refl. exact I.
      * rewrite nel_with_bx. exact Hn.
      * rewrite nel_with_bx. exact Hs.
      * cbn. rewrite Ho. apply alloc_eq_refl.
    + cbn. rewrite HA. reflexivity.
Qed.

(* ---- std::move(a).reextent(x): steps that do not look at the array objects commute with updating them ---- *)
Definition lift_res {T} (f : state -> state) (x : res T) : res T :=
  match x with Ok v s => Ok v (f s) | Threw s => Threw (f s) | Err e => Err e end.

Lemma alloc_set_slot a n s r o : alloc a n (set_slot s r o) = lift_res (fun s' => set_slot s' r o) (alloc a n s).
Proof.
  unfold alloc. destruct (n <=? 0); [reflexivity|]. unfold bind.
  destruct (a =? std_alloc); [reflexivity|]. unfold tick; cbn.
  destruct (s_fault s) as [[|[|k]]|]; reflexivity.
Qed.

Lemma construct1_set_slot b i v s r o : construct1 b i v (set_slot s r o) = lift_res (fun s' => set_slot s' r o) (construct1 b i v s).
Proof.
  unfold construct1, bind, get_cell, set_cell, bind, get_block, put_block; cbn.
  destruct (nth_error (s_blocks s) b) as [blk|] eqn:Eb; [|reflexivity].
  destruct (b_live blk) eqn:El; [|reflexivity].
  destruct (nth_error (b_cells blk) i) as [c|]; [|reflexivity].
  destruct c; try reflexivity. cbn. rewrite Eb, El. reflexivity.
Qed.

Lemma default_construct_set_slot b r o : forall n i s,
  default_construct_n b i n (set_slot s r o) = lift_res (fun s' => set_slot s' r o) (default_construct_n b i n s).
Proof.
  induction n as [|n IH]; intros i s; [reflexivity|].
  cbn [default_construct_n]. unfold bind. rewrite construct1_set_slot.
  destruct (construct1 b i 0 s) as [[] s1|s1|e]; cbn; auto.
Qed.

Lemma ok_ReextentMove r x : op_ok (OReextentMove r x).
Proof.
  intros A W T (ar & Dr). cbn [step]. eapply bind_get_arr; [apply Dr|].
  destruct (bx_eq x (arr_bx ar)).
  { intros s [I HA]. cbn. eapply (Good_intro cfg); eauto. }
  set (al := a_alloc ar). set (N := Z.to_nat (bnumel x)).
  assert (Hfin : forall s p, Inv [] s -> s_arrs s = upd_nth A r (Some (with_bx al p x)) -> Good s).
  { intros s p I HA. eapply (Good_intro cfg); eauto.
    - apply wf_slots_upd; auto. intros a' E; inv E. apply (wf_with_bx cfg); auto.
    - eapply tmps_free_upd; eauto. apply Dr. }
  eapply triple_bind with (Q := fun _ s' => s_arrs s' = A /\ forall o', nonowning o' -> Inv [] (set_slot s' r o')).
  { apply triple_nothrow. eapply triple_conseq; [apply (release_spec cfg rank_pos [] r ar A [])| | |].
    - intros ? ? ? [].
    - intros s [I HA]. split; auto. split; auto. split; [unfold get_slot; rewrite HA; destruct Dr as [_ ->]; reflexivity|intros ? ? ? []].
    - intros _ s (HA & _ & Hi). auto.
    - auto. }
  intros _ s1 [HA Hi].
  assert (Lr : (r < length (s_arrs s1))%nat) by (rewrite HA; eapply nth_lt; apply Dr).
  assert (I1n : Inv [] (set_slot s1 r None)) by (apply Hi; exact I).
  unfold bind at 1. rewrite set_arr_eq. unfold bind at 1. unfold on_throw. rewrite alloc_set_slot.
  assert (HA1n : s_arrs (set_slot s1 r None) = upd_nth A r None) by (unfold set_slot; cbn; congruence).
  assert (Tr := alloc_spec cfg rank_pos [] al (bnumel x) (upd_nth A r None) (set_slot s1 r None) (conj I1n HA1n)).
  rewrite alloc_set_slot in Tr.
  destruct (alloc al (bnumel x) s1) as [p s3|s3|e]; cbn [lift_res] in *; [| |contradiction].
  2:{ (* the allocation threw after the old block was released *) right. right. right. left. reflexivity. }
  destruct Tr as [HA3 Hp].
  assert (L3 : (r < length (s_arrs s3))%nat).
  { assert (E : length (s_arrs (set_slot s3 r None)) = length (upd_nth A r None)) by (rewrite HA3; reflexivity).
    cbn in E. rewrite !upd_nth_length in E. rewrite E, <- HA. exact Lr. }
  assert (HA3' : s_arrs (set_slot s3 r (Some (with_bx al p x))) = upd_nth A r (Some (with_bx al p x))).
  { cbn in HA3 |- *. apply (f_equal (fun l => upd_nth l r (Some (with_bx al p x)))) in HA3. rewrite !upd_nth_twice in HA3. exact HA3. }
  unfold bind at 1. rewrite set_arr_eq, set_slot_twice.
  destruct p as [|b].
  - destruct Hp as [Hn I3]. cbn. apply (Hfin _ PNull); auto.
    rewrite <- (set_slot_twice s3 r None). apply Inv_set_nonowning; auto.
    + eapply live_lt; eauto.
    + rewrite get_slot_set_slot by auto. rewrite Nat.eqb_refl. exact I.
    + unfold nonowning. rewrite nel_with_bx. exact Hn.
  - destruct Hp as (Hn & I3 & Sh & blk & Hb & Ho & Hs).
    assert (Hown : forall s4, st_le cfg [b] (set_slot s3 r None) (set_slot s4 r None) ->
                     (exists blk4, get_blk s4 b = Some blk4 /\ cells_ok cfg (b_cells blk4)) ->
                     Inv [] (set_slot s4 r (Some (with_bx al (PBlk b) x)))).
    { intros s4 L (blk4 & Hb4 & Hok4).
      assert (I4 : Inv [b] (set_slot s4 r None)).
      { eapply Inv_st_le; [exact I3|exact L|]. intros b' [<-|[]]. left; left; auto. }
      rewrite <- (set_slot_twice s4 r None).
      destruct L as (_ & _ & _ & HL). destruct (HL b blk Hb) as (blk4' & Hb4' & O & Sz & Lv & _).
      assert (blk4' = blk4) by (unfold get_blk in *; cbn in Hb4'; congruence). subst blk4'.
      eapply Inv_own with (b := b) (blk := blk4); auto.
      - eapply live_lt; eauto.
      - assert (L4 : (r < length (s_arrs s4))%nat).
        { assert (E := inv_nslots _ _ _ I4). unfold set_slot in E. cbn in E. rewrite upd_nth_length in E. rewrite E. eapply live_lt; eauto. }
        rewrite get_slot_set_slot by auto. rewrite Nat.eqb_refl. exact I.
      - rewrite nel_with_bx. exact Hn.
      - rewrite nel_with_bx. congruence.
      - cbn. rewrite O, Ho. apply alloc_eq_refl. }
    destruct (c_tdc cfg) eqn:Ht.
    + cbn. apply (Hfin _ (PBlk b)); auto. apply Hown; [apply st_le_refl|].
      exists blk. split; auto. apply trivial_cells_ok; auto.
    + unfold value_construct_n. fold N. rewrite default_construct_set_slot.
      assert (Tr := default_construct_n_spec cfg rank_pos [b] (set_slot s3 r None) b N (or_introl eq_refl) N 0 ltac:(lia)
                      (set_slot s3 r None) (conj (st_le_refl cfg [b] _) Sh)).
      rewrite default_construct_set_slot in Tr.
      destruct (default_construct_n b 0 N s3) as [[] s4|s4|e]; cbn [lift_res] in *; try contradiction.
      destruct Tr as [L Sh4].
      assert (HA4 : s_arrs (set_slot s4 r (Some (with_bx al (PBlk b) x))) = upd_nth A r (Some (with_bx al (PBlk b) x))).
      { destruct L as (E & _). rewrite HA3 in E. unfold set_slot in E |- *. cbn in E |- *.
        apply (f_equal (fun l => upd_nth l r (Some (with_bx al (PBlk b) x)))) in E. rewrite !upd_nth_twice in E. exact E. }
      apply (Hfin _ (PBlk b)); auto. apply Hown; auto.
      destruct (shape_full_ok cfg _ _ _ Sh4) as (blk4 & H1 & H2 & H3 & H4). exists blk4. split; auto.
Qed.

End Ops4.

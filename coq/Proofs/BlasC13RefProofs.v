(* C13 -- facts about the reference semantics (Model/BlasC13Ref.v): sums, decoding a cell of the column-major
   output, and what the decidable criterion's pieces (Model/BlasC13Crit.v) mean. *)
From BM Require Import Base.Tactics Model.BlasC13 Model.BlasC13Ref Model.BlasC13Crit.
Local Open Scope Z_scope.

Lemma agree_spec nr nc x0 x1 y0 y1 :
  agree nr nc x0 x1 y0 y1 = true ->
  forall r c, 0 <= r < nr -> 0 <= c < nc -> r * x0 + c * x1 = r * y0 + c * y1.
Proof.
  unfold agree. intros H r c Hr Hc.
  apply andb_prop in H. destruct H as [H0 H1].
  apply orb_prop in H0. apply orb_prop in H1.
  assert (E0 : r * x0 = r * y0).
  { destruct H0 as [H0|H0]; [apply Z.leb_le in H0; assert (r = 0) by lia; subst r; reflexivity
                           | apply Z.eqb_eq in H0; subst; reflexivity]. }
  assert (E1 : c * x1 = c * y1).
  { destruct H1 as [H1|H1]; [apply Z.leb_le in H1; assert (c = 0) by lia; subst c; reflexivity
                           | apply Z.eqb_eq in H1; subst; reflexivity]. }
  rewrite E0, E1. reflexivity.
Qed.

Lemma decode_cell ld i j : 0 <= i < ld -> 0 <= j -> (i + j * ld) / ld = j /\ (i + j * ld) mod ld = i.
Proof.
  intros Hi Hj. split.
  - rewrite Z.div_add by lia. rewrite Z.div_small by lia. reflexivity.
  - rewrite Z.mod_add by lia. apply Z.mod_small. lia.
Qed.

Lemma wf_matb_spec a : wf_matb a = true <-> wf_mat a.
Proof. unfold wf_matb, wf_mat. split; intro H; lia. Qed.

(* wf_mat is what "distinct indices, distinct cells" needs once a stride is 1 *)
Lemma wf_mat_injective a :
  wf_mat a -> (s0 a = 1 \/ s1 a = 1) ->
  forall i j i' j', 0 <= i < rows a -> 0 <= j < cols a -> 0 <= i' < rows a -> 0 <= j' < cols a ->
    maddr a i j = maddr a i' j' -> i = i' /\ j = j'.
Proof.
  unfold wf_mat, maddr. intros (Hr & Hc & H0 & H1 & W1 & W0) Hu i j i' j' Hi Hj Hi' Hj' E.
  destruct Hu as [U|U]; rewrite U in *.
  - (* rows contiguous in the other direction: address = base + i + j * s1, with rows <= s1 when cols >= 2 *)
    assert (Hd : i - i' = (j' - j) * s1 a) by lia.
    destruct (Z.eq_dec j j') as [->|Nj]; [lia|].
    assert (H2 : 2 <= cols a) by lia. specialize (W0 eq_refl H2). exfalso. nia.
  - assert (Hd : j - j' = (i' - i) * s0 a) by lia.
    destruct (Z.eq_dec i i') as [->|Ni]; [lia|].
    assert (H2 : 2 <= rows a) by lia. specialize (W1 eq_refl H2). exfalso. nia.
Qed.

Section Carrier.
  Variable R : Type.
  Variable rzero : R.
  Variables radd rmul : R -> R -> R.
  Variable cj : R -> R.

  Notation rsum := (rsum R rzero radd).
  Notation zsum := (zsum R rzero radd).
  Notation opelt := (opelt R cj).
  Notation mval := (mval R cj).
  Notation vval := (vval R cj).
  Notation gemm_ref := (gemm_ref R rzero radd rmul cj).
  Notation gemm_cell := (gemm_cell R rzero radd rmul cj).
  Notation gemv_ref := (gemv_ref R rzero radd rmul cj).
  Notation gemv_cell := (gemv_cell R rzero radd rmul cj).

  Lemma rsum_ext n f g : (forall l, 0 <= l < Z.of_nat n -> f l = g l) -> rsum n f = rsum n g.
  Proof.
    induction n as [|n IH]; intros H; cbn [BlasC13Ref.rsum]; [reflexivity|].
    rewrite IH by (intros; apply H; lia). rewrite H by lia. reflexivity.
  Qed.

  Lemma zsum_ext k f g : (forall l, 0 <= l < k -> f l = g l) -> zsum k f = zsum k g.
  Proof. intros H. unfold BlasC13Ref.zsum. apply rsum_ext. intros l Hl. apply H. lia. Qed.

  Lemma op_is_spec t p ld x nr nc :
    op_is t p ld x nr nc = true ->
    forall mem r c, 0 <= r < nr -> 0 <= c < nc -> opelt t mem p ld r c = mval x mem r c.
  Proof.
    unfold op_is. intros H mem r c Hr Hc.
    apply orb_prop in H. destruct H as [H|H]; [apply orb_prop in H; destruct H as [H|H]; apply Z.leb_le in H; lia|].
    apply andb_prop in H. destruct H as [H Ha]. apply andb_prop in H. destruct H as [Hcj Hp].
    apply eqb_prop in Hcj. apply Z.eqb_eq in Hp.
    pose proof (agree_spec _ _ _ _ _ _ Ha r c Hr Hc) as E.
    unfold BlasC13Ref.opelt, BlasC13Ref.mval, maddr. rewrite Hcj. f_equal. f_equal.
    destruct t; cbn [opaddr is_n] in *; lia.
  Qed.

  Lemma op_is_tr_spec t p ld x nr nc :
    op_is_tr t p ld x nr nc = true ->
    forall mem r c, 0 <= r < nr -> 0 <= c < nc -> opelt t mem p ld r c = mval x mem c r.
  Proof.
    unfold op_is_tr. intros H mem r c Hr Hc.
    apply orb_prop in H. destruct H as [H|H]; [apply orb_prop in H; destruct H as [H|H]; apply Z.leb_le in H; lia|].
    apply andb_prop in H. destruct H as [H Ha]. apply andb_prop in H. destruct H as [Hcj Hp].
    apply eqb_prop in Hcj. apply Z.eqb_eq in Hp.
    pose proof (agree_spec _ _ _ _ _ _ Ha r c Hr Hc) as E.
    unfold BlasC13Ref.opelt, BlasC13Ref.mval, maddr. rewrite Hcj. f_equal. f_equal.
    destruct t; cbn [opaddr is_n] in *; lia.
  Qed.

  (* the cell (i,j) of the column-major output *)
  Lemma gemm_ref_at alpha beta k mem i j :
    0 <= i < g_m k -> 0 <= j < g_n k -> g_m k <= g_ldc k ->
    gemm_ref alpha beta k mem (g_pc k + i + j * g_ldc k) = gemm_cell alpha beta k mem i j.
  Proof.
    intros Hi Hj Hld. unfold BlasC13Ref.gemm_ref. cbv zeta.
    replace (g_pc k + i + j * g_ldc k - g_pc k) with (i + j * g_ldc k) by lia.
    destruct (decode_cell (g_ldc k) i j) as [Ej Ei]; [lia|lia|]. rewrite Ej, Ei.
    assert (0 <= j * g_ldc k) by (apply Z.mul_nonneg_nonneg; lia).
    replace ((0 <=? i + j * g_ldc k) && (i <? g_m k) && (j <? g_n k)) with true by (symmetry; lia).
    reflexivity.
  Qed.

  Lemma gemm_ref_other alpha beta k mem p :
    1 <= g_ldc k ->
    (forall i j, 0 <= i < g_m k -> 0 <= j < g_n k -> p <> g_pc k + i + j * g_ldc k) ->
    gemm_ref alpha beta k mem p = mem p.
  Proof.
    intros Hld H. unfold BlasC13Ref.gemm_ref. cbv zeta.
    destruct ((0 <=? p - g_pc k) && ((p - g_pc k) mod g_ldc k <? g_m k) && ((p - g_pc k) / g_ldc k <? g_n k)) eqn:E; [|reflexivity].
    exfalso. apply andb_prop in E. destruct E as [E E3]. apply andb_prop in E. destruct E as [E1 E2].
    apply Z.leb_le in E1. apply Z.ltb_lt in E2. apply Z.ltb_lt in E3.
    pose proof (Z.mod_pos_bound (p - g_pc k) (g_ldc k) ltac:(lia)) as Hm.
    pose proof (Z.div_pos (p - g_pc k) (g_ldc k) E1 ltac:(lia)) as Hd.
    pose proof (Z.div_mod (p - g_pc k) (g_ldc k) ltac:(lia)) as Hdm.
    apply (H ((p - g_pc k) mod g_ldc k) ((p - g_pc k) / g_ldc k)); [lia|lia|].
    rewrite (Z.mul_comm (g_ldc k)) in Hdm. lia.
  Qed.

  (* xGEMV *)
  Lemma gemv_ref_at alpha beta k mem i :
    v_m k <> 0 -> v_n k <> 0 -> 0 < v_incy k -> 0 <= i < gemv_ylen k ->
    gemv_ref alpha beta k mem (v_py k + i * v_incy k) = gemv_cell alpha beta k mem i.
  Proof.
    intros Hm Hn Hinc Hi. unfold BlasC13Ref.gemv_ref. cbv zeta.
    replace ((v_m k =? 0) || (v_n k =? 0)) with false by (symmetry; lia).
    replace (v_py k + i * v_incy k - v_py k) with (i * v_incy k) by lia.
    rewrite Z.div_mul by lia. rewrite Z.mod_mul by lia.
    assert (0 <= i * v_incy k) by (apply Z.mul_nonneg_nonneg; lia).
    replace ((0 <=? i * v_incy k) && (0 =? 0) && (i <? gemv_ylen k)) with true by (symmetry; lia).
    reflexivity.
  Qed.

  Lemma gemv_ref_other alpha beta k mem p :
    0 < v_incy k ->
    (forall i, 0 <= i < gemv_ylen k -> p <> v_py k + i * v_incy k) ->
    gemv_ref alpha beta k mem p = mem p.
  Proof.
    intros Hinc H. unfold BlasC13Ref.gemv_ref. cbv zeta.
    destruct ((v_m k =? 0) || (v_n k =? 0)); [reflexivity|].
    destruct ((0 <=? p - v_py k) && ((p - v_py k) mod v_incy k =? 0) && ((p - v_py k) / v_incy k <? gemv_ylen k)) eqn:E; [|reflexivity].
    exfalso. apply andb_prop in E. destruct E as [E E3]. apply andb_prop in E. destruct E as [E1 E2].
    apply Z.leb_le in E1. apply Z.eqb_eq in E2. apply Z.ltb_lt in E3.
    pose proof (Z.div_pos (p - v_py k) (v_incy k) E1 ltac:(lia)) as Hd.
    pose proof (Z.div_mod (p - v_py k) (v_incy k) ltac:(lia)) as Hdm.
    apply (H ((p - v_py k) / v_incy k)); [lia|].
    rewrite (Z.mul_comm (v_incy k)) in Hdm. lia.
  Qed.
End Carrier.

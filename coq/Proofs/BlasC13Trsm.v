(* C13 -- trsm: the criterion trsm_implements_b is sound relative to the reference xTRSM relation, and every call site of
   trsm_dispatch satisfies it whenever its call is legal (the only defect of trsm on the current tree is the illegal leading
   dimension for degenerate shapes).  All sizes, strides, sides, triangles, diagonal kinds and conjugation flags. *)
From BM Require Import Base.Tactics Model.BlasC13 Model.BlasC13Ref Model.BlasC13Crit Model.BlasC13L3 Model.BlasC13TrsmRef
  Proofs.BlasC13RefProofs Proofs.BlasC13Tac.
Local Open Scope Z_scope.
Local Open Scope bool_scope.

Section Carrier.
  Variable R : Type.
  Variables rzero rone : R.
  Variables radd rmul : R -> R -> R.
  Variable cj : R -> R.
  Hypothesis rmul_comm : forall x y, rmul x y = rmul y x.
  Hypothesis cj_invol : forall x, cj (cj x) = x.
  Hypothesis cj_add : forall x y, cj (radd x y) = radd (cj x) (cj y).
  Hypothesis cj_mul : forall x y, cj (rmul x y) = rmul (cj x) (cj y).
  Hypothesis cj_zero : cj rzero = rzero.
  Hypothesis cj_one : cj rone = rone.

  Notation cjif := (cjif R cj).
  Notation zsum := (zsum R rzero radd).
  Notation mval := (mval R cj).
  Notation trsm_op := (trsm_op R rzero rone cj).
  Notation tri_view := (tri_view R rzero rone cj).

  Lemma cjif_invol b x : cjif b (cjif b x) = x.
  Proof. destruct b; cbn [BlasC13Ref.cjif]; [apply cj_invol|reflexivity]. Qed.
  Lemma cjif_mul b x y : cjif b (rmul x y) = rmul (cjif b x) (cjif b y).
  Proof. destruct b; cbn [BlasC13Ref.cjif]; [apply cj_mul|reflexivity]. Qed.
  Lemma cjif_zero b : cjif b rzero = rzero.
  Proof. destruct b; cbn [BlasC13Ref.cjif]; [apply cj_zero|reflexivity]. Qed.
  Lemma cjif_one b : cjif b rone = rone.
  Proof. destruct b; cbn [BlasC13Ref.cjif]; [apply cj_one|reflexivity]. Qed.
  Lemma cjif_rsum b n f : cjif b (rsum R rzero radd n f) = rsum R rzero radd n (fun l => cjif b (f l)).
  Proof.
    destruct b; cbn [BlasC13Ref.cjif]; [|reflexivity].
    induction n as [|n IH]; cbn [rsum]; [apply cj_zero|]. rewrite cj_add, IH. reflexivity.
  Qed.
  Lemma cjif_zsum b n f : cjif b (zsum n f) = zsum n (fun l => cjif b (f l)).
  Proof. unfold BlasC13Ref.zsum. apply cjif_rsum. Qed.

  (* the entries of the triangular operator, read through the cells of a *)
  Definition tri_raw (lower unit : bool) (a : mat) (mem : Z -> R) (r c : Z) : R :=
    if r =? c then (if unit then rone else mem (maddr a r c))
    else if (if lower then c <? r else r <? c) then mem (maddr a r c) else rzero.

  Lemma tri_view_raw lower unit a mem r c (tc jb : bool) :
    Bool.eqb tc (xorb (mconj a) jb) = true ->
    cjif tc (tri_raw lower unit a mem r c) = cjif jb (tri_view lower unit a mem r c).
  Proof.
    intros Hc. apply eqb_prop in Hc. subst tc.
    unfold tri_raw, BlasC13TrsmRef.tri_view, BlasC13Ref.mval.
    destruct (r =? c); [destruct unit|destruct (if lower then c <? r else r <? c)];
      rewrite ?cjif_one, ?cjif_zero; try reflexivity;
      destruct (mconj a), jb; cbn [xorb BlasC13Ref.cjif]; rewrite ?cj_invol; reflexivity.
  Qed.

  (* stored as a: A(r,c) is the cell of a(r,c), the BLAS triangle is the caller's *)
  Lemma tri_entry_as_a (k : trsm_call) (lower unit : bool) (a : mat) (mem : Z -> R) (M r c : Z) :
    t_pa k = mbase a -> agree M M 1 (t_lda k) (s0 a) (s1 a) = true ->
    (t_uplo k =? ch_U) = negb lower -> (t_diag k =? ch_U) = unit ->
    0 <= r < M -> 0 <= c < M ->
    tri_entry R rzero rone (t_uplo k =? ch_U) (t_diag k =? ch_U) (fun i j => mem (t_pa k + i + j * t_lda k)) r c
    = tri_raw lower unit a mem r c.
  Proof.
    intros Hp Ha Hu Hd Hr Hc. unfold tri_entry, tri_raw. rewrite Hu, Hd.
    pose proof (agree_spec _ _ _ _ _ _ Ha r c Hr Hc) as E.
    replace (t_pa k + r + c * t_lda k) with (maddr a r c) by (unfold maddr; lia).
    destruct lower; reflexivity.
  Qed.

  (* stored transposed: A(c,r) is the cell of a(r,c), the BLAS triangle is the opposite one *)
  Lemma tri_entry_transposed (k : trsm_call) (lower unit : bool) (a : mat) (mem : Z -> R) (M r c : Z) :
    t_pa k = mbase a -> agree M M (t_lda k) 1 (s0 a) (s1 a) = true ->
    (t_uplo k =? ch_U) = lower -> (t_diag k =? ch_U) = unit ->
    0 <= r < M -> 0 <= c < M ->
    tri_entry R rzero rone (t_uplo k =? ch_U) (t_diag k =? ch_U) (fun i j => mem (t_pa k + i + j * t_lda k)) c r
    = tri_raw lower unit a mem r c.
  Proof.
    intros Hp Ha Hu Hd Hr Hc. unfold tri_entry, tri_raw. rewrite Hu, Hd.
    pose proof (agree_spec _ _ _ _ _ _ Ha r c Hr Hc) as E.
    replace (t_pa k + c + r * t_lda k) with (maddr a r c) by (unfold maddr; lia).
    rewrite (Z.eqb_sym c r). destruct lower; reflexivity.
  Qed.

  (* element of op(tri(A)) = conj-if-b-is-conjugated of the element of the caller's triangular matrix *)
  Lemma trsm_op_entry (direct lower unit : bool) (k : trsm_call) (a : mat) (jb : bool) (mem : Z -> R) (M r c : Z) :
    Bool.eqb (opconj (trsm_trans k)) (xorb (mconj a) jb) = true ->
    Bool.eqb (t_diag k =? ch_U) unit = true ->
    t_pa k = mbase a ->
    (if Bool.eqb direct (is_n (trsm_trans k)) then agree M M 1 (t_lda k) (s0 a) (s1 a) else agree M M (t_lda k) 1 (s0 a) (s1 a)) = true ->
    Bool.eqb (t_uplo k =? ch_U) (if Bool.eqb direct (is_n (trsm_trans k)) then negb lower else lower) = true ->
    0 <= r < M -> 0 <= c < M ->
    (if direct then trsm_op k mem r c else trsm_op k mem c r) = cjif jb (tri_view lower unit a mem r c).
  Proof.
    intros Hcj Hd Hp Ha Hu Hr Hc. apply eqb_prop in Hd. apply eqb_prop in Hu.
    rewrite <- (tri_view_raw lower unit a mem r c (opconj (trsm_trans k)) jb Hcj).
    unfold BlasC13TrsmRef.trsm_op. cbv zeta.
    destruct (trsm_trans k), direct; cbn [is_n Bool.eqb opconj BlasC13Ref.cjif] in *;
      first [ rewrite (tri_entry_as_a k lower unit a mem M r c Hp Ha Hu Hd Hr Hc); reflexivity
            | rewrite (tri_entry_transposed k lower unit a mem M r c Hp Ha Hu Hd Hr Hc); reflexivity ].
  Qed.

  Theorem trsm_criterion_sound (left lower unit : bool) (alpha : R) (a b : mat) (k : trsm_call) (mem mem' : Z -> R) :
    trsm_implements_b left lower unit k a b = true ->
    trsm_post R rzero rone radd rmul cj (if t_conj_alpha k then cj alpha else alpha) k mem mem' ->
       trsm_legal k = true
    /\ trsm_math R rzero rone radd rmul cj left lower unit alpha a b mem mem'
    /\ (forall p, ~ in_mat b p -> mem' p = mem p).
  Proof.
    intros H (Hframe & Heq). unfold trsm_implements_b in H. cbv zeta in H.
    remember (trsm_legal k) as L eqn:EL.
    apply andb_prop in H. destruct H as [H Hcells]. apply andb_prop in H. destruct H as [H Hmn].
    apply andb_prop in H. destruct H as [H Hcj]. apply andb_prop in H. destruct H as [H Hal].
    apply andb_prop in H. destruct H as [Hlegal Hdiag]. subst L.
    split; [assumption|].
    apply eqb_prop in Hal.
    set (jb := mconj b) in *.
    assert (Halpha : cjif jb (if t_conj_alpha k then cj alpha else alpha) = alpha).
    { rewrite Hal. destruct jb; cbn [BlasC13Ref.cjif]; [apply cj_invol|reflexivity]. }
    set (direct := Bool.eqb (t_side k =? ch_L) left) in *.
    (* what the cell conditions give once b is not empty *)
    assert (Hne : 0 < rows b -> 0 < cols b ->
              t_pb k = mbase b
              /\ (if direct then agree (rows b) (cols b) 1 (t_ldb k) (s0 b) (s1 b) else agree (rows b) (cols b) (t_ldb k) 1 (s0 b) (s1 b)) = true
              /\ t_pa k = mbase a
              /\ (if Bool.eqb direct (is_n (trsm_trans k))
                  then agree (if left then rows b else cols b) (if left then rows b else cols b) 1 (t_lda k) (s0 a) (s1 a)
                  else agree (if left then rows b else cols b) (if left then rows b else cols b) (t_lda k) 1 (s0 a) (s1 a)) = true
              /\ Bool.eqb (t_uplo k =? ch_U) (if Bool.eqb direct (is_n (trsm_trans k)) then negb lower else lower) = true).
    { intros Hr Hc. apply orb_prop in Hcells. destruct Hcells as [Hx|Hx]; [apply orb_prop in Hx; destruct Hx as [Hx|Hx]; apply Z.leb_le in Hx; lia|].
      apply andb_prop in Hx. destruct Hx as [Hx H5]. apply andb_prop in Hx. destruct Hx as [Hx H4].
      apply andb_prop in Hx. destruct Hx as [Hx H3]. apply andb_prop in Hx. destruct Hx as [H1 H2].
      apply Z.eqb_eq in H1. apply Z.eqb_eq in H3. repeat split; assumption. }
    (* the address of a cell of b in the column-major B of the call *)
    assert (Haddr : forall i j, 0 <= i < rows b -> 0 <= j < cols b ->
              maddr b i j = (if direct then t_pb k + i + j * t_ldb k else t_pb k + j + i * t_ldb k)).
    { intros i j Hi Hj. destruct (Hne ltac:(lia) ltac:(lia)) as (Hpb & Hab & _).
      destruct direct; pose proof (agree_spec _ _ _ _ _ _ Hab i j Hi Hj); unfold maddr; lia. }
    assert (Hmn' : if direct then t_m k = rows b /\ t_n k = cols b else t_m k = cols b /\ t_n k = rows b).
    { destruct direct; apply andb_prop in Hmn; destruct Hmn as [A B]; apply Z.eqb_eq in A; apply Z.eqb_eq in B; split; assumption. }
    assert (Hside : (t_side k =? ch_L) = (if direct then left else negb left)).
    { unfold direct. destruct (t_side k =? ch_L), left; reflexivity. }
    split.
    - (* the equation on the logical contents *)
      unfold trsm_math. rewrite Hside in Heq.
      assert (Hb : forall m i j, 0 <= i < rows b -> 0 <= j < cols b ->
                  BlasC13Ref.mval R cj b m i j = cjif jb (if direct then trsm_b R k m i j else trsm_b R k m j i)).
      { intros m i j Hi Hj. unfold BlasC13Ref.mval, trsm_b. fold jb. rewrite (Haddr i j Hi Hj). destruct direct; reflexivity. }
      destruct left.
      + (* tri(a).X = alpha.b *)
        intros i j Hi Hj. destruct (Hne ltac:(lia) ltac:(lia)) as (_ & _ & Hpa & Haa & Hup).
        rewrite (Hb mem i j Hi Hj).
        destruct direct; cbn [negb] in Heq; destruct Hmn' as [Em En].
        * specialize (Heq i j ltac:(lia) ltac:(lia)). apply (f_equal (cjif jb)) in Heq.
          rewrite cjif_mul, Halpha, cjif_zsum in Heq. rewrite <- Heq. rewrite Em.
          apply (zsum_ext R rzero radd rmul cj). intros l Hl.
          rewrite cjif_mul, (Hb mem' l j ltac:(lia) Hj).
          rewrite (trsm_op_entry true lower unit k a jb mem (rows b) i l Hcj Hdiag Hpa Haa Hup Hi ltac:(lia)).
          rewrite cjif_invol. reflexivity.
        * specialize (Heq j i ltac:(lia) ltac:(lia)). apply (f_equal (cjif jb)) in Heq.
          rewrite cjif_mul, Halpha, cjif_zsum in Heq. rewrite <- Heq. rewrite En.
          apply (zsum_ext R rzero radd rmul cj). intros l Hl.
          rewrite cjif_mul, (Hb mem' l j ltac:(lia) Hj).
          pose proof (trsm_op_entry false lower unit k a jb mem (rows b) i l Hcj Hdiag Hpa Haa Hup Hi ltac:(lia)) as E.
          cbv iota in E. rewrite E, cjif_invol. apply rmul_comm.
      + (* X.tri(a) = alpha.b *)
        intros i j Hi Hj. destruct (Hne ltac:(lia) ltac:(lia)) as (_ & _ & Hpa & Haa & Hup).
        rewrite (Hb mem i j Hi Hj).
        destruct direct; cbn [negb] in Heq; destruct Hmn' as [Em En].
        * specialize (Heq i j ltac:(lia) ltac:(lia)). apply (f_equal (cjif jb)) in Heq.
          rewrite cjif_mul, Halpha, cjif_zsum in Heq. rewrite <- Heq. rewrite En.
          apply (zsum_ext R rzero radd rmul cj). intros l Hl.
          rewrite cjif_mul, (Hb mem' i l Hi ltac:(lia)).
          rewrite (trsm_op_entry true lower unit k a jb mem (cols b) l j Hcj Hdiag Hpa Haa Hup ltac:(lia) Hj).
          rewrite cjif_invol. reflexivity.
        * specialize (Heq j i ltac:(lia) ltac:(lia)). apply (f_equal (cjif jb)) in Heq.
          rewrite cjif_mul, Halpha, cjif_zsum in Heq. rewrite <- Heq. rewrite Em.
          apply (zsum_ext R rzero radd rmul cj). intros l Hl.
          rewrite cjif_mul, (Hb mem' i l Hi ltac:(lia)).
          pose proof (trsm_op_entry false lower unit k a jb mem (cols b) l j Hcj Hdiag Hpa Haa Hup ltac:(lia) Hj) as E.
          cbv iota in E. rewrite E, cjif_invol. apply rmul_comm.
    - (* frame *)
      intros p Hp. apply Hframe. intros i j Hi Hj E. apply Hp.
      destruct direct; destruct Hmn' as [Em En].
      + exists i, j. split; [lia|]. split; [lia|]. rewrite (Haddr i j ltac:(lia) ltac:(lia)). exact E.
      + exists j, i. split; [lia|]. split; [lia|]. rewrite (Haddr j i ltac:(lia) ltac:(lia)). exact E.
  Qed.
End Carrier.

(* every call site of trsm_dispatch (trsm.hpp:92-107) passes the criterion as soon as its call is legal for BLAS: the sides,
   triangles, transposition flags, diagonal kinds, sizes and the conjugation of alpha are right at all nine sites; the only
   defect is that lda / ldb are taken from strides that are too small for operands with at most one row/column or size 0 *)
Theorem trsm_site_conditions (left lower unit : bool) (a b : mat) (k : trsm_call) :
  wf_mat a -> wf_mat b ->
  rows a = (if left then rows b else cols b) -> cols a = rows a ->
  trsm_dispatch left lower unit a b = L3Call k ->
  trsm_site_cond k = true ->
  trsm_implements_b left lower unit k a b = true.
Proof.
  unfold wf_mat, trsm_site_cond. intros Wa Wb Sa Sq D C.
  destruct a as [pa a0 a1 ra ca ja], b as [pb b0 b1 rb cb jb].
  cbn [mconj rows cols s0 s1 mbase] in *.
  unfold trsm_dispatch in D. cbn [mconj rows cols s0 s1 mbase] in D.
  destruct ja, jb;
    repeat match type of D with
           | (if ?x then _ else _) = _ => let E := fresh "E" in destruct x eqn:E
           end; try discriminate D; injection D as D; subst k;
    destruct left, lower, unit;
    unfold trsm_legal in C; cbn [t_side t_m t_n t_lda t_ldb] in C;
    unfold trsm_implements_b, trsm_legal, trsm_trans, agree, ch_U, ch_L, ch_R, ch_N, ch_T, ch_C in *;
    cbn [t_site t_side t_uplo t_trans t_diag t_m t_n t_pa t_lda t_pb t_ldb t_conj_alpha mconj rows cols s0 s1 mbase] in *;
    repeat (change (76 =? 76) with true in *; change (82 =? 76) with false in *; change (85 =? 85) with true in *;
            change (76 =? 85) with false in *; change (78 =? 85) with false in *;
            change (78 =? 78) with true in *; change (84 =? 78) with false in *; change (67 =? 78) with false in *;
            change (84 =? 67) with false in *; change (67 =? 67) with true in *);
    cbn [is_n opconj Bool.eqb negb xorb] in *;
    repeat match goal with H : _ = true |- _ => c13_hprop H | H : _ = false |- _ => c13_hprop H end;
    solve [c13_bgoal].
Qed.

Section Partial.
  Variable R : Type.
  Variables rzero rone : R.
  Variables radd rmul : R -> R -> R.
  Variable cj : R -> R.
  Hypothesis rmul_comm : forall x y, rmul x y = rmul y x.
  Hypothesis cj_invol : forall x, cj (cj x) = x.
  Hypothesis cj_add : forall x y, cj (radd x y) = radd (cj x) (cj y).
  Hypothesis cj_mul : forall x y, cj (rmul x y) = rmul (cj x) (cj y).
  Hypothesis cj_zero : cj rzero = rzero.
  Hypothesis cj_one : cj rone = rone.

  Lemma trsm_partial (left lower unit : bool) (alpha : R) (a b : mat) (k : trsm_call) (mem mem' : Z -> R) :
    wf_mat a -> wf_mat b ->
    rows a = (if left then rows b else cols b) -> cols a = rows a ->
    trsm_dispatch left lower unit a b = L3Call k ->
    trsm_site_cond k = true ->
    trsm_post R rzero rone radd rmul cj (if t_conj_alpha k then cj alpha else alpha) k mem mem' ->
       trsm_math R rzero rone radd rmul cj left lower unit alpha a b mem mem'
    /\ (forall p, ~ in_mat b p -> mem' p = mem p).
  Proof.
    intros Wa Wb Sa Sq D C P.
    destruct (trsm_criterion_sound R rzero rone radd rmul cj rmul_comm cj_invol cj_add cj_mul cj_zero cj_one
                left lower unit alpha a b k mem mem' (trsm_site_conditions left lower unit a b k Wa Wb Sa Sq D C) P) as (_ & M & F).
    split; assumption.
  Qed.
End Partial.

(* the condition is needed: X.a = b with a contiguous 3 x 1 b (both strides 1) and a 1 x 1 a reaches trsm.hpp:92 with
   ldb = stride(~b) = 1 < 3 *)
Definition trsm_always_legal : Prop :=
  forall (left lower unit : bool) (a b : mat) (k : trsm_call),
    wf_mat a -> wf_mat b -> rows a = (if left then rows b else cols b) -> cols a = rows a ->
    trsm_dispatch left lower unit a b = L3Call k -> trsm_legal k = true.

Theorem trsm_always_legal_refuted : ~ trsm_always_legal.
Proof.
  intro H.
  specialize (H false true false (mk_mat 1000000 1 1 1 1 false) (mk_mat 2000000 1 1 3 1 false)
                (mk_trsm_call 801 ch_R ch_L ch_N ch_N 3 1 1000000 1 2000000 1 false)).
  assert (E : trsm_legal (mk_trsm_call 801 ch_R ch_L ch_N ch_N 3 1 1000000 1 2000000 1 false) = true).
  { apply H; try reflexivity; apply wf_matb_spec; reflexivity. }
  vm_compute in E. discriminate E.
Qed.
